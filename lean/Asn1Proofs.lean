import Asn1Proofs.Properties.C01
import Asn1Proofs.Properties.C11
import Asn1Proofs.Properties.C12
import Asn1Proofs.Properties.C14
import Asn1Proofs.Properties.C14b
import Asn1Proofs.Properties.C15
import Asn1Proofs.Properties.C16
