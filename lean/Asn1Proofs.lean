import Asn1Proofs.Properties.C14
