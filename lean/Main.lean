import Asn1Model.Proto
open Asn1 Asn1.Proto

def dispatch (op : String) (args : List Sx) : String :=
  match op with
  | "strip" => opStrip args
  | "enc" => opEnc args
  | "dec" => opDec args
  | "spec" => opSpec args
  | "prep" => opPrep args
  | "prepseq" => opPrepSeq args
  | "xenc" => opXenc args
  | "xdec" => opXdec args
  | "xparse" => opXparse args
  | "cops" => opCops args
  | "jenc" => opJEnc args
  | "jdec" => opJDec args
  | "jparse" => opJParse args
  | "gser" => opGser args
  | "gserread" => opGserRead args
  | "gserrt" => opGserRt args
  | "project" => opProject args
  | "c07" => opC07 args
  | "rtder" => opRtDer args
  | "refdec" => opRefDec args
  | "refdecs" => opRefDecStrict args
  | "decwl" => opDecWl args
  | "rt" => opRt args
  | "probe" => opProbe args
  | "check" => opCheck args
  | "tcheck" => opTcheck args
  | "cachekey" => opCacheKey args
  | "ping" => "pong"
  | _ => "bad-op"

def handle (line : String) : String :=
  match (line.splitOn "\t") with
  | [] => "bad-op"
  | op :: rest =>
    match rest.mapM (fun a => Sx.parse a) with
    | none => "bad-sexp"
    | some args => dispatch op args

partial def loop (h : IO.FS.Stream) (out : IO.FS.Stream) : IO Unit := do
  let line ← h.getLine
  if line.isEmpty then return ()
  let line := if line.back == '\n' then (line.dropEnd 1).toString else line
  out.putStrLn (handle line)
  loop h out

def main : IO Unit := do
  let out ← IO.getStdout
  loop (← IO.getStdin) out
  out.flush
