/-
  C14: model of `asn1tools.parser.ignore_comments` (parser.py).

  The Python code tokenises the whole text with the regex `(/\*|\*/|--|\n|")`
  (leftmost, non-overlapping, independent of comment state) and then runs a
  four-state machine over the events, assembling the output from chunks of the
  original text and runs of blanks.  The model below is the same machine run
  directly on the character list: each step consumes either one of the five
  event tokens or one ordinary character.
-/
namespace Asn1.Comments

inductive St where
  | normal
  | str                 -- inside a "character string literal"
  | single              -- inside `-- ...`
  | multi (depth : Nat) -- inside `/* ... */`, `depth + 1` comments are open
  deriving Repr, DecidableEq

inductive Err where
  | missingNewline (start : Nat)   -- 'Missing newline or -- for single line comment'
  | missingClose (start : Nat)     -- 'Missing */ for multi line comment'
  deriving Repr, DecidableEq

/-- `go st rem s` : `rem` is the number of characters that were still unread when the
current comment began (so its start offset is `total length - rem`). -/
def go : St → Nat → List Char → Except Err (List Char)
  | .normal, _, [] => .ok []
  | .str, _, [] => .ok []
  | .single, start, [] => .error (.missingNewline start)
  | .multi _, start, [] => .error (.missingClose start)
  -- event `/*`
  | st, start, '/' :: '*' :: r =>
    match st with
    | .normal  => (fun o => ' ' :: ' ' :: o) <$> go (.multi 0) (r.length + 2) r
    | .str     => (fun o => '/' :: '*' :: o) <$> go .str start r
    | .single  => (fun o => ' ' :: ' ' :: o) <$> go .single start r
    | .multi d => (fun o => ' ' :: ' ' :: o) <$> go (.multi (d + 1)) start r
  -- event `*/`
  | st, start, '*' :: '/' :: r =>
    match st with
    | .normal      => (fun o => '*' :: '/' :: o) <$> go .normal start r
    | .str         => (fun o => '*' :: '/' :: o) <$> go .str start r
    | .single      => (fun o => ' ' :: ' ' :: o) <$> go .single start r
    | .multi 0     => (fun o => ' ' :: ' ' :: o) <$> go .normal start r
    | .multi (d+1) => (fun o => ' ' :: ' ' :: o) <$> go (.multi d) start r
  -- event `--`
  | st, start, '-' :: '-' :: r =>
    match st with
    | .normal  => (fun o => ' ' :: ' ' :: o) <$> go .single (r.length + 2) r
    | .str     => (fun o => '-' :: '-' :: o) <$> go .str start r
    | .single  => (fun o => ' ' :: ' ' :: o) <$> go .normal start r
    | .multi d => (fun o => ' ' :: ' ' :: o) <$> go (.multi d) start r
  -- event newline (kept in every state, so line numbers never change)
  | st, start, '\n' :: r =>
    match st with
    | .normal  => (fun o => '\n' :: o) <$> go .normal start r
    | .str     => (fun o => '\n' :: o) <$> go .str start r
    | .single  => (fun o => '\n' :: o) <$> go .normal start r
    | .multi d => (fun o => '\n' :: o) <$> go (.multi d) start r
  -- event `"`
  | st, start, '"' :: r =>
    match st with
    | .normal  => (fun o => '"' :: o) <$> go .str start r
    | .str     => (fun o => '"' :: o) <$> go .normal start r
    | .single  => (fun o => ' ' :: o) <$> go .single start r
    | .multi d => (fun o => ' ' :: o) <$> go (.multi d) start r
  -- ordinary character
  | st, start, c :: r =>
    match st with
    | .normal  => (fun o => c :: o) <$> go .normal start r
    | .str     => (fun o => c :: o) <$> go .str start r
    | .single  => (fun o => ' ' :: o) <$> go .single start r
    | .multi d => (fun o => ' ' :: o) <$> go (.multi d) start r

/-- `ignore_comments` -/
def strip (s : List Char) : Except Err (List Char) :=
  match go .normal 0 s with
  | .ok o => .ok o
  | .error (.missingNewline rem) => .error (.missingNewline (s.length - rem))
  | .error (.missingClose rem) => .error (.missingClose (s.length - rem))

end Asn1.Comments
