import Asn1Model.Schema
import Asn1Model.Extracted
import Asn1Model.Uper
/-
  M-level model of asn1tools' *aligned* PER codec (codecs/per.py), over the `Ty`/`Val` universe of
  Schema.lean.  Same structure as Uper.lean; the difference is alignment:

  * the encoder functions take the number of bits already written to the *current* `per.Encoder`
    (`pos`) and return the bits they append; a fresh encoder (`pos = 0`) is used for every extension
    addition / open type (`MembersType.encode_additions`, `Choice.encode_additions`);
  * the decoder threads a state `St` = (bits consumed since the start of the message, remaining bits).
    `Decoder.align_always` drops `number_of_bits & 7` of the REMAINING bits; the message is a whole
    number of octets, so that is `(8 - pos % 8) % 8`.

  Deviations of the code from X.691 are reproduced, not repaired.  `encode` includes the type
  checker pass of `Specification.encode` (see `typeCheck`).  The model follows /repo at commit
  d1be151 (an unknown ENUMERATED name is an `EncodeError`; before that commit it was a `KeyError`).

  `.unmodelled` is returned for
  * a value outside a NON-extensible constraint where the code writes it into a fixed-width field
    without any check: INTEGER outside `lo..hi`, and a length outside a bounded `SIZE(lo..hi)`
    (`hi < 65536`) of OCTET STRING / BIT STRING / known-multiplier strings / SEQUENCE OF.  The code
    or-s the too large (or negative) number over the bits written before;
  * a value whose constructor does not fit the type but which the Python type checker lets through
    (the Python types are coarser than `Val`);
  * exhausted fuel / preamble flags (unreachable from `decode`).
-/
namespace Asn1.Per
open Asn1.Uper (Err EncM DecM lenDet encChunked encUnconstrained encNsnnwn encNsLength padToByte
  sizeBits inSize alphabetOf charDecode utf8Enc utf8Dec sortByVal nameIndex takeBits)

/-! ### alignment -/

/-- number of zero bits `Encoder.align_always` appends when `pos` bits have been written -/
def padLen (pos : Nat) : Nat := (8 - pos % 8) % 8

def alignBits (pos : Nat) : Bits := List.replicate (padLen pos) false

/-! ### encoder primitives -/

/-- `append_constrained_whole_number(value, minimum, maximum, number_of_bits)`:
`v = value - minimum`, `range = maximum - minimum + 1` -/
def encCwn (pos v range nbits : Nat) : Bits :=
  if range ≤ 255 then natToBits nbits v
  else if range = 256 then alignBits pos ++ natToBits 8 v
  else if range ≤ 65536 then alignBits pos ++ natToBits 16 v
  else alignBits pos ++ natToBits nbits v

/-- `size_as_number_of_bytes` -/
def sizeAsBytes (n : Nat) : Nat := if n = 0 then 1 else (bitLength n + 7) / 8

/-- `number_of_indefinite_bits` of a range whose `number_of_bits` is `nb` -/
def indefBits (nb : Nat) : Nat := bitLength ((nb + 7) / 8 - 1)

/-- `Integer.encode` below the extension bit for `lo ≤ i ≤ hi` (also `Choice.encode_root_index`
with `lo = 0`): ranges up to 65536 values through `encCwn`, larger ones in the "indefinite length
case": a length field of `indefBits` bits, padding, then the value in a whole number of octets. -/
def encConstrainedInt (pos : Nat) (lo hi i : Int) : Bits :=
  let size := (hi - lo).toNat
  let nb := bitLength size
  let v := (i - lo).toNat
  if size ≤ 65535 then encCwn pos v (size + 1) nb
  else
    let ib := indefBits nb
    let nbytes := sizeAsBytes v
    let a := encCwn pos (nbytes - 1) (2 ^ ib + 1) ib
    let al := alignBits (pos + a.length)
    let p2 := pos + a.length + al.length
    a ++ al ++ encCwn p2 v (size + 1) (8 * nbytes)

/-- length field and padding written in front of the contents of a type whose size constraint is
bounded (`number_of_bits = w`); `alignVar` / `alignFixed` say whether the code aligns after a
length field / in front of fixed-size contents. -/
def sizePrefix (c : SizeC) (w pos n : Nat) (alignVar alignFixed : Bool) : Bits :=
  if some c.lo ≠ c.hi then
    let l := encCwn pos (n - c.lo) (c.hi.getD 0 - c.lo + 1) w
    l ++ (if alignVar then alignBits (pos + l.length) else [])
  else if alignFixed then alignBits pos else []

/-- the Python test `minimum <= n <= maximum` on an extensible size constraint: with `MAX` as upper
bound the second comparison (`int <= str`) raises `TypeError`, unless the first one already failed. -/
inductive RangeRes where
  | inside | outside | typeError

def extRange (c : SizeC) (n : Nat) : RangeRes :=
  match c.hi with
  | some hi => if c.lo ≤ n ∧ n ≤ hi then .inside else .outside
  | none => if c.lo ≤ n then .typeError else .outside

/-- `integer_as_number_of_bits_power_of_two` -/
def bitsPow2 (n : Nat) : Nat := if n = 0 then 0 else 2 ^ bitLength (bitLength n - 1)

def bitsPerChar (k : StrKind) : Nat := bitsPow2 ((alphabetOf k).length - 1)

/-- `permitted_alphabet.encode(to_int(ch.encode('ascii')))`: a non-ASCII character is a
`UnicodeEncodeError`, an ASCII character outside the alphabet an `EncodeError` -/
def charCode (k : StrKind) (cp : Nat) : EncM Nat :=
  if cp ≥ 128 then .error .foreign else Uper.charCode k cp

/-- `str.encode('utf-8')` of a whole string (surrogates are a `UnicodeEncodeError`) -/
def utf8Bytes (cps : List Nat) : EncM Bytes :=
  if cps.any (fun cp => 0xd800 ≤ cp && cp < 0xe000) then .error .foreign
  else .ok (cps.flatMap utf8Enc)

/-- encode the elements one after the other, threading the position -/
def encSeqM {α : Type} (f : Nat → α → EncM Bits) : Nat → List α → EncM Bits
  | _, [] => .ok []
  | pos, v :: r =>
    match f pos v with
    | .error e => .error e
    | .ok a =>
      match encSeqM f (pos + a.length) r with
      | .error e => .error e
      | .ok b => .ok (a ++ b)

/-- `append_length_determinant_chunks` driving a position dependent element encoder -/
def encChunksM {α : Type} (f : Nat → α → EncM Bits) : (fuel : Nat) → Nat → List α → EncM Bits
  | 0, _, _ => .ok []
  | fuel + 1, pos, items =>
    let (hdr, k) := lenDet items.length
    match encSeqM f (pos + hdr.length) (items.take k) with
    | .error e => .error e
    | .ok body =>
      if k < 16384 then .ok (hdr ++ body)
      else
        match encChunksM f fuel (pos + hdr.length + body.length) (items.drop k) with
        | .error e => .error e
        | .ok rest => .ok (hdr ++ body ++ rest)

/-- an encoded extension addition as an open type: padded to whole octets behind an (unfragmented)
length determinant -/
def openType (e : Bits) : Bits := let p := padToByte e; (lenDet (p.length / 8)).1 ++ p

def nameIdx (name : String) : List String → Option Nat
  | [] => none
  | n :: r => if n == name then some 0 else (nameIdx name r).map (· + 1)

/-- preamble: one bit per OPTIONAL / DEFAULT root member -/
def encPreamble : Members → List (String × Val) → Bits
  | .nil, _ => []
  | .cons name p t rest, fs =>
    let r := encPreamble rest fs
    match p with
    | .mandatory => r
    | .optional => (lookup name fs).isSome :: r
    | .default d =>
      match lookup name fs with
      | some v => (!(isDefault t v d)) :: r
      | none => false :: r

def optionalCount : Members → Nat
  | .nil => 0
  | .cons _ p _ rest =>
    match p with
    | .mandatory => optionalCount rest
    | _ => optionalCount rest + 1

/-! ### the encoder -/

mutual
  /-- `enc t pos v`: the bits `t.encode(v, encoder)` appends to an encoder holding `pos` bits -/
  def enc : Ty → Nat → Val → EncM Bits
    | .boolean, _, .bool b => .ok [b]
    | .boolean, _, _ => .error .unmodelled
    | .null, _, _ => .ok []
    | .integer c, pos, .int i =>
      match c.lo, c.hi with
      | some lo, some hi =>
        if c.ext then
          if lo ≤ i ∧ i ≤ hi then .ok ([false] ++ encConstrainedInt (pos + 1) lo hi i)
          else .ok ([true] ++ alignBits (pos + 1) ++ encUnconstrained i)
        else if lo ≤ i ∧ i ≤ hi then .ok (encConstrainedInt pos lo hi i)
        else .error .unmodelled   -- no check in the code: the value is or-ed over earlier bits
      | _, _ =>
        if c.ext then .error .foreign   -- `None <= data` : TypeError
        else .ok (alignBits pos ++ encUnconstrained i)
    | .integer _, _, _ => .error .unmodelled
    | .enumerated root ext, _, .enum name =>
      let sroot := sortByVal root
      match ext with
      | none =>
        match nameIndex name sroot with
        | some i => .ok (natToBits (bitLength (sroot.length - 1)) i)
        | none => .error .encodeError   -- checked at the top of `Enumerated.encode`
      | some adds =>
        match nameIndex name sroot with
        | some i => .ok ([false] ++ natToBits (bitLength (sroot.length - 1)) i)
        | none =>
          match nameIndex name adds with
          | some i => .ok ([true] ++ encNsnnwn i)
          | none => .error .encodeError
    | .enumerated _ _, _, _ => .error .unmodelled
    | .octetString c, pos, .bytes data =>
      let n := data.length
      let body := bytesToBits data
      let root (pre : Bits) : EncM Bits :=
        let p := pos + pre.length
        match sizeBits c with
        | none => .ok (pre ++ alignBits p ++ encChunked (data.map (natToBits 8)))
        | some w =>
          if ¬ inSize c n then .error .unmodelled
          else .ok (pre ++ sizePrefix c w p n true (decide (c.lo > 2)) ++ body)
      if c.ext then
        match extRange c n with
        | .typeError => .error .foreign
        | .outside => .ok ([true] ++ alignBits (pos + 1) ++ (lenDet n).1 ++ body)
        | .inside => root [false]
      else root []
    | .octetString _, _, _ => .error .unmodelled
    | .bitString c, pos, .bits data n =>
      let root (pre : Bits) : EncM Bits :=
        let p := pos + pre.length
        match takeBits data n with
        | .error e => .error e
        | .ok body =>
          match sizeBits c with
          | none => .ok (pre ++ alignBits p ++ encChunked (body.map (fun b => [b])))
          | some w =>
            if ¬ inSize c n then .error .unmodelled
            else .ok (pre ++ sizePrefix c w p n true (decide (c.lo > 16)) ++ body)
      if c.ext then
        match extRange c n with
        | .typeError => .error .foreign
        | .outside => .error .notImplemented
        | .inside => root [false]
      else root []
    | .bitString _, _, _ => .error .unmodelled
    | .charString .utf8 _, pos, .str cps =>
      match utf8Bytes cps with
      | .error e => .error e
      | .ok bytes => .ok (alignBits pos ++ encChunked (bytes.map (natToBits 8)))
    | .charString k c, pos, .str cps =>
      let n := cps.length
      let bpc := bitsPerChar k
      let root (pre : Bits) : EncM Bits :=
        let p := pos + pre.length
        match cps.mapM (charCode k) with
        | .error e => .error e
        | .ok codes =>
          let items := codes.map (natToBits bpc)
          match sizeBits c with
          | none => .ok (pre ++ alignBits p ++ encChunked items)
          | some w =>
            if ¬ inSize c n then .error .unmodelled
            else
              let hi := c.hi.getD 0
              .ok (pre ++ sizePrefix c w p n (decide (hi > 1 ∧ n > 0)) (decide (hi * bpc > 16))
                     ++ items.flatten)
      if c.ext then
        match extRange c n with
        | .typeError => .error .foreign
        | .outside => .error .notImplemented
        | .inside => root [false]
      else root []
    | .charString _ _, _, _ => .error .unmodelled
    | .sequence root extensible adds, pos, .record fs =>
      let x : Nat := if extensible then 1 else 0
      let pre := encPreamble root fs
      match encMembers root fs false (pos + x + pre.length) with
      | .error e => .error e
      | .ok body =>
        if extensible then
          match adds with
          | .nil => .ok ([false] ++ pre ++ body)
          | _ =>
            match encAdditions adds fs with
            | .error e => .error e
            | .ok (present, encs) =>
              if encs.isEmpty then .ok ([false] ++ pre ++ body)
              else
                match encNsLength adds.length with
                | .error e => .error e
                | .ok nl =>
                  let bitmap := present ++ List.replicate (adds.length - present.length) false
                  let p := pos + 1 + pre.length + body.length + nl.length + bitmap.length
                  .ok ([true] ++ pre ++ body ++ nl ++ bitmap ++ alignBits p ++ encs.flatMap openType)
        else .ok (pre ++ body)
    | .sequence _ _ _, _, _ => .error .unmodelled
    | .sequenceOf e c, pos, .list vs =>
      let n := vs.length
      let root (pre : Bits) : EncM Bits :=
        let p := pos + pre.length
        match sizeBits c with
        | none =>
          let al := alignBits p
          match encChunksM (enc e) (n / 16384 + 2) (p + al.length) vs with
          | .error err => .error err
          | .ok b => .ok (pre ++ al ++ b)
        | some w =>
          if ¬ inSize c n then .error .unmodelled
          else
            let l := sizePrefix c w p n false false
            match encSeqM (enc e) (p + l.length) vs with
            | .error err => .error err
            | .ok b => .ok (pre ++ l ++ b)
      if c.ext then
        match extRange c n with
        | .typeError => .error .foreign
        | .outside =>
          let hdr := [true] ++ alignBits (pos + 1) ++ (lenDet n).1
          match encSeqM (enc e) (pos + hdr.length) vs with
          | .error err => .error err
          | .ok b => .ok (hdr ++ b)
        | .inside => root [false]
      else root []
    | .sequenceOf _ _, _, _ => .error .unmodelled
    | .choice root extensible adds, pos, .choice name v =>
      let pre : Bits := if extensible then [false] else []
      match nameIdx name root.names with
      | some idx =>
        let ix : Bits :=
          if root.length > 1 then encConstrainedInt (pos + pre.length) 0 ((root.length : Int) - 1) idx
          else []
        match encAlt root name (pos + pre.length + ix.length) v with
        | some (.ok body) => .ok (pre ++ ix ++ body)
        | some (.error e) => .error e
        | none => .error .encodeError
      | none =>
        if extensible then
          match nameIdx name adds.names with
          | some idx =>
            match encAlt adds name 0 v with
            | some (.ok body) =>
              let hdr := [true] ++ encNsnnwn idx
              .ok (hdr ++ alignBits (pos + hdr.length) ++ openType body)
            | some (.error e) => .error e
            | none => .error .encodeError
          | none => .error .encodeError
        else .error .encodeError
    | .choice _ _ _, _, _ => .error .unmodelled

  /-- `encode_member` over a member list; `encDefault` = `encode_default` -/
  def encMembers : Members → List (String × Val) → Bool → Nat → EncM Bits
    | .nil, _, _, _ => .ok []
    | .cons name p t rest, fs, encDefault, pos =>
      let here : EncM Bits :=
        match lookup name fs with
        | some v =>
          match p with
          | .default d => if !(isDefault t v d) || encDefault then enc t pos v else .ok []
          | _ => enc t pos v
        | none =>
          match p with
          | .mandatory => .error .encodeError
          | _ => .ok []
      match here with
      | .error e => .error e
      | .ok a =>
        match encMembers rest fs encDefault (pos + a.length) with
        | .error e => .error e
        | .ok b => .ok (a ++ b)

  /-- `encode_additions` without groups: presence bits of the additions processed so far and the
  encodings (each in a fresh encoder) of those present; an `EncodeError` silently stops the loop,
  any other exception propagates. -/
  def encAdditions : Members → List (String × Val) → EncM (Bits × List Bits)
    | .nil, _ => .ok ([], [])
    | .cons name p t rest, fs =>
      let here : EncM Bits :=
        match lookup name fs with
        | some v => enc t 0 v
        | none =>
          match p with
          | .mandatory => .error .encodeError
          | _ => .ok []
      match here with
      | .error .encodeError => .ok ([], [])          -- `except EncodeError: pass`
      | .error e => .error e
      | .ok e =>
        match encAdditions rest fs with
        | .error err => .error err
        | .ok (bits, encs) =>
          if e.length > 0 ∨ (lookup name fs).isSome then .ok (true :: bits, e :: encs)
          else .ok (false :: bits, encs)

  def encAlt : Alts → String → Nat → Val → Option (EncM Bits)
    | .nil, _, _, _ => none
    | .cons n t rest, name, pos, v =>
      if n == name then some (enc t pos v) else encAlt rest name pos v
end

/-! ### the type checker (`codecs/type_checker.py`)

`Specification.encode(name, data)` first walks the whole value with the type checker
(`check_types=True`); every complaint is an `EncodeError`, raised before any encoding starts.  On
values of the right shape it rejects exactly: a BIT STRING with fewer than `n` bits of data and a
CHOICE alternative that is neither in the root nor among the additions.  The Python types are
coarser than `Val` (`bool` is an `int`, ENUMERATED names and character strings are both `str`,
`None` is both NULL and an unknown item): such values pass the checker and then hit the
`.unmodelled` fall-through cases of `enc`. -/

mutual
  def typeCheck : Ty → Val → Bool
    | .boolean, .bool _ => true
    | .boolean, _ => false
    | .null, .null => true
    | .null, .absent => true
    | .null, _ => false
    | .integer _, .int _ => true
    | .integer _, .bool _ => true
    | .integer _, .str _ => true
    | .integer _, .enum _ => true
    | .integer _, _ => false
    | .enumerated _ _, .enum _ => true
    | .enumerated _ _, .str _ => true
    | .enumerated _ _, _ => false
    | .octetString _, .bytes _ => true
    | .octetString _, _ => false
    | .bitString _, .bits data n => decide (n ≤ 8 * data.length)
    | .bitString _, _ => false
    | .charString _ _, .str _ => true
    | .charString _ _, .enum _ => true
    | .charString _ _, _ => false
    | .sequence root _ adds, .record fs => typeCheckMembers root fs && typeCheckMembers adds fs
    | .sequence _ _ _, _ => false
    | .sequenceOf e _, .list vs => vs.all (typeCheck e)
    | .sequenceOf _ _, _ => false
    | .choice root _ adds, .choice name v =>
      match typeCheckAlt root name v with
      | some b => b
      | none => (typeCheckAlt adds name v).getD false
    | .choice _ _ _, _ => false

  def typeCheckMembers : Members → List (String × Val) → Bool
    | .nil, _ => true
    | .cons name _ t rest, fs =>
      (match lookup name fs with
       | some v => typeCheck t v
       | none => true) && typeCheckMembers rest fs

  def typeCheckAlt : Alts → String → Val → Option Bool
    | .nil, _, _ => none
    | .cons n t rest, name, v => if n == name then some (typeCheck t v) else typeCheckAlt rest name v
end

/-- `Specification.encode(name, value)` -/
def encode (t : Ty) (v : Val) : EncM Bytes :=
  if typeCheck t v then (enc t 0 v).map packBits else .error .encodeError

/-! ### decoder primitives -/

/-- decoder state: bits consumed since the start of the message, remaining bits -/
structure St where
  pos : Nat
  bs : Bits

def readBits (n : Nat) (s : St) : DecM (Bits × St) :=
  match Uper.splitExact n s.bs with
  | some (a, r) => .ok (a, ⟨s.pos + n, r⟩)
  | none => .error .decodeError

def readNat (n : Nat) (s : St) : DecM (Nat × St) :=
  match Uper.splitExact n s.bs with
  | some (a, r) => .ok (bitsToNat a, ⟨s.pos + n, r⟩)
  | none => .error .decodeError

def readBit (s : St) : DecM (Bool × St) :=
  match s.bs with
  | [] => .error .decodeError
  | b :: r => .ok (b, ⟨s.pos + 1, r⟩)

/-- `Decoder.align_always` -/
def align (s : St) : St := let k := padLen s.pos; ⟨s.pos + k, s.bs.drop k⟩

/-- `read_length_determinant` -/
def readLenDet (s : St) : DecM (Nat × St) := do
  let (v, r) ← readNat 8 s
  if v < 128 then .ok (v, r)
  else if v < 192 then do
    let (w, r') ← readNat 8 r
    .ok ((v - 128) * 256 + w, r')
  else if v = 0xc1 then .ok (16384, r)
  else if v = 0xc2 then .ok (32768, r)
  else if v = 0xc3 then .ok (49152, r)
  else if v = 0xc4 then .ok (65536, r)
  else .error .decodeError

/-- `read_unconstrained_whole_number` -/
def decUnconstrained (s : St) : DecM (Int × St) := do
  let (len, r) ← readLenDet s
  let (body, r') ← readBits (8 * len) r
  if len = 0 then .error .foreign   -- `1 << -1` : ValueError
  else
    let n := bitsToNat body
    if n ≥ 2 ^ (8 * len - 1) then .ok ((n : Int) - (2 ^ (8 * len) : Nat), r') else .ok (n, r')

def decNsnnwn (s : St) : DecM (Nat × St) := do
  let (b, r) ← readBit s
  if !b then readNat 6 r
  else do
    let (len, r') ← readLenDet r
    readNat (8 * len) r'

def decNsLength (s : St) : DecM (Nat × St) := do
  let (b, r) ← readBit s
  if !b then do
    let (v, r') ← readNat 6 r
    .ok (v + 1, r')
  else do
    let (b2, r') ← readBit r
    if !b2 then readNat 7 r' else .error .notImplemented

/-- `read_constrained_whole_number` (without adding the minimum) -/
def decCwn (range nbits : Nat) (s : St) : DecM (Nat × St) :=
  if range ≤ 255 then readNat nbits s
  else if range = 256 then readNat 8 (align s)
  else if range ≤ 65536 then readNat 16 (align s)
  else readNat nbits (align s)

/-- `Integer.decode` below the extension bit / `Choice.decode_root_index` -/
def decConstrainedInt (lo hi : Int) (s : St) : DecM (Int × St) :=
  let size := (hi - lo).toNat
  let nb := bitLength size
  if size ≤ 65535 then do
    let (v, r) ← decCwn (size + 1) nb s
    .ok (lo + v, r)
  else do
    let ib := indefBits nb
    let (k, r) ← decCwn (2 ^ ib + 1) ib s
    let (v, r') ← decCwn (size + 1) (8 * (k + 1)) (align r)
    .ok (lo + v, r')

/-- the length of a type with a bounded size constraint, and the alignment behind it -/
def readSize (c : SizeC) (w : Nat) (alignVar : Nat → Bool) (alignFixed : Bool) (s : St) :
    DecM (Nat × St) :=
  if some c.lo ≠ c.hi then do
    let (d, r) ← decCwn (c.hi.getD 0 - c.lo + 1) w s
    let len := c.lo + d
    .ok (len, if alignVar len then align r else r)
  else .ok (c.lo, if alignFixed then align s else s)

/-- run a decoder `n` times -/
def decRepeat {α : Type} (p : St → DecM (α × St)) : Nat → St → DecM (List α × St)
  | 0, s => .ok ([], s)
  | n + 1, s => do
    let (a, r) ← p s
    let (as, r') ← decRepeat p n r
    .ok (a :: as, r')

/-- `read_length_determinant_chunks` driving a per-item decoder. -/
def decChunks {α : Type} (p : St → DecM (α × St)) : (fuel : Nat) → St → DecM (List α × St)
  | 0, _ => .error .unmodelled
  | fuel + 1, s => do
    let (len, r) ← readLenDet s
    let (xs, r') ← decRepeat p len r
    if len < 16384 then .ok (xs, r')
    else do
      let (ys, r'') ← decChunks p fuel r'
      .ok (xs ++ ys, r'')

/-- `read_length_determinant_chunks` where every chunk is read as one block of `unit * length` bits -/
def decChunksBits (unit : Nat) : (fuel : Nat) → St → DecM (Bits × St)
  | 0, _ => .error .unmodelled
  | fuel + 1, s => do
    let (len, r) ← readLenDet s
    let (xs, r') ← readBits (unit * len) r
    if len < 16384 then .ok (xs, r')
    else do
      let (ys, r'') ← decChunksBits unit fuel r'
      .ok (xs ++ ys, r'')

/-- open types of additions this version does not know: skipped by their length -/
def skipUnknown : Bits → St → DecM St
  | [], s => .ok s
  | present :: bitmap, s =>
    if present then do
      let (len, r) ← readLenDet s
      let (_, r') ← readBits (8 * len) r
      skipUnknown bitmap r'
    else skipUnknown bitmap s

/-! ### the decoder -/

mutual
  def dec : Ty → Nat → St → DecM (Val × St)
    | .boolean, _, s => do let (b, r) ← readBit s; .ok (.bool b, r)
    | .null, _, s => .ok (.null, s)
    | .integer c, _, s =>
      match c.lo, c.hi with
      | some lo, some hi =>
        if c.ext then do
          let (b, r) ← readBit s
          if b then do let (i, r') ← decUnconstrained (align r); .ok (.int i, r')
          else do let (i, r') ← decConstrainedInt lo hi r; .ok (.int i, r')
        else do let (i, r) ← decConstrainedInt lo hi s; .ok (.int i, r)
      | _, _ =>
        if c.ext then do
          let (_, r) ← readBit s
          let (i, r') ← decUnconstrained (align r)
          .ok (.int i, r')
        else do let (i, r) ← decUnconstrained (align s); .ok (.int i, r)
    | .enumerated root ext, _, s =>
      let sroot := sortByVal root
      let decRoot (s : St) : DecM (Val × St) := do
        let (i, r) ← readNat (bitLength (sroot.length - 1)) s
        match sroot[i]? with
        | some (n, _) => .ok (.enum n, r)
        | none => .error .decodeError
      match ext with
      | none => decRoot s
      | some adds => do
        let (b, r) ← readBit s
        if !b then decRoot r
        else do
          let (i, r') ← decNsnnwn r
          match adds[i]? with
          | some (n, _) => .ok (.enum n, r')
          | none => .ok (.absent, r')
    | .octetString c, fuel, s => do
      let (ext, s0) ← (if c.ext then readBit s else .ok (false, s))
      if ext then do
        let (len, r) ← readLenDet (align s0)
        let (body, r') ← readBits (8 * len) r
        .ok (.bytes (packBits body), r')
      else
        match sizeBits c with
        | none => do
          let (body, r) ← decChunksBits 8 fuel (align s0)
          .ok (.bytes (packBits body), r)
        | some w => do
          let (len, r) ← readSize c w (fun _ => true) (decide (c.lo > 2)) s0
          let (body, r') ← readBits (8 * len) r
          .ok (.bytes (packBits body), r')
    | .bitString c, fuel, s => do
      let (ext, s0) ← (if c.ext then readBit s else .ok (false, s))
      if ext then .error .notImplemented
      else
        match sizeBits c with
        | none => do
          -- the code pads every chunk to a byte boundary separately (`b''.join`); every chunk but the
          -- last is a multiple of 16384 bits, so that is the same as packing the whole bit string
          let (xs, r) ← decChunksBits 1 fuel (align s0)
          .ok (.bits (packBits xs) xs.length, r)
        | some w => do
          let (len, r) ← readSize c w (fun _ => true) (decide (c.lo > 16)) s0
          let (body, r') ← readBits len r
          .ok (.bits (packBits body) len, r')
    | .charString .utf8 _, fuel, s => do
      let (body, r) ← decChunksBits 8 fuel (align s)
      let xs := packBits body
      match utf8Dec (xs.length + 1) xs with
      | some cps => .ok (.str cps, r)
      | none => .error .foreign     -- UnicodeDecodeError
    | .charString k c, fuel, s => do
      let (ext, s0) ← (if c.ext then readBit s else .ok (false, s))
      if ext then .error .notImplemented
      else
        let bpc := bitsPerChar k
        let one (s : St) : DecM (Nat × St) := do
          let (v, r) ← readNat bpc s
          let ch ← charDecode k v
          .ok (ch, r)
        match sizeBits c with
        | none => do
          let (xs, r) ← decChunks one fuel (align s0)
          .ok (.str xs, r)
        | some w => do
          let hi := c.hi.getD 0
          let (len, r) ← readSize c w (fun len => decide (hi > 1 ∧ len > 0)) (decide (hi * bpc > 16)) s0
          let (xs, r') ← decRepeat one len r
          .ok (.str xs, r')
    | .sequence root extensible adds, fuel, s => do
      let (ext, s0) ← (if extensible then readBit s else .ok (false, s))
      let (flags, s1) ← readBits (optionalCount root) s0
      let (fields, s2) ← decMembers root fuel flags s1
      if ext then do
        let (n, s3) ← decNsLength s2
        let (bitmap, s4) ← readBits n s3
        let (more, s5) ← decAdditions adds fuel bitmap (align s4)
        .ok (.record (fields ++ more), s5)
      else .ok (.record fields, s2)
    | .sequenceOf e c, fuel, s => do
      let (ext, s0) ← (if c.ext then readBit s else .ok (false, s))
      if ext then do
        let (len, r) ← readLenDet (align s0)
        let (xs, r') ← decRepeat (dec e fuel) len r
        .ok (.list xs, r')
      else
        match sizeBits c with
        | none => do
          let (xs, r) ← decChunks (dec e fuel) fuel (align s0)
          .ok (.list xs, r)
        | some w => do
          let (len, r) ← readSize c w (fun _ => false) false s0
          let (xs, r') ← decRepeat (dec e fuel) len r
          .ok (.list xs, r')
    | .choice root extensible adds, fuel, s => do
      let (ext, s0) ← (if extensible then readBit s else .ok (false, s))
      if ext then do
        let (idx, s1) ← decNsnnwn s0
        let (len, s2) ← readLenDet (align s1)
        match decAlt adds fuel idx s2 with
        | none => do
          let (_, s3) ← readBits (8 * len) s2
          .ok (.choice "" .absent, s3)     -- `(None, None)`
        | some res => do
          let (v, s3) ← res
          let consumed := s3.pos - s2.pos
          -- an alternative that read more than its open type holds is rejected (since repair ace6523 of /repo;
          -- before it `skip_bits(length - consumed)` with a negative count moved the read position BACK)
          if consumed > 8 * len then .error .decodeError
          else do
            let (_, s4) ← readBits (8 * len - consumed) s3
            .ok (v, s4)
      else do
        let (idx, s1) ← (if root.length > 1 then decConstrainedInt 0 ((root.length : Int) - 1) s0
                          else .ok (0, s0))
        match decAlt root fuel idx.toNat s1 with
        | none => .error .decodeError
        | some res => res

  /-- `decode_root`: `flags` are the preamble bits still unused -/
  def decMembers : Members → Nat → Bits → St → DecM (List (String × Val) × St)
    | .nil, _, _, s => .ok ([], s)
    | .cons name p t rest, fuel, flags, s =>
      match p with
      | .mandatory => do
        let (v, r) ← dec t fuel s
        let (fs, r') ← decMembers rest fuel flags r
        .ok ((name, v) :: fs, r')
      | .optional =>
        match flags with
        | true :: fl => do
          let (v, r) ← dec t fuel s
          let (fs, r') ← decMembers rest fuel fl r
          .ok ((name, v) :: fs, r')
        | _ :: fl => decMembers rest fuel fl s
        | [] => .error .unmodelled
      | .default d =>
        match flags with
        | true :: fl => do
          let (v, r) ← dec t fuel s
          let (fs, r') ← decMembers rest fuel fl r
          .ok ((name, v) :: fs, r')
        | _ :: fl => do
          let (fs, r') ← decMembers rest fuel fl s
          .ok ((name, d) :: fs, r')
        | [] => .error .unmodelled

  /-- `decode_additions`: one open type per set bit; the length of a known addition is ignored,
  the decoder just skips to the next octet boundary counted from the start of its contents;
  unknown additions are skipped by their length -/
  def decAdditions : Members → Nat → Bits → St → DecM (List (String × Val) × St)
    | .nil, _, bitmap, s => do
      let r ← skipUnknown bitmap s
      .ok ([], r)
    | .cons name _ t rest, fuel, bitmap, s =>
      match bitmap with
      | [] => .ok ([], s)
      | present :: bitmap =>
        if present then do
          let (_, r) ← readLenDet s
          let (v, r') ← dec t fuel r
          let (_, r'') ← readBits (padLen (r'.pos - r.pos)) r'
          let (fs, r''') ← decAdditions rest fuel bitmap r''
          .ok ((name, v) :: fs, r''')
        else decAdditions rest fuel bitmap s

  def decAlt : Alts → Nat → Nat → St → Option (DecM (Val × St))
    | .nil, _, _, _ => none
    | .cons n t rest, fuel, i, s =>
      match i with
      | 0 => some (do let (v, r) ← dec t fuel s; .ok (.choice n v, r))
      | i + 1 => decAlt rest fuel i s
end

def decode (t : Ty) (bs : Bytes) : DecM Val :=
  (dec t (8 * bs.length + 2) ⟨0, bytesToBits bs⟩).map (·.1)

end Asn1.Per
