import Asn1Model.Schema
import Asn1Model.Extracted
/-
  M-level model of asn1tools' UPER codec (codecs/uper.py + the parts of codecs/per.py it inherits),
  over the `Ty`/`Val` universe of Schema.lean.  Deviations of the code from X.691 are reproduced,
  not repaired (they are the subject of finding predicates).
-/
namespace Asn1.Uper

inductive Err where
  | encodeError      -- asn1tools.EncodeError
  | decodeError      -- asn1tools.DecodeError (incl. OutOfDataError)
  | notImplemented   -- NotImplementedError raised by the code
  | foreign          -- any other Python exception (KeyError, TypeError, ValueError ...)
  | unmodelled       -- the model declines to predict (behaviour on this input is outside the model)
  deriving DecidableEq, Repr, Inhabited

abbrev EncM := Except Err
abbrev DecM := Except Err

/-! ### primitives (per.Encoder / per.Decoder) -/

/-- `append_length_determinant`: the bits written and the length it stands for. -/
def lenDet (n : Nat) : Bits × Nat :=
  if n < 128 then (natToBits 8 n, n)
  else if n < 16384 then (natToBits 16 (0x8000 + n), n)
  else if n < 32768 then (natToBits 8 0xc1, 16384)
  else if n < 49152 then (natToBits 8 0xc2, 32768)
  else if n < 65536 then (natToBits 8 0xc3, 49152)
  else (natToBits 8 0xc4, 65536)

/-- `append_length_determinant_chunks` over a list of already encoded items: each chunk is a length
determinant followed by the items it covers.  `fuel` bounds the number of chunks. -/
def encChunks : (fuel : Nat) → List Bits → Bits
  | 0, _ => []
  | fuel + 1, items =>
    let (hdr, k) := lenDet items.length
    let body := (items.take k).flatten
    if k < 16384 then hdr ++ body
    else hdr ++ body ++ encChunks fuel (items.drop k)

def encChunked (items : List Bits) : Bits := encChunks (items.length / 16384 + 2) items

/-- `append_unconstrained_whole_number` -/
def encUnconstrained (i : Int) : Bits :=
  let k := intByteLength i
  (lenDet k).1 ++ bytesToBits (intToBytesN k i)

/-- `append_normally_small_non_negative_whole_number` -/
def encNsnnwn (v : Nat) : Bits :=
  if v < 64 then natToBits 7 v
  else
    let k := (bitLength v + 7) / 8
    [true] ++ (lenDet k).1 ++ natToBits (8 * k) v

/-- `append_normally_small_length` -/
def encNsLength (v : Nat) : EncM Bits :=
  if v ≤ 64 then .ok (natToBits 7 (v - 1))
  else if v ≤ 127 then .ok (natToBits 9 (0x100 + v))
  else .error .notImplemented

/-- pad to a multiple of 8 bits (`align_always` on a fresh encoder) -/
def padToByte (bs : Bits) : Bits := bs ++ List.replicate ((8 - bs.length % 8) % 8) false

/-- first `n` elements and the rest, `none` when fewer than `n` are available; single pass. -/
def splitAux : Nat → Bits → Bits → Option (Bits × Bits)
  | 0, bs, acc => some (acc.reverse, bs)
  | _ + 1, [], _ => none
  | n + 1, b :: r, acc => splitAux n r (b :: acc)

def splitExact (n : Nat) (bs : Bits) : Option (Bits × Bits) := splitAux n bs []

def readBits (n : Nat) (bs : Bits) : DecM (Bits × Bits) :=
  match splitExact n bs with
  | some x => .ok x
  | none => .error .decodeError

def readNat (n : Nat) (bs : Bits) : DecM (Nat × Bits) :=
  match splitExact n bs with
  | some (a, r) => .ok (bitsToNat a, r)
  | none => .error .decodeError

def readBit (bs : Bits) : DecM (Bool × Bits) :=
  match bs with
  | [] => .error .decodeError
  | b :: r => .ok (b, r)

/-- `read_length_determinant` -/
def readLenDet (bs : Bits) : DecM (Nat × Bits) := do
  let (v, r) ← readNat 8 bs
  if v < 128 then .ok (v, r)
  else if v < 192 then do
    let (w, r') ← readNat 8 r
    .ok ((v - 128) * 256 + w, r')
  else if v = 0xc1 then .ok (16384, r)
  else if v = 0xc2 then .ok (32768, r)
  else if v = 0xc3 then .ok (49152, r)
  else if v = 0xc4 then .ok (65536, r)
  else .error .decodeError

/-- `read_unconstrained_whole_number` -/
def decUnconstrained (bs : Bits) : DecM (Int × Bits) := do
  let (len, r) ← readLenDet bs
  let (body, r') ← readBits (8 * len) r
  if len = 0 then .error .foreign   -- `1 << -1` : ValueError
  else
    let n := bitsToNat body
    if n ≥ 2 ^ (8 * len - 1) then .ok ((n : Int) - (2 ^ (8 * len) : Nat), r') else .ok (n, r')

def decNsnnwn (bs : Bits) : DecM (Nat × Bits) := do
  let (b, r) ← readBit bs
  if !b then readNat 6 r
  else do
    let (len, r') ← readLenDet r
    readNat (8 * len) r'

def decNsLength (bs : Bits) : DecM (Nat × Bits) := do
  let (b, r) ← readBit bs
  if !b then do
    let (v, r') ← readNat 6 r
    .ok (v + 1, r')
  else do
    let (b2, r') ← readBit r
    if !b2 then readNat 7 r' else .error .notImplemented

/-- run a decoder `n` times -/
def decRepeat {α : Type} (p : Bits → DecM (α × Bits)) : Nat → Bits → DecM (List α × Bits)
  | 0, bs => .ok ([], bs)
  | n + 1, bs => do
    let (a, r) ← p bs
    let (as, r') ← decRepeat p n r
    .ok (a :: as, r')

/-- `read_length_determinant_chunks` driving a per-item decoder. -/
def decChunks {α : Type} (p : Bits → DecM (α × Bits)) : (fuel : Nat) → Bits → DecM (List α × Bits)
  | 0, _ => .error .unmodelled
  | fuel + 1, bs => do
    let (len, r) ← readLenDet bs
    let (xs, r') ← decRepeat p len r
    if len < 16384 then .ok (xs, r')
    else do
      let (ys, r'') ← decChunks p fuel r'
      .ok (xs ++ ys, r'')

/-! ### constraint bookkeeping (`set_size_range`, `is_unbound`, `set_restricted_to_range`) -/

/-- `number_of_bits` of a size-constrained type, `none` = unbound. -/
def sizeBits (c : SizeC) : Option Nat :=
  match c.hi with
  | none => none
  | some hi => if hi > 65535 then none else some (bitLength (hi - c.lo))

def inSize (c : SizeC) (n : Nat) : Bool :=
  match c.hi with
  | none => c.lo ≤ n
  | some hi => c.lo ≤ n && n ≤ hi

/-! ### string alphabets -/

def alphabetOf : StrKind → List Nat
  | .ia5 => Extracted.ia5Alphabet
  | .visible => Extracted.visibleAlphabet
  | .numeric => Extracted.numericAlphabet
  | .printable => Extracted.printableAlphabet
  | .utf8 => []

def indexOf? (x : Nat) : List Nat → Option Nat
  | [] => none
  | y :: r => if x = y then some 0 else (indexOf? x r).map (· + 1)

/-- `permitted_alphabet.encode`: NumericString maps to the index, the others to the code itself. -/
def charCode (k : StrKind) (cp : Nat) : EncM Nat :=
  match k with
  | .numeric => match indexOf? cp (alphabetOf k) with
    | some i => .ok i
    | none => .error .encodeError
  | _ => if (alphabetOf k).contains cp then .ok cp else .error .encodeError

def charDecode (k : StrKind) (v : Nat) : DecM Nat :=
  match k with
  | .numeric => match (alphabetOf k)[v]? with
    | some c => .ok c
    | none => .error .decodeError
  | _ => if (alphabetOf k).contains v then .ok v else .error .decodeError

def bitsPerChar (k : StrKind) : Nat := bitLength ((alphabetOf k).length - 1)

/-- UTF-8 encoding of one code point (CPython `str.encode('utf-8')`; surrogates are rejected there
and never generated here). -/
def utf8Enc (cp : Nat) : Bytes :=
  if cp < 0x80 then [cp]
  else if cp < 0x800 then [0xc0 + cp / 64, 0x80 + cp % 64]
  else if cp < 0x10000 then [0xe0 + cp / 4096, 0x80 + cp / 64 % 64, 0x80 + cp % 64]
  else [0xf0 + cp / 262144, 0x80 + cp / 4096 % 64, 0x80 + cp / 64 % 64, 0x80 + cp % 64]

/-- strict UTF-8 decoder (rejects overlong forms, surrogates, > U+10FFFF) -/
def utf8Dec : (fuel : Nat) → Bytes → Option (List Nat)
  | 0, _ => none
  | _, [] => some []
  | fuel + 1, b :: r =>
    if b < 0x80 then (utf8Dec fuel r).map (b :: ·)
    else if b < 0xc2 then none
    else if b < 0xe0 then
      match r with
      | c :: r' => if 0x80 ≤ c ∧ c < 0xc0 then (utf8Dec fuel r').map (((b - 0xc0) * 64 + (c - 0x80)) :: ·) else none
      | _ => none
    else if b < 0xf0 then
      match r with
      | c :: d :: r' =>
        let cp := (b - 0xe0) * 4096 + (c - 0x80) * 64 + (d - 0x80)
        if 0x80 ≤ c ∧ c < 0xc0 ∧ 0x80 ≤ d ∧ d < 0xc0 ∧ cp ≥ 0x800 ∧ ¬ (0xd800 ≤ cp ∧ cp < 0xe000)
        then (utf8Dec fuel r').map (cp :: ·) else none
      | _ => none
    else if b < 0xf5 then
      match r with
      | c :: d :: e :: r' =>
        let cp := (b - 0xf0) * 262144 + (c - 0x80) * 4096 + (d - 0x80) * 64 + (e - 0x80)
        if 0x80 ≤ c ∧ c < 0xc0 ∧ 0x80 ≤ d ∧ d < 0xc0 ∧ 0x80 ≤ e ∧ e < 0xc0 ∧ cp ≥ 0x10000 ∧ cp < 0x110000
        then (utf8Dec fuel r').map (cp :: ·) else none
      | _ => none
    else none

/-! ### ENUMERATED tables -/

/-- insertion sort by value (the code uses `sorted(root, key=itemgetter(1))`, stable) -/
def insertByVal (x : String × Int) : List (String × Int) → List (String × Int)
  | [] => [x]
  | y :: r => if x.2 < y.2 then x :: y :: r else y :: insertByVal x r

def sortByVal (xs : List (String × Int)) : List (String × Int) := xs.foldr insertByVal []

def nameIndex (name : String) : List (String × Int) → Option Nat
  | [] => none
  | (n, _) :: r => if n == name then some 0 else (nameIndex name r).map (· + 1)

/-! ### the codec -/

def bytesOfBits (bs : Bits) : Bytes := packBits bs

/-- first `n` bits of `data` (`append_bits`); a `ValueError` (negative shift) when data is too short -/
def takeBits (data : Bytes) (n : Nat) : EncM Bits :=
  if n ≤ 8 * data.length then .ok ((bytesToBits data).take n) else .error .foreign

mutual
  def enc : Ty → Val → EncM Bits
    | .boolean, .bool b => .ok [b]
    | .boolean, _ => .error .foreign
    | .null, _ => .ok []
    | .integer c, .int i =>
      match c.lo, c.hi with
      | some lo, some hi =>
        if c.ext then
          if lo ≤ i ∧ i ≤ hi then .ok ([false] ++ natToBits (bitLength (hi - lo).toNat) (i - lo).toNat)
          else .ok ([true] ++ encUnconstrained i)
        else .ok (natToBits (bitLength (hi - lo).toNat) (i - lo).toNat)
      | _, _ =>
        if c.ext then .error .foreign   -- `None <= data` : TypeError
        else .ok (encUnconstrained i)
    | .integer _, _ => .error .foreign
    | .enumerated root ext, .enum name =>
      let sroot := sortByVal root
      match ext with
      | none =>
        match nameIndex name sroot with
        | some i => .ok (natToBits (bitLength (sroot.length - 1)) i)
        | none => .error .encodeError   -- EncodeError (unknown enumeration value)
      | some adds =>
        match nameIndex name sroot with
        | some i => .ok ([false] ++ natToBits (bitLength (sroot.length - 1)) i)
        | none =>
          match nameIndex name adds with
          | some i => .ok ([true] ++ encNsnnwn i)
          | none => .error .encodeError -- EncodeError (unknown enumeration value)
    | .enumerated _ _, _ => .error .foreign
    | .octetString c, .bytes data =>
      let n := data.length
      let body := bytesToBits data
      if c.ext ∧ c.hi.isNone then .error .foreign else
      if c.ext ∧ ¬ inSize c n then .ok ([true] ++ (lenDet n).1 ++ body)
      else
        let pre : Bits := if c.ext then [false] else []
        -- `size == 0 and maximum >= 65536` is already unbound through `is_unbound`
        match sizeBits c with
        | none => .ok (pre ++ encChunked (data.map (natToBits 8)))
        | some w =>
          if some c.lo ≠ c.hi then .ok (pre ++ natToBits w (n - c.lo) ++ body)
          else .ok (pre ++ body)
    | .octetString _, _ => .error .foreign
    | .bitString c, .bits data n =>
      if c.ext ∧ c.hi.isNone then .error .foreign else
      if c.ext ∧ ¬ inSize c n then .error .notImplemented
      else
        let pre : Bits := if c.ext then [false] else []
        match takeBits data n with
        | .error e => .error e
        | .ok body =>
          match sizeBits c with
          | none => .ok (pre ++ encChunked (body.map (fun b => [b])))
          | some w =>
            if some c.lo ≠ c.hi then .ok (pre ++ natToBits w (n - c.lo) ++ body)
            else .ok (pre ++ body)
    | .bitString _, _ => .error .foreign
    | .charString .utf8 _, .str cps =>
      .ok (encChunked ((cps.flatMap utf8Enc).map (natToBits 8)))
    | .charString k c, .str cps =>
      match cps.mapM (charCode k) with
      | .error e => .error e
      | .ok codes =>
        let items := codes.map (natToBits (bitsPerChar k))
        let pre : Bits := if c.ext then [false] else []
        -- a size outside the root is encoded as if it were inside (garbage length field): not predicted
        if ¬ inSize c cps.length then .error .unmodelled else
        match sizeBits c with
        | none => .ok (pre ++ encChunked items)
        | some w =>
          if some c.lo ≠ c.hi then .ok (pre ++ natToBits w (cps.length - c.lo) ++ items.flatten)
          else .ok (pre ++ items.flatten)
    | .charString _ _, _ => .error .foreign
    | .sequence root extensible adds, .record fs =>
      match encPreamble root fs, encMembers root fs false with
      | .ok pre, .ok body =>
        if extensible then
          match adds with
          | .nil => .ok ([false] ++ pre ++ body)
          | _ =>
            let (present, encs) := encAdditions adds fs
            if encs.isEmpty then .ok ([false] ++ pre ++ body)
            else
              match encNsLength adds.length with
              | .error e => .error e
              | .ok nl =>
                let bitmap := present ++ List.replicate (adds.length - present.length) false
                let wrapped := encs.flatMap (fun e => let p := padToByte e; (lenDet (p.length / 8)).1 ++ p)
                .ok ([true] ++ pre ++ body ++ nl ++ bitmap ++ wrapped)
        else .ok (pre ++ body)
      | .error e, _ => .error e
      | _, .error e => .error e
    | .sequence _ _ _, _ => .error .foreign
    | .sequenceOf e c, .list vs =>
      let n := vs.length
      match vs.mapM (enc e) with
      | .error err => .error err
      | .ok items =>
        if c.ext ∧ c.hi.isNone then .error .foreign else
        if c.ext ∧ ¬ inSize c n then .ok ([true] ++ (lenDet n).1 ++ items.flatten)
        else
          let pre : Bits := if c.ext then [false] else []
          match sizeBits c with
          | none => .ok (pre ++ encChunked items)
          | some w =>
            if some c.lo ≠ c.hi then .ok (pre ++ natToBits w (n - c.lo) ++ items.flatten)
            else .ok (pre ++ items.flatten)
    | .sequenceOf _ _, _ => .error .foreign
    | .choice root extensible adds, .choice name v =>
      match encAlt root name v 0 with
      | some (idx, r) =>
        match r with
        | .error e => .error e
        | .ok body =>
          let pre : Bits := if extensible then [false] else []
          let ix : Bits := if root.length > 1 then natToBits (bitLength (root.length - 1)) idx else []
          .ok (pre ++ ix ++ body)
      | none =>
        if extensible then
          match encAlt adds name v 0 with
          | some (idx, r) =>
            match r with
            | .error e => .error e
            | .ok body =>
              let p := padToByte body
              .ok ([true] ++ encNsnnwn idx ++ (lenDet (p.length / 8)).1 ++ p)
          | none => .error .encodeError
        else .error .encodeError
    | .choice _ _ _, _ => .error .foreign

  /-- preamble: one bit per OPTIONAL / DEFAULT root member -/
  def encPreamble : Members → List (String × Val) → EncM Bits
    | .nil, _ => .ok []
    | .cons name p t rest, fs =>
      match encPreamble rest fs with
      | .error e => .error e
      | .ok r =>
        match p with
        | .mandatory => .ok r
        | .optional => .ok ((lookup name fs).isSome :: r)
        | .default d =>
          match lookup name fs with
          | some v => .ok ((!(isDefault t v d)) :: r)
          | none => .ok (false :: r)

  /-- `encode_member` over a member list; `encDefault` = `encode_default` (used for additions) -/
  def encMembers : Members → List (String × Val) → Bool → EncM Bits
    | .nil, _, _ => .ok []
    | .cons name p t rest, fs, encDefault =>
      let here : EncM Bits :=
        match lookup name fs with
        | some v =>
          match p with
          | .default d => if !(isDefault t v d) || encDefault then enc t v else .ok []
          | _ => enc t v
        | none =>
          match p with
          | .mandatory => .error .encodeError
          | _ => .ok []
      match here, encMembers rest fs encDefault with
      | .ok a, .ok b => .ok (a ++ b)
      | .error e, _ => .error e
      | _, .error e => .error e

  /-- `encode_additions` without groups: presence bits of the additions processed so far and the
  encodings of those present; an `EncodeError` silently stops the loop. -/
  def encAdditions : Members → List (String × Val) → (Bits × List Bits)
    | .nil, _ => ([], [])
    | .cons name p t rest, fs =>
      let here : EncM Bits :=
        match lookup name fs with
        | some v => enc t v
        | none =>
          match p with
          | .mandatory => .error .encodeError
          | _ => .ok []
      match here with
      | .error _ => ([], [])          -- `except EncodeError: pass` (foreign errors are approximated the same way)
      | .ok e =>
        let (bits, encs) := encAdditions rest fs
        if e.length > 0 ∨ (lookup name fs).isSome then (true :: bits, e :: encs)
        else (false :: bits, encs)

  def encAlt : Alts → String → Val → Nat → Option (Nat × EncM Bits)
    | .nil, _, _, _ => none
    | .cons n t rest, name, v, i =>
      if n == name then some (i, enc t v) else encAlt rest name v (i + 1)
end

def encode (t : Ty) (v : Val) : EncM Bytes := (enc t v).map packBits

/-! ### decoder -/

/-- skip to the next multiple of 8 consumed bits, counted from `start` remaining bits -/
def skipPad (start : Nat) (bs : Bits) : DecM Bits :=
  let consumed := start - bs.length
  let pad := (8 - consumed % 8) % 8
  if pad ≤ bs.length then .ok (bs.drop pad) else .error .decodeError

def takeN {α : Type} : Nat → List α → List α × List α
  | n, xs => (xs.take n, xs.drop n)

/-- open types of additions this version does not know: skipped by their length -/
def skipUnknown : Bits → Bits → DecM Bits
  | [], bs => .ok bs
  | present :: bitmap, bs =>
    if present then do
      let (len, r) ← readLenDet bs
      let (_, r') ← readBits (8 * len) r
      skipUnknown bitmap r'
    else skipUnknown bitmap bs

mutual
  def dec : Ty → Nat → Bits → DecM (Val × Bits)
    | .boolean, _, bs => do let (b, r) ← readBit bs; .ok (.bool b, r)
    | .null, _, bs => .ok (.null, bs)
    | .integer c, _, bs =>
      match c.lo, c.hi with
      | some lo, some hi =>
        let w := bitLength (hi - lo).toNat
        if c.ext then do
          let (b, r) ← readBit bs
          if b then do let (i, r') ← decUnconstrained r; .ok (.int i, r')
          else do let (n, r') ← readNat w r; .ok (.int (n + lo), r')
        else do let (n, r) ← readNat w bs; .ok (.int (n + lo), r)
      | _, _ =>
        if c.ext then do
          let (b, r) ← readBit bs
          let (i, r') ← decUnconstrained r
          let _ := b
          .ok (.int i, r')
        else do let (i, r) ← decUnconstrained bs; .ok (.int i, r)
    | .enumerated root ext, _, bs =>
      let sroot := sortByVal root
      let decRoot (bs : Bits) : DecM (Val × Bits) := do
        let (i, r) ← readNat (bitLength (sroot.length - 1)) bs
        match sroot[i]? with
        | some (n, _) => .ok (.enum n, r)
        | none => .error .decodeError
      match ext with
      | none => decRoot bs
      | some adds => do
        let (b, r) ← readBit bs
        if !b then decRoot r
        else do
          let (i, r') ← decNsnnwn r
          match adds[i]? with
          | some (n, _) => .ok (.enum n, r')
          | none => .ok (.absent, r')
    | .octetString c, fuel, bs => do
      let (ext, r0) ← (if c.ext then readBit bs else .ok (false, bs))
      if ext then do
        let (len, r) ← readLenDet r0
        let (body, r') ← readBits (8 * len) r
        .ok (.bytes (packBits body), r')
      else
        match sizeBits c with
        | none => do
          let (xs, r) ← decChunks (fun b => readNat 8 b) fuel r0
          .ok (.bytes xs, r)
        | some w => do
          let (len, r) ← (if some c.lo ≠ c.hi then do let (d, r) ← readNat w r0; .ok (c.lo + d, r) else .ok (c.lo, r0))
          let (body, r') ← readBits (8 * len) r
          .ok (.bytes (packBits body), r')
    | .bitString c, fuel, bs => do
      let (ext, r0) ← (if c.ext then readBit bs else .ok (false, bs))
      if ext then .error .notImplemented
      else
        match sizeBits c with
        | none => do
          let (xs, r) ← decChunks readBit fuel r0
          -- the code pads every chunk to a byte boundary separately (`b''.join`); every chunk but the
          -- last is a multiple of 16384 bits, so that is the same as packing the whole bit string
          .ok (.bits (packBits xs) xs.length, r)
        | some w => do
          let (len, r) ← (if some c.lo ≠ c.hi then do let (d, r) ← readNat w r0; .ok (c.lo + d, r) else .ok (c.lo, r0))
          let (body, r') ← readBits len r
          .ok (.bits (packBits body) len, r')
    | .charString .utf8 _, fuel, bs => do
      let (xs, r) ← decChunks (fun b => readNat 8 b) fuel bs
      match utf8Dec (xs.length + 1) xs with
      | some cps => .ok (.str cps, r)
      | none => .error .foreign     -- UnicodeDecodeError
    | .charString k c, fuel, bs => do
      let (ext, r0) ← (if c.ext then readBit bs else .ok (false, bs))
      if ext then .error .notImplemented
      else
        let one (b : Bits) : DecM (Nat × Bits) := do
          let (v, r) ← readNat (bitsPerChar k) b
          let ch ← charDecode k v
          .ok (ch, r)
        match sizeBits c with
        | none => do
          let (xs, r) ← decChunks one fuel r0
          .ok (.str xs, r)
        | some w => do
          let (len, r) ← (if some c.lo ≠ c.hi then do let (d, r) ← readNat w r0; .ok (c.lo + d, r) else .ok (c.lo, r0))
          let (xs, r') ← decRepeat one len r
          .ok (.str xs, r')
    | .sequence root extensible adds, fuel, bs => do
      let (ext, r0) ← (if extensible then readBit bs else .ok (false, bs))
      let (flags, r1) ← readBits (optionalCount root) r0
      let (fields, r2) ← decMembers root fuel flags r1
      if ext then do
        let (n, r3) ← decNsLength r2
        let (bitmap, r4) ← readBits n r3
        let (more, r5) ← decAdditions adds fuel bitmap r4
        .ok (.record (fields ++ more), r5)
      else .ok (.record fields, r2)
    | .sequenceOf e c, fuel, bs => do
      let (ext, r0) ← (if c.ext then readBit bs else .ok (false, bs))
      if ext then do
        let (len, r) ← readLenDet r0
        let (xs, r') ← decRepeat (dec e fuel) len r
        .ok (.list xs, r')
      else
        match sizeBits c with
        | none => do
          let (xs, r) ← decChunks (dec e fuel) fuel r0
          .ok (.list xs, r)
        | some w => do
          let (len, r) ← (if some c.lo ≠ c.hi then do let (d, r) ← readNat w r0; .ok (c.lo + d, r) else .ok (c.lo, r0))
          let (xs, r') ← decRepeat (dec e fuel) len r
          .ok (.list xs, r')
    | .choice root extensible adds, fuel, bs => do
      let (ext, r0) ← (if extensible then readBit bs else .ok (false, bs))
      if ext then do
        let (idx, r1) ← decNsnnwn r0
        let (len, r2) ← readLenDet r1
        match decAlt adds fuel idx r2 with
        | none => do
          let (_, r3) ← readBits (8 * len) r2
          .ok (.choice "" .absent, r3)     -- `(None, None)`
        | some res => do
          let (v, r3) ← res
          let consumed := r2.length - r3.length
          if consumed > 8 * len then .error .decodeError     -- rejected since repair ace6523 of /repo
          else do
            let (_, r4) ← readBits (8 * len - consumed) r3
            .ok (v, r4)
      else do
        let (idx, r1) ← (if root.length > 1 then readNat (bitLength (root.length - 1)) r0 else .ok (0, r0))
        match decAlt root fuel idx r1 with
        | none => .error .decodeError
        | some res => res

  def optionalCount : Members → Nat
    | .nil => 0
    | .cons _ p _ rest =>
      match p with
      | .mandatory => optionalCount rest
      | _ => optionalCount rest + 1

  /-- `decode_root`: `flags` are the preamble bits still unused -/
  def decMembers : Members → Nat → Bits → Bits → DecM (List (String × Val) × Bits)
    | .nil, _, _, bs => .ok ([], bs)
    | .cons name p t rest, fuel, flags, bs =>
      match p with
      | .mandatory => do
        let (v, r) ← dec t fuel bs
        let (fs, r') ← decMembers rest fuel flags r
        .ok ((name, v) :: fs, r')
      | .optional =>
        match flags with
        | true :: fl => do
          let (v, r) ← dec t fuel bs
          let (fs, r') ← decMembers rest fuel fl r
          .ok ((name, v) :: fs, r')
        | _ :: fl => decMembers rest fuel fl bs
        | [] => .error .unmodelled
      | .default d =>
        match flags with
        | true :: fl => do
          let (v, r) ← dec t fuel bs
          let (fs, r') ← decMembers rest fuel fl r
          .ok ((name, v) :: fs, r')
        | _ :: fl => do
          let (fs, r') ← decMembers rest fuel fl bs
          .ok ((name, d) :: fs, r')
        | [] => .error .unmodelled

  /-- `decode_additions`: one open type per set bit; unknown additions are skipped by their length -/
  def decAdditions : Members → Nat → Bits → Bits → DecM (List (String × Val) × Bits)
    | .nil, _, bitmap, bs => do
      let r ← skipUnknown bitmap bs
      .ok ([], r)
    | .cons name _ t rest, fuel, bitmap, bs =>
      match bitmap with
      | [] => .ok ([], bs)
      | present :: bitmap =>
        if present then do
          let (_, r) ← readLenDet bs
          let (v, r') ← dec t fuel r
          let r'' ← skipPad r.length r'
          let (fs, r''') ← decAdditions rest fuel bitmap r''
          .ok ((name, v) :: fs, r''')
        else decAdditions rest fuel bitmap bs

  def decAlt : Alts → Nat → Nat → Bits → Option (DecM (Val × Bits))
    | .nil, _, _, _ => none
    | .cons n t rest, fuel, i, bs =>
      match i with
      | 0 => some (do let (v, r) ← dec t fuel bs; .ok (.choice n v, r))
      | i + 1 => decAlt rest fuel i bs
end

def decode (t : Ty) (bs : Bytes) : DecM Val := (dec t (8 * bs.length + 2) (bytesToBits bs)).map (·.1)

end Asn1.Uper
