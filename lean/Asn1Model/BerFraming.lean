import Asn1Model.Prim
/-
  C15: model of the BER/DER framing helpers of codecs/ber.py:
  `encode_tag`, `encode_length_definite`, `skip_tag`, `decode_length` (definite enforced),
  `skip_tag_length_contents` and `decode_full_length`.
-/
namespace Asn1.Ber

/-- base-128 digits, most significant first (`number > 0`) -/
def base128 : (fuel : Nat) → Nat → Bytes
  | 0, _ => []
  | fuel + 1, n => if n < 128 then [n] else base128 fuel (n / 128) ++ [n % 128]

/-- `encode_tag(number, flags)` -/
def encTag (number flags : Nat) : Bytes :=
  if number < 31 then [flags + number]
  else
    let ds := base128 (bitLength number + 1) number
    (flags + 31) :: (ds.dropLast.map (· + 128) ++ [ds.getLast?.getD 0])

/-- `encode_length_definite` -/
def encLength (n : Nat) : Bytes :=
  if n ≤ 127 then [n] else
    let ds := natToBytesMin n
    (128 + ds.length) :: ds

/-- continuation octets of a high tag number: number of octets consumed, `none` = ran out of data -/
def skipTagRest : Bytes → Option Nat
  | [] => none
  | b :: r => if b % 256 ≥ 128 then (skipTagRest r).map (· + 1) else some 1

/-- `skip_tag(data, 0)`: offset of the first length octet; `none` = OutOfByteDataError
(also when nothing follows the identifier octets) -/
def skipTag (data : Bytes) : Option Nat :=
  match data with
  | [] => none
  | b :: r =>
    let off := if b % 32 = 31 then (skipTagRest r).map (· + 1) else some 1
    match off with
    | none => none
    | some o => if o ≥ data.length then none else some o

inductive LenResult where
  | outOfData                      -- OutOfByteDataError (not MissingDataError)
  | indefinite                     -- DecodeError 'Expected definite length'
  | ok (length : Nat) (hdr : Nat)  -- value of the length field, number of length octets
  deriving DecidableEq, Repr

/-- `decode_length(encoded, offset)` on `data = encoded[offset:]`; a MissingDataError carries the
same two numbers as the normal return, so both are `ok`. -/
def decodeLength (data : Bytes) : LenResult :=
  match data with
  | [] => .outOfData
  | l :: r =>
    if l % 256 < 128 then .ok l 1
    else if l % 256 = 128 then .indefinite
    else
      let k := l % 256 - 128
      if r.length < k then .outOfData else .ok (bytesToNat (r.take k)) (k + 1)

inductive Probe where
  | unknown            -- `None`: not enough data to know the length yet
  | indefinite         -- DecodeError raised (indefinite length form)
  | known (n : Nat)
  deriving DecidableEq, Repr

/-- `decode_full_length(data)` -/
def fullLength (data : Bytes) : Probe :=
  match skipTag data with
  | none => .unknown
  | some o =>
    match decodeLength (data.drop o) with
    | .outOfData => .unknown
    | .indefinite => .indefinite
    | .ok n h => .known (o + h + n)

/-- identifier octets as X.690 8.1.2 allows them (any class/constructed bits, any padding-free
or padded high-tag-number form) -/
def validTag (t : Bytes) : Prop :=
  (∃ b, t = [b] ∧ b < 256 ∧ b % 32 ≠ 31) ∨
  (∃ b mid last, t = b :: (mid ++ [last]) ∧ b < 256 ∧ b % 32 = 31 ∧
     (∀ m ∈ mid, 128 ≤ m ∧ m < 256) ∧ last < 128)

/-- definite length octets for the value `n` (short form, or any long form incl. padded ones) -/
def validLen (l : Bytes) (n : Nat) : Prop :=
  (l = [n] ∧ n < 128) ∨
  (∃ k ds, l = (128 + k) :: ds ∧ 1 ≤ k ∧ k ≤ 127 ∧ ds.length = k ∧ bytesToNat ds = n)

end Asn1.Ber
