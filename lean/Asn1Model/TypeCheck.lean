import Asn1Model.Schema
/-
  C12: model of codecs/type_checker.py over Python-shaped values, with the `add_location`
  path calculus (member and alternative names are added, list elements add nothing).
-/
namespace Asn1.TypeCheck

/-- Python values as the type checker sees them -/
inductive PyVal where
  | int (i : Int)
  | bool (b : Bool)
  | str (cps : List Nat)
  | bytes (bs : Bytes)
  | float
  | none
  | tuple (xs : List PyVal)
  | list (xs : List PyVal)
  | dict (kvs : List (String × PyVal))
  deriving Inhabited

def strOfName (s : String) : List Nat := s.toList.map Char.toNat

/-- how asn1tools represents an abstract value in Python -/
def embed : Val → PyVal
  | .bool b => .bool b
  | .null => .none
  | .int i => .int i
  | .enum n => .str (strOfName n)
  | .bytes bs => .bytes bs
  | .bits d n => .tuple [.bytes d, .int n]
  | .str cps => .str cps
  | .record fs => .dict (embedFields fs)
  | .list vs => .list (embedList vs)
  | .choice n v => .tuple [.str (strOfName n), embed v]
  | .absent => .none
where
  embedFields : List (String × Val) → List (String × PyVal)
    | [] => []
    | (n, v) :: r => (n, embed v) :: embedFields r
  embedList : List Val → List PyVal
    | [] => []
    | v :: r => embed v :: embedList r

/-- the node-local isinstance test (no recursion into components) -/
def shapeOk : Ty → PyVal → Bool
  | .boolean, .bool _ => true
  | .null, .none => true
  | .integer _, .int _ => true
  | .integer _, .bool _ => true          -- bool is an int in Python
  | .integer _, .str _ => true           -- `isinstance(data, (int, str))`
  | .enumerated _ _, .str _ => true
  | .octetString _, .bytes _ => true
  | .bitString _, .tuple [.bytes d, .int n] => decide (n ≤ 8 * (d.length : Int))
  | .bitString _, .tuple [.bytes d, .bool b] => decide ((if b then 1 else 0) ≤ 8 * d.length)
  | .charString _ _, .str _ => true
  | .sequence _ _ _, .dict _ => true
  | .sequenceOf _ _, .list _ => true
  | .choice root _ adds, .tuple [.str n, _] =>
    (root.names ++ adds.names).any (fun m => strOfName m == n)
  | _, _ => false

def firstSome {α β : Type} (f : α → Option β) : List α → Option β
  | [] => none
  | x :: r => match f x with
    | some y => some y
    | none => firstSome f r

mutual
  /-- `none` = accepted, `some p` = EncodeError with location names `p` below the top-level type -/
  def tcheck : Ty → PyVal → Option (List String)
    | .sequence root e adds, .dict kvs =>
      match tcheckMembers root kvs with
      | some p => some p
      | none => tcheckMembers adds kvs
    | .sequenceOf e _, .list xs => firstSome (tcheck e) xs
    | .choice root e adds, .tuple [.str n, x] =>
      match tcheckAlt root n x with
      | some r => r
      | none =>
        match tcheckAlt adds n x with
        | some r => r
        | none => some []
    | t, v => if shapeOk t v then none else some []
  def tcheckMembers : Members → List (String × PyVal) → Option (List String)
    | .nil, _ => none
    | .cons name _ t rest, kvs =>
      match lookup name kvs with
      | some v =>
        match tcheck t v with
        | some p => some (name :: p)
        | none => tcheckMembers rest kvs
      | none => tcheckMembers rest kvs
  def tcheckAlt : Alts → List Nat → PyVal → Option (Option (List String))
    | .nil, _, _ => none
    | .cons n t rest, name, v =>
      if strOfName n == name then some ((tcheck t v).map (n :: ·)) else tcheckAlt rest name v
end

mutual
  /-- all components a name path can denote (several when the path crosses a list) -/
  def preach : Ty → PyVal → List String → List (Ty × PyVal)
    | .sequenceOf e c, .list xs, p =>
      (if p.isEmpty then [(Ty.sequenceOf e c, PyVal.list xs)] else []) ++ xs.flatMap (fun x => preach e x p)
    | .sequence root _ adds, .dict kvs, name :: p => preachMembers root kvs name p ++ preachMembers adds kvs name p
    | .choice root _ adds, .tuple [.str n, x], name :: p =>
      if strOfName name == n then preachAlt root n x p ++ preachAlt adds n x p else []
    | t, v, [] => [(t, v)]
    | _, _, _ => []
  def preachMembers : Members → List (String × PyVal) → String → List String → List (Ty × PyVal)
    | .nil, _, _, _ => []
    | .cons n _ t rest, kvs, name, p =>
      (if n == name then (match lookup n kvs with | some v => preach t v p | none => []) else []) ++
        preachMembers rest kvs name p
  def preachAlt : Alts → List Nat → PyVal → List String → List (Ty × PyVal)
    | .nil, _, _, _ => []
    | .cons n t rest, name, v, p => if strOfName n == name then preach t v p else preachAlt rest name v p
end

/-- `ErrorWithLocation.location_str` for a location list built innermost-first: reversed,
blank names dropped, joined with dots (here names are kept outermost-first already). -/
def locationStr (top : String) (p : List String) : String :=
  ".".intercalate ((top :: p).filter (· ≠ ""))

end Asn1.TypeCheck
