import Asn1Model.X690
/-
  The reference BER decoder of X690.lean minus the one place where asn1tools' BER decoder is
  known NOT to follow X.690 (C04 deviation predicate).  `decVS` accepts exactly what `decV`
  accepts, with the same value, except that it rejects

  * `dirtyUnusedBits`: a BIT STRING encoding whose unused bits are not all zero (allowed in BER,
    8.6.2.4; the code returns the unused bits as part of the value).

  (A second deviation, `indefiniteExtensibleNoAddition` -- an indefinite-length SEQUENCE whose type
  has extension additions, none of them present, was rejected by ber.py -- was a genuine defect and
  has been repaired in /repo commit 300e5ac; it is no longer excluded here, see
  `C04.fixed_indefinite_extensible_accepted`.)

  `berDeviates t bs` is the decidable deviation predicate: accepted by the reference decoder but
  not by the strict one.
-/
namespace Asn1.X690

/-- `constructedContents` telling the contents parser which length form was used -/
def constructedContentsI {α : Type} (p : (indefinite : Bool) → Bytes → Option (α × Bytes)) (bs : Bytes) :
    Option (α × Bytes) :=
  match readLength bs with
  | some (.definite n, r) =>
    match takeN n r [] with
    | some (c, rest) =>
      match p false c with
      | some (a, []) => some (a, rest)
      | _ => none
    | none => none
  | some (.indefinite, r) =>
    match p true r with
    | some (a, 0 :: 0 :: rest) => some (a, rest)
    | _ => none
  | none => none

mutual
  def decVS : Ty → Option Nat → (fuel : Nat) → Bytes → Option (Val × Bytes)
    | .bitString c, tg, fuel, bs =>
      match stringChunks 3 fuel (header (.bitString c) tg false) (header (.bitString c) tg true) bs with
      | some (cs, r) =>
        match bitsOfChunks cs with
        | some (data, n) =>
          if cleanBits data n == data then some (.bits data n, r) else none     -- dirtyUnusedBits
        | none => none
      | none => none
    | .sequence root e adds, tg, fuel, bs =>
      match stripPrefix (header (.sequence root e adds) tg true) bs with
      | none => none
      | some r =>
        constructedContentsI (fun _ c =>
          match decComponentsS root 0 fuel c with
          | none => none
          | some (fs1, c1) =>
            match decComponentsS adds root.length fuel c1 with
            | none => none
            | some (fs2, c2) => some (Val.record (fs1 ++ fs2), c2)) r
    | .sequenceOf e c, tg, fuel, bs =>
      match stripPrefix (header (.sequenceOf e c) tg true) bs with
      | none => none
      | some r =>
        match constructedContents (elements (decVS e none fuel) fuel) r with
        | some (vs, r') => some (.list vs, r')
        | none => none
    | .choice root _ adds, tg, fuel, bs =>
      let chosen (b : Bytes) : Option (Val × Bytes) :=
        match decAlternativesS root 0 fuel b with
        | some x => some x
        | none => decAlternativesS adds root.length fuel b
      match tg with
      | none => chosen bs
      | some i =>
        match stripPrefix (identifier .context true i) bs with
        | none => none
        | some r => constructedContents chosen r
    -- BOOLEAN, NULL, INTEGER, ENUMERATED, OCTET STRING, character strings: as in `decV`
    | .boolean, tg, fuel, bs => decV .boolean tg fuel bs
    | .null, tg, fuel, bs => decV .null tg fuel bs
    | .integer c, tg, fuel, bs => decV (.integer c) tg fuel bs
    | .enumerated r x, tg, fuel, bs => decV (.enumerated r x) tg fuel bs
    | .octetString c, tg, fuel, bs => decV (.octetString c) tg fuel bs
    | .charString k c, tg, fuel, bs => decV (.charString k c) tg fuel bs

  def decComponentsS : Members → Nat → (fuel : Nat) → Bytes → Option (List (String × Val) × Bytes)
    | .nil, _, _, bs => some ([], bs)
    | .cons name p t rest, i, fuel, bs =>
      if componentPresent t i bs then
        match decVS t (some i) fuel bs with
        | none => none
        | some (v, r) =>
          match decComponentsS rest (i + 1) fuel r with
          | none => none
          | some (fs, r') => some ((name, v) :: fs, r')
      else
        match p with
        | .mandatory => none
        | .optional => decComponentsS rest (i + 1) fuel bs
        | .default d =>
          match decComponentsS rest (i + 1) fuel bs with
          | none => none
          | some (fs, r') => some ((name, d) :: fs, r')

  def decAlternativesS : Alts → Nat → (fuel : Nat) → Bytes → Option (Val × Bytes)
    | .nil, _, _, _ => none
    | .cons n t rest, i, fuel, bs =>
      if componentPresent t i bs then
        match decVS t (some i) fuel bs with
        | some (v, r) => some (.choice n v, r)
        | none => none
      else decAlternativesS rest (i + 1) fuel bs
end

def berDecodeRefStrict (t : Ty) (bs : Bytes) : Option Val :=
  match decVS t none (bs.length + 1) bs with
  | some (v, []) => some v
  | _ => none

/-- C04 deviation predicate: a valid BER encoding (per the reference decoder) that runs into the
named deviation of the code -/
def berDeviates (t : Ty) (bs : Bytes) : Bool :=
  (berDecodeRef t bs).isSome && (berDecodeRefStrict t bs).isNone

example : berDeviates (.sequence (.cons "a" .mandatory .boolean .nil) true (.cons "b" .optional (.integer ⟨none, none, false⟩) .nil))
    [0x30, 0x80, 0x80, 0x01, 0xff, 0x00, 0x00] = false := by rfl
example : berDeviates (.bitString ⟨0, none, false⟩) [0x03, 0x02, 0x05, 0xff] = true := by rfl
example : berDeviates (.bitString ⟨0, none, false⟩) [0x23, 0x80, 0x03, 0x02, 0x05, 0xe0, 0, 0] = false := by rfl

end Asn1.X690
