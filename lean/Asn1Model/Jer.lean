import Asn1Model.Schema
import Asn1Model.Uper
import Asn1Model.Json
/-
  M-level model of asn1tools' JER codec (codecs/jer.py) over the `Ty`/`Val` universe.

  The codec is two steps: a mapping between abstract values and a JSON tree (Python dict / list /
  str / int / bool / None; `Type.encode` / `Type.decode` of every class in jer.py), and
  `json.dumps` / `json.loads` (Json.lean).  What the code does, per type:

    BOOLEAN, INTEGER, NULL, character strings : the value is passed through unchanged, both ways
                         (no checks at all: the decoder returns whatever JSON value it is given)
    ENUMERATED         : the name as a string; decoding an unknown name gives `None` when the type is
                         extensible, DecodeError otherwise (unhashable JSON values: TypeError)
    OCTET STRING       : upper-case hex string; `binascii.unhexlify` when decoding (accepts both cases)
    BIT STRING         : `SIZE(n)` with one value (the extension marker is ignored): the hex string of ALL
                         octets given, the decoder returns `(octets, n)`;
                         otherwise the object `{"value": hex, "length": number of bits}`
                         (unused bits are not cleared, surplus octets are not dropped)
    SEQUENCE           : object with the present members in declaration order (root then additions, no
                         distinction); a value equal to the DEFAULT is still written; an absent
                         mandatory member is an EncodeError.  The decoder walks the declared members:
                         present -> decoded, absent OPTIONAL -> skipped, absent DEFAULT -> the default
                         is filled in (root AND additions), absent MANDATORY -> silently skipped (no
                         error); unknown member names are ignored whether or not the type is extensible
    SEQUENCE OF        : array
    CHOICE             : object with one member; the decoder looks only at the FIRST member of the
                         object; unknown name -> `(None, None)` when extensible, DecodeError otherwise

  `json.loads` builds a `dict` from an object: of several members with the same name the last value
  wins (`dictGet`).  Shapes the decoder does not expect mostly end in a foreign Python exception
  (TypeError / KeyError / AttributeError / IndexError / binascii.Error), reproduced as `.foreign`.

  `.unmodelled` is returned in exactly these cases:
    * encoder: the constructor of the value does not fit the type (jer.py itself does no type checking, the
      outcome is whatever Python's dynamic typing makes of it; through `Specification.encode` with the
      default `check_types=True` such a value is stopped earlier by the type checker with an EncodeError);
    * decoder: a JSON number with a fraction or exponent (a Python float), and the "length" of a BIT STRING
      object that is not a non-negative integer -- neither has a counterpart in `Val`.

  Outside the validated domain (the model answers, but was not compared): INTEGER values of more than 4300
  decimal digits (CPython's int/str conversion limit makes `json.dumps` / `json.loads` raise ValueError),
  `indent` given as a string or a negative number, JSON numbers with a fraction or exponent.
-/
namespace Asn1.Jer
open Asn1.Uper (Err)

/-- the code points of an identifier -/
def strCps (s : String) : List Nat := s.toList.map Char.toNat

def hexDigitU (n : Nat) : Nat := if n < 10 then 48 + n else 55 + n

/-- `format_bytes(data).upper()` -/
def hexUpper (bs : Bytes) : List Nat := bs.flatMap fun b => [hexDigitU (b / 16 % 16), hexDigitU (b % 16)]

/-- `binascii.unhexlify(str)`; `none` = binascii.Error / ValueError -/
def unhex : List Nat → Option Bytes
  | [] => some []
  | [_] => none
  | a :: b :: r =>
    match Json.hexNat a, Json.hexNat b, unhex r with
    | some x, some y, some t => some ((16 * x + y) :: t)
    | _, _, _ => none

/-- `self.size is not None` of jer.BitString -/
def fixedSize (c : SizeC) : Bool := c.hi == some c.lo

def kValue : List Nat := [118, 97, 108, 117, 101]           -- "value"
def kLength : List Nat := [108, 101, 110, 103, 116, 104]    -- "length"

/-- `d[k]` on the `dict` that `json.loads` builds from an object: the last member named `k` -/
def dictGet (k : List Nat) : List (List Nat × JsonV) → Option JsonV
  | [] => none
  | (k', v) :: r =>
    match dictGet k r with
    | some w => some w
    | none => if k' == k then some v else none

/-- keys of that `dict` in insertion order -/
def dictKeys : List (List Nat × JsonV) → List (List Nat)
  | [] => []
  | (k, _) :: r => k :: (dictKeys r).filter (· != k)

/-- `needle in haystack` for Python strings -/
def isInfix (needle : List Nat) : List Nat → Bool
  | [] => needle.isEmpty
  | c :: r => needle.isPrefixOf (c :: r) || isInfix needle r

/-- `name in data` -/
def memberIn (data : JsonV) (name : List Nat) : Except Err Bool :=
  match data with
  | .obj kvs => .ok (dictGet name kvs).isSome
  | .str s => .ok (isInfix name s)                  -- substring test
  | .arr xs => .ok (xs.any fun x => match x with | .str s => s == name | _ => false)
  | _ => .error .foreign                               -- TypeError: argument of type ... is not iterable

/-- `data[name]`, reached only after `name in data` -/
def memberGet (data : JsonV) (name : List Nat) : Except Err JsonV :=
  match data with
  | .obj kvs => match dictGet name kvs with | some j => .ok j | none => .error .foreign
  | _ => .error .foreign                               -- TypeError: indices must be integers

mutual
  /-- the Python object `json.loads` returns, for the types whose decoder returns its argument unchanged
  (`None` is `.absent`) -/
  def pyVal : JsonV → Except Err Val
    | .null => .ok .absent
    | .bool b => .ok (.bool b)
    | .num i => .ok (.int i)
    | .dec _ _ => .error .unmodelled
    | .str cps => .ok (.str cps)
    | .arr xs => match pyVals xs with | .ok vs => .ok (.list vs) | .error e => .error e
    | .obj kvs => match pyFields kvs with | .ok fs => .ok (.record fs) | .error e => .error e
  def pyVals : List JsonV → Except Err (List Val)
    | [] => .ok []
    | x :: xs =>
      match pyVal x, pyVals xs with
      | .ok v, .ok vs => .ok (v :: vs)
      | .error e, _ => .error e
      | _, .error e => .error e
  def pyFields : List (List Nat × JsonV) → Except Err (List (String × Val))
    | [] => .ok []
    | (k, x) :: kvs =>
      match pyVal x, pyFields kvs with
      | .ok v, .ok fs => .ok ((String.ofList (k.map Char.ofNat), v) :: fs)
      | .error e, _ => .error e
      | _, .error e => .error e
end

/-- the items a Python `for` loop over the decoded JSON value visits (`SequenceOf.decode`) -/
def iterItems : JsonV → Except Err (List JsonV)
  | .arr xs => .ok xs
  | .obj kvs => .ok ((dictKeys kvs).map .str)          -- iterating a dict yields its keys
  | .str s => .ok (s.map fun c => .str [c])            -- iterating a str yields its characters
  | _ => .error .foreign                               -- TypeError: object is not iterable

def enumNames (root : List (String × Int)) (ext : Option (List (String × Int))) : List String :=
  root.map (·.1) ++ (match ext with | some a => a.map (·.1) | none => [])

def findName (k : List Nat) : List String → Option String
  | [] => none
  | n :: r => if strCps n == k then some n else findName k r

mutual
  def toJson : Ty → Val → Except Err JsonV
    | .boolean, .bool b => .ok (.bool b)
    | .boolean, _ => .error .unmodelled
    | .null, .null => .ok .null
    | .null, _ => .error .unmodelled
    | .integer _, .int i => .ok (.num i)
    | .integer _, _ => .error .unmodelled
    | .enumerated root ext, .enum n =>
      if (enumNames root ext).contains n then .ok (.str (strCps n)) else .error .encodeError
    | .enumerated _ _, _ => .error .unmodelled
    | .octetString _, .bytes bs => .ok (.str (hexUpper bs))
    | .octetString _, _ => .error .unmodelled
    | .bitString c, .bits data n =>
      if fixedSize c then .ok (.str (hexUpper data))
      else .ok (.obj [(kValue, .str (hexUpper data)), (kLength, .num n)])
    | .bitString _, _ => .error .unmodelled
    | .charString _ _, .str cps => .ok (.str cps)
    | .charString _ _, _ => .error .unmodelled
    | .sequence root _ adds, .record fs =>
      match membersToJson root fs with
      | .error e => .error e
      | .ok a =>
        match membersToJson adds fs with
        | .error e => .error e
        | .ok b => .ok (.obj (a ++ b))
    | .sequence _ _ _, _ => .error .unmodelled
    | .sequenceOf e _, .list vs =>
      match vs.mapM (toJson e) with
      | .error err => .error err
      | .ok js => .ok (.arr js)
    | .sequenceOf _ _, _ => .error .unmodelled
    | .choice root _ adds, .choice n v =>
      match altToJson root n v with
      | some r => r
      | none =>
        match altToJson adds n v with
        | some r => r
        | none => .error .encodeError
    | .choice _ _ _, _ => .error .unmodelled
  /-- `MembersType.encode` -/
  def membersToJson : Members → List (String × Val) → Except Err (List (List Nat × JsonV))
    | .nil, _ => .ok []
    | .cons name p t rest, fs =>
      match lookup name fs with
      | some v =>
        match toJson t v with
        | .error e => .error e
        | .ok j =>
          match membersToJson rest fs with
          | .error e => .error e
          | .ok js => .ok ((strCps name, j) :: js)
      | none =>
        match p with
        | .mandatory => .error .encodeError
        | _ => membersToJson rest fs
  /-- `Choice.encode`: `{member.name: member.encode(data[1])}` -/
  def altToJson : Alts → String → Val → Option (Except Err JsonV)
    | .nil, _, _ => none
    | .cons n t rest, name, v =>
      if n == name then
        some (match toJson t v with
              | .error e => .error e
              | .ok j => .ok (.obj [(strCps n, j)]))
      else altToJson rest name v
end

mutual
  def ofJson : Ty → JsonV → Except Err Val
    | .boolean, j => pyVal j
    | .null, j => (match j with | .null => .ok .null | _ => pyVal j)
    | .integer _, j => pyVal j
    | .charString _ _, j => pyVal j
    | .enumerated root ext, j =>
      match j with
      | .arr _ => .error .foreign                       -- TypeError: unhashable type
      | .obj _ => .error .foreign
      | .str cps =>
        match findName cps (enumNames root ext) with
        | some n => .ok (.enum n)
        | none => if ext.isSome then .ok .absent else .error .decodeError
      | _ => if ext.isSome then .ok .absent else .error .decodeError
    | .octetString _, j =>
      match j with
      | .str cps => (match unhex cps with | some bs => .ok (.bytes bs) | none => .error .foreign)
      | _ => .error .foreign
    | .bitString c, j =>
      if fixedSize c then
        match j with
        | .str cps => (match unhex cps with | some bs => .ok (.bits bs c.lo) | none => .error .foreign)
        | _ => .error .foreign
      else
        match j with
        | .obj kvs =>
          match dictGet kValue kvs, dictGet kLength kvs with
          | some (.str cps), some len =>
            match unhex cps with
            | none => .error .foreign
            | some bs =>
              match len with
              | .num i => if 0 ≤ i then .ok (.bits bs i.toNat) else .error .unmodelled
              | _ => .error .unmodelled
          | _, _ => .error .foreign
        | _ => .error .foreign
    | .sequence root _ adds, j =>
      match membersOfJson root j with
      | .error e => .error e
      | .ok a =>
        match membersOfJson adds j with
        | .error e => .error e
        | .ok b => .ok (.record (a ++ b))
    | .sequenceOf e _, j =>
      match iterItems j with
      | .error err => .error err
      | .ok xs =>
        match xs.mapM (ofJson e) with
        | .error err => .error err
        | .ok vs => .ok (.list vs)
    | .choice root ext adds, j =>
      match j with
      | .obj kvs =>
        match kvs with
        | [] => .error .foreign                          -- IndexError
        | (k, _) :: _ =>
          match dictGet k kvs with
          | none => .error .foreign
          | some x =>
            match altOfJson root k x with
            | some r => r
            | none =>
              match altOfJson adds k x with
              | some r => r
              | none => if ext then .ok (.choice "" .absent) else .error .decodeError
      | _ => .error .foreign                             -- AttributeError: no attribute 'items'
  /-- `MembersType.decode` -/
  def membersOfJson : Members → JsonV → Except Err (List (String × Val))
    | .nil, _ => .ok []
    | .cons name p t rest, data =>
      match memberIn data (strCps name) with
      | .error e => .error e
      | .ok true =>
        match memberGet data (strCps name) with
        | .error e => .error e
        | .ok j =>
          match ofJson t j with
          | .error e => .error e
          | .ok v =>
            match membersOfJson rest data with
            | .error e => .error e
            | .ok fs => .ok ((name, v) :: fs)
      | .ok false =>
        match p with
        | .default d =>
          match membersOfJson rest data with
          | .error e => .error e
          | .ok fs => .ok ((name, d) :: fs)
        | _ => membersOfJson rest data
  def altOfJson : Alts → List Nat → JsonV → Option (Except Err Val)
    | .nil, _, _ => none
    | .cons n t rest, k, j =>
      if strCps n == k then
        some (match ofJson t j with
              | .error e => .error e
              | .ok v => .ok (.choice n v))
      else altOfJson rest k j
end

/-- `CompiledType.encode(data, indent)`: the octets of the document -/
def encode (t : Ty) (v : Val) (indent : Option Nat) : Except Err Bytes :=
  match toJson t v with
  | .error e => .error e
  | .ok j => .ok ((Json.render indent j).flatMap Uper.utf8Enc)

/-- the code points of a document given as octets (`data.decode('utf-8')`) -/
def docCps (doc : Bytes) : Option (List Nat) := Uper.utf8Dec (doc.length + 1) doc

/-- is the octet string a JSON document (UTF-8, RFC 8259) -/
def isJson (doc : Bytes) : Bool :=
  match docCps doc with
  | none => false
  | some cps => (Json.parse cps).isSome

/-- `CompiledType.decode(data)`; an octet string that is not a JSON document gives Python's
UnicodeDecodeError / json.JSONDecodeError (both `ValueError`s): `.foreign` -/
def decode (t : Ty) (doc : Bytes) : Except Err Val :=
  match docCps doc with
  | none => .error .foreign
  | some cps =>
    match Json.parse cps with
    | none => .error .foreign
    | some j => ofJson t j

mutual
  /-- the abstract value the JER decoder returns for an encoding of `v`: like `canon`, but a BIT STRING
  keeps its octets as given and absent DEFAULT members are filled in for additions as well -/
  def canonJ : Ty → Val → Val
    | .sequence root _ adds, .record fs => .record (canonJMembers root fs ++ canonJMembers adds fs)
    | .sequenceOf e _, .list vs => .list (vs.map (canonJ e))
    | .choice root _ adds, .choice n v =>
      match canonJAlt root n v with
      | some w => .choice n w
      | none =>
        match canonJAlt adds n v with
        | some w => .choice n w
        | none => .choice n v
    | _, v => v
  def canonJMembers : Members → List (String × Val) → List (String × Val)
    | .nil, _ => []
    | .cons name p t rest, fs =>
      match lookup name fs with
      | some v => (name, canonJ t v) :: canonJMembers rest fs
      | none =>
        match p with
        | .default d => (name, d) :: canonJMembers rest fs
        | _ => canonJMembers rest fs
  def canonJAlt : Alts → String → Val → Option Val
    | .nil, _, _ => none
    | .cons n t rest, name, v => if n == name then some (canonJ t v) else canonJAlt rest name v
end

end Asn1.Jer
