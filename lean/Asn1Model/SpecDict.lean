/-
  MODEL of the dictionary that `asn1tools.parse_string` returns and of the IN-PLACE rewrite that
  `asn1tools.compile_dict` performs on it before compiling
  (`/repo/asn1tools/codecs/compiler.py`, `Compiler.pre_process` and the passes it calls).

  The dictionary is restricted to what the passes read or write:

    specification  = ordered map  module name -> module               (`Spec`, an association list)
    module         = imports, tag default, EXTENSIBILITY IMPLIED flag, type assignments, value
                     assignments (opaque: no pass reads them)           (`Module`)
    type descriptor= a Python dict; the same shape is used for a type assignment, a member of a
                     SEQUENCE / SET / CHOICE and the element of a SEQUENCE OF / SET OF   (`Desc`)
                       'type'        -> `Attrs.type`   (builtin name or a reference)
                       'name'        -> `Attrs.name`
                       'tag'         -> `Attrs.tag`    {number, class?, kind?}
                       'optional'    -> `Attrs.optional`
                       'default'     -> `Attrs.default` in its raw parsed or already converted form
                       'values'      -> `Attrs.values` (ENUMERATED)
                       'named-bits'  -> `Attrs.namedBits`
                       every other key (size, restricted-to, with-components, ...) -> `Attrs.extra`, opaque
                       'members'     -> `Body.members` (list of `Item`: `None` markers, `[[ ]]` groups,
                                        `{'components-of': T}` entries, member descriptors)
                       'element'     -> `Body.element`

  X.683 parameterization and information objects are NOT modelled (the two parameterization passes
  are the identity on dictionaries without 'parameters' / 'actual-parameters' keys).

  `Preprocess.run numericEnums d` is `Compiler(d, numeric_enums).pre_process()`: for every module in
  dictionary order the four passes `pre_process_components_of`, `pre_process_extensibility_implied`,
  `pre_process_tags`, `pre_process_default_value`, each reading the CURRENT state of the whole
  dictionary (the rewrite is in place, so a module processed later sees the already rewritten
  earlier modules).

  Where the Python code raises (a reference that does not resolve, a cyclic COMPONENTS OF, a
  malformed DEFAULT) the model is total and leaves the offending entry unchanged (DEFAULT) or drops
  it (COMPONENTS OF); the model claims nothing about the Python code there.

  Everything is structurally recursive (fuel where reference chains are followed) so that closed
  instances are decided by kernel evaluation.
-/
namespace Asn1.SpecDict

/-! ### The dictionary -/

/-- `tag['number']`: an integer, or a value reference the parser could not convert -/
inductive TagNum where
  | int (i : Int)
  | ref (s : String)
  deriving Repr, DecidableEq, Inhabited

/-- the `'tag'` dictionary of a type descriptor -/
structure Tag where
  number : TagNum
  cls : Option String := none
  kind : Option String := none
  deriving Repr, DecidableEq, Inhabited

/-- the value stored under `'default'` -/
inductive DefVal where
  /-- Python `None` (value notations the parser does not convert) -/
  | null
  /-- `int` (also: ENUMERATED default after a `numeric_enums=True` compile) -/
  | int (i : Int)
  | bool (b : Bool)
  /-- `str`: an identifier, `'TRUE'`, `'0b0101'`, `'0xab'`, a character string, a REAL literal … -/
  | str (s : String)
  /-- `list` of `str` (named bits `{ a, b }`) -/
  | names (l : List String)
  /-- `bytes` (OCTET STRING default after the pass) -/
  | bytes (b : List Nat)
  /-- `(bytes, number_of_bits)` (BIT STRING default after the pass) -/
  | bits (b : List Nat) (n : Nat)
  /-- anything else (a list of integers, a float …), kept as its canonical text -/
  | other (repr : String)
  deriving Repr, DecidableEq, Inhabited

/-- the number of an enumeration item: an integer, or a value reference the parser left as a name -/
inductive EnumVal where
  | int (i : Int)
  | ref (s : String)
  deriving Repr, DecidableEq, Inhabited

/-- an entry of an ENUMERATED `'values'` list -/
inductive EnumItem where
  | marker
  | item (name : String) (value : EnumVal)
  deriving Repr, DecidableEq, Inhabited

/-- The keys of a type descriptor other than `'members'` and `'element'`. -/
structure Attrs where
  type : String
  name : Option String := none
  tag : Option Tag := none
  optional : Option Bool := none
  default : Option DefVal := none
  values : Option (List EnumItem) := none
  namedBits : Option (List (String × String)) := none
  extra : List (String × String) := []
  deriving Repr, DecidableEq, Inhabited

mutual
  /-- a type descriptor -/
  inductive Desc where
    | mk (a : Attrs) (b : Body)
  inductive Body where
    | leaf
    | members (ms : List Item)
    | element (e : Desc)
  /-- an entry of a `'members'` list -/
  inductive Item where
    /-- `None`, the extension marker `...` -/
    | marker
    /-- `{'components-of': ref}` -/
    | compOf (ref : String)
    /-- a nested list, an extension addition group `[[ ... ]]` -/
    | group (g : List Desc)
    | desc (d : Desc)
end

instance : Inhabited Desc := ⟨.mk default .leaf⟩

def Desc.attrs : Desc → Attrs
  | .mk a _ => a

def Desc.body : Desc → Body
  | .mk _ b => b

structure Module where
  imports : List (String × List String) := []
  /-- `module['tags']`, absent when the module header has no tag default -/
  tags : Option String := none
  extImplied : Bool := false
  types : List (String × Desc) := []
  /-- value assignments: name and canonical text (no pass reads them) -/
  values : List (String × String) := []
  deriving Inhabited

abbrev Spec := List (String × Module)

/-! ### Lookups -/

/-- first entry with the key (a Python dict has at most one) -/
def find? {α : Type} (k : String) : List (String × α) → Option α
  | [] => none
  | (a, b) :: t => if a = k then some b else find? k t

def elemStr (k : String) : List String → Bool
  | [] => false
  | a :: t => if a = k then true else elemStr k t

/-- `for from_module_name, imports in module['imports'].items(): if name in imports` — the first
import clause that lists the symbol -/
def importFrom (name : String) : List (String × List String) → Option String
  | [] => none
  | (frm, syms) :: t => if elemStr name syms then some frm else importFrom name t

/-- What the tag and default passes read from a looked-up type descriptor: its 'type', 'values'
and 'named-bits'.  No pass ever writes these three keys of a type assignment. -/
structure Core where
  type : String
  values : Option (List EnumItem)
  namedBits : Option (List (String × String))
  deriving Repr, DecidableEq, Inhabited

def Attrs.core (a : Attrs) : Core := ⟨a.type, a.values, a.namedBits⟩

/-- The part of a module that name resolution reads. -/
structure ModSkel where
  imports : List (String × List String)
  tags : Option String
  extImplied : Bool
  types : List (String × Core)
  deriving Repr, DecidableEq, Inhabited

abbrev Skel := List (String × ModSkel)

def typesSkel : List (String × Desc) → List (String × Core)
  | [] => []
  | (k, d) :: t => (k, d.attrs.core) :: typesSkel t

def Module.skel (m : Module) : ModSkel := ⟨m.imports, m.tags, m.extImplied, typesSkel m.types⟩

def skel : Spec → Skel
  | [] => []
  | (k, m) :: t => (k, m.skel) :: skel t

/-- `Compiler.lookup_in_modules('types', …)`: the type assignment `name` as seen from module `mod`
(own assignments first, then the first import clause that lists the name, followed transitively);
`none` where Python raises `CompileError` (or `KeyError` for a missing module).  Fuel bounds the
import chain (a cyclic chain makes Python raise `RecursionError`). -/
def lookupType (spec : Spec) : Nat → String → String → Option (Desc × String)
  | 0, _, _ => none
  | f + 1, name, mod =>
    match find? mod spec with
    | none => none
    | some m =>
      match find? name m.types with
      | some td => some (td, mod)
      | none =>
        match importFrom name m.imports with
        | none => none
        | some frm => lookupType spec f name frm

/-- the same lookup on the skeleton -/
def lookupCore (sk : Skel) : Nat → String → String → Option (Core × String)
  | 0, _, _ => none
  | f + 1, name, mod =>
    match find? mod sk with
    | none => none
    | some m =>
      match find? name m.types with
      | some c => some (c, mod)
      | none =>
        match importFrom name m.imports with
        | none => none
        | some frm => lookupCore sk f name frm

def hasAmp (s : String) : Bool := s.toList.any (· = '&')

/-- `Compiler.resolve_type_descriptor(member, module_name)`: follow the chain of type references
starting at the descriptor itself; the last descriptor found.  (`resolve_type_name` is its 'type'.)
Names with '&' (object class fields) are not followed: information objects are not modelled.
Fuel: a cyclic chain of references makes Python loop forever. -/
def resolveCore (sk : Skel) (lf : Nat) : Nat → Core → String → Core
  | 0, c, _ => c
  | f + 1, c, mod =>
    if hasAmp c.type then c else
    match lookupCore sk lf c.type mod with
    | none => c
    | some (c', mod') => resolveCore sk lf f c' mod'

def countTypes : Skel → Nat
  | [] => 0
  | (_, m) :: t => m.types.length + countTypes t

/-- fuel for an import chain: one more than the number of modules -/
def lookupFuel (sk : Skel) : Nat := sk.length + 1

/-- fuel for a reference chain: one more than the number of type assignments -/
def resolveFuel (sk : Skel) : Nat := countTypes sk + 1

def resolve (sk : Skel) (c : Core) (mod : String) : Core :=
  resolveCore sk (lookupFuel sk) (resolveFuel sk) c mod

/-! ### Pass 1: COMPONENTS OF (`pre_process_components_of`) -/

def Item.isMarker : Item → Bool
  | .marker => true
  | _ => false

def Item.isCompOf : Item → Bool
  | .compOf _ => true
  | _ => false

/-- `for inner_member in inner_members: if inner_member == EXTENSION_MARKER: break` -/
def takeRoot : List Item → List Item
  | [] => []
  | .marker :: _ => []
  | x :: t => x :: takeRoot t

/-- `pre_process_components_of_expand_members` with the recursive call abstracted -/
def expandWith (rec : String → List Item → List Item) (spec : Spec) (lf : Nat) (mod : String) :
    List Item → List Item
  | [] => []
  | .compOf r :: t =>
    (match lookupType spec lf r mod with
     | some (.mk _ (.members ms), mod') => takeRoot (rec mod' ms)
     | _ => []) ++ expandWith rec spec lf mod t
  | x :: t => x :: expandWith rec spec lf mod t

/-- `pre_process_components_of_expand_members`; fuel bounds the nesting of COMPONENTS OF (a cycle
makes Python raise `RecursionError`) -/
def expandItems (spec : Spec) (lf : Nat) : Nat → String → List Item → List Item
  | 0, _, _ => []
  | f + 1, mod, ms => expandWith (expandItems spec lf f) spec lf mod ms

/-- `pre_process_components_of_type`: only the member list of the type assignment itself -/
def compOfType (spec : Spec) (mod : String) : Desc → Desc
  | .mk a (.members ms) =>
    .mk a (.members (expandItems spec (lookupFuel (skel spec)) (resolveFuel (skel spec)) mod ms))
  | d => d

/-! ### Pass 2: EXTENSIBILITY IMPLIED (`pre_process_extensibility_implied`) -/

def hasMarker : List Item → Bool
  | [] => false
  | .marker :: _ => true
  | _ :: t => hasMarker t

/-- `if EXTENSION_MARKER not in members: members.append(EXTENSION_MARKER)` -/
def addMarker (ms : List Item) : List Item :=
  if hasMarker ms then ms else ms ++ [.marker]

mutual
  /-- `pre_process_extensibility_implied_type`: recursion through 'members' (and groups) and
  through 'element' -/
  def extDesc : Desc → Desc
    | .mk a b => .mk a (extBody b)
  termination_by structural d => d
  def extBody : Body → Body
    | .leaf => .leaf
    | .members ms => .members (addMarker (extItems ms))
    | .element e => .element (extDesc e)
  termination_by structural b => b
  def extItems : List Item → List Item
    | [] => []
    | i :: t => extItem i :: extItems t
  termination_by structural l => l
  def extItem : Item → Item
    | .marker => .marker
    | .compOf r => .compOf r
    | .group g => .group (extDescs g)
    | .desc d => .desc (extDesc d)
  termination_by structural i => i
  def extDescs : List Desc → List Desc
    | [] => []
    | d :: t => extDesc d :: extDescs t
  termination_by structural l => l
end

/-! ### Pass 3: tags (`pre_process_tags`) -/

/-- `is_any_member_tagged(flatten(members))` -/
def anyTaggedDescs : List Desc → Bool
  | [] => false
  | d :: t => d.attrs.tag.isSome || anyTaggedDescs t

def anyTagged : List Item → Bool
  | [] => false
  | .desc d :: t => d.attrs.tag.isSome || anyTagged t
  | .group g :: t => anyTaggedDescs g || anyTagged t
  | _ :: t => anyTagged t

/-- `if number is not None: if 'tag' not in member: member['tag'] = {}; member['tag']['number'] = number` -/
def numAttrs (k : Option Nat) (a : Attrs) : Attrs :=
  match k with
  | none => a
  | some n =>
    match a.tag with
    | none => { a with tag := some { number := .int n } }
    | some t => { a with tag := some { t with number := .int n } }

/-- the tag kind chosen for a tag without one (`is_dummy_reference` is false without
parameterization) -/
def defaultKind (sk : Skel) (mt : String) (mn : String) (a : Attrs) : String :=
  if (resolve sk a.core mn).type = "CHOICE" then "EXPLICIT"
  else if mt = "IMPLICIT" then "IMPLICIT"
  else if mt = "EXPLICIT" then "EXPLICIT"
  else "IMPLICIT"

/-- the first half of `pre_process_tags_type`: `if 'tag' in td and 'kind' not in tag: …` -/
def kindAttrs (sk : Skel) (mt : String) (mn : String) (a : Attrs) : Attrs :=
  match a.tag with
  | none => a
  | some t =>
    match t.kind with
    | some _ => a
    | none => { a with tag := some { t with kind := some (defaultKind sk mt mn a) } }

def bumpBy (k : Option Nat) (n : Nat) : Option Nat :=
  match k with
  | none => none
  | some i => some (i + n)

mutual
  /-- `pre_process_tags_type` on a descriptor that is given the automatic tag number `k` first -/
  def tagDesc (sk : Skel) (mt mn : String) (k : Option Nat) : Desc → Desc
    | .mk a b => .mk (kindAttrs sk mt mn (numAttrs k a)) (tagBody sk mt mn b)
  termination_by structural d => d
  def tagBody (sk : Skel) (mt mn : String) : Body → Body
    | .leaf => .leaf
    | .members ms =>
      -- `if module_tags == 'AUTOMATIC' and not is_any_member_tagged(members): number = 0`
      .members (tagItems sk mt mn (if mt = "AUTOMATIC" ∧ anyTagged ms = false then some 0 else none) ms)
    | .element e => .element (tagDesc sk mt mn none e)
  termination_by structural b => b
  /-- the loop of `pre_process_tags_type_members` over the flattened member list -/
  def tagItems (sk : Skel) (mt mn : String) (k : Option Nat) : List Item → List Item
    | [] => []
    | .marker :: t => .marker :: tagItems sk mt mn k t
    | .compOf r :: t => .compOf r :: tagItems sk mt mn k t
    | .group g :: t => .group (tagDescs sk mt mn k g) :: tagItems sk mt mn (bumpBy k g.length) t
    | .desc d :: t => .desc (tagDesc sk mt mn k d) :: tagItems sk mt mn (bumpBy k 1) t
  termination_by structural l => l
  def tagDescs (sk : Skel) (mt mn : String) (k : Option Nat) : List Desc → List Desc
    | [] => []
    | d :: t => tagDesc sk mt mn k d :: tagDescs sk mt mn (bumpBy k 1) t
  termination_by structural l => l
end

/-! ### Pass 4: DEFAULT values (`pre_process_default_value`) -/

def hexDigit? (c : Char) : Option Nat :=
  if c = '0' then some 0 else if c = '1' then some 1 else if c = '2' then some 2
  else if c = '3' then some 3 else if c = '4' then some 4 else if c = '5' then some 5
  else if c = '6' then some 6 else if c = '7' then some 7 else if c = '8' then some 8
  else if c = '9' then some 9
  else if c = 'a' ∨ c = 'A' then some 10 else if c = 'b' ∨ c = 'B' then some 11
  else if c = 'c' ∨ c = 'C' then some 12 else if c = 'd' ∨ c = 'D' then some 13
  else if c = 'e' ∨ c = 'E' then some 14 else if c = 'f' ∨ c = 'F' then some 15
  else none

def nibbleBits (n : Nat) : List Bool :=
  [n / 8 % 2 = 1, n / 4 % 2 = 1, n / 2 % 2 = 1, n % 2 = 1]

/-- the bits of a string of hexadecimal digits, `none` if a character is not one -/
def hexBits? : List Char → Option (List Bool)
  | [] => some []
  | c :: t =>
    match hexDigit? c, hexBits? t with
    | some n, some r => some (nibbleBits n ++ r)
    | _, _ => none

/-- the bits of a string of binary digits -/
def binBits? : List Char → Option (List Bool)
  | [] => some []
  | c :: t =>
    match binBits? t with
    | none => none
    | some r => if c = '0' then some (false :: r) else if c = '1' then some (true :: r) else none

def decDigit? (c : Char) : Option Nat :=
  if c = '0' then some 0 else if c = '1' then some 1 else if c = '2' then some 2
  else if c = '3' then some 3 else if c = '4' then some 4 else if c = '5' then some 5
  else if c = '6' then some 6 else if c = '7' then some 7 else if c = '8' then some 8
  else if c = '9' then some 9 else none

def decDigits? : List Char → Nat → Option Nat
  | [], acc => some acc
  | c :: t, acc =>
    match decDigit? c with
    | some d => decDigits? t (acc * 10 + d)
    | none => none

/-- `int(s)` for a non-empty string of decimal digits -/
def decNat? (s : String) : Option Nat :=
  match s.toList with
  | [] => none
  | cs => decDigits? cs 0

/-- big-endian packing, the last octet padded with zero bits (`bitstruct.pack('u<n>', …)`) -/
def packAux : Nat → Nat → List Bool → List Nat
  | _, 0, [] => []
  | acc, cnt + 1, [] => [acc * 2 ^ (8 - (cnt + 1))]
  | acc, cnt, b :: t =>
    let acc' := 2 * acc + (if b then 1 else 0)
    if cnt = 7 then acc' :: packAux 0 0 t else packAux acc' (cnt + 1) t

def packBits (bits : List Bool) : List Nat := packAux 0 0 bits

def stripTrailingFalse : List Bool → List Bool
  | [] => []
  | b :: t =>
    match stripTrailingFalse t with
    | [] => if b then [true] else []
    | r => b :: r

/-- pad a digit string to even length with a trailing '0' -/
def padEven (cs : List Char) : List Char :=
  if cs.length % 2 = 1 then cs ++ ['0'] else cs

/-- pad a bit string to a multiple of 8 with zeros -/
def padOctets (bs : List Bool) : List Bool :=
  bs ++ List.replicate ((8 - bs.length % 8) % 8) false

/-- `dict(named_bits)[name]`: the LAST pair with the name -/
def findLast? (k : String) : List (String × String) → Option String
  | [] => none
  | (a, b) :: t =>
    match findLast? k t with
    | some r => some r
    | none => if a = k then some b else none

/-- positions of the named bits of a `{ a, b }` default -/
def namedPositions? (nb : List (String × String)) : List String → Option (List Nat)
  | [] => some []
  | n :: t =>
    match findLast? n nb, namedPositions? nb t with
    | some v, some r =>
      match decNat? v with
      | some p => some (p :: r)
      | none => none
    | _, _ => none

def maxPlus1 : List Nat → Nat
  | [] => 0
  | p :: t => Nat.max (p + 1) (maxPlus1 t)

def elemNat (k : Nat) : List Nat → Bool
  | [] => false
  | a :: t => if a = k then true else elemNat k t

def rangeBits (ps : List Nat) : Nat → List Bool
  | 0 => []
  | n + 1 => rangeBits ps n ++ [elemNat n ps]

/-- `pre_process_default_value_bit_string`; `none` where Python raises -/
def bitStringDefault? (r : Core) : DefVal → Option DefVal
  | .bits b n => some (.bits b n)                              -- "Already pre-processed."
  | .names l =>
    match r.namedBits with
    | none => none
    | some nb =>
      match namedPositions? nb l with
      | none => none
      | some ps =>
        let n := maxPlus1 ps
        some (.bits (packBits (rangeBits ps n)) n)
  | .str s =>
    match s.toList with
    | '0' :: 'x' :: rest =>
      match hexBits? (padEven rest) with
      | none => none
      | some bs =>
        let bs := stripTrailingFalse bs
        some (.bits (packBits bs) bs.length)
    | '0' :: 'b' :: rest =>
      match binBits? rest with
      | none => none
      | some bs => some (.bits (packBits bs) bs.length)
    | _ => none
  | _ => none

/-- `pre_process_default_value_octet_string`; `none` where Python raises -/
def octetStringDefault? : DefVal → Option DefVal
  | .bytes b => some (.bytes b)                                -- "Already pre-processed."
  | .str s =>
    match s.toList with
    | '0' :: 'b' :: rest =>
      match binBits? rest with
      | none => none
      | some bs => some (.bytes (packBits (padOctets bs)))
    | '0' :: 'x' :: rest =>
      match hexBits? (padEven rest) with
      | none => none
      | some bs => some (.bytes (packBits bs))
    | _ => some (.str s)
  | _ => none

/-- `for item in values: if item is marker: continue; key, value = item; if key == default: … break` -/
def enumValueOf? (name : String) : List EnumItem → Option EnumVal
  | [] => none
  | .marker :: t => enumValueOf? name t
  | .item k v :: t => if k = name then some v else enumValueOf? name t

/-- `if value == member['default'] and isinstance(value, int): member['default'] = key; break` -/
def enumNameOf? (value : Int) : List EnumItem → Option String
  | [] => none
  | .marker :: t => enumNameOf? value t
  | .item k (.int v) :: t => if v = value then some k else enumNameOf? value t
  | .item _ (.ref _) :: t => enumNameOf? value t

/-- `isinstance(default, int)` and its value (a Python `bool` is an `int`) -/
def DefVal.asInt? : DefVal → Option Int
  | .int i => some i
  | .bool b => some (if b then 1 else 0)
  | _ => none

/-- the two ENUMERATED clauses: with `numeric_enums` a name becomes its number; without, an
integer (left by an earlier numeric compile) becomes the first name with that number -/
def enumDefault (numeric : Bool) (r : Core) (v : DefVal) : DefVal :=
  match r.values with
  | none => v
  | some vals =>
    if numeric then
      match v with
      | .str s =>
        match enumValueOf? s vals with
        | some (.int i) => .int i
        | some (.ref t) => .str t        -- the value reference itself becomes the default
        | none => v
      | _ => v
    else
      match v.asInt? with
      | none => v
      | some i =>
        match enumNameOf? i vals with
        | some k => .str k
        | none => v

/-- the body of the member loop of `pre_process_default_value`, given the resolved member -/
def convDefault (numeric : Bool) (r : Core) (v : DefVal) : DefVal :=
  if r.type = "BIT STRING" then (bitStringDefault? r v).getD v
  else if r.type = "OCTET STRING" then (octetStringDefault? v).getD v
  else if r.type = "BOOLEAN" then
    (match v with
     | .str s => if s = "TRUE" then .bool true else if s = "FALSE" then .bool false else v
     | _ => v)
  else if r.type = "ENUMERATED" then enumDefault numeric r v
  else v

def convAttrs (sk : Skel) (numeric : Bool) (mn : String) (a : Attrs) : Attrs :=
  match a.default with
  | none => a
  | some v => { a with default := some (convDefault numeric (resolve sk a.core mn) v) }

def isSeqOrSet (t : String) : Bool := t = "SEQUENCE" ∨ t = "SET"

mutual
  /-- `get_type_descriptors(…, ['SEQUENCE', 'SET'])` followed by the member loop: the DEFAULT of a
  descriptor is converted iff it is a member (directly, or inside a `[[ ]]` group: the loop runs over
  `flatten(members)` since the repair e7652f0) of a descriptor whose 'type' is SEQUENCE or SET (`conv`) -/
  def defDesc (sk : Skel) (numeric : Bool) (mn : String) (conv : Bool) : Desc → Desc
    | .mk a b => .mk (if conv then convAttrs sk numeric mn a else a) (defBody sk numeric mn (isSeqOrSet a.type) b)
  termination_by structural d => d
  def defBody (sk : Skel) (numeric : Bool) (mn : String) (c : Bool) : Body → Body
    | .leaf => .leaf
    | .members ms => .members (defItems sk numeric mn c ms)
    | .element e => .element (defDesc sk numeric mn false e)
  termination_by structural b => b
  def defItems (sk : Skel) (numeric : Bool) (mn : String) (c : Bool) : List Item → List Item
    | [] => []
    | i :: t => defItem sk numeric mn c i :: defItems sk numeric mn c t
  termination_by structural l => l
  def defItem (sk : Skel) (numeric : Bool) (mn : String) (c : Bool) : Item → Item
    | .marker => .marker
    | .compOf r => .compOf r
    | .group g => .group (defDescs sk numeric mn c g)
    | .desc d => .desc (defDesc sk numeric mn c d)
  termination_by structural i => i
  def defDescs (sk : Skel) (numeric : Bool) (mn : String) (c : Bool) : List Desc → List Desc
    | [] => []
    | d :: t => defDesc sk numeric mn c d :: defDescs sk numeric mn c t
  termination_by structural l => l
end

/-! ### The rewrite of one module and of the dictionary -/

def mapSnd {α : Type} (f : α → α) : List (String × α) → List (String × α)
  | [] => []
  | (k, v) :: t => (k, f v) :: mapSnd f t

/-- apply `f` to the `i`-th entry -/
def modifyAt {α : Type} (f : α → α) : Nat → List (String × α) → List (String × α)
  | _, [] => []
  | 0, (k, v) :: t => (k, f v) :: t
  | i + 1, x :: t => x :: modifyAt f i t

def Module.mapTypes (f : Desc → Desc) (m : Module) : Module :=
  { m with types := mapSnd f m.types }

def Module.modifyType (k : Nat) (f : Desc → Desc) (m : Module) : Module :=
  { m with types := modifyAt f k m.types }

namespace Preprocess

/-- one step of the loop of `pre_process_components_of` over the type assignments of module `i`
(named `mn`): assignment `k` is expanded against the CURRENT dictionary -/
def compOfStep (i : Nat) (mn : String) (spec : Spec) (k : Nat) : Spec :=
  modifyAt (Module.modifyType k (compOfType spec mn)) i spec

def compOfModule (i : Nat) (mn : String) (ntypes : Nat) (spec : Spec) : Spec :=
  (List.range ntypes).foldl (compOfStep i mn) spec

def extModule (i : Nat) (spec : Spec) : Spec :=
  modifyAt (Module.mapTypes extDesc) i spec

def tagsModule (i : Nat) (mn : String) (mt : String) (spec : Spec) : Spec :=
  modifyAt (Module.mapTypes (tagDesc (skel spec) mt mn none)) i spec

def defaultsModule (numeric : Bool) (i : Nat) (mn : String) (spec : Spec) : Spec :=
  modifyAt (Module.mapTypes (defDesc (skel spec) numeric mn false)) i spec

/-- the body of the first loop of `Compiler.pre_process` for the `i`-th module -/
def procModule (numeric : Bool) (spec : Spec) (i : Nat) : Spec :=
  match spec[i]? with
  | none => spec
  | some (mn, m) =>
    let s1 := compOfModule i mn m.types.length spec
    let s2 := if m.extImplied then extModule i s1 else s1
    let s3 := tagsModule i mn (m.tags.getD "EXPLICIT") s2
    defaultsModule numeric i mn s3

/-- `Compiler(d, numeric_enums).pre_process()` -/
def run (numeric : Bool) (spec : Spec) : Spec :=
  (List.range spec.length).foldl (procModule numeric) spec

end Preprocess

end Asn1.SpecDict
