import Asn1Model.Schema
import Asn1Model.Uper
/-
  S-level specification of the Packed Encoding Rules, written clause by clause from
  ITU-T X.691.  Clause numbers are those of the 2002 edition, which the later editions (2008, 2015,
  2021) keep unchanged up to clause 24: 10 encoding procedures, 11 BOOLEAN, 12 INTEGER,
  13 ENUMERATED, 15 BIT STRING, 16 OCTET STRING, 17 NULL, 18 SEQUENCE, 19 SEQUENCE OF, 22 CHOICE;
  the restricted character string types are clause 27 of the 2002 edition (clause 30 in the
  editions that insert the IRI / time clauses), cited below as 27.x.
  The universe is the type/value universe of Schema.lean.

  NOTHING here is taken from asn1tools: the only things imported from `Uper.lean` are the error type
  (`Uper.Err`, so that the driver can print both) and the UTF-8 octets of a code point
  (`Uper.utf8Enc`, ISO/IEC 10646 Annex D; UTF-8 is not the subject of this property).  The basic
  "non-negative-binary-integer" (10.3) and "2's-complement-binary-integer" (10.4) encodings are
  `natToBits` / `natToBytesN` / `intToBytesN` of Prim.lean.

  Variant: `aligned = true` is BASIC-PER ALIGNED, `aligned = false` BASIC-PER UNALIGNED.
  Where BASIC-PER leaves an encoder's option the canonical choice is made (a DEFAULT component of
  the ROOT that equals its default is absent, as CANONICAL-PER and 18.5 (simple types) require),
  with one exception stated at `encAdds`.

  Positions.  In the ALIGNED variant an "octet-aligned bit-field" is preceded by zero to seven zero
  bits so that it starts at a multiple of eight bits counted from the start of the *complete
  encoding* it belongs to (10.1.2: production of the complete encoding from the field-list).
  Every function therefore takes `pos`, the number of bits already
  in the complete encoding; the contents of an open type (10.2) form a complete encoding of their
  own and start again at `pos = 0`.

  Universe restrictions that matter for reading the clauses:
  * no tags: CHOICE alternatives are indexed in textual order, which is the canonical order of 22.1
    under AUTOMATIC TAGS (the only environment the generators use);
  * no permitted-alphabet constraints: the effective alphabet of a known-multiplier string is the
    whole alphabet of its type;
  * no extension addition groups, no named bits, no SET, no REAL;
  * UTF8String is not a known-multiplier type: size constraints are not PER-visible (27.6).
-/
namespace Asn1.X691
open Asn1.Uper (Err)

abbrev EncM := Except Err

/-- the abstract value is not a value of the type: X.691 prescribes nothing -/
def invalid {α : Type} : EncM α := .error .encodeError

/-! ## Declarative sizes (10.3, 10.4, 10.5) -/

/-- the least `k ≥ start` with `p k`, looking at no more than `fuel + 1` candidates -/
def leastFrom (p : Nat → Bool) : (fuel : Nat) → (start : Nat) → Nat
  | 0, k => k
  | fuel + 1, k => if p k then k else leastFrom p fuel (k + 1)

/-- 10.5.6 / 10.5.7.1 "the minimum number of bits necessary to represent the range":
the least `w` with `range ≤ 2 ^ w` (`range ≤ 2 ^ range`, so the search always succeeds) -/
def minBits (range : Nat) : Nat := leastFrom (fun w => decide (range ≤ 2 ^ w)) range 0

/-- 10.3.6 minimum number of octets of a non-negative-binary-integer: the least `k ≥ 1` with
`n < 256 ^ k` (zero takes one octet) -/
def minOctets (n : Nat) : Nat := leastFrom (fun k => decide (n < 256 ^ k)) n 1

/-- `-(2 ^ (8k-1)) ≤ i < 2 ^ (8k-1)`, stated on naturals -/
def fits2c (k : Nat) (i : Int) : Bool :=
  if 0 ≤ i then decide (i.toNat < 2 ^ (8 * k - 1)) else decide ((-i - 1).toNat < 2 ^ (8 * k - 1))

/-- 10.4.6 minimum number of octets of a 2's-complement-binary-integer: the least `k ≥ 1` such
that `i` is in the range of a `k`-octet 2's complement number -/
def minOctets2c (i : Int) : Nat := leastFrom (fun k => fits2c k i) i.natAbs 1

/-! ## Alignment (10.1.2) and length determinants (10.9) -/

/-- zero bits inserted in front of an octet-aligned bit-field (ALIGNED variant only) -/
def pad (aligned : Bool) (pos : Nat) : Bits :=
  if aligned then List.replicate ((8 - pos % 8) % 8) false else []

/-- 10.9.3.6 – 10.9.3.8: the length octets written when `n` items remain, and the number of items
they announce: `n ≤ 127`: `0nnnnnnn`; `n < 16K`: `10nnnnnn nnnnnnnn`; otherwise `11mmmmmm` where
`m ∈ 1..4` is the largest number of 16K-blocks that fit ("the largest value for m allowed") -/
def lengthOctets (n : Nat) : Bits × Nat :=
  if n ≤ 127 then (false :: natToBits 7 n, n)
  else if n < 16384 then (true :: false :: natToBits 14 n, n)
  else
    let m := min 4 (n / 16384)
    (true :: true :: natToBits 6 m, m * 16384)

/-- 10.9.3.5 – 10.9.3.8 (and 10.9.4.2): `items` behind an unconstrained length determinant, with
the fragmentation procedure: each length determinant is octet-aligned in the ALIGNED variant; a
fragment of `m * 16K` items is followed by a further length determinant for the remaining items
(a single zero octet when nothing remains, 10.9.3.8.3).  `fuel` bounds the number of fragments. -/
def frag (aligned : Bool) : (fuel : Nat) → (pos : Nat) → List Bits → Bits
  | 0, _, _ => []
  | fuel + 1, pos, items =>
    let a := pad aligned pos
    let (hdr, k) := lengthOctets items.length
    let body := (items.take k).flatten
    if k < 16384 then a ++ hdr ++ body
    else a ++ hdr ++ body ++ frag aligned fuel (pos + a.length + hdr.length + body.length) (items.drop k)

def genLen (aligned : Bool) (pos : Nat) (items : List Bits) : Bits :=
  frag aligned (items.length / 16384 + 2) pos items

/-- a whole number of octets behind an unconstrained length determinant -/
def lenOctets (aligned : Bool) (pos : Nat) (octets : Bytes) : Bits :=
  genLen aligned pos (octets.map (natToBits 8))

/-- encode the items one after the other, threading the position -/
def seqM {α : Type} (f : Nat → α → EncM Bits) : Nat → List α → EncM Bits
  | _, [] => .ok []
  | pos, v :: r =>
    match f pos v with
    | .error e => .error e
    | .ok a =>
      match seqM f (pos + a.length) r with
      | .error e => .error e
      | .ok b => .ok (a ++ b)

/-- `frag` for items whose encoding depends on the position (SEQUENCE OF components) -/
def fragM {α : Type} (aligned : Bool) (f : Nat → α → EncM Bits) : (fuel : Nat) → (pos : Nat) → List α → EncM Bits
  | 0, _, _ => .ok []
  | fuel + 1, pos, items =>
    let a := pad aligned pos
    let (hdr, k) := lengthOctets items.length
    let p := pos + a.length + hdr.length
    match seqM f p (items.take k) with
    | .error e => .error e
    | .ok body =>
      if k < 16384 then .ok (a ++ hdr ++ body)
      else
        match fragM aligned f fuel (p + body.length) (items.drop k) with
        | .error e => .error e
        | .ok rest => .ok (a ++ hdr ++ body ++ rest)

def genLenM {α : Type} (aligned : Bool) (f : Nat → α → EncM Bits) (pos : Nat) (items : List α) : EncM Bits :=
  fragM aligned f (items.length / 16384 + 2) pos items

/-! ## Whole numbers (10.5 – 10.8) -/

/-- 10.5 constrained whole number for `range ≤ 64K` (`v = n - lb`, `range = ub - lb + 1`):
10.5.4 `range = 1`: empty; 10.5.6 UNALIGNED: bit-field of the minimum number of bits;
10.5.7.1 `range ≤ 255`: the same bit-field; 10.5.7.2 `range = 256`: one octet, octet-aligned;
10.5.7.3 `256 < range ≤ 64K`: two octets, octet-aligned. -/
def cwnSmall (aligned : Bool) (pos v range : Nat) : Bits :=
  if range ≤ 1 then []
  else if !aligned || range ≤ 255 then natToBits (minBits range) v
  else if range = 256 then pad aligned pos ++ natToBits 8 v
  else pad aligned pos ++ natToBits 16 v

/-- 10.5 constrained whole number, all ranges.  10.5.7.4 (ALIGNED, `range > 64K`, "the indefinite
length case"): `v` as a non-negative-binary-integer in the minimum number of octets `len`, in an
octet-aligned bit-field, preceded (12.2.6 a) by `len` as a constrained length determinant with
`lb = 1` and `ub` = the number of octets needed for `range - 1`; by 10.9.3.3 that is a constrained
whole number when `ub < 64K`, and an unconstrained length (10.9.3.5) otherwise. -/
def cwn (aligned : Bool) (pos v range : Nat) : Bits :=
  if !aligned || range ≤ 65536 then cwnSmall aligned pos v range
  else
    let len := minOctets v
    let ubLen := minOctets (range - 1)
    let octets := (natToBytesN len v).map (natToBits 8)
    if ubLen < 65536 then
      let l := cwnSmall aligned pos (len - 1) ubLen
      l ++ pad aligned (pos + l.length) ++ octets.flatten
    else genLen aligned pos octets

/-- 10.7 semi-constrained whole number `v = n - lb ≥ 0` with its length (12.2.6 b): minimum octets,
octet-aligned in the ALIGNED variant, behind an unconstrained length determinant -/
def semiConstrained (aligned : Bool) (pos v : Nat) : Bits :=
  lenOctets aligned pos (natToBytesN (minOctets v) v)

/-- 10.8 unconstrained whole number with its length (12.2.6 b): 2's complement, minimum octets -/
def unconstrained (aligned : Bool) (pos : Nat) (i : Int) : Bits :=
  lenOctets aligned pos (intToBytesN (minOctets2c i) i)

/-- 10.6 normally small non-negative whole number: `n ≤ 63`: bit 0 and a 6-bit field;
otherwise bit 1 and `n` as a semi-constrained whole number with `lb = 0` -/
def nsnnwn (aligned : Bool) (pos n : Nat) : Bits :=
  if n ≤ 63 then false :: natToBits 6 n
  else true :: semiConstrained aligned (pos + 1) n

/-- 10.9.3.4 normally small length `n = bits.length` followed by the `n` bits it counts (the
extension addition bitmap of 18.8): `1 ≤ n ≤ 64`: bit 0 and `n - 1` in 6 bits; otherwise bit 1 and
the unconstrained length of 10.9.3.5 – 10.9.3.8 (octet-aligned in the ALIGNED variant; with
fragmentation from 16K on).  `n = 0` never occurs (a bitmap is only sent when an addition is
present); it is given the general form. -/
def nsLength (aligned : Bool) (pos : Nat) (bits : Bits) : Bits :=
  let n := bits.length
  if 1 ≤ n ∧ n ≤ 64 then false :: natToBits 6 (n - 1) ++ bits
  else true :: genLen aligned (pos + 1) (bits.map fun b => [b])

/-! ## Complete encodings and open types (10.1, 10.2) -/

/-- 10.1.3: the complete encoding is a whole number of octets; an empty bit string becomes one
zero octet -/
def complete (bits : Bits) : Bytes := if bits.isEmpty then [0] else packBits bits

/-- 10.2: an open type field is the complete encoding of the value, as octets behind an
unconstrained length determinant (fragmented from 16K octets on) -/
def openType (aligned : Bool) (pos : Nat) (bits : Bits) : Bits :=
  lenOctets aligned pos (complete bits)

/-- consecutive open type fields -/
def openTypes (aligned : Bool) : Nat → List Bits → Bits
  | _, [] => []
  | pos, e :: r =>
    let o := openType aligned pos e
    o ++ openTypes aligned (pos + o.length) r

/-! ## Size-constrained types (10.9.3.3 / 10.9.4.1 and the type clauses) -/

/-- the contents of a type whose effective size constraint is `lo .. hi` (no extension marker):
* `ub < 64K` and `lb = ub`: no length determinant (15.9/15.10, 16.6/16.7, 19.5, 27.5.6);
* `ub < 64K`: the length as a constrained whole number `lb .. ub` (10.9.3.3, 10.9.4.1);
* otherwise the unconstrained length with fragmentation (10.9.3.5).
`alignFixed` / `alignVar`: is the contents field octet-aligned (ALIGNED variant) in the first /
second case.  In the third case it follows whole length octets and is aligned automatically. -/
def sizedM {α : Type} (aligned : Bool) (f : Nat → α → EncM Bits) (lo : Nat) (hi : Option Nat)
    (alignFixed alignVar : Bool) (pos : Nat) (items : List α) : EncM Bits :=
  let n := items.length
  if n < lo then invalid else
  match hi with
  | some ub =>
    if ub < n then invalid
    else if ub < 65536 then
      if lo = ub then
        let a := if alignFixed then pad aligned pos else []
        match seqM f (pos + a.length) items with
        | .error e => .error e
        | .ok body => .ok (a ++ body)
      else
        let l := cwn aligned pos (n - lo) (ub - lo + 1)
        let a := if alignVar then pad aligned (pos + l.length) else []
        match seqM f (pos + l.length + a.length) items with
        | .error e => .error e
        | .ok body => .ok (l ++ a ++ body)
    else genLenM aligned f pos items
  | none => genLenM aligned f pos items

/-- is a length inside the extension root of a size constraint -/
def inRoot (c : SizeC) (n : Nat) : Bool :=
  decide (c.lo ≤ n) && (match c.hi with | some ub => decide (n ≤ ub) | none => true)

/-- 15.6, 16.3, 19.4, 27.4: with an extension marker in the size constraint a single bit says
whether the length is in the extension root; if not, the encoding is as if there were no size
constraint (an unconstrained length) -/
def extSizedM {α : Type} (aligned : Bool) (f : Nat → α → EncM Bits) (c : SizeC)
    (alignFixed alignVar : Bool) (pos : Nat) (items : List α) : EncM Bits :=
  if c.ext then
    if inRoot c items.length then
      match sizedM aligned f c.lo c.hi alignFixed alignVar (pos + 1) items with
      | .error e => .error e
      | .ok b => .ok (false :: b)
    else
      match genLenM aligned f (pos + 1) items with
      | .error e => .error e
      | .ok b => .ok (true :: b)
  else sizedM aligned f c.lo c.hi alignFixed alignVar pos items

/-- an item whose encoding does not depend on the position -/
def leaf : Nat → Bits → EncM Bits := fun _ b => .ok b

/-! ## INTEGER (clause 12) -/

def encInteger (aligned : Bool) (c : IntC) (pos : Nat) (i : Int) : EncM Bits :=
  -- 12.2: the constraint without its extension marker
  let root (pos : Nat) : EncM Bits :=
    match c.lo, c.hi with
    | some lb, some ub =>          -- 12.2.1 / 12.2.2 constrained whole number
      if lb ≤ i ∧ i ≤ ub then .ok (cwn aligned pos (i - lb).toNat ((ub - lb).toNat + 1)) else invalid
    | some lb, none =>             -- 12.2.3 semi-constrained whole number
      if lb ≤ i then .ok (semiConstrained aligned pos (i - lb).toNat) else invalid
    | none, some ub =>             -- 12.2.4 no lower bound: unconstrained whole number
      if i ≤ ub then .ok (unconstrained aligned pos i) else invalid
    | none, none => .ok (unconstrained aligned pos i)
  if c.ext then
    -- 12.1: one bit; a value outside the root is an unconstrained whole number
    let inside := (match c.lo with | some lb => decide (lb ≤ i) | none => true) &&
                  (match c.hi with | some ub => decide (i ≤ ub) | none => true)
    if inside then
      match root (pos + 1) with
      | .error e => .error e
      | .ok b => .ok (false :: b)
    else .ok (true :: unconstrained aligned (pos + 1) i)
  else root pos

/-! ## ENUMERATED (clause 13) -/

/-- 13.1: "sorted into ascending order by their enumeration value" (stable insertion sort) -/
def insertAsc (x : String × Int) : List (String × Int) → List (String × Int)
  | [] => [x]
  | y :: r => if x.2 < y.2 then x :: y :: r else y :: insertAsc x r

def sortAsc (xs : List (String × Int)) : List (String × Int) := xs.foldr insertAsc []

/-- position of the first item called `name` -/
def indexOfName (name : String) : List String → Option Nat
  | [] => none
  | n :: r => if n == name then some 0 else (indexOfName name r).map (· + 1)

/-- 13.2: the enumeration index in the sorted root as a constrained whole number `0 .. count-1`;
13.3: with an extension marker one bit, and an addition as the normally small non-negative whole
number of its index among the additions (13.1: assigned in order of definition) -/
def encEnumerated (aligned : Bool) (root : List (String × Int)) (ext : Option (List (String × Int)))
    (pos : Nat) (name : String) : EncM Bits :=
  let sroot := sortAsc root
  match ext with
  | none =>
    match indexOfName name (sroot.map (·.1)) with
    | some i => .ok (cwn aligned pos i sroot.length)
    | none => invalid
  | some adds =>
    match indexOfName name (sroot.map (·.1)) with
    | some i => .ok (false :: cwn aligned (pos + 1) i sroot.length)
    | none =>
      match indexOfName name (adds.map (·.1)) with
      | some i => .ok (true :: nsnnwn aligned (pos + 1) i)
      | none => invalid

/-! ## Known-multiplier character strings (clause 27) -/

/-- the characters of the unconstrained type in canonical order (27.5.3: ascending value) -/
def alphabet : StrKind → List Nat
  | .numeric => 32 :: (List.range 10).map (· + 48)
  | .printable =>
    [32, 39, 40, 41, 43, 44, 45, 46, 47] ++ (List.range 10).map (· + 48) ++ [58, 61, 63] ++
      (List.range 26).map (· + 65) ++ (List.range 26).map (· + 97)
  | .visible => (List.range 95).map (· + 32)
  | .ia5 => List.range 128
  | .utf8 => []

/-- 27.5.2: `B` = least with `2^B ≥ N`; `B2` = least power of two `≥ B`; `b` = `B2` in the ALIGNED
variant and `B` in the UNALIGNED one -/
def charBits (aligned : Bool) (k : StrKind) : Nat :=
  let B := minBits (alphabet k).length
  if aligned then 2 ^ leastFrom (fun j => decide (B ≤ 2 ^ j)) B 0 else B

/-- 27.5.4: if the largest character value fits in `b` bits every character is encoded as its own
value, otherwise as its index in the canonical order -/
def charValue (aligned : Bool) (k : StrKind) (cp : Nat) : EncM Nat :=
  let al := alphabet k
  let b := charBits aligned k
  if al.contains cp then
    if al.foldl max 0 ≤ 2 ^ b - 1 then .ok cp
    else match al.idxOf? cp with
      | some i => .ok i
      | none => invalid
  else invalid

/-- 27.5.6 / 27.5.7 alignment of the field of characters in the ALIGNED variant.
27.5.6 (`aub = alb < 64K`, no length): not octet-aligned iff `aub * b ≤ 16`.
27.5.7 (with a length): not octet-aligned iff `aub * b < 16`.  (The NOTE to 27.5.7 points out
that the two clauses differ for exactly 16 bits.) -/
def strAlignFixed (ub b : Nat) : Bool := decide (ub * b > 16)
def strAlignVar (ub b : Nat) : Bool := decide (ub * b ≥ 16)

def encKnownMultiplier (aligned : Bool) (k : StrKind) (c : SizeC) (pos : Nat) (cps : List Nat) : EncM Bits :=
  let b := charBits aligned k
  match cps.mapM (charValue aligned k) with
  | .error e => .error e
  | .ok vals =>
    let ub := c.hi.getD 0
    extSizedM aligned leaf c (strAlignFixed ub b) (strAlignVar ub b) pos (vals.map (natToBits b))

/-- 27.6: the other restricted character string types (here UTF8String): the octets of the BER
contents behind an unconstrained length determinant; constraints are not PER-visible -/
def encUtf8 (aligned : Bool) (pos : Nat) (cps : List Nat) : EncM Bits :=
  if cps.all (fun cp => decide (cp < 0x110000) && !(decide (0xd800 ≤ cp) && decide (cp < 0xe000))) then
    .ok (lenOctets aligned pos (cps.flatMap Uper.utf8Enc))
  else invalid

/-! ## OCTET STRING (clause 16) and BIT STRING (clause 15) -/

/-- 16.6 fixed length of at most two octets: not octet-aligned; 16.7 longer fixed length below 64K:
octet-aligned, no length; 16.8 otherwise a length and an octet-aligned field -/
def encOctetString (aligned : Bool) (c : SizeC) (pos : Nat) (data : Bytes) : EncM Bits :=
  if data.all (· < 256) then
    extSizedM aligned leaf c (decide (c.hi.getD 0 > 2)) true pos (data.map (natToBits 8))
  else invalid

/-- 15.9 fixed length of at most sixteen bits: not octet-aligned; 15.10 longer fixed length below
64K: octet-aligned, no length; 15.11 otherwise a length and an octet-aligned field.  (No named
bits in this universe, so 15.2 – 15.5 do not apply.) -/
def encBitString (aligned : Bool) (c : SizeC) (pos : Nat) (data : Bytes) (n : Nat) : EncM Bits :=
  if n ≤ 8 * data.length then
    extSizedM aligned leaf c (decide (c.hi.getD 0 > 16)) true pos
      (((bytesToBits data).take n).map fun b => [b])
  else invalid

/-! ## SEQUENCE preamble (18.2, 18.3) -/

/-- one bit per OPTIONAL / DEFAULT component of the root: 1 = the encoding of the component is
present.  18.5: a DEFAULT component equal to its default value is absent. -/
def preamble : Members → List (String × Val) → Bits
  | .nil, _ => []
  | .cons name p t rest, fs =>
    let r := preamble rest fs
    match p with
    | .mandatory => r
    | .optional => (lookup name fs).isSome :: r
    | .default d =>
      match lookup name fs with
      | some v => (!(isDefault t v d)) :: r
      | none => false :: r

/-! ## The encoder -/

mutual
  /-- the field-list of `v : t` as bits, `pos` bits into the current complete encoding -/
  def enc (aligned : Bool) : Ty → Nat → Val → EncM Bits
    | .boolean, _, .bool b => .ok [b]                                -- 11: a single bit
    | .null, _, .null => .ok []                                      -- 17: no encoding
    | .integer c, pos, .int i => encInteger aligned c pos i
    | .enumerated root ext, pos, .enum name => encEnumerated aligned root ext pos name
    | .octetString c, pos, .bytes data => encOctetString aligned c pos data
    | .bitString c, pos, .bits data n => encBitString aligned c pos data n
    | .charString .utf8 _, pos, .str cps => encUtf8 aligned pos cps
    | .charString k c, pos, .str cps => encKnownMultiplier aligned k c pos cps
    | .sequence root extensible adds, pos, .record fs =>
      let pre := preamble root fs
      -- 18.3: a preamble of 64K bits or more gets a length determinant and is fragmented.  Not
      -- specified here (no closed term of that size can be examined): outside the scope of S.
      if pre.length ≥ 65536 then .error .unmodelled else
      let x : Nat := if extensible then 1 else 0
      match encRoot aligned root fs (pos + x + pre.length) with
      | .error e => .error e
      | .ok body =>
        if extensible then
          match encAdds aligned adds fs with
          | .error e => .error e
          | .ok (bitmap, encs) =>
            if bitmap.any id then
              -- 18.1 extension bit 1; 18.8 the number of additions as a normally small length and
              -- the bitmap; 18.9 every addition present as an open type
              let p := pos + 1 + pre.length + body.length
              let nl := nsLength aligned p bitmap
              .ok (true :: (pre ++ body ++ nl ++ openTypes aligned (p + nl.length) encs))
            else .ok (false :: (pre ++ body))
        else .ok (pre ++ body)
    | .sequenceOf e c, pos, .list vs =>
      -- 19.5 fixed number of components: no length; 19.6 otherwise a length determinant
      extSizedM aligned (enc aligned e) c false false pos vs
    | .choice root extensible adds, pos, .choice name v =>
      let x : Nat := if extensible then 1 else 0
      match indexOfName name root.names with
      | some idx =>
        -- 22.4 / 22.6: the index among the root alternatives as a constrained whole number
        -- `0 .. n-1` (nothing when there is one alternative); 22.5 extension bit 0
        let ix := cwn aligned (pos + x) idx root.length
        match encAlt aligned root name (pos + x + ix.length) v with
        | some (.ok body) => .ok ((if extensible then [false] else []) ++ ix ++ body)
        | some (.error e) => .error e
        | none => invalid
      | none =>
        if extensible then
          match indexOfName name adds.names with
          | some idx =>
            -- 22.5 extension bit 1; 22.8 the index among the additions as a normally small
            -- non-negative whole number, then the alternative as an open type
            match encAlt aligned adds name 0 v with
            | some (.ok body) =>
              let ix := nsnnwn aligned (pos + 1) idx
              .ok (true :: (ix ++ openType aligned (pos + 1 + ix.length) body))
            | some (.error e) => .error e
            | none => invalid
          | none => invalid
        else invalid
    | _, _, _ => invalid

  /-- 18.4 / 18.6: the components of the extension root in order; absent OPTIONAL / DEFAULT
  components (and DEFAULT components equal to their default) contribute nothing -/
  def encRoot (aligned : Bool) : Members → List (String × Val) → Nat → EncM Bits
    | .nil, _, _ => .ok []
    | .cons name p t rest, fs, pos =>
      let here : EncM Bits :=
        match lookup name fs with
        | some v =>
          match p with
          | .default d => if isDefault t v d then .ok [] else enc aligned t pos v
          | _ => enc aligned t pos v
        | none =>
          match p with
          | .mandatory => invalid
          | _ => .ok []
      match here with
      | .error e => .error e
      | .ok a =>
        match encRoot aligned rest fs (pos + a.length) with
        | .error e => .error e
        | .ok b => .ok (a ++ b)

  /-- 18.7 – 18.9: the presence bitmap of the extension additions and, for those present, their
  encodings (each one the start of a complete encoding of its own, `pos = 0`).
  * An addition that is present in the abstract value is encoded even if it is a DEFAULT component
    equal to its default: 18.5 speaks about the root preamble; for additions BASIC-PER is read as
    leaving this to the encoder.  (Reading uncertain; chosen so that it is NOT a finding.)
  * A mandatory addition may only be absent when every later addition is absent too (the value
    then belongs to an earlier version of the type); otherwise the value is invalid. -/
  def encAdds (aligned : Bool) : Members → List (String × Val) → EncM (Bits × List Bits)
    | .nil, _ => .ok ([], [])
    | .cons name p t rest, fs =>
      match encAdds aligned rest fs with
      | .error e => .error e
      | .ok (bitmap, encs) =>
        match lookup name fs with
        | some v =>
          match enc aligned t 0 v with
          | .error e => .error e
          | .ok e => .ok (true :: bitmap, e :: encs)
        | none =>
          match p with
          | .mandatory => if bitmap.any id then invalid else .ok (false :: bitmap, encs)
          | _ => .ok (false :: bitmap, encs)

  /-- the encoding of the alternative called `name` -/
  def encAlt (aligned : Bool) : Alts → String → Nat → Val → Option (EncM Bits)
    | .nil, _, _, _ => none
    | .cons n t rest, name, pos, v =>
      if n == name then some (enc aligned t pos v) else encAlt aligned rest name pos v
end

/-- 10.1: the complete encoding of an outermost value -/
def encode (aligned : Bool) (t : Ty) (v : Val) : EncM Bytes :=
  match enc aligned t 0 v with
  | .ok bits => .ok (complete bits)
  | .error e => .error e

/-! # Deviations of asn1tools from the specification above

`devs aligned t v` names the KINDS of deviation of the code (`codecs/per.py`, `codecs/uper.py`, as
modelled by `Per.lean` / `Uper.lean`) from `enc aligned t · v` that the encoding of `v : t` runs
into.  The predicates are computed from the type and the value (and the specification) only, never
from the code models.  Names prefixed `aligned-` concern the ALIGNED variant only; `scope:` marks a
limit of the specification, not a deviation.  Some predicates are conservative: they flag a code
path that deviates for some position / value, not only the values for which the bits differ.

* `semi-constrained-integer`   `INTEGER (lb..MAX)` is written as an unconstrained whole number
                               (2's complement of the value) instead of the offset from `lb`
                               (flagged only when the octets differ);
* `unfragmented-length`        a length determinant ≥ 16K written without fragmentation (10.9.3.8):
                               octet count of an unconstrained INTEGER, OCTET STRING / SEQUENCE OF
                               outside an extensible root, open types, index octets of 10.6.2;
* `size-extension-unimplemented`  BIT STRING / known-multiplier string with a size outside its
                               extensible root: `NotImplementedError` (or garbage);
* `ext-open-bound`             `(lb..MAX, ...)`: `TypeError`;
* `empty-complete-encoding`    an empty open type / outermost value is written with no octet at
                               all instead of the single zero octet of 10.1.3;
* `normally-small-length-unsupported`  more than 127 extension additions: `NotImplementedError`;
* `addition-error-swallowed`   (ill-typed values only) an invalid extension addition is silently
                               dropped instead of rejected;
* `aligned-enum-index`         ENUMERATED with ≥ 256 root items: the index is not octet-aligned
                               (10.5.7.2 – 10.5.7.4);
* `aligned-normally-small-unaligned`  10.6.2 numbers ≥ 64 and 10.9.3.4 lengths > 64 are written
                               without the octet alignment of their length determinant;
* `aligned-string-alignment`   known-multiplier strings with a variable size are aligned when
                               `ub > 1` (and the string is not empty) instead of `ub * b ≥ 16`;
* `aligned-empty-string-alignment`  the same for the EMPTY string, where the only difference is
                               whether a zero-length octet-aligned field causes padding (the
                               standard's reading is uncertain here);
* `aligned-length-of-length`   INTEGER range (or CHOICE root) of more than 2^1024 values: the
                               length of the length is written in two aligned octets instead of
                               8 bits;
* `aligned-fragment-length-unaligned`  SEQUENCE OF with ≥ 16K components: the length determinants
                               after the first fragment are not octet-aligned.
-/

/-- an open type field holding the complete encoding of `e` (`none`: not encodable) -/
def devsOpen (e : EncM Bits) : List String :=
  match e with
  | .ok bits =>
    (if bits.isEmpty then ["empty-complete-encoding"] else []) ++
    (if (complete bits).length ≥ 16384 then ["unfragmented-length"] else [])
  | .error _ => []

/-- 10.6 index of an extension addition (ENUMERATED item / CHOICE alternative) -/
def devsNsnnwn (aligned : Bool) (idx : Nat) : List String :=
  (if aligned ∧ idx ≥ 64 then ["aligned-normally-small-unaligned"] else []) ++
  (if idx ≥ 64 ∧ minOctets idx ≥ 16384 then ["unfragmented-length"] else [])

def devsInteger (aligned : Bool) (c : IntC) (i : Int) : List String :=
  match c.lo, c.hi with
  | some lb, some ub =>
    if lb ≤ i ∧ i ≤ ub then
      (if aligned ∧ (ub - lb).toNat + 1 > 65536 ∧ minOctets (ub - lb).toNat > 128
       then ["aligned-length-of-length"] else [])
    else if c.ext ∧ minOctets2c i ≥ 16384 then ["unfragmented-length"] else []
  | some lb, none =>
    if c.ext then ["ext-open-bound"]
    else if lb ≤ i then
      (if natToBytesN (minOctets (i - lb).toNat) (i - lb).toNat != intToBytesN (minOctets2c i) i
       then ["semi-constrained-integer"]
       else if minOctets2c i ≥ 16384 then ["unfragmented-length"] else [])
    else []
  | none, _ =>
    if c.ext then ["ext-open-bound"]
    else if minOctets2c i ≥ 16384 then ["unfragmented-length"] else []

def devsEnumerated (aligned : Bool) (root : List (String × Int)) (ext : Option (List (String × Int)))
    (name : String) : List String :=
  match indexOfName name ((sortAsc root).map (·.1)) with
  | some _ => if aligned ∧ root.length ≥ 256 then ["aligned-enum-index"] else []
  | none =>
    match ext with
    | some adds =>
      match indexOfName name (adds.map (·.1)) with
      | some i => devsNsnnwn aligned i
      | none => []
    | none => []

/-- an extensible size constraint; `unimpl`: the code does not implement sizes outside the root -/
def devsSize (c : SizeC) (n : Nat) (unimpl : Bool) : List String :=
  if c.ext then
    if c.hi.isNone then ["ext-open-bound"]
    else if inRoot c n then []
    else if unimpl then ["size-extension-unimplemented"]
    else if n ≥ 16384 then ["unfragmented-length"] else []
  else []

def devsKnownMultiplier (aligned : Bool) (k : StrKind) (c : SizeC) (n : Nat) : List String :=
  devsSize c n true ++
  (match c.hi with
   | some ub =>
     if aligned ∧ ub < 65536 ∧ c.lo ≠ ub ∧ inRoot c n then
       let b := charBits aligned k
       if strAlignVar ub b != (decide (ub > 1) && decide (n > 0)) then
         (if n = 0 then ["aligned-empty-string-alignment"] else ["aligned-string-alignment"])
       else []
     else []
   | none => [])

mutual
  def devs (aligned : Bool) : Ty → Val → List String
    | .integer c, .int i => devsInteger aligned c i
    | .enumerated root ext, .enum name => devsEnumerated aligned root ext name
    | .octetString c, .bytes data => devsSize c data.length false
    | .bitString c, .bits _ n => devsSize c n true
    | .charString .utf8 _, _ => []
    | .charString k c, .str cps => devsKnownMultiplier aligned k c cps.length
    | .sequence root extensible adds, .record fs =>
      (if (preamble root fs).length ≥ 65536 then ["scope:preamble-64k"] else []) ++
      devsRoot aligned root fs ++
      (if extensible then
        (match encAdds aligned adds fs with
         | .error _ => ["addition-error-swallowed"]
         | .ok (bitmap, _) =>
           if bitmap.any id then
             (if adds.length > 127 then ["normally-small-length-unsupported"] else []) ++
             (if aligned ∧ adds.length > 64 then ["aligned-normally-small-unaligned"] else [])
           else []) ++
        devsAdds aligned adds fs
       else [])
    | .sequenceOf e c, .list vs =>
      devsSize c vs.length false ++
      (if aligned ∧ vs.length ≥ 16384 ∧ (c.hi.getD 65536 ≥ 65536 ∨ (c.ext ∧ !inRoot c vs.length))
       then ["aligned-fragment-length-unaligned"] else []) ++
      vs.flatMap (devs aligned e)
    | .choice root extensible adds, .choice name v =>
      match indexOfName name root.names with
      | some _ =>
        (if aligned ∧ root.length > 65536 ∧ minOctets (root.length - 1) > 128
         then ["aligned-length-of-length"] else []) ++
        devsAlt aligned root name v false
      | none =>
        if extensible then
          match indexOfName name adds.names with
          | some idx => devsNsnnwn aligned idx ++ devsAlt aligned adds name v true
          | none => []
        else []
    | _, _ => []

  /-- the root components that are encoded -/
  def devsRoot (aligned : Bool) : Members → List (String × Val) → List String
    | .nil, _ => []
    | .cons name p t rest, fs =>
      (match lookup name fs with
       | some v =>
         (match p with
          | .default d => if isDefault t v d then [] else devs aligned t v
          | _ => devs aligned t v)
       | none => []) ++ devsRoot aligned rest fs

  /-- the extension additions that are present: each one is an open type -/
  def devsAdds (aligned : Bool) : Members → List (String × Val) → List String
    | .nil, _ => []
    | .cons name _ t rest, fs =>
      (match lookup name fs with
       | some v => devs aligned t v ++ devsOpen (enc aligned t 0 v)
       | none => []) ++ devsAdds aligned rest fs

  def devsAlt (aligned : Bool) : Alts → String → Val → Bool → List String
    | .nil, _, _, _ => []
    | .cons n t rest, name, v, isOpen =>
      if n == name then
        devs aligned t v ++ (if isOpen then devsOpen (enc aligned t 0 v) else [])
      else devsAlt aligned rest name v isOpen
end

/-- the deviation names (without repetitions) for the complete encoding of an outermost value -/
def deviations (aligned : Bool) (t : Ty) (v : Val) : List String :=
  (devs aligned t v ++
    (match enc aligned t 0 v with
     | .ok bits => if bits.isEmpty then ["empty-complete-encoding"] else []
     | .error _ => [])).eraseDups

end Asn1.X691
