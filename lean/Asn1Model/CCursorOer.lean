import Asn1Model.CCursor
/-
  Executable model of the C HELPER LIBRARY that asn1tools' OER C generator emits into every
  generated source file (`/repo/asn1tools/source/c/oer_functions.py`, plus `ENCODER_ABORT` /
  `DECODER_ABORT` from `/repo/asn1tools/source/c/utils.py`), and of the generation-time helper
  `get_length_determinant_length` of `/repo/asn1tools/source/c/oer.py` (`staticLenDetLen`).

  Same conventions as `Asn1Model/CCursor.lean` (statement by statement, LP64, little endian x86-64):
  every memory access through the checked accessors of `Asn1.CCursor.Mem`, every shift through a
  checked shift, `ssize_t` arithmetic through `ssz`, uninitialised automatic objects as explicit
  `junk` parameters (`Junk`), loops as structural recursion over the trip count, the `do … while`
  loop of `decoder_read_tag` over fuel.

  The OER cursor counts BYTES: `size`/`pos` are byte counts (negative error code once latched).

  `float`/`double` are modelled by their object representation (`UInt32`/`UInt64`); the
  `memcpy(&i32, &value, sizeof(i32))` type pun is the identity on it.

  One place of the C text has UNSPECIFIED evaluation order (C99 6.5 §3): case 3 of
  `decoder_read_length_determinant` evaluates
  `((uint32_t)decoder_read_uint8(self_p) << 16) | decoder_read_uint16(self_p)`, two calls with side
  effects on `*self_p` as operands of one `|`.  The model takes the left operand first (what gcc
  and clang do; the differential test confirms it); `readLengthDeterminantRL` is the other
  permitted order.
-/
namespace Asn1.CCursorOer
open Asn1.CCursor

/-- formation of the pointer `&m[i]` for an `ssize_t` index (allowed up to one past the end) -/
def ptrI (m : Mem) (i : Int) : C Unit :=
  if i < 0 then .error .outOfBounds else m.ptr i.toNat

/-! ### pure helpers -/

/-- `enumerated_value_length` -/
def enumeratedValueLength (value : Int32) : UInt8 :=
  let v := value.toInt
  if 0 ≤ v ∧ v < 128 then 0
  else if -128 ≤ v ∧ v < 128 then 1
  else if -32768 ≤ v ∧ v < 32768 then 2
  else if -8388608 ≤ v ∧ v < 8388608 then 3
  else 4

/-- `length_determinant_length` (the RUN-TIME function of the generated C code) -/
def lengthDeterminantLength (value : UInt32) : UInt32 :=
  if value.toNat < 128 then 1
  else if value.toNat < 256 then 2
  else if value.toNat < 65536 then 3
  else if value.toNat < 16777216 then 4
  else 5

/-- `minimum_uint_length` -/
def minimumUintLength (value : UInt32) : UInt8 :=
  if value.toNat < 256 then 1
  else if value.toNat < 65536 then 2
  else if value.toNat < 16777216 then 3
  else 4

/-- Python's `get_length_determinant_length` (`asn1tools/source/c/oer.py`), evaluated at GENERATION
time to compute the `..._MAX_SIZE`-style static bounds; the constant is as in the source. -/
def staticLenDetLen (length : Nat) : Nat :=
  if length < 128 then 1
  else if length < 256 then 2
  else if length < 65536 then 3
  else if length < 1677726 then 4
  else 5

/-! ### `struct encoder_t` -/

structure OEnc where
  /-- the memory object `buf_p` points to -/
  buf : Mem
  /-- `ssize_t size` (in bytes; negative error code once latched) -/
  size : Int
  /-- `ssize_t pos` (in bytes; negative error code once latched) -/
  pos : Int
  deriving Repr

namespace OEnc

/-- `encoder_init` -/
def init (buf : Mem) (size : UInt64) : C OEnc :=
  .ok { buf := buf, size := toSsize size, pos := 0 }      -- self_p->size = (ssize_t)size;

/-- `encoder_get_result` -/
def getResult (e : OEnc) : C Int := .ok e.pos

/-- `encoder_abort` -/
def abort (e : OEnc) (error : Int) : C OEnc :=
  if e.size ≥ 0 then do
    let n ← ssz (-error)
    .ok { e with size := n, pos := n }
  else .ok e

/-- `encoder_alloc` -/
def alloc (e : OEnc) (size : UInt64) : C (Int × OEnc) := do
  let sum ← ssz (e.pos + toSsize size)
  if sum ≤ e.size then
    let pos := e.pos
    let np ← ssz (e.pos + toSsize size)                   -- self_p->pos += (ssize_t)size;
    .ok (pos, { e with pos := np })
  else
    let pos ← ssz (-ENOMEM)
    let e ← e.abort ENOMEM
    .ok (pos, e)

/-- `encoder_append_bytes(self_p, buf_p = src, size)` -/
def appendBytes (e : OEnc) (src : Mem) (size : UInt64) : C OEnc := do
  let (pos, e) ← e.alloc size
  if pos < 0 then .ok e else
  ptrI e.buf pos                                           -- &self_p->buf_p[pos]
  let buf ← memcpy src size.toNat e.buf pos.toNat 0
  .ok { e with buf := buf }

/-- `encoder_append_uint8` -/
def appendU8 (e : OEnc) (value : UInt8) : C OEnc :=
  e.appendBytes #[value] 1

/-- `encoder_append_uint16` -/
def appendU16 (e : OEnc) (value : UInt16) : C OEnc := do
  let b0 ← shrS32 value.toNat 8                            -- value >> 8   (in `int`)
  e.appendBytes #[UInt8.ofNat b0, UInt8.ofNat value.toNat] 2

/-- `encoder_append_uint32` -/
def appendU32 (e : OEnc) (value : UInt32) : C OEnc := do
  let b0 ← shrU32 value 24
  let b1 ← shrU32 value 16
  let b2 ← shrU32 value 8
  e.appendBytes #[b0.toUInt8, b1.toUInt8, b2.toUInt8, value.toUInt8] 4

/-- `encoder_append_uint64` -/
def appendU64 (e : OEnc) (value : UInt64) : C OEnc := do
  let b0 ← shrU64 value 56
  let b1 ← shrU64 value 48
  let b2 ← shrU64 value 40
  let b3 ← shrU64 value 32
  let b4 ← shrU64 value 24
  let b5 ← shrU64 value 16
  let b6 ← shrU64 value 8
  e.appendBytes #[b0.toUInt8, b1.toUInt8, b2.toUInt8, b3.toUInt8,
                  b4.toUInt8, b5.toUInt8, b6.toUInt8, value.toUInt8] 8

/-- `encoder_append_int8`: `(uint8_t)value` -/
def appendI8 (e : OEnc) (value : Int8) : C OEnc := e.appendU8 value.toUInt8

/-- `encoder_append_int16` -/
def appendI16 (e : OEnc) (value : Int16) : C OEnc := e.appendU16 value.toUInt16

/-- `encoder_append_int32` -/
def appendI32 (e : OEnc) (value : Int32) : C OEnc := e.appendU32 value.toUInt32

/-- `encoder_append_int64` -/
def appendI64 (e : OEnc) (value : Int64) : C OEnc := e.appendU64 value.toUInt64

/-- `encoder_append_uint` (`switch (number_of_bytes)`) -/
def appendUint (e : OEnc) (value : UInt32) (numberOfBytes : UInt8) : C OEnc :=
  if numberOfBytes = 1 then e.appendU8 value.toUInt8
  else if numberOfBytes = 2 then e.appendU16 value.toUInt16
  else if numberOfBytes = 3 then do
    let x ← shrU32 value 16
    let e ← e.appendU8 x.toUInt8
    e.appendU16 value.toUInt16
  else e.appendU32 value

/-- object representation of a `uint64_t` (little endian): what `(const uint8_t*)&value` points to -/
def u64Object (value : UInt64) : Mem :=
  #[value.toUInt8, (value >>> 8).toUInt8, (value >>> 16).toUInt8, (value >>> 24).toUInt8,
    (value >>> 32).toUInt8, (value >>> 40).toUInt8, (value >>> 48).toUInt8, (value >>> 56).toUInt8]

/-- the `for` loop of `encoder_append_long_uint`; `obj` is the object `value_p` walks over
(`value_p = &obj[byte]` at the head of every iteration), `buf` the local `uint8_t buf[8]` -/
def longUintLoop (obj : Mem) (numberOfBytes : UInt8) : (n : Nat) → (byte : UInt32) → (buf : Mem) → C Mem
  | 0, _, buf => .ok buf
  | n + 1, byte, buf => do
    let v ← obj.load byte.toNat                            -- *value_p
    obj.ptr (byte.toNat + 1)                               -- value_p++
    -- `number_of_bytes - byte - 1`: `int` and `uint32_t` operands, computed in `uint32_t`
    let buf ← buf.store (numberOfBytes.toUInt32 - byte - 1).toNat v
    longUintLoop obj numberOfBytes n (byte + 1) buf

/-- `encoder_append_long_uint`; `junk` is the uninitialised content of `uint8_t buf[8]` -/
def appendLongUint (e : OEnc) (value : UInt64) (numberOfBytes : UInt8)
    (junk : Mem := #[0, 0, 0, 0, 0, 0, 0, 0]) : C OEnc := do
  let buf ← longUintLoop (u64Object value) numberOfBytes numberOfBytes.toNat 0 junk
  e.appendBytes buf numberOfBytes.toUInt64

/-- `encoder_append_int` -/
def appendInt (e : OEnc) (value : Int32) (numberOfBytes : UInt8) : C OEnc :=
  if numberOfBytes = 1 then e.appendI8 value.toInt8
  else if numberOfBytes = 2 then e.appendI16 value.toInt16
  else if numberOfBytes = 3 then do
    let x ← shrU32 value.toUInt32 16                       -- (uint32_t)value >> 16
    let e ← e.appendU8 x.toUInt8
    e.appendI16 value.toInt16
  else e.appendI32 value

/-- `encoder_append_float` (`bits`: object representation of the `float`) -/
def appendFloat (e : OEnc) (bits : UInt32) : C OEnc := e.appendU32 bits

/-- `encoder_append_double` -/
def appendDouble (e : OEnc) (bits : UInt64) : C OEnc := e.appendU64 bits

/-- `encoder_append_bool` -/
def appendBool (e : OEnc) (value : Bool) : C OEnc :=
  e.appendU8 (if value then 255 else 0)

/-- `encoder_append_length_determinant` -/
def appendLengthDeterminant (e : OEnc) (length : UInt32) : C OEnc :=
  if length.toNat < 128 then e.appendI8 length.toUInt8.toInt8     -- (int8_t)length: reduction modulo 2^8
  else if length.toNat < 256 then do
    let e ← e.appendU8 0x81
    e.appendU8 length.toUInt8
  else if length.toNat < 65536 then do
    let e ← e.appendU8 0x82
    e.appendU16 length.toUInt16
  else if length.toNat < 16777216 then do
    let x ← shlU32 0x83 24                                 -- 0x83u << 24u
    e.appendU32 (length ||| x)
  else do
    let e ← e.appendU8 0x84
    e.appendU32 length

end OEnc

/-! ### `struct decoder_t` -/

structure ODec where
  buf : Mem
  size : Int
  pos : Int
  deriving Repr

/-- contents of the automatic objects the decoder helpers leave uninitialised:
`uint8_t value;` (`decoder_read_uint8`), `uint8_t buf[2]`, `buf[4]`, `buf[8]` -/
structure Junk where
  j1 : Mem := #[0]
  j2 : Mem := #[0, 0]
  j4 : Mem := #[0, 0, 0, 0]
  j8 : Mem := #[0, 0, 0, 0, 0, 0, 0, 0]
  deriving Repr

namespace ODec

/-- `decoder_init` -/
def init (buf : Mem) (size : UInt64) : C ODec :=
  .ok { buf := buf, size := toSsize size, pos := 0 }

/-- `decoder_get_result` -/
def getResult (d : ODec) : C Int := .ok d.pos

/-- `decoder_abort` -/
def abort (d : ODec) (error : Int) : C ODec :=
  if d.size ≥ 0 then do
    let n ← ssz (-error)
    .ok { d with size := n, pos := n }
  else .ok d

/-- `decoder_free` -/
def free (d : ODec) (size : UInt64) : C (Int × ODec) := do
  let sum ← ssz (d.pos + toSsize size)
  if sum ≤ d.size then
    let pos := d.pos
    let np ← ssz (d.pos + toSsize size)
    .ok (pos, { d with pos := np })
  else
    let pos ← ssz (-EOUTOFDATA)
    let d ← d.abort EOUTOFDATA
    .ok (pos, d)

/-- `decoder_read_bytes(self_p, buf_p = dst, size)`; returns the destination object -/
def readBytes (d : ODec) (dst : Mem) (size : UInt64) : C (Mem × ODec) := do
  let (pos, d) ← d.free size
  if pos ≥ 0 then do
    ptrI d.buf pos                                         -- &self_p->buf_p[pos]
    let dst ← memcpy d.buf size.toNat dst 0 pos.toNat
    .ok (dst, d)
  else do
    let dst ← memset 0 size.toNat dst 0
    .ok (dst, d)

/-- `decoder_read_uint8` (`uint8_t value;` is NOT initialised in the OER library) -/
def readU8 (d : ODec) (j : Junk := {}) : C (UInt8 × ODec) := do
  let (m, d) ← d.readBytes j.j1 1
  let v ← m.load 0
  .ok (v, d)

/-- `decoder_read_uint16` -/
def readU16 (d : ODec) (j : Junk := {}) : C (UInt16 × ODec) := do
  let (m, d) ← d.readBytes j.j2 2
  let b0 ← m.load 0
  let b1 ← m.load 1
  let x ← shlS32 b0.toNat 8                                -- (uint16_t)buf[0] << 8   (in `int`)
  .ok (UInt16.ofNat (x ||| b1.toNat), d)

/-- `decoder_read_uint32` -/
def readU32 (d : ODec) (j : Junk := {}) : C (UInt32 × ODec) := do
  let (m, d) ← d.readBytes j.j4 4
  let b0 ← m.load 0
  let b1 ← m.load 1
  let b2 ← m.load 2
  let b3 ← m.load 3
  let x0 ← shlU32 b0.toUInt32 24
  let x1 ← shlU32 b1.toUInt32 16
  let x2 ← shlU32 b2.toUInt32 8
  .ok (x0 ||| x1 ||| x2 ||| b3.toUInt32, d)

/-- `decoder_read_uint64` -/
def readU64 (d : ODec) (j : Junk := {}) : C (UInt64 × ODec) := do
  let (m, d) ← d.readBytes j.j8 8
  let b0 ← m.load 0
  let b1 ← m.load 1
  let b2 ← m.load 2
  let b3 ← m.load 3
  let b4 ← m.load 4
  let b5 ← m.load 5
  let b6 ← m.load 6
  let b7 ← m.load 7
  let x0 ← shlU64 b0.toUInt64 56
  let x1 ← shlU64 b1.toUInt64 48
  let x2 ← shlU64 b2.toUInt64 40
  let x3 ← shlU64 b3.toUInt64 32
  let x4 ← shlU64 b4.toUInt64 24
  let x5 ← shlU64 b5.toUInt64 16
  let x6 ← shlU64 b6.toUInt64 8
  .ok (x0 ||| x1 ||| x2 ||| x3 ||| x4 ||| x5 ||| x6 ||| b7.toUInt64, d)

/-- `decoder_read_int8`: `(int8_t)decoder_read_uint8(self_p)` -/
def readI8 (d : ODec) (j : Junk := {}) : C (Int8 × ODec) := do
  let (v, d) ← d.readU8 j
  .ok (v.toInt8, d)

/-- `decoder_read_int16` -/
def readI16 (d : ODec) (j : Junk := {}) : C (Int16 × ODec) := do
  let (v, d) ← d.readU16 j
  .ok (v.toInt16, d)

/-- `decoder_read_int32` -/
def readI32 (d : ODec) (j : Junk := {}) : C (Int32 × ODec) := do
  let (v, d) ← d.readU32 j
  .ok (v.toInt32, d)

/-- `decoder_read_int64` -/
def readI64 (d : ODec) (j : Junk := {}) : C (Int64 × ODec) := do
  let (v, d) ← d.readU64 j
  .ok (v.toInt64, d)

/-- `decoder_read_uint` -/
def readUint (d : ODec) (numberOfBytes : UInt8) (j : Junk := {}) : C (UInt32 × ODec) :=
  if numberOfBytes = 1 then do
    let (v, d) ← d.readU8 j
    .ok (v.toUInt32, d)
  else if numberOfBytes = 2 then do
    let (v, d) ← d.readU16 j
    .ok (v.toUInt32, d)
  else if numberOfBytes = 3 then do
    let (a, d) ← d.readU8 j
    let value ← shlU32 a.toUInt32 16                       -- (uint32_t)decoder_read_uint8(self_p) << 16u
    let (b, d) ← d.readU16 j
    .ok (value ||| b.toUInt32, d)                          -- value |= decoder_read_uint16(self_p);
  else if numberOfBytes = 4 then d.readU32 j
  else .ok (0xffffffff, d)

/-- the `for` loop of `decoder_read_long_uint` -/
def longUintLoop (j : Junk) : (n : Nat) → (value : UInt64) → ODec → C (UInt64 × ODec)
  | 0, value, d => .ok (value, d)
  | n + 1, value, d => do
    let (b, d) ← d.readU8 j
    let x ← shlU64 value 8
    longUintLoop j n (b.toUInt64 ||| x) d                  -- value = decoder_read_uint8(self_p) | (value << 8);

/-- `decoder_read_long_uint` -/
def readLongUint (d : ODec) (numberOfBytes : UInt8) (j : Junk := {}) : C (UInt64 × ODec) :=
  longUintLoop j numberOfBytes.toNat 0 d

/-- `decoder_read_int` -/
def readInt (d : ODec) (numberOfBytes : UInt8) (j : Junk := {}) : C (Int32 × ODec) :=
  if numberOfBytes = 1 then do
    let (v, d) ← d.readI8 j
    .ok (v.toInt32, d)
  else if numberOfBytes = 2 then do
    let (v, d) ← d.readI16 j
    .ok (v.toInt32, d)
  else if numberOfBytes = 3 then do
    let (a, d) ← d.readU8 j
    let tmp ← shlU32 a.toUInt32 16
    let (b, d) ← d.readU16 j
    let tmp := tmp ||| b.toUInt32
    let tmp := if tmp &&& 0x800000 = 0x800000 then tmp + 0xff000000 else tmp
    .ok (tmp.toInt32, d)
  else if numberOfBytes = 4 then d.readI32 j
  else .ok (2147483647, d)

/-- `decoder_read_float` (returns the object representation) -/
def readFloat (d : ODec) (j : Junk := {}) : C (UInt32 × ODec) := d.readU32 j

/-- `decoder_read_double` -/
def readDouble (d : ODec) (j : Junk := {}) : C (UInt64 × ODec) := d.readU64 j

/-- `decoder_read_bool` -/
def readBool (d : ODec) (j : Junk := {}) : C (Bool × ODec) := do
  let (v, d) ← d.readU8 j
  .ok (v != 0, d)

/-- `decoder_read_length_determinant` (case 3: left operand of `|` evaluated first) -/
def readLengthDeterminant (d : ODec) (j : Junk := {}) : C (UInt32 × ODec) := do
  let (v, d) ← d.readU8 j
  let length := v.toUInt32
  if length &&& 0x80 ≠ 0 then
    let k := length &&& 0x7f
    if k = 1 then do
      let (v, d) ← d.readU8 j
      .ok (v.toUInt32, d)
    else if k = 2 then do
      let (v, d) ← d.readU16 j
      .ok (v.toUInt32, d)
    else if k = 3 then do
      let (a, d) ← d.readU8 j
      let x ← shlU32 a.toUInt32 16
      let (b, d) ← d.readU16 j
      .ok (x ||| b.toUInt32, d)
    else if k = 4 then d.readU32 j
    else .ok (0xffffffff, d)
  else .ok (length, d)

/-- `decoder_read_length_determinant` with the OTHER evaluation order the C standard permits in
case 3 (right operand of `|` first). Not used by `run`. -/
def readLengthDeterminantRL (d : ODec) (j : Junk := {}) : C (UInt32 × ODec) := do
  let (v, d) ← d.readU8 j
  let length := v.toUInt32
  if length &&& 0x80 ≠ 0 then
    let k := length &&& 0x7f
    if k = 1 then do
      let (v, d) ← d.readU8 j
      .ok (v.toUInt32, d)
    else if k = 2 then do
      let (v, d) ← d.readU16 j
      .ok (v.toUInt32, d)
    else if k = 3 then do
      let (b, d) ← d.readU16 j
      let (a, d) ← d.readU8 j
      let x ← shlU32 a.toUInt32 16
      .ok (x ||| b.toUInt32, d)
    else if k = 4 then d.readU32 j
    else .ok (0xffffffff, d)
  else .ok (length, d)

/-- the `do … while` loop of `decoder_read_tag`; `none` = the model's fuel ran out
(never happens with the fuel `readTag` supplies: `Asn1.C10.readTag_terminates`) -/
def readTagLoop (j : Junk) : (fuel : Nat) → (tag : UInt32) → ODec → C (Option UInt32 × ODec)
  | 0, _, d => .ok (none, d)
  | fuel + 1, tag, d => do
    let tag ← shlU32 tag 8                                 -- tag <<= 8;
    let (b, d) ← d.readU8 j
    let tag := tag ||| b.toUInt32                          -- tag |= (uint32_t)decoder_read_uint8(self_p);
    if tag &&& 0x80 = 0x80 then readTagLoop j fuel tag d else .ok (some tag, d)

/-- `decoder_read_tag` -/
def readTag (d : ODec) (j : Junk := {}) : C (Option UInt32 × ODec) := do
  let (v, d) ← d.readU8 j
  let tag := v.toUInt32
  if tag &&& 0x3f = 0x3f then
    readTagLoop j ((d.size - d.pos).toNat + 2) tag d
  else .ok (some tag, d)

end ODec

/-! ### operation alphabets (shared by the driver and by the theorems) -/

/-- one call of an encoder helper, as issued by generated code -/
inductive OEncOp where
  | bool (value : Bool)
  | bytes (src : Mem) (size : UInt64)
  | u8 (v : UInt8) | u16 (v : UInt16) | u32 (v : UInt32) | u64 (v : UInt64)
  | i8 (v : Int8) | i16 (v : Int16) | i32 (v : Int32) | i64 (v : Int64)
  | uint (v : UInt32) (numberOfBytes : UInt8)
  | luint (v : UInt64) (numberOfBytes : UInt8) (junk : Mem)
  | int (v : Int32) (numberOfBytes : UInt8)
  | f32 (bits : UInt32) | f64 (bits : UInt64)
  | lendet (length : UInt32)
  | abort (error : Int)

def OEnc.run (e : OEnc) : OEncOp → C OEnc
  | .bool b => e.appendBool b
  | .bytes src n => e.appendBytes src n
  | .u8 v => e.appendU8 v | .u16 v => e.appendU16 v | .u32 v => e.appendU32 v | .u64 v => e.appendU64 v
  | .i8 v => e.appendI8 v | .i16 v => e.appendI16 v | .i32 v => e.appendI32 v | .i64 v => e.appendI64 v
  | .uint v n => e.appendUint v n
  | .luint v n junk => e.appendLongUint v n junk
  | .int v n => e.appendInt v n
  | .f32 b => e.appendFloat b | .f64 b => e.appendDouble b
  | .lendet n => e.appendLengthDeterminant n
  | .abort err => e.abort err

def OEnc.runAll (e : OEnc) : List OEncOp → C OEnc
  | [] => .ok e
  | op :: ops => do let e ← e.run op; OEnc.runAll e ops

/-- one call of a decoder helper; `dst` is the caller's destination object, `j` the content of the
uninitialised automatic objects -/
inductive ODecOp where
  | bool (j : Junk)
  | bytes (dst : Mem) (size : UInt64)
  | u8 (j : Junk) | u16 (j : Junk) | u32 (j : Junk) | u64 (j : Junk)
  | i8 (j : Junk) | i16 (j : Junk) | i32 (j : Junk) | i64 (j : Junk)
  | uint (numberOfBytes : UInt8) (j : Junk)
  | luint (numberOfBytes : UInt8) (j : Junk)
  | int (numberOfBytes : UInt8) (j : Junk)
  | f32 (j : Junk) | f64 (j : Junk)
  | lendet (j : Junk)
  | tag (j : Junk)
  | abort (error : Int)

/-- what a decoder helper hands back -/
inductive ODecVal where
  | int (v : Int)
  | mem (m : Mem)
  | unit
  /-- the fuel of the model of a `do … while` loop ran out (proved impossible) -/
  | fuelExhausted
  deriving Repr

def ODec.run (d : ODec) : ODecOp → C (ODecVal × ODec)
  | .bool j => do let (v, d) ← d.readBool j; .ok (.int (if v then 1 else 0), d)
  | .bytes dst n => do let (m, d) ← d.readBytes dst n; .ok (.mem m, d)
  | .u8 j => do let (v, d) ← d.readU8 j; .ok (.int v.toNat, d)
  | .u16 j => do let (v, d) ← d.readU16 j; .ok (.int v.toNat, d)
  | .u32 j => do let (v, d) ← d.readU32 j; .ok (.int v.toNat, d)
  | .u64 j => do let (v, d) ← d.readU64 j; .ok (.int v.toNat, d)
  | .i8 j => do let (v, d) ← d.readI8 j; .ok (.int v.toInt, d)
  | .i16 j => do let (v, d) ← d.readI16 j; .ok (.int v.toInt, d)
  | .i32 j => do let (v, d) ← d.readI32 j; .ok (.int v.toInt, d)
  | .i64 j => do let (v, d) ← d.readI64 j; .ok (.int v.toInt, d)
  | .uint n j => do let (v, d) ← d.readUint n j; .ok (.int v.toNat, d)
  | .luint n j => do let (v, d) ← d.readLongUint n j; .ok (.int v.toNat, d)
  | .int n j => do let (v, d) ← d.readInt n j; .ok (.int v.toInt, d)
  | .f32 j => do let (v, d) ← d.readFloat j; .ok (.int v.toNat, d)
  | .f64 j => do let (v, d) ← d.readDouble j; .ok (.int v.toNat, d)
  | .lendet j => do let (v, d) ← d.readLengthDeterminant j; .ok (.int v.toNat, d)
  | .tag j => do
    let (v, d) ← d.readTag j
    match v with
    | some v => .ok (.int v.toNat, d)
    | none => .ok (.fuelExhausted, d)
  | .abort err => do let d ← d.abort err; .ok (.unit, d)

def ODec.runAll (d : ODec) : List ODecOp → C (List ODecVal × ODec)
  | [] => .ok ([], d)
  | op :: ops => do
    let (v, d) ← d.run op
    let (vs, d) ← ODec.runAll d ops
    .ok (v :: vs, d)

end Asn1.CCursorOer
