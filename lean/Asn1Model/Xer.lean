import Asn1Model.Schema
import Asn1Model.Uper
import Asn1Model.Typing
import Asn1Model.X690Value
import Asn1Model.Xml
/-
  M-level model of asn1tools' XER codec (codecs/xer.py) over the `Ty` / `Val` universe.

  `enc t inList name v` is `Type.encode(v)` (`inList = false`, the element is called `name`) or
  `Type.encode_of(v)` (`inList = true`: the form used for the elements of a SEQUENCE OF — BOOLEAN
  as `<true />`, ENUMERATED as `<item />`, CHOICE as the bare alternative element, every other
  type as an element named after its builtin type).  `dec` mirrors `decode` / `decode_of`.
  The document level (`encode` / `decode`) adds `ElementTree.tostring` + `indent_xml` and the
  XML reader of `Xml.lean`.

  Deviations of the code that the model reproduces (see the report):
  * nothing checks the name of the root element, unknown child elements of a SEQUENCE are
    ignored whether or not the type is extensible, a missing mandatory member is silently left
    out of the decoded value, `<b />` decodes as BOOLEAN FALSE;
  * `decode_of` of ENUMERATED and CHOICE is not extension aware (unknown item / alternative →
    DecodeError even when the type has an extension marker);
  * INTEGER goes through `str()` / `int()`: more than 4300 decimal digits → ValueError (CPython's
    int/str conversion limit), `int()` accepts surrounding white space, `+`, `_` separators;
  * character strings are written without any check: characters XML cannot carry make the
    encoder emit an ill-formed document.

  `.unmodelled` is answered for: a value whose shape does not fit the type; INTEGER / BIT STRING
  text containing non-ASCII characters (Python's `int()` knows every Unicode decimal digit and
  white space); BIT STRING text that is not plain `0`/`1` but still accepted by `int(text, 2)`.
-/
namespace Asn1.Xer
open Asn1.Uper (Err)
open Asn1.Xml (XmlT toCps ofCps)

abbrev EncM := Except Err
abbrev DecM := Except Err

/-- name of the element a list item of this type gets (`element['type']`, spaces replaced) -/
def typeName : Ty → String
  | .boolean => "BOOLEAN"
  | .null => "NULL"
  | .integer _ => "INTEGER"
  | .enumerated _ _ => "ENUMERATED"
  | .octetString _ => "OCTET_STRING"
  | .bitString _ => "BIT_STRING"
  | .charString .ia5 _ => "IA5String"
  | .charString .visible _ => "VisibleString"
  | .charString .numeric _ => "NumericString"
  | .charString .printable _ => "PrintableString"
  | .charString .utf8 _ => "UTF8String"
  | .sequence _ _ _ => "SEQUENCE"
  | .sequenceOf _ _ => "SEQUENCE_OF"
  | .choice _ _ _ => "CHOICE"

/-- CPython's `sys.get_int_max_str_digits()` default -/
def maxStrDigits : Nat := 4300

/-- `str(i)` -/
def intText (i : Int) : EncM (List Nat) :=
  let ds := Xml.natToDec i.natAbs
  if ds.length > maxStrDigits then .error .foreign       -- ValueError: Exceeds the limit
  else .ok (if i < 0 then 45 :: ds else ds)

def hexDigitU (n : Nat) : Nat := if n < 10 then 48 + n else 55 + n

/-- `format_bytes(data).upper()` -/
def hexText (bs : Bytes) : List Nat := bs.flatMap fun b => [hexDigitU (b / 16 % 16), hexDigitU (b % 16)]

def bitText (bs : Bits) : List Nat := bs.map fun b => if b then 49 else 48

def leaf (name : String) (text : List Nat) : XmlT := .elem name text []

def enumNames (root : List (String × Int)) (ext : Option (List (String × Int))) : List String :=
  namesOf root ++ namesOf (ext.getD [])

mutual
  def enc : Ty → Bool → String → Val → EncM XmlT
    | .boolean, inList, name, .bool b =>
      let item := leaf (if b then "true" else "false") []
      if inList then .ok item else .ok (.elem name [] [item])
    | .boolean, _, _, _ => .error .unmodelled
    | .null, _, name, _ => .ok (leaf name [])
    | .integer _, _, name, .int i =>
      match intText i with
      | .ok t => .ok (leaf name t)
      | .error e => .error e
    | .integer _, _, _, _ => .error .unmodelled
    | .enumerated root ext, inList, name, .enum n =>
      if (enumNames root ext).contains n then
        (if inList then .ok (leaf n []) else .ok (.elem name [] [leaf n []]))
      else .error .encodeError
    | .enumerated _ _, _, _, .absent => .error .encodeError
    | .enumerated _ _, _, _, _ => .error .unmodelled
    | .octetString _, _, name, .bytes bs => .ok (leaf name (hexText bs))
    | .octetString _, _, _, _ => .error .unmodelled
    | .bitString _, _, name, .bits data n =>
      if 8 * data.length < n then .error .encodeError      -- the type checker in front of the codec
      else .ok (leaf name (bitText ((bytesToBits data).take n)))
    | .bitString _, _, _, _ => .error .unmodelled
    | .charString _ _, _, name, .str cps => .ok (leaf name cps)
    | .charString _ _, _, _, _ => .error .unmodelled
    | .sequence root _ adds, _, name, .record fs =>
      match encMembers root fs with
      | .error e => .error e
      | .ok a =>
        match encMembers adds fs with
        | .error e => .error e
        | .ok b => .ok (.elem name [] (a ++ b))
    | .sequence _ _ _, _, _, _ => .error .unmodelled
    | .sequenceOf e _, _, name, .list vs =>
      match vs.mapM (enc e true (typeName e)) with
      | .ok xs => .ok (.elem name [] xs)
      | .error err => .error err
    | .sequenceOf _ _, _, _, _ => .error .unmodelled
    | .choice root _ adds, inList, name, .choice n v =>
      match encAlt root n v with
      | some r =>
        (match r with
         | .ok x => if inList then .ok x else .ok (.elem name [] [x])
         | .error e => .error e)
      | none =>
        match encAlt adds n v with
        | some r =>
          (match r with
           | .ok x => if inList then .ok x else .ok (.elem name [] [x])
           | .error e => .error e)
        | none => .error .encodeError
    | .choice _ _ _, _, _, _ => .error .unmodelled

  /-- `MembersType.encode`: the members present in the dictionary, in declaration order -/
  def encMembers : Members → List (String × Val) → EncM (List XmlT)
    | .nil, _ => .ok []
    | .cons name p t rest, fs =>
      match lookup name fs with
      | some v =>
        (match enc t false name v with
         | .error e => .error e
         | .ok x =>
           match encMembers rest fs with
           | .error e => .error e
           | .ok xs => .ok (x :: xs))
      | none =>
        match p with
        | .mandatory => .error .encodeError
        | _ => encMembers rest fs

  def encAlt : Alts → String → Val → Option (EncM XmlT)
    | .nil, _, _ => none
    | .cons n t rest, name, v => if n == name then some (enc t false n v) else encAlt rest name v
end

/-- `CompiledType.encode` up to serialisation -/
def toXml (t : Ty) (name : String) (v : Val) : EncM XmlT := enc t false name v

/-! ### decoder -/

/-- `element.find(name)`: first child with that tag -/
def findKid (name : String) : List XmlT → Option XmlT
  | [] => none
  | k :: r => if k.name == name then some k else findKid name r

/-- white space `str.strip()` removes, restricted to ASCII -/
def isPyWs (c : Nat) : Bool := c == 32 || (decide (9 ≤ c) && decide (c ≤ 13)) || (decide (28 ≤ c) && decide (c ≤ 31))

def pyStrip (t : List Nat) : List Nat := ((t.dropWhile isPyWs).reverse.dropWhile isPyWs).reverse

/-- digits of a Python integer literal body: single `_` allowed between digits -/
def pyDigits : List Nat → Bool → Option (List Nat)
  | [], prev => if prev then some [] else none
  | c :: r, prev =>
    if Xml.isDigit c then (pyDigits r true).map (c :: ·)
    else if c = 95 ∧ prev then pyDigits r false
    else none

/-- optional sign of an integer literal -/
def splitSign : List Nat → Bool × List Nat
  | 45 :: r => (true, r)
  | 43 :: r => (false, r)
  | s => (false, s)

/-- `int(text)` -/
def parseInt (t : List Nat) : DecM Int :=
  if t.any (fun c => decide (128 ≤ c)) then .error .unmodelled else
  let s := pyStrip t
  let neg := (splitSign s).1
  match pyDigits (splitSign s).2 false with
  | none => .error .foreign                      -- ValueError: invalid literal
  | some ds =>
    if ds.length > maxStrDigits then .error .foreign
    else
      let n : Int := (Xml.decToNat ds : Nat)
      .ok (if neg then -n else n)

def hexPairs : List Nat → Option Bytes
  | [] => some []
  | [_] => none
  | a :: b :: r =>
    match Xml.hexVal? a, Xml.hexVal? b, hexPairs r with
    | some x, some y, some t => some ((16 * x + y) :: t)
    | _, _, _ => none

/-- `binascii.unhexlify`, an odd number of digits is zero filled on the left -/
def parseHex (t : List Nat) : DecM Bytes :=
  let t' := if t.length % 2 = 1 then 48 :: t else t
  match hexPairs t' with
  | some bs => .ok bs
  | none => .error .foreign                      -- binascii.Error / ValueError

/-- BIT STRING text: `int(text, 2)` and the re-alignment arithmetic -/
def parseBits (t : List Nat) : DecM Val :=
  if t.all (fun c => c == 48 || c == 49) then
    let bits := t.map (· == 49)
    .ok (.bits (packBits bits) bits.length)
  else if t.all (fun c => c == 48 || c == 49 || isPyWs c || c == 95 || c == 43 || c == 45 || c == 98 || c == 66)
  then .error .unmodelled
  else if t.any (fun c => decide (128 ≤ c)) then .error .unmodelled
  else .error .foreign                           -- ValueError: invalid literal for int() with base 2

mutual
  def dec : Ty → Bool → XmlT → DecM Val
    | .boolean, inList, x =>
      if inList then .ok (.bool (x.name == "true"))
      else .ok (.bool (findKid "true" x.kids).isSome)
    | .null, _, _ => .ok .null
    | .integer _, _, x =>
      if x.text.isEmpty then .error .foreign       -- int(None): TypeError
      else
        match parseInt x.text with
        | .ok i => .ok (.int i)
        | .error e => .error e
    | .enumerated root ext, inList, x =>
      if inList then
        (if (enumNames root ext).contains x.name then .ok (.enum x.name) else .error .decodeError)
      else
        match x.kids with
        | [] => .error .foreign                    -- element[0]: IndexError
        | k :: _ =>
          if (enumNames root ext).contains k.name then .ok (.enum k.name)
          else if ext.isSome then .ok .absent
          else .error .decodeError
    | .octetString _, _, x =>
      if x.text.isEmpty then .ok (.bytes [])
      else
        match parseHex x.text with
        | .ok bs => .ok (.bytes bs)
        | .error e => .error e
    | .bitString _, _, x =>
      if x.text.isEmpty then .ok (.bits [] 0) else parseBits x.text
    | .charString _ _, _, x => .ok (.str x.text)
    | .sequence root _ adds, _, x =>
      match decMembers root x.kids with
      | .error e => .error e
      | .ok a =>
        match decMembers adds x.kids with
        | .error e => .error e
        | .ok b => .ok (.record (a ++ b))
    | .sequenceOf e _, _, x =>
      match x.kids.mapM (dec e true) with
      | .ok vs => .ok (.list vs)
      | .error err => .error err
    | .choice root extensible adds, inList, x =>
      if inList then
        match decAlt root x.name x with
        | some r => (match r with | .ok v => .ok (.choice x.name v) | .error e => .error e)
        | none =>
          match decAlt adds x.name x with
          | some r => (match r with | .ok v => .ok (.choice x.name v) | .error e => .error e)
          | none => .error .decodeError            -- not extension aware
      else
        match x.kids with
        | [] => .error .foreign                    -- element[0]: IndexError
        | k :: _ =>
          match decAlt root k.name k with
          | some r => (match r with | .ok v => .ok (.choice k.name v) | .error e => .error e)
          | none =>
            match decAlt adds k.name k with
            | some r => (match r with | .ok v => .ok (.choice k.name v) | .error e => .error e)
            | none => if extensible then .ok (.choice "" .absent) else .error .decodeError

  /-- `MembersType.decode` -/
  def decMembers : Members → List XmlT → DecM (List (String × Val))
    | .nil, _ => .ok []
    | .cons name p t rest, kids =>
      match findKid name kids with
      | some k =>
        (match dec t false k with
         | .error e => .error e
         | .ok v =>
           match decMembers rest kids with
           | .error e => .error e
           | .ok fs => .ok ((name, v) :: fs))
      | none =>
        match p with
        | .default d =>
          (match decMembers rest kids with
           | .error e => .error e
           | .ok fs => .ok ((name, d) :: fs))
        | _ => decMembers rest kids             -- OPTIONAL, and a missing mandatory member too

  def decAlt : Alts → String → XmlT → Option (DecM Val)
    | .nil, _, _ => none
    | .cons n t rest, name, x => if n == name then some (dec t false x) else decAlt rest name x
end

/-- `CompiledType.decode` after parsing: the name of the root element is not looked at -/
def ofXml (t : Ty) (x : XmlT) : DecM Val := dec t false x

/-! ### document level -/

/-- `CompiledType.encode(data, indent)`: the octets (all ASCII) of the document -/
def encode (t : Ty) (name : String) (v : Val) (indent : Option Nat) : EncM Bytes :=
  match toXml t name v with
  | .ok x => .ok (Xml.renderDoc indent x)
  | .error e => .error e

/-- the element tree of a document: UTF-8, then the XML reader -/
def parseDoc (data : Bytes) : Except Xml.PErr XmlT :=
  match Uper.utf8Dec (data.length + 1) data with
  | some cps => Xml.parse cps
  | none => .error .malformed

/-- `CompiledType.decode(data)`; an `xml.etree.ElementTree.ParseError` / `UnicodeDecodeError`
is a foreign exception -/
def decode (t : Ty) (data : Bytes) : DecM Val :=
  match parseDoc data with
  | .ok x => ofXml t x
  | .error .malformed => .error .foreign
  | .error .unsupported => .error .unmodelled

/-! ### hypotheses of the round-trip theorems -/

mutual
  /-- every INTEGER in the value can pass through `str()` / `int()` (at most 4300 digits) -/
  def intsOk : Ty → Val → Bool
    | .integer _, .int i => decide ((Xml.natToDec i.natAbs).length ≤ maxStrDigits)
    | .sequence root _ adds, .record fs => intsOkMembers root fs && intsOkMembers adds fs
    | .sequenceOf e _, .list vs => vs.all (intsOk e)
    | .choice root _ adds, .choice n v => intsOkAlt root n v && intsOkAlt adds n v
    | _, _ => true
  def intsOkMembers : Members → List (String × Val) → Bool
    | .nil, _ => true
    | .cons name _ t rest, fs =>
      (match lookup name fs with
       | some v => intsOk t v
       | none => true) && intsOkMembers rest fs
  def intsOkAlt : Alts → String → Val → Bool
    | .nil, _, _ => true
    | .cons n t rest, name, v => if n == name then intsOk t v else intsOkAlt rest name v
end

mutual
  /-- every character of every character string in the value is character data XML can carry
  unchanged (`Xml.isTextChar`: a `Char` of XML 1.0 other than CR) -/
  def textOk : Ty → Val → Bool
    | .charString _ _, .str cps => cps.all Xml.isTextChar
    | .sequence root _ adds, .record fs => textOkMembers root fs && textOkMembers adds fs
    | .sequenceOf e _, .list vs => vs.all (textOk e)
    | .choice root _ adds, .choice n v => textOkAlt root n v && textOkAlt adds n v
    | _, _ => true
  def textOkMembers : Members → List (String × Val) → Bool
    | .nil, _ => true
    | .cons name _ t rest, fs =>
      (match lookup name fs with
       | some v => textOk t v
       | none => true) && textOkMembers rest fs
  def textOkAlt : Alts → String → Val → Bool
    | .nil, _, _ => true
    | .cons n t rest, name, v => if n == name then textOk t v else textOkAlt rest name v
end

def nameOk (s : String) : Bool := Xml.isAsciiName (toCps s)

mutual
  /-- identifiers are XML names (ASN.1 identifiers always are: letters, digits, hyphens) -/
  def namesOk : Ty → Bool
    | .enumerated root ext => (enumNames root ext).all nameOk
    | .sequence root _ adds => namesOkMembers root && namesOkMembers adds
    | .sequenceOf e _ => namesOk e
    | .choice root _ adds => namesOkAlts root && namesOkAlts adds
    | _ => true
  def namesOkMembers : Members → Bool
    | .nil => true
    | .cons name _ t rest => nameOk name && namesOk t && namesOkMembers rest
  def namesOkAlts : Alts → Bool
    | .nil => true
    | .cons name t rest => nameOk name && namesOk t && namesOkAlts rest
end

end Asn1.Xer
