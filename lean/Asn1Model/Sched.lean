/-
  C18: micro-step interleaving model.  A compiled specification is a shared state `σ`; every
  encode/decode call owns a local state `λ` (its Encoder/Decoder/bytearray/exception object) and is a
  sequence of micro-steps, each of which may read and — in principle — write the shared state.
  A schedule picks which call performs its next micro-step.
-/
namespace Asn1.Sched

structure Call (σ ℓ : Type) where
  init  : ℓ
  steps : List (σ → ℓ → σ × ℓ)

/-- the call made alone on shared state `s`: final shared state and local result -/
def solo {σ ℓ : Type} (s : σ) (c : Call σ ℓ) : σ × ℓ :=
  c.steps.foldl (fun (acc : σ × ℓ) f => f acc.1 acc.2) (s, c.init)

/-- a call never writes the shared state -/
def ReadOnly {σ ℓ : Type} (c : Call σ ℓ) : Prop :=
  ∀ f ∈ c.steps, ∀ s l, (f s l).1 = s

/-- per-call progress: remaining steps and current local state -/
structure Thread (σ ℓ : Type) where
  rest  : List (σ → ℓ → σ × ℓ)
  loc   : ℓ

def start {σ ℓ : Type} (c : Call σ ℓ) : Thread σ ℓ := ⟨c.steps, c.init⟩

/-- thread `i` performs its next micro-step (nothing happens if it has finished or does not exist) -/
def stepAt {σ ℓ : Type} : σ → List (Thread σ ℓ) → Nat → σ × List (Thread σ ℓ)
  | s, [], _ => (s, [])
  | s, t :: ts, 0 =>
    match t.rest with
    | [] => (s, t :: ts)
    | f :: r => let (s', l') := f s t.loc; (s', ⟨r, l'⟩ :: ts)
  | s, t :: ts, i + 1 => let (s', ts') := stepAt s ts i; (s', t :: ts')

/-- run a schedule (a list of thread indices) -/
def runSched {σ ℓ : Type} : σ → List (Thread σ ℓ) → List Nat → σ × List (Thread σ ℓ)
  | s, ts, [] => (s, ts)
  | s, ts, i :: sched => let (s', ts') := stepAt s ts i; runSched s' ts' sched

/-- all threads have finished -/
def Done {σ ℓ : Type} (ts : List (Thread σ ℓ)) : Prop := ∀ t ∈ ts, t.rest = []

end Asn1.Sched
