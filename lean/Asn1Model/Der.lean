import Asn1Model.Schema
import Asn1Model.Uper
import Asn1Model.Oer
import Asn1Model.BerFraming
/-
  M-level model of asn1tools' DER codec (codecs/der.py, which borrows BOOLEAN, NULL, ENUMERATED,
  SEQUENCE, CHOICE and the EXPLICIT tag wrapper from codecs/ber.py) over the `Ty`/`Val` universe,
  for modules compiled with AUTOMATIC TAGS (`pre_process_tags` in codecs/compiler.py):

  * a type that is not a member/alternative keeps its UNIVERSAL tag (`tg = none`);
  * members of a SEQUENCE and alternatives of a CHOICE are numbered `[0] [1] ...` over the
    flattened list root ++ additions (`tg = some i`).  The tag is IMPLICIT (it replaces the
    UNIVERSAL tag, the constructed bit is kept for SEQUENCE / SEQUENCE OF) unless the member's type
    is a CHOICE: a CHOICE has no tag of its own, so the member becomes `ExplicitTag(Choice)`, a
    constructed context-specific wrapper around the bare CHOICE;
  * the element of a SEQUENCE OF is not a member: it keeps its UNIVERSAL tag (a CHOICE stays bare).

  The decoder works on the suffix `data[offset:]`; every decoder returns the value, the number of
  octets consumed and the remaining suffix, `none` being the `TAG_MISMATCH` sentinel (the offset is
  unchanged in that case).  Nothing is ever cut to the announced length of the enclosing
  constructed encoding (the code does not do that either), so inner encodings may run past the
  end offset of the outer one.

  This file also holds everything codecs/ber.py and codecs/der.py share; `BerCodec.lean` adds the
  BER-only decoder (indefinite lengths everywhere, constructed strings).
-/
namespace Asn1.Der
open Asn1.Uper (Err)
open Asn1.Oer (splitAux readBytes enumValue enumName encodeStr decodeStr)

abbrev EncM := Except Err
abbrev DecM := Except Err

/-! ### identifier octets -/

/-- UNIVERSAL tag number (`Tag.*`); a CHOICE has none -/
def univNumber : Ty → Nat
  | .boolean => 1
  | .integer _ => 2
  | .bitString _ => 3
  | .octetString _ => 4
  | .null => 5
  | .enumerated _ _ => 10
  | .charString .utf8 _ => 12
  | .sequence _ _ _ => 16
  | .sequenceOf _ _ => 16
  | .charString .numeric _ => 18
  | .charString .printable _ => 19
  | .charString .ia5 _ => 22
  | .charString .visible _ => 26
  | .choice _ _ _ => 0

/-- types whose `set_tag` ors `Encoding.CONSTRUCTED` into the flags (`MembersType`, `ArrayType`,
`ExplicitTag` = tagged CHOICE) -/
def isConstructed : Ty → Bool
  | .sequence _ _ _ => true
  | .sequenceOf _ _ => true
  | .choice _ _ _ => true
  | _ => false

/-- `self.tag`: `encode_tag(Tag.X, flags)` from the constructor, or what `set_tag(i, CONTEXT_SPECIFIC)`
leaves after the AUTOMATIC TAGS pre-pass gave the member the tag `[i]` -/
def mkTag (univ : Nat) (constructed : Bool) (tg : Option Nat) : Bytes :=
  let c := if constructed then 0x20 else 0
  match tg with
  | none => Ber.encTag univ c
  | some n => Ber.encTag n (0x80 + c)

/-- identifier octets of `t` compiled in tagging context `tg` (for a CHOICE with `tg = some i`: the
tag of the `ExplicitTag` wrapper; a bare CHOICE has no tag and this is not used) -/
def tagOf (t : Ty) (tg : Option Nat) : Bytes := mkTag (univNumber t) (isConstructed t) tg

/-- `StandardEncodeMixin.encode`: tag, definite length, contents -/
def tlv (tag content : Bytes) : Bytes := tag ++ Ber.encLength content.length ++ content

/-! ### encoder -/

/-- BIT STRING contents: unused-bits octet, then the data with the unused bits cleared -/
def bitContent (data : Bytes) (n : Nat) : Bytes := ((8 - n % 8) % 8) :: cleanBits data n

/-- `member.is_default(value)`; `Null.is_default` is constantly `False` -/
def isDefaultB (t : Ty) (v d : Val) : Bool :=
  match t with
  | .null => false
  | _ => isDefault t v d

mutual
  /-- `Specification.encode(..., check_types=True)` first runs the type checker
  (codecs/type_checker.py) over the whole value; any complaint is an `EncodeError` raised before
  the codec is entered (so it is not swallowed inside extension additions). -/
  def checkTypes : Ty → Val → Bool
    | .boolean, .bool _ => true
    | .null, .null => true
    | .integer _, .int _ => true
    | .enumerated _ _, .enum _ => true
    | .octetString _, .bytes _ => true
    | .bitString _, .bits data n => decide (n ≤ 8 * data.length)
    | .charString _ _, .str _ => true
    | .sequence root _ adds, .record fs => checkMembers root fs && checkMembers adds fs
    | .sequenceOf e _, .list vs => vs.all (checkTypes e)
    | .choice root _ adds, .choice name v =>
      match checkAlt root name v with
      | some b => b
      | none => (checkAlt adds name v).getD false
    | _, _ => false

  def checkMembers : Members → List (String × Val) → Bool
    | .nil, _ => true
    | .cons name _ t rest, fs =>
      (match lookup name fs with
       | some v => checkTypes t v
       | none => true) && checkMembers rest fs

  def checkAlt : Alts → String → Val → Option Bool
    | .nil, _, _ => none
    | .cons n t rest, name, v => if n == name then some (checkTypes t v) else checkAlt rest name v
end

mutual
  /-- `type.encode(data, encoded)` for `t` compiled in tagging context `tg` -/
  def enc : Ty → Option Nat → Val → EncM Bytes
    | .boolean, tg, .bool b => .ok (tlv (mkTag 1 false tg) [if b then 0xff else 0])
    | .null, tg, .null => .ok (mkTag 5 false tg ++ [0])
    | .integer _, tg, .int i => .ok (tlv (mkTag 2 false tg) (intToBytesMin i))
    | .enumerated root ext, tg, .enum name =>
      match enumValue name (root ++ ext.getD []) with
      | none => .error .encodeError
      | some v => .ok (tlv (mkTag 10 false tg) (intToBytesMin v))
    | .octetString _, tg, .bytes data => .ok (tlv (mkTag 4 false tg) data)
    | .bitString _, tg, .bits data n => .ok (tlv (mkTag 3 false tg) (bitContent data n))
    | .charString k c, tg, .str cps =>
      match encodeStr k cps with
      | .error e => .error e
      | .ok bs => .ok (tlv (tagOf (.charString k c) tg) bs)
    | .sequence root _ adds, tg, .record fs =>
      match encMembers root 0 fs with
      | .error e => .error e
      | .ok body =>
        match encAdditions adds root.length fs with
        | .error e => .error e
        | .ok more => .ok (tlv (mkTag 16 true tg) (body ++ more))
    | .sequenceOf e _, tg, .list vs =>
      match vs.mapM (enc e none) with
      | .error err => .error err
      | .ok items => .ok (tlv (mkTag 16 true tg) items.flatten)
    | .choice root _ adds, tg, .choice name v =>
      let inner : EncM Bytes :=
        match encAlt root 0 name v with
        | some r => r
        | none =>
          match encAlt adds root.length name v with
          | some r => r
          | none => .error .encodeError
      match tg with
      | none => inner                                 -- bare CHOICE: the alternative's encoding
      | some _ =>                                     -- `ExplicitTag`
        match inner with
        | .error e => .error e
        | .ok body => .ok (tlv (mkTag 0 true tg) body)
    | _, _, _ => .error .foreign      -- unreachable once `checkTypes` passed

  /-- root members: `encode_member` for each, `i` = tag number of the first one -/
  def encMembers : Members → Nat → List (String × Val) → EncM Bytes
    | .nil, _, _ => .ok []
    | .cons name p t rest, i, fs =>
      let here : EncM Bytes :=
        match lookup name fs with
        | some v =>
          match p with
          | .default d => if isDefaultB t v d then .ok [] else enc t (some i) v
          | _ => enc t (some i) v
        | none =>
          match p with
          | .mandatory => .error .encodeError
          | _ => .ok []
      match here, encMembers rest (i + 1) fs with
      | .ok a, .ok b => .ok (a ++ b)
      | .error e, _ => .error e
      | _, .error e => .error e

  /-- `encode_additions`: an `EncodeError` ends the loop silently (what was encoded before it is
  kept, the failing addition and all later ones are dropped); other exceptions propagate -/
  def encAdditions : Members → Nat → List (String × Val) → EncM Bytes
    | .nil, _, _ => .ok []
    | .cons name p t rest, i, fs =>
      let here : EncM Bytes :=
        match lookup name fs with
        | some v =>
          match p with
          | .default d => if isDefaultB t v d then .ok [] else enc t (some i) v
          | _ => enc t (some i) v
        | none =>
          match p with
          | .mandatory => .error .encodeError
          | _ => .ok []
      match here with
      | .error .encodeError => .ok []
      | .error e => .error e
      | .ok a =>
        match encAdditions rest (i + 1) fs with
        | .ok b => .ok (a ++ b)
        | .error e => .error e

  def encAlt : Alts → Nat → String → Val → Option (EncM Bytes)
    | .nil, _, _, _ => none
    | .cons n t rest, i, name, v =>
      if n == name then some (enc t (some i) v) else encAlt rest (i + 1) name v
end

def encode (t : Ty) (v : Val) : EncM Bytes :=
  if checkTypes t v then enc t none v else .error .encodeError

/-! ### decoder: framing -/

/-- value, octets consumed, remaining input -/
abbrev Res := Val × Nat × Bytes

/-- does the input hold at least `n` more octets (one pass, stops where the shorter one ends) -/
def hasN : Nat → Bytes → Bool
  | 0, _ => true
  | _ + 1, [] => false
  | n + 1, _ :: r => hasN n r

/-- `decode_length(encoded, offset, enforce_definite)` on `encoded[offset:]`: the length (`none` =
indefinite), the number of length octets, and the input after them.  Running out of length octets
(`OutOfByteDataError`), an unexpected indefinite form and contents longer than the rest of the
*whole* input (`MissingDataError`) are all `DecodeError`s. -/
def readLen (definiteOnly : Bool) (bs : Bytes) : DecM (Option Nat × Nat × Bytes) :=
  match bs with
  | [] => .error .decodeError
  | l :: r =>
    if l < 128 then
      if hasN l r then .ok (some l, 1, r) else .error .decodeError
    else if l = 128 then
      if definiteOnly then .error .decodeError else .ok (none, 1, r)
    else
      match splitAux (l - 128) r [] with
      | none => .error .decodeError
      | some (ds, r') =>
        let n := bytesToNat ds
        if hasN n r' then .ok (some n, l - 128 + 1, r') else .error .decodeError

/-- the tag check of `StandardDecodeMixin.decode`: fewer than `tag_len` octets left is an
`OutOfByteDataError`, different octets are `TAG_MISMATCH` (`none`), else the input after the tag -/
def matchTag (tag : Bytes) (bs : Bytes) : DecM (Option Bytes) :=
  match splitAux tag.length bs [] with
  | none => .error .decodeError
  | some (t, r) => if t == tag then .ok (some r) else .ok none

/-- continuation octets of a high tag number, up to and including the first one below 128 -/
def tagRest : Bytes → Option (Bytes × Bytes)
  | [] => none
  | b :: r =>
    if b ≥ 128 then
      match tagRest r with
      | some (t, r') => some (b :: t, r')
      | none => none
    else some ([b], r)

/-- `read_tag(data, offset)` = `data[offset:skip_tag(data, offset)]`; `skip_tag` raises
`OutOfByteDataError` when the identifier octets are cut short *or nothing follows them* -/
def readTag (bs : Bytes) : DecM (Bytes × Bytes) :=
  match bs with
  | [] => .error .decodeError
  | b :: r =>
    let res : Option (Bytes × Bytes) :=
      if b % 32 = 31 then
        match tagRest r with
        | some (t, r') => some (b :: t, r')
        | none => none
      else some ([b], r)
    match res with
    | none => .error .decodeError
    | some (t, r') => if r'.isEmpty then .error .decodeError else .ok (t, r')

/-- `skip_tag_length_contents(data, offset)`: number of octets of the TLV and the input after it
(definite lengths only) -/
def skipTLV (bs : Bytes) : DecM (Nat × Bytes) := do
  let (t, r0) ← readTag bs
  let (len, h, r1) ← readLen true r0
  match len with
  | none => .error .decodeError
  | some n => .ok (t.length + h + n, r1.drop n)

/-- `detect_end_of_contents_tag(data, offset)` -/
def eoc (bs : Bytes) : DecM Bool :=
  match bs with
  | 0 :: 0 :: _ => .ok true
  | _ :: _ :: _ => .ok false
  | _ => .error .decodeError

/-- A position inside the contents of a constructed encoding: `bs = data[offset:]`, `k` = octets
consumed since the first identifier octet of that encoding, `toEnd = end_offset - offset` cut off
at 0 (`none`: `end_offset is None`, indefinite length). -/
structure Cur where
  bs : Bytes
  k : Nat
  toEnd : Option Nat

def Cur.advance (c : Cur) (k : Nat) (rest : Bytes) : Cur :=
  ⟨rest, c.k + k, c.toEnd.map (· - k)⟩

/-- `is_end_of_data(data, offset, end_offset)`; in the indefinite case a detected end-of-contents
marker is *consumed* (offset + 2) -/
def isEnd (c : Cur) : DecM (Bool × Cur) :=
  match c.toEnd with
  | some r => .ok (r == 0, c)
  | none =>
    match c.bs with
    | 0 :: 0 :: rest => .ok (true, ⟨rest, c.k + 2, none⟩)
    | _ :: _ :: _ => .ok (false, c)
    | _ => .error .decodeError

/-! ### decoder: primitive contents -/

/-- tag, definite length and contents octets of a primitive encoding
(`StandardDecodeMixin.decode` with `indefinite_allowed = False`, then `data[offset:offset+length]`):
contents, octets consumed, input after the contents -/
def readPrim (tag : Bytes) (bs : Bytes) : DecM (Option (Bytes × Nat × Bytes)) := do
  match ← matchTag tag bs with
  | none => .ok none
  | some r0 =>
    let (len, h, r1) ← readLen true r0
    match len with
    | none => .error .decodeError
    | some n =>
      let (content, r2) ← readBytes n r1
      .ok (some (content, tag.length + h + n, r2))

/-- BIT STRING contents → `(data, number_of_bits)` with `number_of_bits = 8 * (length - 1) - data[offset]`
(the unused-bits octet is not validated).  With empty contents `data[offset]` is whatever follows
(`IndexError` at the end of the input), and the bit count is negative whenever the first octet
exceeds the number of data bits: not a value of the model's universe. -/
def bitsOfContent (content rest : Bytes) : DecM (Bytes × Nat) :=
  match content with
  | [] => if rest.isEmpty then .error .foreign else .error .unmodelled
  | u :: body => if 8 * body.length < u then .error .unmodelled else .ok (body, 8 * body.length - u)

/-- ENUMERATED contents → name, `None` for an unknown value of an extensible type -/
def enumOfContent (root : List (String × Int)) (ext : Option (List (String × Int))) (content : Bytes) : DecM Val :=
  match enumName (bytesToInt content) (root ++ ext.getD []) with
  | some n => .ok (.enum n)
  | none => if ext.isSome then .ok .absent else .error .decodeError

/-! ### decoder: loops (fuel = length of the whole input + 1; every iteration consumes input) -/

/-- An element answering `TAG_MISMATCH` inside a DER SEQUENCE OF.  Since /repo commit d13122d
(`ber.check_decode_error` added to der.py `ArrayType.decode_content`) this is a `DecodeTagError`.
In the original der.py the element's result was not checked at all: the offset never advanced, the
`while` loop never ended and `TAG_MISMATCH` objects were appended for ever (finding C08).  To model
that tree put `.unmodelled` here (the model must not loop). -/
def derElemMismatch : Err := .decodeError

/-- der.py `ArrayType.decode_content`: `while (offset - start_offset) < length` (definite lengths
only, and like everywhere the last element may run past the end offset). -/
def derElems (p : Bytes → DecM (Option Res)) : (fuel : Nat) → (toEnd : Nat) → Bytes → DecM (List Val × Nat × Bytes)
  | 0, _, _ => .error .unmodelled
  | fuel + 1, toEnd, bs =>
    if toEnd = 0 then .ok ([], 0, bs)
    else
      match p bs with
      | .error e => .error e
      | .ok none => .error derElemMismatch
      | .ok (some (v, k, r)) =>
        match derElems p fuel (toEnd - k) r with
        | .error e => .error e
        | .ok (vs, k', r') => .ok (v :: vs, k + k', r')

/-- state of one pass of `decode_members` over the members still undecoded -/
structure MSt where
  cur : Cur
  ood : Bool      -- `out_of_data`
  succ : Bool     -- `decode_success`

/-- outer `while True` of `decode_members`: passes over the remaining members are repeated while a
pass decoded something and the data did not end (this is what accepts members in any order).
`slots` is parallel to the member list: `some v` = decoded. -/
def retry (pass : List (Option Val) → MSt → DecM (List (Option Val) × MSt)) :
    (fuel : Nat) → List (Option Val) → Cur → DecM (List (Option Val) × Cur × Bool)
  | 0, _, _ => .error .unmodelled
  | fuel + 1, slots, c =>
    match isEnd c with
    | .error e => .error e
    | .ok (ood, c') =>
      match pass slots ⟨c', ood, false⟩ with
      | .error e => .error e
      | .ok (slots', st) =>
        if st.ood || !st.succ then .ok (slots', st.cur, st.ood)
        else retry pass fuel slots' st.cur

/-- the values already decoded, in member order -/
def decodedOnly : Members → List (Option Val) → List (String × Val)
  | .nil, _ => []
  | .cons name _ _ rest, slots =>
    match slots.headD none with
    | some v => (name, v) :: decodedOnly rest slots.tail
    | none => decodedOnly rest slots.tail

/-- tail of `decode_members`: members without data are skipped (OPTIONAL), get their DEFAULT, or
are an error (`MissingMandatoryFieldError` / `DecodeTagError`); with `ignore_missing` (extension
additions) the first missing mandatory one stops the loop instead, so later DEFAULTs are not
filled in.  The record is returned in member order (the real result is a `dict`). -/
def fill : Members → List (Option Val) → (ignoreMissing : Bool) → DecM (List (String × Val))
  | .nil, _, _ => .ok []
  | .cons name p _ rest, slots, ign =>
    match slots.headD none with
    | some v =>
      match fill rest slots.tail ign with
      | .ok r => .ok ((name, v) :: r)
      | .error e => .error e
    | none =>
      match p with
      | .optional => fill rest slots.tail ign
      | .default d =>
        match fill rest slots.tail ign with
        | .ok r => .ok ((name, d) :: r)
        | .error e => .error e
      | .mandatory => if ign then .ok (decodedOnly rest slots.tail) else .error .decodeError

/-- end of `MembersType.decode_content` -/
def finishMembers (fs : List (String × Val)) (c : Cur) (ood : Bool) : DecM (Option Res) :=
  if ood then .ok (some (.record fs, c.k, c.bs))
  else
    match c.toEnd with
    | none => .error .decodeError                                  -- NoEndOfContentsTagError
    | some r => .ok (some (.record fs, c.k + r, c.bs.drop r))      -- unknown trailing TLVs are skipped

/-! ### the decoder -/

mutual
  /-- `type.decode(data, offset)` for `t` compiled in tagging context `tg`; `none` = `TAG_MISMATCH` -/
  def dec : Ty → Option Nat → (fuel : Nat) → Bytes → DecM (Option Res)
    | .boolean, tg, _, bs => do
      match ← readPrim (mkTag 1 false tg) bs with
      | none => .ok none
      | some (content, k, r) =>
        match content with
        | [b] => .ok (some (.bool (b != 0), k, r))
        | _ => .error .decodeError
    | .null, tg, _, bs => do
      -- `Null.decode_content` returns the offset of the contents, whatever the length says
      let tag := mkTag 5 false tg
      match ← matchTag tag bs with
      | none => .ok none
      | some r0 =>
        let (_, h, r1) ← readLen true r0
        .ok (some (.null, tag.length + h, r1))
    | .integer _, tg, _, bs => do
      match ← readPrim (mkTag 2 false tg) bs with
      | none => .ok none
      | some (content, k, r) => .ok (some (.int (bytesToInt content), k, r))
    | .enumerated root ext, tg, _, bs => do
      match ← readPrim (mkTag 10 false tg) bs with
      | none => .ok none
      | some (content, k, r) =>
        let v ← enumOfContent root ext content
        .ok (some (v, k, r))
    | .octetString _, tg, _, bs => do
      match ← readPrim (mkTag 4 false tg) bs with
      | none => .ok none
      | some (content, k, r) => .ok (some (.bytes content, k, r))
    | .bitString _, tg, _, bs => do
      match ← readPrim (mkTag 3 false tg) bs with
      | none => .ok none
      | some (content, k, r) =>
        let (body, n) ← bitsOfContent content r
        .ok (some (.bits body n, k, r))
    | .charString kind c, tg, _, bs => do
      match ← readPrim (tagOf (.charString kind c) tg) bs with
      | none => .ok none
      | some (content, k, r) =>
        let cps ← decodeStr kind content
        .ok (some (.str cps, k, r))
    | .sequence root _ adds, tg, fuel, bs => do
      -- ber.py `MembersType`: `indefinite_allowed = True` also under DER
      let tag := mkTag 16 true tg
      match ← matchTag tag bs with
      | none => .ok none
      | some r0 =>
        let (len, h, r1) ← readLen false r0
        let (slots, c1, ood1) ← retry (decPass root 0 fuel) (root.length + 1)
                                  (List.replicate root.length none) ⟨r1, tag.length + h, len⟩
        let fs ← fill root slots false
        if adds.length = 0 then finishMembers fs c1 ood1
        else
          -- `if self.additions:` a second `decode_members(..., out_of_data=out_of_data)`: its
          -- `while not out_of_data:` loop is skipped when the root call already reached (and, for the
          -- indefinite form, consumed) the end of the contents (/repo commit 300e5ac; before that fix
          -- the loop started with `is_end_of_data` again, beyond the end-of-contents octets)
          let (slots2, c2, ood2) ←
            (if ood1 then .ok (List.replicate adds.length none, c1, true)
             else retry (decPass adds root.length fuel) (adds.length + 1)
                    (List.replicate adds.length none) c1)
          let fs2 ← fill adds slots2 true
          finishMembers (fs ++ fs2) c2 ood2
    | .sequenceOf e _, tg, fuel, bs => do
      let tag := mkTag 16 true tg
      match ← matchTag tag bs with
      | none => .ok none
      | some r0 =>
        let (len, h, r1) ← readLen true r0
        let (vs, k, r2) ← derElems (dec e none fuel) fuel (len.getD 0) r1
        .ok (some (.list vs, tag.length + h + k, r2))
    | .choice root extensible adds, tg, fuel, bs =>
      -- `Choice.decode`
      let bare (b : Bytes) : DecM (Option Res) := do
        let (tag, _) ← readTag b
        match decAlt root 0 tag fuel b with
        | some res => res
        | none =>
          match decAlt adds root.length tag fuel b with
          | some res => res
          | none =>
            if extensible then do
              let (k, r) ← skipTLV b
              .ok (some (.choice "" .absent, k, r))
            else .ok none
      match tg with
      | none => bare bs
      | some _ => do
        -- `ExplicitTag.decode_content`: the announced length is not used
        let tag := mkTag 0 true tg
        match ← matchTag tag bs with
        | none => .ok none
        | some r0 =>
          let (len, h, r1) ← readLen false r0
          match ← bare r1 with
          | none => .error .decodeError                 -- `check_decode_error`
          | some (v, k, r2) =>
            match len with
            | some _ => .ok (some (v, tag.length + h + k, r2))
            | none =>
              if ← eoc r2 then .ok (some (v, tag.length + h + k + 2, r2.drop 2))
              else .error .decodeError                  -- NoEndOfContentsTagError

  /-- one `for member in remaining_members` pass of `decode_members`; `i` = tag number of the first
  member of the list -/
  def decPass : Members → Nat → (fuel : Nat) → List (Option Val) → MSt → DecM (List (Option Val) × MSt)
    | .nil, _, _, _, st => .ok ([], st)
    | .cons _ _ t rest, i, fuel, slots, st =>
      match slots.headD none with
      | some v => do
        let (r, st') ← decPass rest (i + 1) fuel slots.tail st
        .ok (some v :: r, st')
      | none =>
        if st.ood then do
          let (r, st') ← decPass rest (i + 1) fuel slots.tail st
          .ok (none :: r, st')
        else do
          match ← dec t (some i) fuel st.cur.bs with
          | none =>
            -- `is_end_of_data` is evaluated again at the same offset: same answer, nothing consumed
            let (r, st') ← decPass rest (i + 1) fuel slots.tail st
            .ok (none :: r, st')
          | some (v, k, r) =>
            let (ood, c) ← isEnd (st.cur.advance k r)
            let (r, st') ← decPass rest (i + 1) fuel slots.tail ⟨c, ood, true⟩
            .ok (some v :: r, st')

  /-- `tag_to_member[tag]` then `member.decode(data, offset)` -/
  def decAlt : Alts → Nat → Bytes → (fuel : Nat) → Bytes → Option (DecM (Option Res))
    | .nil, _, _, _, _ => none
    | .cons n t rest, i, tag, fuel, bs =>
      if tag == tagOf t (some i) then
        some (do
          match ← dec t (some i) fuel bs with
          | none => .error .unmodelled              -- unreachable: the tag was just matched
          | some (v, k, r) => .ok (some (.choice n v, k, r)))
      else decAlt rest (i + 1) tag fuel bs
end

/-- `decode_with_length`: a top-level `TAG_MISMATCH` becomes a `DecodeTagError` -/
def decodeWithLength (t : Ty) (bs : Bytes) : DecM (Val × Nat) :=
  match dec t none (bs.length + 1) bs with
  | .error e => .error e
  | .ok none => .error .decodeError
  | .ok (some (v, k, _)) => .ok (v, k)

def decode (t : Ty) (bs : Bytes) : DecM Val := (decodeWithLength t bs).map (·.1)

/-! ### kernel-evaluation checks (these fail if a definition stops being structurally recursive) -/

example : (decode (.sequence (.cons "a" .mandatory .boolean .nil) false .nil) [0x30, 3, 0x80, 1, 0xff]).isOk = true := by rfl
example : (encode (.sequence (.cons "a" .mandatory .boolean .nil) false .nil) (.record [("a", .bool true)])).toOption
    = some [0x30, 3, 0x80, 1, 0xff] := by rfl
-- `readLen` agrees with `Ber.decodeLength` (BerFraming) on the header and adds the `MissingDataError` check
example : (readLen true [0x82, 0, 3, 7, 8, 9]).toOption = some (some 3, 3, [7, 8, 9])
    ∧ Ber.decodeLength [0x82, 0, 3, 7, 8, 9] = .ok 3 3 := by constructor <;> rfl
example : (readLen true [0x82, 0, 3, 7, 8]).toOption = none := by rfl
-- `readTag` agrees with `Ber.skipTag`
example : (readTag [0x9f, 0x81, 0x02, 0x00]).toOption = some ([0x9f, 0x81, 0x02], [0])
    ∧ Ber.skipTag [0x9f, 0x81, 0x02, 0x00] = some 3 ∧ Ber.skipTag [0x9f, 0x81, 0x02] = none
    ∧ (readTag [0x9f, 0x81, 0x02]).toOption = none := by refine ⟨?_, ?_, ?_, ?_⟩ <;> rfl

end Asn1.Der
