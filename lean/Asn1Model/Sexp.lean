/-
  S-expressions: the wire format of the line protocol between the Python harness
  and the Lean driver.  Not part of any theorem.
-/
namespace Asn1

inductive Sx where
  | atom (s : String)
  | list (xs : List Sx)
  deriving Inhabited

namespace Sx

partial def toStr : Sx → String
  | atom s => s
  | list xs => "(" ++ " ".intercalate (xs.map toStr) ++ ")"

instance : ToString Sx := ⟨toStr⟩

/-- Parser: atoms are maximal runs of non-space, non-paren characters. -/
partial def parseAux (s : String) (i : String.Pos.Raw) (stack : Array (Array Sx)) (cur : Array Sx) :
    Option Sx :=
  if i.byteIdx ≥ s.utf8ByteSize then
    if stack.isEmpty ∧ cur.size = 1 then some cur[0]! else none
  else
    let c := i.get s
    if c = ' ' ∨ c = '\t' ∨ c = '\n' ∨ c = '\r' then parseAux s (i.next s) stack cur
    else if c = '(' then parseAux s (i.next s) (stack.push cur) #[]
    else if c = ')' then
      match stack.back? with
      | none => none
      | some top => parseAux s (i.next s) stack.pop (top.push (list cur.toList))
    else
      let rec scan (j : String.Pos.Raw) : String.Pos.Raw :=
        if j.byteIdx ≥ s.utf8ByteSize then j else
          let d := j.get s
          if d = ' ' ∨ d = '(' ∨ d = ')' ∨ d = '\t' ∨ d = '\n' ∨ d = '\r' then j else scan (j.next s)
      let j := scan i
      parseAux s j stack (cur.push (atom (i.extract s j)))

def parse (s : String) : Option Sx := parseAux s 0 #[] #[]

end Sx
end Asn1
