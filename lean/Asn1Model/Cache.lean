import Asn1Model.Prim
import Asn1Model.Extracted
/-
  C17: model of `_compile_files_cache` (asn1tools/compiler.py).
  key   = codec name ++ repr(options) ++ for each file: decimal length ++ ":" ++ contents
  store = a map from keys to pickled Specifications (diskcache); a read returns exactly what a
          completed write stored (assumption recorded in the trusted base).
-/
namespace Asn1.Cache

structure Call where
  codec : List Nat          -- codec name, ASCII
  opts  : List Nat          -- repr((any_defined_by_choices, encoding, numeric_enums)), UTF-8
  files : List (List Nat)   -- contents of each file, in order
  deriving DecidableEq, Repr

/-- decimal digits of `n`, ASCII (what `'{}'.format(n)` gives) -/
def digits (n : Nat) : List Nat := (toString n).toList.map Char.toNat

def netstring (f : List Nat) : List Nat := digits f.length ++ [58] ++ f

def key (c : Call) : List Nat := c.codec ++ c.opts ++ c.files.flatMap netstring

abbrev Store (ρ : Type) := List (List Nat × ρ)

def find {ρ : Type} (k : List Nat) : Store ρ → Option ρ
  | [] => none
  | (k', r) :: s => if k' = k then some r else find k s

/-- one `compile_files(..., cache_dir=d)` call: `fresh c` is what an uncached compile returns -/
def step {ρ : Type} (fresh : Call → ρ) (s : Store ρ) (c : Call) : Store ρ × ρ :=
  match find (key c) s with
  | some r => (s, r)
  | none => ((key c, fresh c) :: s, fresh c)

/-- run a history of calls on a store, collecting the results -/
def run {ρ : Type} (fresh : Call → ρ) : Store ρ → List Call → Store ρ × List ρ
  | s, [] => (s, [])
  | s, c :: cs =>
    let (s', r) := step fresh s c
    let (s'', rs) := run fresh s' cs
    (s'', r :: rs)

/-- every entry of the store was written by a completed `step` (or by another process doing the same) -/
def StoreOk {ρ : Type} (fresh : Call → ρ) (s : Store ρ) : Prop :=
  ∀ k r, (k, r) ∈ s → ∃ c, k = key c ∧ r = fresh c

/-- codec names as byte strings, from the table in `compile_dict` (regenerated from the source) -/
def codecNames : List (List Nat) := Extracted.codecNames.map (fun s => s.toList.map Char.toNat)

/-- a set of byte strings none of which is a proper prefix of (or equal to a prefix of) another -/
def PrefixFree (xs : List Nat → Prop) : Prop :=
  ∀ a b x y, xs a → xs b → a ++ x = b ++ y → a = b

/-- the calls the theorems are about: a known codec, and option encodings from a prefix-free set
(Python's `repr` of a tuple is self-delimiting; this is an assumption about CPython, see trusted base) -/
structure CallOk (optsSet : List Nat → Prop) (c : Call) : Prop where
  codec_known : c.codec ∈ codecNames
  opts_ok : optsSet c.opts

end Asn1.Cache
