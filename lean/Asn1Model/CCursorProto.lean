import Asn1Model.Prim
import Asn1Model.Sexp
import Asn1Model.CCursor
import Asn1Model.CCursorOer
/-
  Driver side of the differential test of the C helper library model (`tools/compare_chelpers.py`).

  `cops <TAB> (uenc <bufsize> <op>...)`   UPER encoder helpers on a `bufsize` byte buffer filled with 0x55
  `cops <TAB> (udec <hex|-> <op>...)`     UPER decoder helpers on the given bytes

  encoder ops: `(bit v) (bool v) (bytes hex|-) (u8 v) (u16 v) (u32 v) (u64 v) (i8 v) (i16 v) (i32 v)
                (i64 v) (nnbi value nbits) (abort err) (result)`, and `(bytesz hex claimedsize)`
  decoder ops: `(bit) (bool) (bytes n) (u8) (u16) (u32) (u64) (i8) (i16) (i32) (i64) (nnbi nbits)
                (abort err) (result)`, and `(bytesz objectsize claimedsize)`

  Answer: one token per op, separated by blanks:
    state after init / after an encoder op      `pos,size`
    decoder op with a value                      `value:pos,size`   (`bytes`: hex of the destination,
                                                  initially 0xaa; `?` for u16..i64 in the error state,
                                                  where C returns uninitialised stack bytes)
    `result`                                     encoder `R<result>:<hex of whole buffer>`, decoder `R<result>`
    a fault ends the answer with                 `FAULT:<kind>`

  `cops <TAB> (oenc <bufsize> <op>...)`   OER encoder helpers (`Asn1Model/CCursorOer.lean`), buffer filled with 0x55
  `cops <TAB> (odec <hex|-> <op>...)`     OER decoder helpers on the given bytes
  `cops <TAB> (slen <n>)`                 `staticLenDetLen n` (Python's generation-time `get_length_determinant_length`)

  OER encoder ops: `(bool v) (bytes hex|-) (bytesz hex claimedsize) (u8 v) (u16 v) (u32 v) (u64 v) (i8 v) (i16 v)
                (i32 v) (i64 v) (uint v nbytes) (int v nbytes) (luint v nbytes) (lendet v) (f32 bits) (f64 bits)
                (abort err) (result)`; the pure helpers `(lendetlen v) (minuintlen v) (enumlen v)` answer the two tokens
                `<value>:` and the (unchanged) state `pos,size`
  OER decoder ops: `(bool) (bytes n) (bytesz objectsize claimedsize) (u8) (u16) (u32) (u64) (i8) (i16) (i32) (i64)
                (uint nbytes) (int nbytes) (luint nbytes) (lendet) (tag) (f32) (f64) (abort err) (result)`;
                answers `value:pos,size` (never `?`: the OER `decoder_read_bytes` zeroes the destination in the
                error state); `f32`/`f64` values are the bit patterns; `FUEL` if the tag loop model ran out of fuel
  Not part of any theorem.
-/
namespace Asn1.CProto
open Asn1 Asn1.CCursor

def faultStr : Fault → String
  | .outOfBounds => "FAULT:outOfBounds"
  | .undefinedShift => "FAULT:undefinedShift"
  | .signedOverflow => "FAULT:signedOverflow"

def memHex (m : Mem) : String :=
  if m.size = 0 then "-" else toHex (m.toList.map UInt8.toNat)

def hexMem? (h : String) : Option Mem :=
  (fromHex (if h == "-" then "" else h)).map fun bs => (bs.map UInt8.ofNat).toArray

def st (pos size : Int) : String := s!"{pos},{size}"

def parseEncOp : Sx → Option EncOp
  | .list [.atom "bit", .atom v] => v.toInt?.map .bit
  | .list [.atom "bool", .atom v] => v.toNat?.map fun n => .bool (n != 0)
  | .list [.atom "bytes", .atom h] => (hexMem? h).map fun m => .bytes m (UInt64.ofNat m.size)
  | .list [.atom "bytesz", .atom h, .atom n] =>
    match hexMem? h, n.toNat? with
    | some m, some n => some (.bytes m (UInt64.ofNat n))
    | _, _ => none
  | .list [.atom "u8", .atom v] => v.toNat?.map fun n => .u8 (UInt8.ofNat n)
  | .list [.atom "u16", .atom v] => v.toNat?.map fun n => .u16 (UInt16.ofNat n)
  | .list [.atom "u32", .atom v] => v.toNat?.map fun n => .u32 (UInt32.ofNat n)
  | .list [.atom "u64", .atom v] => v.toNat?.map fun n => .u64 (UInt64.ofNat n)
  | .list [.atom "i8", .atom v] => v.toInt?.map fun n => .i8 (Int8.ofInt n)
  | .list [.atom "i16", .atom v] => v.toInt?.map fun n => .i16 (Int16.ofInt n)
  | .list [.atom "i32", .atom v] => v.toInt?.map fun n => .i32 (Int32.ofInt n)
  | .list [.atom "i64", .atom v] => v.toInt?.map fun n => .i64 (Int64.ofInt n)
  | .list [.atom "nnbi", .atom v, .atom n] =>
    match v.toNat?, n.toNat? with
    | some v, some n => some (.nnbi (UInt64.ofNat v) (UInt64.ofNat n))
    | _, _ => none
  | .list [.atom "abort", .atom v] => v.toInt?.map .abort
  | _ => none

def runEnc (e : Enc) : List Sx → List String → String
  | [], acc => " ".intercalate acc.reverse
  | .list [.atom "result"] :: rest, acc =>
    match e.getResult with
    | .error f => " ".intercalate (faultStr f :: acc).reverse
    | .ok r => runEnc e rest (s!"R{r}:{memHex e.buf}" :: acc)
  | sx :: rest, acc =>
    match parseEncOp sx with
    | none => "bad-args"
    | some op =>
      match e.run op with
      | .error f => " ".intercalate (faultStr f :: acc).reverse
      | .ok e' => runEnc e' rest (st e'.pos e'.size :: acc)

def fill (n : Nat) (v : UInt8) : Mem := Array.replicate n v

def parseDecOp : Sx → Option DecOp
  | .list [.atom "bit"] => some .bit
  | .list [.atom "bool"] => some .bool
  | .list [.atom "bytes", .atom n] => n.toNat?.map fun n => .bytes (fill n 0xaa) (UInt64.ofNat n)
  | .list [.atom "bytesz", .atom n, .atom k] =>
    match n.toNat?, k.toNat? with
    | some n, some k => some (.bytes (fill n 0xaa) (UInt64.ofNat k))
    | _, _ => none
  | .list [.atom "u8"] => some .u8
  | .list [.atom "u16"] => some (.u16 (fill 2 0))
  | .list [.atom "u32"] => some (.u32 (fill 4 0))
  | .list [.atom "u64"] => some (.u64 (fill 8 0))
  | .list [.atom "i8"] => some .i8
  | .list [.atom "i16"] => some (.i16 (fill 2 0))
  | .list [.atom "i32"] => some (.i32 (fill 4 0))
  | .list [.atom "i64"] => some (.i64 (fill 8 0))
  | .list [.atom "nnbi", .atom n] => n.toNat?.map fun n => .nnbi (UInt64.ofNat n)
  | .list [.atom "abort", .atom v] => v.toInt?.map .abort
  | _ => none

/-- ops whose C implementation returns uninitialised automatic storage in the error state -/
def DecOp.indeterminateOnError : DecOp → Bool
  | .u16 _ | .u32 _ | .u64 _ | .i16 _ | .i32 _ | .i64 _ => true
  | _ => false

def valStr : DecVal → String
  | .int v => toString v
  | .mem m => memHex m
  | .unit => "_"

def runDec (d : Dec) : List Sx → List String → String
  | [], acc => " ".intercalate acc.reverse
  | .list [.atom "result"] :: rest, acc =>
    match d.getResult with
    | .error f => " ".intercalate (faultStr f :: acc).reverse
    | .ok r => runDec d rest (s!"R{r}" :: acc)
  | sx :: rest, acc =>
    match parseDecOp sx with
    | none => "bad-args"
    | some op =>
      match d.run op with
      | .error f => " ".intercalate (faultStr f :: acc).reverse
      | .ok (v, d') =>
        let vs := if DecOp.indeterminateOnError op && d'.size < 0 then "?" else valStr v
        runDec d' rest (s!"{vs}:{st d'.pos d'.size}" :: acc)

/-! ### OER helper library -/
open Asn1.CCursorOer

def parseOEncOp : Sx → Option OEncOp
  | .list [.atom "bool", .atom v] => v.toNat?.map fun n => .bool (n != 0)
  | .list [.atom "bytes", .atom h] => (hexMem? h).map fun m => .bytes m (UInt64.ofNat m.size)
  | .list [.atom "bytesz", .atom h, .atom n] =>
    match hexMem? h, n.toNat? with
    | some m, some n => some (.bytes m (UInt64.ofNat n))
    | _, _ => none
  | .list [.atom "u8", .atom v] => v.toNat?.map fun n => .u8 (UInt8.ofNat n)
  | .list [.atom "u16", .atom v] => v.toNat?.map fun n => .u16 (UInt16.ofNat n)
  | .list [.atom "u32", .atom v] => v.toNat?.map fun n => .u32 (UInt32.ofNat n)
  | .list [.atom "u64", .atom v] => v.toNat?.map fun n => .u64 (UInt64.ofNat n)
  | .list [.atom "i8", .atom v] => v.toInt?.map fun n => .i8 (Int8.ofInt n)
  | .list [.atom "i16", .atom v] => v.toInt?.map fun n => .i16 (Int16.ofInt n)
  | .list [.atom "i32", .atom v] => v.toInt?.map fun n => .i32 (Int32.ofInt n)
  | .list [.atom "i64", .atom v] => v.toInt?.map fun n => .i64 (Int64.ofInt n)
  | .list [.atom "uint", .atom v, .atom n] =>
    match v.toNat?, n.toNat? with
    | some v, some n => some (.uint (UInt32.ofNat v) (UInt8.ofNat n))
    | _, _ => none
  | .list [.atom "int", .atom v, .atom n] =>
    match v.toInt?, n.toNat? with
    | some v, some n => some (.int (Int32.ofInt v) (UInt8.ofNat n))
    | _, _ => none
  | .list [.atom "luint", .atom v, .atom n] =>
    match v.toNat?, n.toNat? with
    | some v, some n => some (.luint (UInt64.ofNat v) (UInt8.ofNat n) (fill 8 0))
    | _, _ => none
  | .list [.atom "lendet", .atom v] => v.toNat?.map fun n => .lendet (UInt32.ofNat n)
  | .list [.atom "f32", .atom v] => v.toNat?.map fun n => .f32 (UInt32.ofNat n)
  | .list [.atom "f64", .atom v] => v.toNat?.map fun n => .f64 (UInt64.ofNat n)
  | .list [.atom "abort", .atom v] => v.toInt?.map .abort
  | _ => none

/-- the pure helpers, which the C `main` prints as `<value>:` followed by the state -/
def pureOp : Sx → Option Nat
  | .list [.atom "lendetlen", .atom v] => v.toNat?.map fun n => (lengthDeterminantLength (UInt32.ofNat n)).toNat
  | .list [.atom "minuintlen", .atom v] => v.toNat?.map fun n => (minimumUintLength (UInt32.ofNat n)).toNat
  | .list [.atom "enumlen", .atom v] => v.toInt?.map fun n => (enumeratedValueLength (Int32.ofInt n)).toNat
  | _ => none

def runOEnc (e : OEnc) : List Sx → List String → String
  | [], acc => " ".intercalate acc.reverse
  | .list [.atom "result"] :: rest, acc =>
    match e.getResult with
    | .error f => " ".intercalate (faultStr f :: acc).reverse
    | .ok r => runOEnc e rest (s!"R{r}:{memHex e.buf}" :: acc)
  | sx :: rest, acc =>
    match pureOp sx with
    | some v => runOEnc e rest (s!"{v}: {st e.pos e.size}" :: acc)
    | none =>
    match parseOEncOp sx with
    | none => "bad-args"
    | some op =>
      match e.run op with
      | .error f => " ".intercalate (faultStr f :: acc).reverse
      | .ok e' => runOEnc e' rest (st e'.pos e'.size :: acc)

def parseODecOp : Sx → Option ODecOp
  | .list [.atom "bool"] => some (.bool {})
  | .list [.atom "bytes", .atom n] => n.toNat?.map fun n => .bytes (fill n 0xaa) (UInt64.ofNat n)
  | .list [.atom "bytesz", .atom n, .atom k] =>
    match n.toNat?, k.toNat? with
    | some n, some k => some (.bytes (fill n 0xaa) (UInt64.ofNat k))
    | _, _ => none
  | .list [.atom "u8"] => some (.u8 {})
  | .list [.atom "u16"] => some (.u16 {})
  | .list [.atom "u32"] => some (.u32 {})
  | .list [.atom "u64"] => some (.u64 {})
  | .list [.atom "i8"] => some (.i8 {})
  | .list [.atom "i16"] => some (.i16 {})
  | .list [.atom "i32"] => some (.i32 {})
  | .list [.atom "i64"] => some (.i64 {})
  | .list [.atom "uint", .atom n] => n.toNat?.map fun n => .uint (UInt8.ofNat n) {}
  | .list [.atom "int", .atom n] => n.toNat?.map fun n => .int (UInt8.ofNat n) {}
  | .list [.atom "luint", .atom n] => n.toNat?.map fun n => .luint (UInt8.ofNat n) {}
  | .list [.atom "lendet"] => some (.lendet {})
  | .list [.atom "tag"] => some (.tag {})
  | .list [.atom "f32"] => some (.f32 {})
  | .list [.atom "f64"] => some (.f64 {})
  | .list [.atom "abort", .atom v] => v.toInt?.map .abort
  | _ => none

def ovalStr : ODecVal → String
  | .int v => toString v
  | .mem m => memHex m
  | .unit => "_"
  | .fuelExhausted => "FUEL"

def runODec (d : ODec) : List Sx → List String → String
  | [], acc => " ".intercalate acc.reverse
  | .list [.atom "result"] :: rest, acc =>
    match d.getResult with
    | .error f => " ".intercalate (faultStr f :: acc).reverse
    | .ok r => runODec d rest (s!"R{r}" :: acc)
  | sx :: rest, acc =>
    match parseODecOp sx with
    | none => "bad-args"
    | some op =>
      match d.run op with
      | .error f => " ".intercalate (faultStr f :: acc).reverse
      | .ok (v, d') => runODec d' rest (s!"{ovalStr v}:{st d'.pos d'.size}" :: acc)

def opCops (args : List Sx) : String :=
  match args with
  | [.list (.atom "uenc" :: .atom n :: ops)] =>
    match n.toNat? with
    | none => "bad-args"
    | some n =>
      match Enc.init (fill n 0x55) (UInt64.ofNat n) with
      | .error f => faultStr f
      | .ok e => runEnc e ops [st e.pos e.size]
  | [.list (.atom "udec" :: .atom h :: ops)] =>
    match hexMem? h with
    | none => "bad-hex"
    | some m =>
      match Dec.init m (UInt64.ofNat m.size) with
      | .error f => faultStr f
      | .ok d => runDec d ops [st d.pos d.size]
  | [.list (.atom "oenc" :: .atom n :: ops)] =>
    match n.toNat? with
    | none => "bad-args"
    | some n =>
      match OEnc.init (fill n 0x55) (UInt64.ofNat n) with
      | .error f => faultStr f
      | .ok e => runOEnc e ops [st e.pos e.size]
  | [.list (.atom "odec" :: .atom h :: ops)] =>
    match hexMem? h with
    | none => "bad-hex"
    | some m =>
      match ODec.init m (UInt64.ofNat m.size) with
      | .error f => faultStr f
      | .ok d => runODec d ops [st d.pos d.size]
  | [.list [.atom "slen", .atom n]] =>
    match n.toNat? with
    | none => "bad-args"
    | some n => toString (staticLenDetLen n)
  | _ => "bad-args"

end Asn1.CProto
