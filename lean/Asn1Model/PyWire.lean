import Asn1Model.Sexp
import Asn1Model.PyPrim
/-
  Wire format of the translated-function driver (`trdriver`): values of the translated Python subset as
  S-expressions.  int -> decimal atom, bool -> T/F, None -> none, list -> (..), tuple -> (..), raised -> (err Name).
  Not part of any theorem.
-/
namespace Py

open Asn1

class Wire (α : Type) where
  toSx : α → Sx
  ofSx : Sx → Option α

instance : Wire Int where
  toSx i := .atom (toString i)
  ofSx
    | .atom s => s.toInt?
    | _ => none

instance : Wire Bool where
  toSx b := .atom (if b then "T" else "F")
  ofSx
    | .atom "T" => some true
    | .atom "F" => some false
    | _ => none

instance : Wire Unit where
  toSx _ := .atom "none"
  ofSx
    | .atom "none" => some ()
    | _ => none

instance {α : Type} [Wire α] : Wire (List α) where
  toSx xs := .list (xs.map Wire.toSx)
  ofSx
    | .list xs => xs.mapM Wire.ofSx
    | _ => none

instance {α β : Type} [Wire α] [Wire β] : Wire (α × β) where
  toSx p := .list [Wire.toSx p.1, Wire.toSx p.2]
  ofSx
    | .list [a, b] => do pure ((← Wire.ofSx a), (← Wire.ofSx b))
    | _ => none

/-- Python `str` values: `s:<text>` -/
instance : Wire (List Char) where
  toSx cs := .atom ("s:" ++ String.ofList cs)
  ofSx
    | .atom s => if s.startsWith "s:" then some (s.toList.drop 2) else none
    | _ => none

instance {α : Type} [Wire α] : Wire (Option α) where
  toSx
    | none => .atom "none"
    | some v => Wire.toSx v
  ofSx
    | .atom "none" => some none
    | x => (Wire.ofSx x).map some

def errToSx {α : Type} [Wire α] : Except Err α → Sx
  | .ok v => Wire.toSx v
  | .error e => .list ([.atom "err", .atom e.cls] ++ e.args.map Wire.toSx)

def exceptToSx {α : Type} [Wire α] : Except String α → Sx
  | .ok v => Wire.toSx v
  | .error e => .list [.atom "err", .atom e]

end Py
