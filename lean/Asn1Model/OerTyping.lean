import Asn1Model.Typing
import Asn1Model.Oer
/-
  OER-specific side conditions of the round-trip theorem.
-/
namespace Asn1.Oer

mutual
  /-- enumeration values are pairwise distinct over root and additions (X.680 requires it; the
  OER decoder looks names up by value) -/
  def oerWf : Ty → Bool
    | .enumerated root ext => ((root ++ ext.getD []).map (·.2)).Nodup
    | .sequence root _ adds => oerWfMembers root && oerWfMembers adds
    | .sequenceOf e _ => oerWf e
    | .choice root _ adds => oerWfAlts root && oerWfAlts adds
    | _ => true
  def oerWfMembers : Members → Bool
    | .nil => true
    | .cons _ _ t rest => oerWf t && oerWfMembers rest
  def oerWfAlts : Alts → Bool
    | .nil => true
    | .cons _ t rest => oerWf t && oerWfAlts rest
end

mutual
  /-- Finding predicate F_oer_fixed_utf8 (negated): under a fixed SIZE(n) a UTF8String is written
  without a length prefix and read back as exactly n *octets*; that only round-trips when the
  UTF-8 form has exactly n octets (n ASCII characters). -/
  def utf8Ok : Ty → Val → Bool
    | .charString .utf8 c, .str cps =>
      (match fixedSize c with
       | some n => decide ((cps.flatMap Uper.utf8Enc).length = n)
       | none => true)
    | .sequence root _ adds, .record fs => utf8OkMembers root fs && utf8OkMembers adds fs
    | .sequenceOf e _, .list vs => vs.all (utf8Ok e)
    | .choice root _ adds, .choice n v => utf8OkAlt root n v && utf8OkAlt adds n v
    | _, _ => true
  def utf8OkMembers : Members → List (String × Val) → Bool
    | .nil, _ => true
    | .cons name _ t rest, fs =>
      (match lookup name fs with
       | some v => utf8Ok t v
       | none => true) && utf8OkMembers rest fs
  def utf8OkAlt : Alts → String → Val → Bool
    | .nil, _, _ => true
    | .cons n t rest, name, v => if n == name then utf8Ok t v else utf8OkAlt rest name v
end

end Asn1.Oer
