/-
  Executable model of the C HELPER LIBRARY that asn1tools' UPER C generator emits into every
  generated source file (`/repo/asn1tools/source/c/uper_functions.py`, plus `ENCODER_ABORT` /
  `DECODER_ABORT` from `/repo/asn1tools/source/c/utils.py`).

  The model follows the C text statement by statement under the LP64 data model
  (`int` 32 bit, `ssize_t`/`long` 64 bit two's complement, `size_t` 64 bit):

  * `size_t` and the `uintN_t` are Lean's wrapping `UInt64`/`UInt32`/`UInt16`/`UInt8`;
    `intN_t` are Lean's two's complement `IntN`;
  * `ssize_t` and `int` values are mathematical `Int`s and every arithmetic result is passed
    through `ssz` (resp. the checked shifts), which returns `Fault.signedOverflow` when the
    mathematical result is not representable (signed overflow is undefined behaviour in C);
  * every shift goes through a checked shift which returns `Fault.undefinedShift` when the amount
    is negative or `≥` the width of the promoted left operand, or (signed `<<`) when the
    result is not representable;
  * EVERY memory access goes through `Mem.load`/`Mem.store` (and pointer formation `&p[k]`
    through `Mem.ptr`), which return `Fault.outOfBounds` instead of reading/writing outside the
    memory object.  So "no out-of-bounds access" is a theorem about this model
    (`Asn1Proofs/Properties/C09.lean`), not an assumption;
  * conversions `size_t → ssize_t` (`toSsize`) and out-of-range `unsigned → signed` are
    implementation-defined in C; they are modelled as gcc/clang define them (reduction modulo 2^N);
  * loops are structural recursion over the trip count;
  * automatic arrays that the C code leaves uninitialised (`uint8_t buf[2]` in
    `decoder_read_uint16` ...) are explicit `junk` parameters: their content is arbitrary.

  No imports: this file is linked into the driver executable.
-/
namespace Asn1.CCursor

/-- The ways in which a C execution can leave defined behaviour. -/
inductive Fault where
  /-- access to (or formation of a pointer beyond one-past) a memory object -/
  | outOfBounds
  /-- shift by a negative amount or by `≥ width`, or signed `<<` of a negative / overflowing value -/
  | undefinedShift
  /-- `ssize_t`/`int` arithmetic whose mathematical result is not representable -/
  | signedOverflow
  deriving DecidableEq, Repr, Inhabited

abbrev C := Except Fault

/-! ### memory objects -/

/-- A memory object (`uint8_t[]`), e.g. the caller's destination buffer. -/
abbrev Mem := Array UInt8

namespace Mem

/-- checked read `m[i]` -/
def load (m : Mem) (i : Nat) : C UInt8 :=
  if h : i < m.size then .ok m[i] else .error .outOfBounds

/-- checked write `m[i] = v` -/
def store (m : Mem) (i : Nat) (v : UInt8) : C Mem :=
  if h : i < m.size then .ok (m.set i v) else .error .outOfBounds

/-- checked read with an `ssize_t` index -/
def loadI (m : Mem) (i : Int) : C UInt8 :=
  if i < 0 then .error .outOfBounds else m.load i.toNat

/-- checked write with an `ssize_t` index -/
def storeI (m : Mem) (i : Int) (v : UInt8) : C Mem :=
  if i < 0 then .error .outOfBounds else m.store i.toNat v

/-- formation of the pointer `&m[i]` (allowed up to one past the end) -/
def ptr (m : Mem) (i : Nat) : C Unit :=
  if i ≤ m.size then .ok () else .error .outOfBounds

end Mem

/-- `memcpy(&dst[dOff], &src[sOff], n)`: `n` checked reads and writes. -/
def memcpy (src : Mem) : (n : Nat) → (dst : Mem) → (dOff sOff : Nat) → C Mem
  | 0, dst, _, _ => .ok dst
  | n + 1, dst, dOff, sOff => do
    let v ← src.load sOff
    let dst ← dst.store dOff v
    memcpy src n dst (dOff + 1) (sOff + 1)

/-- `memset(&dst[dOff], v, n)` -/
def memset (v : UInt8) : (n : Nat) → (dst : Mem) → (dOff : Nat) → C Mem
  | 0, dst, _ => .ok dst
  | n + 1, dst, dOff => do
    let dst ← dst.store dOff v
    memset v n dst (dOff + 1)

/-! ### fixed width arithmetic -/

/-- result of an `ssize_t` (64 bit signed) computation -/
def ssz (x : Int) : C Int :=
  if -9223372036854775808 ≤ x ∧ x ≤ 9223372036854775807 then .ok x else .error .signedOverflow

/-- `(ssize_t)n` for `size_t n` (implementation-defined; gcc/clang: modulo 2^64) -/
def toSsize (n : UInt64) : Int :=
  if n.toNat < 9223372036854775808 then (n.toNat : Int) else (n.toNat : Int) - 18446744073709551616

/-- `(size_t)x` for `ssize_t x` (defined: modulo 2^64) -/
def toSize (x : Int) : UInt64 := UInt64.ofNat (x % 18446744073709551616).toNat

/-- `v << s` where `v` is a non-negative value of (promoted) type `int` -/
def shlS32 (v : Nat) (s : Nat) : C Nat :=
  if s < 32 ∧ v <<< s < 2147483648 then .ok (v <<< s) else .error .undefinedShift

/-- `v >> s` where `v` is a non-negative value of (promoted) type `int` -/
def shrS32 (v : Nat) (s : Nat) : C Nat :=
  if s < 32 then .ok (v >>> s) else .error .undefinedShift

def shlU32 (v : UInt32) (s : Nat) : C UInt32 :=
  if s < 32 then .ok (v <<< UInt32.ofNat s) else .error .undefinedShift

def shrU32 (v : UInt32) (s : Nat) : C UInt32 :=
  if s < 32 then .ok (v >>> UInt32.ofNat s) else .error .undefinedShift

def shlU64 (v : UInt64) (s : Nat) : C UInt64 :=
  if s < 64 then .ok (v <<< UInt64.ofNat s) else .error .undefinedShift

def shrU64 (v : UInt64) (s : Nat) : C UInt64 :=
  if s < 64 then .ok (v >>> UInt64.ofNat s) else .error .undefinedShift

/-- `value << s` for `int value` and a shift amount of type `ssize_t` (C99 6.5.7) -/
def shlInt (value : Int) (s : Int) : C Nat :=
  if value < 0 ∨ s < 0 then .error .undefinedShift else shlS32 value.toNat s.toNat

def ENOMEM : Int := 12
def EINVAL : Int := 22
def EOUTOFDATA : Int := 500
def EBADCHOICE : Int := 501
def EBADLENGTH : Int := 502
def EBADENUM : Int := 503

/-! ### `struct encoder_t` -/

structure Enc where
  /-- the memory object `buf_p` points to -/
  buf : Mem
  /-- `ssize_t size` (in bits; negative error code once latched) -/
  size : Int
  /-- `ssize_t pos` (in bits; negative error code once latched) -/
  pos : Int
  deriving Repr

namespace Enc

/-- `encoder_init` -/
def init (buf : Mem) (size : UInt64) : C Enc := do
  let s ← ssz (8 * toSsize size)                       -- self_p->size = (8 * (ssize_t)size);
  .ok { buf := buf, size := s, pos := 0 }

/-- `encoder_get_result` -/
def getResult (e : Enc) : C Int :=
  if e.size ≥ 0 then do
    let s ← ssz (e.pos + 7)
    .ok (s.tdiv 8)                                      -- return ((self_p->pos + 7) / 8);
  else .ok e.pos

/-- `encoder_abort` -/
def abort (e : Enc) (error : Int) : C Enc :=
  if e.size ≥ 0 then do
    let n ← ssz (-error)
    .ok { e with size := n, pos := n }
  else .ok e

/-- `encoder_alloc` -/
def alloc (e : Enc) (size : UInt64) : C (Int × Enc) := do
  let sum ← ssz (e.pos + toSsize size)
  if sum ≤ e.size then
    let pos := e.pos
    let np ← ssz (e.pos + toSsize size)                -- self_p->pos += (ssize_t)size;
    .ok (pos, { e with pos := np })
  else
    let pos ← ssz (-ENOMEM)
    let e ← e.abort ENOMEM
    .ok (pos, e)

/-- `encoder_append_bit` (`value` has C type `int`) -/
def appendBit (e : Enc) (value : Int) : C Enc := do
  let (pos, e) ← e.alloc 1
  if pos < 0 then .ok e else
  let buf ← (if pos.tmod 8 = 0 then e.buf.storeI (pos.tdiv 8) 0 else .ok e.buf)
  let sh ← ssz (7 - pos.tmod 8)
  let x ← shlInt value sh                               -- value << (7 - (pos % 8))
  let old ← buf.loadI (pos.tdiv 8)
  let buf ← buf.storeI (pos.tdiv 8) (old ||| UInt8.ofNat x)
  .ok { e with buf := buf }

/-- the `for` loop of the unaligned branch of `encoder_append_bytes` -/
def appendBytesLoop (src : Mem) (bytePos posInByte : UInt64) : (n : Nat) → (i : UInt64) → Mem → C Mem
  | 0, _, buf => .ok buf
  | n + 1, i, buf => do
    let s ← src.load i.toNat
    let old ← buf.load (bytePos + i).toNat
    let x ← shrS32 s.toNat posInByte.toNat             -- buf_p[i] >> pos_in_byte
    let buf ← buf.store (bytePos + i).toNat (old ||| UInt8.ofNat x)
    let s ← src.load i.toNat
    let y ← shlS32 s.toNat (8 - posInByte).toNat       -- buf_p[i] << (8u - pos_in_byte)
    let buf ← buf.store (bytePos + i + 1).toNat (UInt8.ofNat y)
    appendBytesLoop src bytePos posInByte n (i + 1) buf

/-- `encoder_append_bytes(self_p, buf_p = src, size)` -/
def appendBytes (e : Enc) (src : Mem) (size : UInt64) : C Enc := do
  let (pos, e) ← e.alloc (8 * size)
  if pos < 0 then .ok e else
  let bytePos := toSize pos / 8
  let posInByte := toSize pos % 8
  if posInByte = 0 then do
    e.buf.ptr bytePos.toNat
    let buf ← memcpy src size.toNat e.buf bytePos.toNat 0
    .ok { e with buf := buf }
  else do
    let buf ← appendBytesLoop src bytePos posInByte size.toNat 0 e.buf
    .ok { e with buf := buf }

/-- `encoder_append_uint8` -/
def appendU8 (e : Enc) (value : UInt8) : C Enc :=
  e.appendBytes #[value] 1

/-- `encoder_append_uint16` -/
def appendU16 (e : Enc) (value : UInt16) : C Enc := do
  let b0 ← shrS32 value.toNat 8
  e.appendBytes #[UInt8.ofNat b0, UInt8.ofNat value.toNat] 2

/-- `encoder_append_uint32` -/
def appendU32 (e : Enc) (value : UInt32) : C Enc := do
  let b0 ← shrU32 value 24
  let b1 ← shrU32 value 16
  let b2 ← shrU32 value 8
  e.appendBytes #[b0.toUInt8, b1.toUInt8, b2.toUInt8, value.toUInt8] 4

/-- `encoder_append_uint64` -/
def appendU64 (e : Enc) (value : UInt64) : C Enc := do
  let b0 ← shrU64 value 56
  let b1 ← shrU64 value 48
  let b2 ← shrU64 value 40
  let b3 ← shrU64 value 32
  let b4 ← shrU64 value 24
  let b5 ← shrU64 value 16
  let b6 ← shrU64 value 8
  e.appendBytes #[b0.toUInt8, b1.toUInt8, b2.toUInt8, b3.toUInt8,
                  b4.toUInt8, b5.toUInt8, b6.toUInt8, value.toUInt8] 8

/-- `encoder_append_int8`: `(uint8_t)value + 128` is computed in `int` and converted to the
`uint8_t` parameter -/
def appendI8 (e : Enc) (value : Int8) : C Enc :=
  e.appendU8 (UInt8.ofNat (value.toUInt8.toNat + 128))

/-- `encoder_append_int16` -/
def appendI16 (e : Enc) (value : Int16) : C Enc :=
  e.appendU16 (UInt16.ofNat (value.toUInt16.toNat + 32768))

/-- `encoder_append_int32`: `(uint32_t)value + 2147483648` is computed in `long` -/
def appendI32 (e : Enc) (value : Int32) : C Enc :=
  e.appendU32 (UInt32.ofNat (value.toUInt32.toNat + 2147483648))

/-- `encoder_append_int64` -/
def appendI64 (e : Enc) (value : Int64) : C Enc :=
  e.appendU64 (value.toUInt64 + 9223372036854775808)

/-- `encoder_append_bool` -/
def appendBool (e : Enc) (value : Bool) : C Enc :=
  e.appendBit (if value then 1 else 0)

/-- the `for` loop of `encoder_append_non_negative_binary_integer` -/
def nnbiLoop (value size : UInt64) : (n : Nat) → (i : UInt64) → Enc → C Enc
  | 0, _, e => .ok e
  | n + 1, i, e => do
    let x ← shrU64 value (size - i - 1).toNat           -- value >> (size - i - 1)
    let e ← e.appendBit (Int.ofNat (x &&& 1).toNat)     -- ... & 1, converted to `int`
    nnbiLoop value size n (i + 1) e

/-- `encoder_append_non_negative_binary_integer` -/
def appendNnbi (e : Enc) (value size : UInt64) : C Enc :=
  nnbiLoop value size size.toNat 0 e

end Enc

/-! ### `struct decoder_t` -/

structure Dec where
  buf : Mem
  size : Int
  pos : Int
  deriving Repr

namespace Dec

/-- `decoder_init` -/
def init (buf : Mem) (size : UInt64) : C Dec := do
  let s ← ssz (8 * toSsize size)
  .ok { buf := buf, size := s, pos := 0 }

/-- `decoder_get_result` -/
def getResult (d : Dec) : C Int :=
  if d.size ≥ 0 then do
    let s ← ssz (d.pos + 7)
    .ok (s.tdiv 8)
  else .ok d.pos

/-- `decoder_abort` -/
def abort (d : Dec) (error : Int) : C Dec :=
  if d.size ≥ 0 then do
    let n ← ssz (-error)
    .ok { d with size := n, pos := n }
  else .ok d

/-- `decoder_free` -/
def free (d : Dec) (size : UInt64) : C (Int × Dec) := do
  let sum ← ssz (d.pos + toSsize size)
  if sum ≤ d.size then
    let pos := d.pos
    let np ← ssz (d.pos + toSsize size)
    .ok (pos, { d with pos := np })
  else
    let pos ← ssz (-EOUTOFDATA)
    let d ← d.abort EOUTOFDATA
    .ok (pos, d)

/-- `decoder_read_bit` (returns a C `int`) -/
def readBit (d : Dec) : C (Nat × Dec) := do
  let (pos, d) ← d.free 1
  if pos ≥ 0 then do
    let b ← d.buf.loadI (pos.tdiv 8)
    let sh ← ssz (7 - pos.tmod 8)
    if sh < 0 then .error .undefinedShift else
    let x ← shrS32 b.toNat sh.toNat                     -- buf_p[pos / 8] >> (7 - (pos % 8))
    .ok (x &&& 1, d)
  else .ok (0, d)

/-- the `for` loop of the unaligned branch of `decoder_read_bytes` -/
def readBytesLoop (src : Mem) (bytePos posInByte : UInt64) : (n : Nat) → (i : UInt64) → Mem → C Mem
  | 0, _, dst => .ok dst
  | n + 1, i, dst => do
    let a ← src.load (bytePos + i).toNat
    let x ← shlS32 a.toNat posInByte.toNat              -- self_p->buf_p[byte_pos + i] << pos_in_byte
    let dst ← dst.store i.toNat (UInt8.ofNat x)
    let b ← src.load (bytePos + i + 1).toNat
    let y ← shrS32 b.toNat (8 - posInByte).toNat        -- ... >> (8u - pos_in_byte)
    let old ← dst.load i.toNat
    let dst ← dst.store i.toNat (old ||| UInt8.ofNat y)
    readBytesLoop src bytePos posInByte n (i + 1) dst

/-- `decoder_read_bytes(self_p, buf_p = dst, size)`; returns the destination object -/
def readBytes (d : Dec) (dst : Mem) (size : UInt64) : C (Mem × Dec) := do
  let (pos, d) ← d.free (8 * size)
  if pos < 0 then .ok (dst, d) else
  let bytePos := toSize pos / 8
  let posInByte := toSize pos % 8
  if posInByte = 0 then do
    d.buf.ptr bytePos.toNat
    let dst ← memcpy d.buf size.toNat dst 0 bytePos.toNat
    .ok (dst, d)
  else do
    let dst ← readBytesLoop d.buf bytePos posInByte size.toNat 0 dst
    .ok (dst, d)

/-- `decoder_read_uint8` (`uint8_t value = 0;`) -/
def readU8 (d : Dec) : C (UInt8 × Dec) := do
  let (m, d) ← d.readBytes #[0] 1
  let v ← m.load 0
  .ok (v, d)

/-- `decoder_read_uint16`; `junk` is the uninitialised content of `uint8_t buf[2]` -/
def readU16 (d : Dec) (junk : Mem := #[0, 0]) : C (UInt16 × Dec) := do
  let (m, d) ← d.readBytes junk 2
  let b0 ← m.load 0
  let b1 ← m.load 1
  let x ← shlS32 b0.toNat 8                              -- (uint16_t)buf[0] << 8   (in `int`)
  .ok (UInt16.ofNat (x ||| b1.toNat), d)

/-- `decoder_read_uint32` -/
def readU32 (d : Dec) (junk : Mem := #[0, 0, 0, 0]) : C (UInt32 × Dec) := do
  let (m, d) ← d.readBytes junk 4
  let b0 ← m.load 0
  let b1 ← m.load 1
  let b2 ← m.load 2
  let b3 ← m.load 3
  let x0 ← shlU32 b0.toUInt32 24
  let x1 ← shlU32 b1.toUInt32 16
  let x2 ← shlU32 b2.toUInt32 8
  .ok (x0 ||| x1 ||| x2 ||| b3.toUInt32, d)

/-- `decoder_read_uint64` -/
def readU64 (d : Dec) (junk : Mem := #[0, 0, 0, 0, 0, 0, 0, 0]) : C (UInt64 × Dec) := do
  let (m, d) ← d.readBytes junk 8
  let b0 ← m.load 0
  let b1 ← m.load 1
  let b2 ← m.load 2
  let b3 ← m.load 3
  let b4 ← m.load 4
  let b5 ← m.load 5
  let b6 ← m.load 6
  let b7 ← m.load 7
  let x0 ← shlU64 b0.toUInt64 56
  let x1 ← shlU64 b1.toUInt64 48
  let x2 ← shlU64 b2.toUInt64 40
  let x3 ← shlU64 b3.toUInt64 32
  let x4 ← shlU64 b4.toUInt64 24
  let x5 ← shlU64 b5.toUInt64 16
  let x6 ← shlU64 b6.toUInt64 8
  .ok (x0 ||| x1 ||| x2 ||| x3 ||| x4 ||| x5 ||| x6 ||| b7.toUInt64, d)

/-- `decoder_read_int8`: `value = (int8_t)u8; value -= 128;` (computed in `int`, converted back) -/
def readI8 (d : Dec) : C (Int8 × Dec) := do
  let (v, d) ← d.readU8
  .ok (Int8.ofInt (v.toInt8.toInt - 128), d)

/-- `decoder_read_int16` -/
def readI16 (d : Dec) (junk : Mem := #[0, 0]) : C (Int16 × Dec) := do
  let (v, d) ← d.readU16 junk
  .ok (Int16.ofInt (v.toInt16.toInt - 32768), d)

/-- `decoder_read_int32` (`value -= 2147483648` is computed in `long`) -/
def readI32 (d : Dec) (junk : Mem := #[0, 0, 0, 0]) : C (Int32 × Dec) := do
  let (v, d) ← d.readU32 junk
  .ok (Int32.ofInt (v.toInt32.toInt - 2147483648), d)

/-- `decoder_read_int64` (unsigned subtraction, then conversion) -/
def readI64 (d : Dec) (junk : Mem := #[0, 0, 0, 0, 0, 0, 0, 0]) : C (Int64 × Dec) := do
  let (v, d) ← d.readU64 junk
  .ok ((v - 9223372036854775808).toInt64, d)

/-- `decoder_read_bool` -/
def readBool (d : Dec) : C (Bool × Dec) := do
  let (v, d) ← d.readBit
  .ok (v != 0, d)

/-- the `for` loop of `decoder_read_non_negative_binary_integer` -/
def nnbiLoop : (n : Nat) → (value : UInt64) → Dec → C (UInt64 × Dec)
  | 0, value, d => .ok (value, d)
  | n + 1, value, d => do
    let value ← shlU64 value 1                           -- value <<= 1;
    let (b, d) ← d.readBit
    nnbiLoop n (value ||| UInt64.ofNat b) d              -- value |= (uint64_t)decoder_read_bit(self_p);

/-- `decoder_read_non_negative_binary_integer` -/
def readNnbi (d : Dec) (size : UInt64) : C (UInt64 × Dec) :=
  nnbiLoop size.toNat 0 d

end Dec

/-! ### operation alphabets (shared by the driver and by the theorems) -/

/-- one call of an encoder helper, as issued by generated code -/
inductive EncOp where
  | bit (value : Int)
  | bool (value : Bool)
  | bytes (src : Mem) (size : UInt64)
  | u8 (v : UInt8) | u16 (v : UInt16) | u32 (v : UInt32) | u64 (v : UInt64)
  | i8 (v : Int8) | i16 (v : Int16) | i32 (v : Int32) | i64 (v : Int64)
  | nnbi (value size : UInt64)
  | abort (error : Int)

def Enc.run (e : Enc) : EncOp → C Enc
  | .bit v => e.appendBit v
  | .bool b => e.appendBool b
  | .bytes src n => e.appendBytes src n
  | .u8 v => e.appendU8 v | .u16 v => e.appendU16 v | .u32 v => e.appendU32 v | .u64 v => e.appendU64 v
  | .i8 v => e.appendI8 v | .i16 v => e.appendI16 v | .i32 v => e.appendI32 v | .i64 v => e.appendI64 v
  | .nnbi v n => e.appendNnbi v n
  | .abort err => e.abort err

def Enc.runAll (e : Enc) : List EncOp → C Enc
  | [] => .ok e
  | op :: ops => do let e ← e.run op; Enc.runAll e ops

/-- one call of a decoder helper; `dst`/`junk` are the caller's destination object and the
uninitialised automatic array -/
inductive DecOp where
  | bit | bool
  | bytes (dst : Mem) (size : UInt64)
  | u8 | u16 (junk : Mem) | u32 (junk : Mem) | u64 (junk : Mem)
  | i8 | i16 (junk : Mem) | i32 (junk : Mem) | i64 (junk : Mem)
  | nnbi (size : UInt64)
  | abort (error : Int)

/-- what a decoder helper hands back -/
inductive DecVal where
  | int (v : Int)
  | mem (m : Mem)
  | unit
  deriving Repr

def Dec.run (d : Dec) : DecOp → C (DecVal × Dec)
  | .bit => do let (v, d) ← d.readBit; .ok (.int v, d)
  | .bool => do let (v, d) ← d.readBool; .ok (.int (if v then 1 else 0), d)
  | .bytes dst n => do let (m, d) ← d.readBytes dst n; .ok (.mem m, d)
  | .u8 => do let (v, d) ← d.readU8; .ok (.int v.toNat, d)
  | .u16 j => do let (v, d) ← d.readU16 j; .ok (.int v.toNat, d)
  | .u32 j => do let (v, d) ← d.readU32 j; .ok (.int v.toNat, d)
  | .u64 j => do let (v, d) ← d.readU64 j; .ok (.int v.toNat, d)
  | .i8 => do let (v, d) ← d.readI8; .ok (.int v.toInt, d)
  | .i16 j => do let (v, d) ← d.readI16 j; .ok (.int v.toInt, d)
  | .i32 j => do let (v, d) ← d.readI32 j; .ok (.int v.toInt, d)
  | .i64 j => do let (v, d) ← d.readI64 j; .ok (.int v.toInt, d)
  | .nnbi n => do let (v, d) ← d.readNnbi n; .ok (.int v.toNat, d)
  | .abort err => do let d ← d.abort err; .ok (.unit, d)

def Dec.runAll (d : Dec) : List DecOp → C (List DecVal × Dec)
  | [] => .ok ([], d)
  | op :: ops => do
    let (v, d) ← d.run op
    let (vs, d) ← Dec.runAll d ops
    .ok (v :: vs, d)

end Asn1.CCursor
