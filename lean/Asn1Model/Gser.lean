import Asn1Model.Schema
import Asn1Model.Uper
import Asn1Model.Typing
import Asn1Model.Json
import Asn1Model.Jer
/-
  GSER (RFC 3641, Generic String Encoding Rules): the WRITER model of asn1tools' encoder
  (codecs/gser.py -- the library has no GSER decoder) and an INDEPENDENT READER of the value
  notation, over the `Ty`/`Val` universe.

  Texts are lists of CODE POINTS (`List Nat`); the octets the library returns are their UTF-8 form
  (`encoded.encode('utf-8')`, `Gser.encode` / `Gser.decode` below use the strict UTF-8 coder of
  Uper.lean).  Character strings are written RAW (only `"` is doubled), so texts are not ASCII.

  ## the writer (what gser.py does, per class)

    BOOLEAN            `TRUE` / `FALSE`
    NULL               `NULL`
    INTEGER            `str(data)`
    ENUMERATED         the name (unknown name: EncodeError)
    OCTET STRING       `'<upper-case hex>'H`
    BIT STRING         `'<the first n bits as 0/1>'B`  (`''B` when there are no octets)
    character strings  `"` + data.replace('"', '""') + `"`            (`format_string`)
    SEQUENCE           `{` + ','.join(msep + name + ' ' + value) + sep + `}` for the present members in
                       declaration order (root then additions); an absent OPTIONAL / DEFAULT member is
                       skipped, an absent mandatory one is an EncodeError; a value equal to the DEFAULT
                       is still written
    SEQUENCE OF        `{` + ','.join(msep + value) + sep + `}`
    CHOICE             name + ` : ` + value                       (spaces around the colon)
    layout             `encode(data, separator, indent)`: `msep = sep + ' ' * indent`; the top call is
                       `encode(data, ' ', 0)` for `indent=None` and `encode(data, '\n', indent)` otherwise
    top level          `'{} {} ::= {}'.format(type_name.lower(), type_name, encoded.lstrip(' '))`

  The writer is split in two steps, like the JER model: `toG` maps the value to a generic tree `GVal`
  (what is written), `renderV` lays the tree out (how it is written).

  ## the reader (RFC 3641 section 3, written from the grammar, not from the Python)

    Value              the productions below are merged into ONE type-independent grammar producing a
                       `GVal`; the type-directed step `toVal` then reads the tree as a value of the type
    identifier         = lowercase *alphanumeric *(hyphen 1*alphanumeric)
    BooleanValue       = %x54.52.55.45 / %x46.41.4C.53.45          ; words `TRUE` `FALSE`
    NullValue          = %x4E.55.4C.4C                              ; word `NULL`
    EnumeratedValue    = identifier
    IntegerValue       = "0" / positive-number / ("-" positive-number)     ; no leading zeros, no "-0"
    StringValue        = dquote *SafeUTF8Character dquote ; SafeUTF8Character = any character but dquote,
                         or dquote dquote (one `"`) -- NUL, new-lines and non-ASCII characters are raw
    OctetStringValue   = hstring = squote *hexadecimal-digit squote %x48   ; upper-case digits only
    BitStringValue     = bstring / hstring                          ; (no named-bit lists in the universe)
    SequenceValue      = "{" [ sp NamedValue *( "," sp NamedValue) ] sp "}" ; NamedValue = identifier msp Value
    SequenceOfValue    = "{" [ sp Value *( "," sp Value) ] sp "}"
    ChoiceValue        = identifier ":" Value

  White space: RFC 3641 has `sp = *SP` and `msp = 1*SP`.  The reader accepts SP, HT, LF, CR wherever the
  grammar has `sp` / `msp` (the indented layout of the library uses new-lines), and additionally before
  a `,`.  The ABNF has NO white space around the `:` of a ChoiceValue; the library writes ` : ` (which is
  X.680 value notation, where white space between lexical items is free).  The parameter `colonWs` of the
  reader says whether white space around `:` is accepted: `true` for the X.680 reading used by the
  round-trip theorems, `false` for the strict ABNF (used only to state the deviation).

  The top-level text `a A ::= value` is an X.680 value assignment (valuereference, typereference, `::=`):
  `parseAssignment` reads it (RFC 3641 defines only `Value`).

  "parses completely": `parseValue` / `parseAssignment` reject anything but white space after the value.
-/
namespace Asn1

/-- the generic GSER tree -/
inductive GVal where
  /-- an identifier or one of the upper-case words `TRUE` `FALSE` `NULL` -/
  | word (w : List Nat)
  | num (i : Int)
  /-- `'…'H`: the hexadecimal digits as numbers 0..15 -/
  | hstr (ds : List Nat)
  /-- `'…'B` -/
  | bstr (bs : List Bool)
  | str (cps : List Nat)
  /-- `{ … }`: the components, each with its identifier when written as a NamedValue -/
  | braces (items : List (Option (List Nat) × GVal))
  /-- `identifier : Value` -/
  | choice (id : List Nat) (v : GVal)
  deriving Inhabited

namespace Gser
open Asn1.Uper (Err)
open Asn1.Jer (strCps hexDigitU enumNames findName)
open Asn1.Json (isWs skipWs isDigit spanDigits digitsVal renderInt)

/-! ### the writer: value -> tree -/

def kTRUE : List Nat := [84, 82, 85, 69]
def kFALSE : List Nat := [70, 65, 76, 83, 69]
def kNULL : List Nat := [78, 85, 76, 76]

/-- the hexadecimal digits of the octets, as numbers -/
def nibbles (bs : Bytes) : List Nat := bs.flatMap fun b => [b / 16 % 16, b % 16]

mutual
  def toG : Ty → Val → Except Err GVal
    | .boolean, .bool b => .ok (.word (if b then kTRUE else kFALSE))
    | .boolean, _ => .error .unmodelled
    | .null, .null => .ok (.word kNULL)
    | .null, _ => .error .unmodelled
    | .integer _, .int i => .ok (.num i)
    | .integer _, _ => .error .unmodelled
    | .enumerated root ext, .enum n =>
      if (enumNames root ext).contains n then .ok (.word (strCps n)) else .error .encodeError
    | .enumerated _ _, _ => .error .unmodelled
    | .octetString _, .bytes bs => .ok (.hstr (nibbles bs))
    | .octetString _, _ => .error .unmodelled
    | .bitString _, .bits data n => .ok (.bstr ((bytesToBits data).take n))
    | .bitString _, _ => .error .unmodelled
    | .charString _ _, .str cps => .ok (.str cps)
    | .charString _ _, _ => .error .unmodelled
    | .sequence root _ adds, .record fs =>
      match membersToG root fs with
      | .error e => .error e
      | .ok a =>
        match membersToG adds fs with
        | .error e => .error e
        | .ok b => .ok (.braces (a ++ b))
    | .sequence _ _ _, _ => .error .unmodelled
    | .sequenceOf e _, .list vs =>
      match vs.mapM (toG e) with
      | .error err => .error err
      | .ok gs => .ok (.braces (gs.map fun g => (none, g)))
    | .sequenceOf _ _, _ => .error .unmodelled
    | .choice root _ adds, .choice n v =>
      match altToG root n v with
      | some r => r
      | none =>
        match altToG adds n v with
        | some r => r
        | none => .error .encodeError
    | .choice _ _ _, _ => .error .unmodelled
  /-- `MembersType.encode` -/
  def membersToG : Members → List (String × Val) → Except Err (List (Option (List Nat) × GVal))
    | .nil, _ => .ok []
    | .cons name p t rest, fs =>
      match lookup name fs with
      | some v =>
        match toG t v with
        | .error e => .error e
        | .ok g =>
          match membersToG rest fs with
          | .error e => .error e
          | .ok gs => .ok ((some (strCps name), g) :: gs)
      | none =>
        match p with
        | .mandatory => .error .encodeError
        | _ => membersToG rest fs
  /-- `Choice.encode` -/
  def altToG : Alts → String → Val → Option (Except Err GVal)
    | .nil, _, _ => none
    | .cons n t rest, name, v =>
      if n == name then
        some (match toG t v with
              | .error e => .error e
              | .ok g => .ok (.choice (strCps n) g))
      else altToG rest name v
end

/-! ### the writer: tree -> text -/

/-- `data.replace('"', '""')` -/
def quoteChar (c : Nat) : List Nat := if c = 34 then [34, 34] else [c]

def bitChar (b : Bool) : Nat := if b then 49 else 48

/-- the `,` of `','.join(...)` after an item that is not the last one -/
def commaIf {α : Type} (rest : List α) : List Nat := if rest.isEmpty then [] else [44]

def renderName : Option (List Nat) → List Nat
  | some n => n ++ [32]
  | none => []

mutual
  /-- `Type.encode(data, separator, indent)` -/
  def renderV (ind : Nat) : List Nat → GVal → List Nat
    | _, .word w => w
    | _, .num i => renderInt i
    | _, .hstr ds => [39] ++ ds.map hexDigitU ++ [39, 72]
    | _, .bstr bs => [39] ++ bs.map bitChar ++ [39, 66]
    | _, .str cps => [34] ++ cps.flatMap quoteChar ++ [34]
    | sep, .braces items => [123] ++ renderItems ind (sep ++ List.replicate ind 32) items ++ sep ++ [125]
    | sep, .choice id v => id ++ [32, 58, 32] ++ renderV ind sep v
  /-- the joined members / elements, each preceded by the member separator -/
  def renderItems (ind : Nat) : List Nat → List (Option (List Nat) × GVal) → List Nat
    | _, [] => []
    | msep, (nm, v) :: rest =>
      msep ++ renderName nm ++ renderV ind msep v ++ commaIf rest ++ renderItems ind msep rest
end

/-- `CompiledType.encode(data, indent)` before the `name Type ::= ` prefix:
`encode(data, ' ', 0)` for `indent=None`, `encode(data, '\n', indent)` otherwise -/
def render (indent : Option Nat) (g : GVal) : List Nat :=
  match indent with
  | none => renderV 0 [32] g
  | some n => renderV n [10] g

/-- `str.lower()` on ASCII letters -/
def lowerAscii (c : Nat) : Nat := if 65 ≤ c ∧ c ≤ 90 then c + 32 else c

/-- `str.lstrip(' ')` -/
def lstrip : List Nat → List Nat
  | [] => []
  | c :: r => if c = 32 then lstrip r else c :: r

def kAssign : List Nat := [58, 58, 61]      -- "::="

/-- the text of the Value alone -/
def enc (t : Ty) (v : Val) (indent : Option Nat) : Except Err (List Nat) :=
  match toG t v with
  | .error e => .error e
  | .ok g => .ok (render indent g)

/-- `'{} {} ::= {}'.format(type_name.lower(), type_name, encoded.lstrip(' '))`: the whole text -/
def encTop (name : String) (t : Ty) (v : Val) (indent : Option Nat) : Except Err (List Nat) :=
  match enc t v indent with
  | .error e => .error e
  | .ok s => .ok ((strCps name).map lowerAscii ++ [32] ++ strCps name ++ [32] ++ kAssign ++ [32] ++ lstrip s)

/-- `CompiledType.encode(data, indent)`: the octets -/
def encode (name : String) (t : Ty) (v : Val) (indent : Option Nat) : Except Err Bytes :=
  match encTop name t v indent with
  | .error e => .error e
  | .ok s => .ok (s.flatMap Uper.utf8Enc)

/-! ### the reader: lexical level -/

def isLower (c : Nat) : Bool := decide (97 ≤ c) && decide (c ≤ 122)
def isUpper (c : Nat) : Bool := decide (65 ≤ c) && decide (c ≤ 90)
def isLetter (c : Nat) : Bool := isLower c || isUpper c
/-- `alphanumeric` or `hyphen` -/
def isWordChar (c : Nat) : Bool := isLetter c || isDigit c || c == 45

/-- longest prefix of letters, digits and hyphens -/
def spanWord : List Nat → List Nat × List Nat
  | [] => ([], [])
  | c :: r =>
    if isWordChar c then
      match spanWord r with
      | (w, rest) => (c :: w, rest)
    else ([], c :: r)

/-- `*(hyphen 1*alphanumeric)`: no hyphen at the end, no two hyphens in a row -/
def hyphensOk : List Nat → Bool
  | [] => true
  | c :: r =>
    (match r with
     | [] => c != 45
     | d :: _ => !(c == 45 && d == 45)) && hyphensOk r

/-- a letter followed by letters, digits and single inner hyphens -/
def isWord (w : List Nat) : Bool :=
  (match w with | c :: _ => isLetter c | [] => false) && w.all isWordChar && hyphensOk w

/-- RFC 3641 `identifier` (X.680 identifier / valuereference) -/
def isIdent (w : List Nat) : Bool :=
  (match w with | c :: _ => isLower c | [] => false) && w.all isWordChar && hyphensOk w

/-- X.680 typereference -/
def isTypeRef (w : List Nat) : Bool :=
  (match w with | c :: _ => isUpper c | [] => false) && w.all isWordChar && hyphensOk w

/-- the body of a StringValue: characters up to the closing `"`, `""` is one `"`.  `q = true`: the
previous character was a `"` that is either the first half of `""` or the closing quote. -/
def lexStrAux : Bool → List Nat → Option (List Nat × List Nat)
  | false, [] => none
  | true, [] => some ([], [])
  | false, c :: r =>
    if c = 34 then lexStrAux true r
    else
      match lexStrAux false r with
      | none => none
      | some (s, rest) => some (c :: s, rest)
  | true, c :: r =>
    if c = 34 then
      match lexStrAux false r with
      | none => none
      | some (s, rest) => some (34 :: s, rest)
    else some ([], c :: r)

/-- the body of a StringValue after the opening `"` -/
def lexStr (s : List Nat) : Option (List Nat × List Nat) := lexStrAux false s

/-- the characters up to the next `'` -/
def spanQuote : List Nat → Option (List Nat × List Nat)
  | [] => none
  | c :: r =>
    if c = 39 then some ([], r)
    else
      match spanQuote r with
      | none => none
      | some (b, rest) => some (c :: b, rest)

/-- `hexadecimal-digit = %x30-39 / %x41-46` -/
def hexUp (c : Nat) : Option Nat :=
  if 48 ≤ c ∧ c ≤ 57 then some (c - 48)
  else if 65 ≤ c ∧ c ≤ 70 then some (c - 55)
  else none

def binDigit (c : Nat) : Option Bool :=
  if c = 48 then some false else if c = 49 then some true else none

def mapOpt {α β : Type} (f : α → Option β) : List α → Option (List β)
  | [] => some []
  | a :: r =>
    match f a, mapOpt f r with
    | some b, some bs => some (b :: bs)
    | _, _ => none

/-- `hstring` / `bstring` after the opening `'` -/
def lexQuoted (s : List Nat) : Option (GVal × List Nat) :=
  match spanQuote s with
  | none => none
  | some (body, r) =>
    match r with
    | k :: rest =>
      if k = 72 then
        match mapOpt hexUp body with
        | some ds => some (.hstr ds, rest)
        | none => none
      else if k = 66 then
        match mapOpt binDigit body with
        | some bs => some (.bstr bs, rest)
        | none => none
      else none
    | [] => none

/-- `"0" / positive-number`, negated when `neg` (`"-0"` is not a number) -/
def lexNat (neg : Bool) (s : List Nat) : Option (Int × List Nat) :=
  match spanDigits s with
  | (ds, rest) =>
    match ds with
    | [] => none
    | d :: ds' =>
      if d = 48 then (if ds'.isEmpty && !neg then some (0, rest) else none)
      else some (Json.signed neg (digitsVal ds), rest)

/-- `"0" / positive-number / ("-" positive-number)` -/
def lexNumber (s : List Nat) : Option (Int × List Nat) :=
  match s with
  | [] => none
  | c :: r => if c = 45 then lexNat true r else lexNat false (c :: r)

/-- white space around the `:` of a ChoiceValue: skipped when `colonWs`, not accepted otherwise -/
def optWs (colonWs : Bool) (s : List Nat) : List Nat := if colonWs then skipWs s else s

/-- `identifier msp` in front of a Value (a NamedValue): the identifier and the text from the first
character of the Value; `none` when the item does not start with `identifier msp <start of a Value>` -/
def namePrefix (s : List Nat) : Option (List Nat × List Nat) :=
  match s with
  | [] => none
  | c :: _ =>
    if isLower c then
      match spanWord s with
      | (w, r1) =>
        if hyphensOk w then
          match r1 with
          | [] => none
          | x :: _ =>
            if isWs x then
              match skipWs r1 with
              | [] => none
              | d :: r2 => if d = 58 ∨ d = 44 ∨ d = 125 then none else some (w, d :: r2)
            else none
        else none
    else none

/-- the optional identifier of a component and the text from the first character of its Value -/
def itemStart (s : List Nat) : Option (List Nat) × List Nat :=
  match namePrefix s with
  | some (w, r2) => (some w, r2)
  | none => (none, s)

/-! ### the reader: Value -/

mutual
  /-- `Value`, positioned at its first character -/
  def value (colonWs : Bool) : (fuel : Nat) → List Nat → Option (GVal × List Nat)
    | 0, _ => none
    | _ + 1, [] => none
    | fuel + 1, c :: r =>
      if c = 123 then
        match skipWs r with
        | [] => none
        | d :: r' =>
          if d = 125 then some (.braces [], r')
          else
            match items colonWs fuel (d :: r') with
            | none => none
            | some (xs, r'') => some (.braces xs, r'')
      else if c = 34 then
        match lexStr r with
        | none => none
        | some (s, rest) => some (.str s, rest)
      else if c = 39 then lexQuoted r
      else if c = 45 ∨ isDigit c = true then
        match lexNumber (c :: r) with
        | none => none
        | some (i, rest) => some (.num i, rest)
      else if isLetter c then
        match spanWord (c :: r) with
        | (w, r1) =>
          if hyphensOk w then
            match optWs colonWs r1 with
            | [] => some (.word w, r1)
            | d :: r3 =>
              if d = 58 then
                if isIdent w then
                  match value colonWs fuel (optWs colonWs r3) with
                  | none => none
                  | some (v, r4) => some (.choice w v, r4)
                else none
              else some (.word w, r1)
          else none
      else none
  /-- `[identifier msp] Value *( sp "," sp [identifier msp] Value ) sp "}"`, positioned at the first
  character of the first item -/
  def items (colonWs : Bool) : (fuel : Nat) → List Nat →
      Option (List (Option (List Nat) × GVal) × List Nat)
    | 0, _ => none
    | fuel + 1, s =>
      match value colonWs fuel (itemStart s).2 with
      | none => none
      | some (v, r) =>
        let nm := (itemStart s).1
        match skipWs r with
        | [] => none
        | d :: r' =>
          if d = 44 then
            match items colonWs fuel (skipWs r') with
            | none => none
            | some (xs, r'') => some ((nm, v) :: xs, r'')
          else if d = 125 then some ([(nm, v)], r')
          else none
end

/-- a complete `Value`: white space, the value, white space, end of text -/
def parseValue (colonWs : Bool) (s : List Nat) : Option GVal :=
  match value colonWs (2 * s.length + 2) (skipWs s) with
  | none => none
  | some (v, r) => if (skipWs r).isEmpty then some v else none

/-- X.680 value assignment `valuereference Type "::=" Value` where the type is a typereference:
the two names and the value -/
def parseAssignment (colonWs : Bool) (s : List Nat) : Option (List Nat × List Nat × GVal) :=
  match spanWord (skipWs s) with
  | (vn, r1) =>
    if isIdent vn then
      match spanWord (skipWs r1) with
      | (tn, r2) =>
        if isTypeRef tn ∧ r1 ≠ skipWs r1 then
          let r3 := skipWs r2
          if kAssign.isPrefixOf r3 then
            match parseValue colonWs (r3.drop 3) with
            | some g => some (vn, tn, g)
            | none => none
          else none
        else none
    else none

/-! ### the reader: tree -> value, directed by the type -/

/-- two hexadecimal digits per octet -/
def pairBytes : List Nat → Option Bytes
  | [] => some []
  | [_] => none
  | a :: b :: r =>
    match pairBytes r with
    | some t => some ((16 * a + b) :: t)
    | none => none

/-- the elements of a SequenceOfValue: no component may carry an identifier -/
def unnamed : List (Option (List Nat) × GVal) → Option (List GVal)
  | [] => some []
  | (none, g) :: r =>
    match unnamed r with
    | some gs => some (g :: gs)
    | none => none
  | (some _, _) :: _ => none

/-- the next component, when it carries the identifier `k`, and the components after it -/
def selectNamed (k : List Nat) : List (Option (List Nat) × GVal) →
    Option (GVal × List (Option (List Nat) × GVal))
  | (some k', g) :: its' => if k' == k then some (g, its') else none
  | _ => none

mutual
  def toVal : Ty → GVal → Option Val
    | .boolean, g =>
      match g with
      | .word w => if w == kTRUE then some (.bool true) else if w == kFALSE then some (.bool false) else none
      | _ => none
    | .null, g =>
      match g with
      | .word w => if w == kNULL then some .null else none
      | _ => none
    | .integer _, g =>
      match g with
      | .num i => some (.int i)
      | _ => none
    | .enumerated root ext, g =>
      match g with
      | .word w =>
        match findName w (enumNames root ext) with
        | some n => some (.enum n)
        | none => none
      | _ => none
    | .octetString _, g =>
      match g with
      | .hstr ds =>
        match pairBytes ds with
        | some bs => some (.bytes bs)
        | none => none
      | _ => none
    | .bitString _, g =>
      match g with
      | .bstr bs => some (.bits (packBits bs) bs.length)
      | .hstr ds => let bs := ds.flatMap (natToBits 4); some (.bits (packBits bs) bs.length)
      | _ => none
    | .charString _ _, g =>
      match g with
      | .str cps => some (.str cps)
      | _ => none
    | .sequence root _ adds, g =>
      match g with
      | .braces its =>
        match membersOfG root its with
        | none => none
        | some (a, rest) =>
          match membersOfG adds rest with
          | none => none
          | some (b, rest') => if rest'.isEmpty then some (.record (a ++ b)) else none
      | _ => none
    | .sequenceOf e _, g =>
      match g with
      | .braces its =>
        match unnamed its with
        | none => none
        | some gs =>
          match mapOpt (toVal e) gs with
          | some vs => some (.list vs)
          | none => none
      | _ => none
    | .choice root _ adds, g =>
      match g with
      | .choice id x =>
        match altOfG root id x with
        | some r => r
        | none =>
          match altOfG adds id x with
          | some r => r
          | none => none
      | _ => none
  /-- the components of a SequenceValue are read IN DECLARATION ORDER: a component whose identifier is the
  next member's is that member; otherwise the member must be OPTIONAL (absent) or DEFAULT (its default is
  the value).  What is left over is returned (and must be empty at the end). -/
  def membersOfG : Members → List (Option (List Nat) × GVal) →
      Option (List (String × Val) × List (Option (List Nat) × GVal))
    | .nil, its => some ([], its)
    | .cons name p t rest, its =>
      match selectNamed (strCps name) its with
      | some (g, its') =>
        match toVal t g with
        | none => none
        | some v =>
          match membersOfG rest its' with
          | none => none
          | some (fs, left) => some ((name, v) :: fs, left)
      | none =>
        match p with
        | .mandatory => none
        | .optional => membersOfG rest its
        | .default d =>
          match membersOfG rest its with
          | none => none
          | some (fs, left) => some ((name, d) :: fs, left)
  def altOfG : Alts → List Nat → GVal → Option (Option Val)
    | .nil, _, _ => none
    | .cons n t rest, id, g =>
      if strCps n == id then
        some (match toVal t g with
              | none => none
              | some v => some (.choice n v))
      else altOfG rest id g
end

/-- read the text of a Value as a value of type `t` (X.680 white space around `:` accepted) -/
def read (t : Ty) (s : List Nat) : Option Val :=
  match parseValue true s with
  | none => none
  | some g => toVal t g

/-- read the whole text `valuename TypeName ::= Value` -/
def readTop (t : Ty) (s : List Nat) : Option (List Nat × List Nat × Val) :=
  match parseAssignment true s with
  | none => none
  | some (vn, tn, g) =>
    match toVal t g with
    | none => none
    | some v => some (vn, tn, v)

/-- the code points of a text given as octets -/
def textCps (doc : Bytes) : Option (List Nat) := Uper.utf8Dec (doc.length + 1) doc

/-- read the octets the library returns -/
def decode (t : Ty) (doc : Bytes) : Option (List Nat × List Nat × Val) :=
  match textCps doc with
  | none => none
  | some s => readTop t s

/-! ### the abstract value of a text -/

mutual
  /-- the abstract value a reader of the notation obtains from the text written for `v`: the unused bits of
  a BIT STRING are not in the text (cleared), an absent DEFAULT component has its default value (root
  members and additions alike: X.680 25.9), everything else as given -/
  def canonG : Ty → Val → Val
    | .bitString _, .bits data n => .bits (cleanBits data n) n
    | .sequence root _ adds, .record fs => .record (canonGMembers root fs ++ canonGMembers adds fs)
    | .sequenceOf e _, .list vs => .list (vs.map (canonG e))
    | .choice root _ adds, .choice n v =>
      match canonGAlt root n v with
      | some w => .choice n w
      | none =>
        match canonGAlt adds n v with
        | some w => .choice n w
        | none => .choice n v
    | _, v => v
  def canonGMembers : Members → List (String × Val) → List (String × Val)
    | .nil, _ => []
    | .cons name p t rest, fs =>
      match lookup name fs with
      | some v => (name, canonG t v) :: canonGMembers rest fs
      | none =>
        match p with
        | .default d => (name, d) :: canonGMembers rest fs
        | _ => canonGMembers rest fs
  def canonGAlt : Alts → String → Val → Option Val
    | .nil, _, _ => none
    | .cons n t rest, name, v => if n == name then some (canonG t v) else canonGAlt rest name v
end

/-! ### hypotheses of the theorems (decidable) -/

mutual
  /-- every name the writer puts into the text (enumeration items, member names, alternative names) is an
  RFC 3641 `identifier`.  The ASN.1 parser of the library only admits such names, so every compiled
  specification satisfies this; the Lean universe has arbitrary strings as names. -/
  def idsOk : Ty → Bool
    | .enumerated root ext => (enumNames root ext).all fun n => isIdent (strCps n)
    | .sequence root _ adds => membersIdsOk root && membersIdsOk adds
    | .sequenceOf e _ => idsOk e
    | .choice root _ adds => altsIdsOk root && altsIdsOk adds
    | _ => true
  def membersIdsOk : Members → Bool
    | .nil => true
    | .cons name _ t rest => isIdent (strCps name) && idsOk t && membersIdsOk rest
  def altsIdsOk : Alts → Bool
    | .nil => true
    | .cons name t rest => isIdent (strCps name) && idsOk t && altsIdsOk rest
end

/-- the type name is an X.680 typereference (ASCII letters, digits, inner hyphens, first letter upper case) -/
def typeNameOk (name : String) : Bool := isTypeRef (strCps name)

mutual
  /-- deviation predicate: the tree contains a ChoiceValue, whose text ` : ` has white space that the
  ABNF of RFC 3641 (`IdentifiedChoiceValue = identifier ":" Value`) does not allow -/
  def hasChoiceText : GVal → Bool
    | .choice _ _ => true
    | .braces its => hasChoiceItems its
    | _ => false
  def hasChoiceItems : List (Option (List Nat) × GVal) → Bool
    | [] => false
    | (_, g) :: r => hasChoiceText g || hasChoiceItems r
end

end Gser
end Asn1
