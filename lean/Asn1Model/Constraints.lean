import Asn1Model.Schema
import Asn1Model.Uper
/-
  C11 / C12: model of codecs/constraints_checker.py over the `Ty`/`Val` universe, and the
  declarative specification it is compared with.

  `check t v = none`  : the checker accepts;
  `check t v = some p`: it raises ConstraintsError, `p` = names added by `add_location`
                        below the top-level type (outermost first).
-/
namespace Asn1.Constraints

/-- `Type.is_in_range` after `set_range` (an extensible constraint leaves MIN..MAX) -/
def intOk (c : IntC) (i : Int) : Bool :=
  c.ext ||
  ((match c.lo with | some lo => decide (lo ≤ i) | none => true) &&
   (match c.hi with | some hi => decide (i ≤ hi) | none => true))

def sizeOk (c : SizeC) (n : Nat) : Bool :=
  c.ext || (decide (c.lo ≤ n) && (match c.hi with | some hi => decide (n ≤ hi) | none => true))

def alphabetOk (k : StrKind) (cps : List Nat) : Bool :=
  match k with
  | .utf8 => true
  | _ => cps.all (fun c => (Uper.alphabetOf k).contains c)

/-- the check a single node performs on its own value (no recursion) -/
def localOk : Ty → Val → Bool
  | .integer c, .int i => intOk c i
  | .octetString c, .bytes bs => sizeOk c bs.length
  | .bitString c, .bits _ n => sizeOk c n
  | .charString k c, .str cps => sizeOk c cps.length && alphabetOk k cps
  | .sequenceOf _ c, .list vs => sizeOk c vs.length
  | _, _ => true

def firstSome {α β : Type} (f : α → Option β) : List α → Option β
  | [] => none
  | x :: r => match f x with
    | some y => some y
    | none => firstSome f r

mutual
  def check : Ty → Val → Option (List String)
    | .sequence root _ adds, .record fs =>
      match checkMembers root fs with
      | some p => some p
      | none => checkMembers adds fs
    | .sequenceOf e c, .list vs =>
      if !sizeOk c vs.length then some [] else firstSome (check e) vs
    | .choice root ext adds, .choice n v =>
      match checkAlt root n v with
      | some r => r
      | none =>
        match checkAlt adds n v with
        | some r => r
        | none => if ext then none else some []
    | t, v => if localOk t v then none else some []
  def checkMembers : Members → List (String × Val) → Option (List String)
    | .nil, _ => none
    | .cons name _ t rest, fs =>
      match lookup name fs with
      | some v =>
        match check t v with
        | some p => some (name :: p)
        | none => checkMembers rest fs
      | none => checkMembers rest fs
  /-- `some r` when the alternative exists (r = result of checking it) -/
  def checkAlt : Alts → String → Val → Option (Option (List String))
    | .nil, _, _ => none
    | .cons n t rest, name, v =>
      if n == name then some ((check t v).map (name :: ·)) else checkAlt rest name v
end

/-! ### specification: every component lies inside every non-extensible constraint on its type -/

mutual
  /-- all (type, value) components of a value, the value itself first -/
  def components : Ty → Val → List (Ty × Val)
    | .sequence root e adds, .record fs =>
      (.sequence root e adds, .record fs) :: (componentsMembers root fs ++ componentsMembers adds fs)
    | .sequenceOf e c, .list vs => (.sequenceOf e c, .list vs) :: vs.flatMap (components e)
    | .choice root e adds, .choice n v =>
      (.choice root e adds, .choice n v) :: (componentsAlt root n v ++ componentsAlt adds n v)
    | t, v => [(t, v)]
  def componentsMembers : Members → List (String × Val) → List (Ty × Val)
    | .nil, _ => []
    | .cons name _ t rest, fs =>
      (match lookup name fs with
       | some v => components t v
       | none => []) ++ componentsMembers rest fs
  def componentsAlt : Alts → String → Val → List (Ty × Val)
    | .nil, _, _ => []
    | .cons n t rest, name, v => if n == name then components t v else componentsAlt rest name v
end

/-- the alternative named by a CHOICE value exists, or the CHOICE is extensible -/
def altKnown : Ty → Val → Bool
  | .choice root ext adds, .choice n _ => ext || (root.names ++ adds.names).contains n
  | _, _ => true

/-- `Admits t v`: every component satisfies its own constraint -/
def admits (t : Ty) (v : Val) : Bool :=
  (components t v).all (fun (p : Ty × Val) => localOk p.1 p.2 && altKnown p.1 p.2)

/-! ### where a dotted path leads (C12): member and alternative names are consumed, list elements add no name -/

mutual
  /-- all components a name path can denote (several when the path crosses a SEQUENCE OF) -/
  def reach : Ty → Val → List String → List (Ty × Val)
    | .sequenceOf e c, .list vs, p =>
      (if p.isEmpty then [(Ty.sequenceOf e c, Val.list vs)] else []) ++ vs.flatMap (fun x => reach e x p)
    | .sequence root _ adds, .record fs, name :: p => reachMembers root fs name p ++ reachMembers adds fs name p
    | .choice root _ adds, .choice n v, name :: p =>
      if n == name then reachAlt root n v p ++ reachAlt adds n v p else []
    | t, v, [] => [(t, v)]
    | _, _, _ => []
  def reachMembers : Members → List (String × Val) → String → List String → List (Ty × Val)
    | .nil, _, _, _ => []
    | .cons n _ t rest, fs, name, p =>
      (if n == name then (match lookup n fs with | some v => reach t v p | none => []) else []) ++
        reachMembers rest fs name p
  def reachAlt : Alts → String → Val → List String → List (Ty × Val)
    | .nil, _, _, _ => []
    | .cons n t rest, name, v, p => if n == name then reach t v p else reachAlt rest name v p
end

end Asn1.Constraints
