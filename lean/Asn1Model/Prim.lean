/-
  Primitive bit / byte arithmetic shared by every codec model.
  No imports outside core Lean (the driver links this without Mathlib).
-/
namespace Asn1

abbrev Bits  := List Bool
/-- A byte is modelled as a natural number; producers only ever emit values `< 256`
(lemmas `*_lt_256`), consumers are total on arbitrary naturals. -/
abbrev Bytes := List Nat

/-- Python's `int.bit_length()` for non-negative integers. -/
def bitLength (n : Nat) : Nat := if n = 0 then 0 else Nat.log2 n + 1

/-- `w` bits of `n`, most significant first (`append_non_negative_binary_integer`). -/
def natToBits : (w : Nat) → (n : Nat) → Bits
  | 0,     _ => []
  | w + 1, n => natToBits w (n / 2) ++ [n % 2 == 1]

/-- Big-endian bit list to number (`read_non_negative_binary_integer`). -/
def bitsToNat (bs : Bits) : Nat := bs.foldl (fun acc b => 2 * acc + (if b then 1 else 0)) 0

/-- Exactly `k` big-endian base-256 digits of `n` (value taken mod `256^k`). -/
def natToBytesN : (k : Nat) → (n : Nat) → Bytes
  | 0,     _ => []
  | k + 1, n => natToBytesN k (n / 256) ++ [n % 256]

/-- Big-endian base-256 digits to number. -/
def bytesToNat (bs : Bytes) : Nat := bs.foldl (fun acc b => 256 * acc + b) 0

/-- Number of base-256 digits needed for `n` (`0 ↦ 0`). -/
def byteLength (n : Nat) : Nat := (bitLength n + 7) / 8

/-- Minimal big-endian base-256 digits of `n`; `0 ↦ []`. -/
def natToBytesMin (n : Nat) : Bytes := natToBytesN (byteLength n) n

def bytesToBits (bs : Bytes) : Bits := bs.flatMap (natToBits 8)

/-- Pack bits into bytes, zero padding the last one (`Encoder.as_bytearray`). -/
def bitsToBytes : (fuel : Nat) → Bits → Bytes
  | 0, _ => []
  | fuel + 1, bs =>
    if bs.isEmpty then [] else
      bitsToNat ((bs.take 8) ++ List.replicate (8 - (bs.take 8).length) false)
        :: bitsToBytes fuel (bs.drop 8)

def packBits (bs : Bits) : Bytes := bitsToBytes (bs.length + 1) bs

/-- Two's complement of `i` in exactly `k` octets. -/
def intToBytesN (k : Nat) (i : Int) : Bytes :=
  natToBytesN k (i % (256 ^ k : Nat)).toNat

/-- Interpret `bs` as a two's complement number. -/
def bytesToInt (bs : Bytes) : Int :=
  let n := bytesToNat bs
  let w := 8 * bs.length
  if w ≠ 0 ∧ n ≥ 2 ^ (w - 1) then (n : Int) - (2 ^ w : Nat) else n

/-- Minimal number of octets of the two's complement form of `i`
(BER INTEGER contents, PER unconstrained whole number, OER signed integer). -/
def intByteLength (i : Int) : Nat :=
  if i ≥ 0 then bitLength i.toNat / 8 + 1
  else bitLength (-i - 1).toNat / 8 + 1

def intToBytesMin (i : Int) : Bytes := intToBytesN (intByteLength i) i

/-- repeat a parser `n` times, threading the remaining input -/
def repeatN {σ α : Type} (p : σ → Option (α × σ)) : Nat → σ → Option (List α × σ)
  | 0,     s => some ([], s)
  | n + 1, s =>
    match p s with
    | none => none
    | some (a, s') =>
      match repeatN p n s' with
      | none => none
      | some (as, s'') => some (a :: as, s'')

def hexDigit (n : Nat) : Char :=
  if n < 10 then Char.ofNat (48 + n) else Char.ofNat (87 + n)

def toHex (bs : Bytes) : String :=
  String.ofList (bs.flatMap fun b => [hexDigit (b / 16 % 16), hexDigit (b % 16)])

def hexVal (c : Char) : Option Nat :=
  if '0' ≤ c ∧ c ≤ '9' then some (c.toNat - 48)
  else if 'a' ≤ c ∧ c ≤ 'f' then some (c.toNat - 87)
  else if 'A' ≤ c ∧ c ≤ 'F' then some (c.toNat - 55)
  else none

def fromHexAux : List Char → Option Bytes
  | [] => some []
  | [_] => none
  | a :: b :: r =>
    match hexVal a, hexVal b, fromHexAux r with
    | some x, some y, some t => some ((16 * x + y) :: t)
    | _, _, _ => none

def fromHex (s : String) : Option Bytes := fromHexAux s.toList

end Asn1
