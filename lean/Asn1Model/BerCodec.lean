import Asn1Model.Der
/-
  M-level model of asn1tools' BER codec (codecs/ber.py) over the `Ty`/`Val` universe, AUTOMATIC TAGS
  (see `Der.lean` for the tagging rules and the conventions of the decoder).

  Encoder: ber.py and der.py produce the same octets for every type of the universe (der.py
  imports BOOLEAN, NULL, ENUMERATED, SEQUENCE, CHOICE and `ExplicitTag` from ber.py, and its own
  INTEGER, BIT STRING, OCTET STRING, character string and SEQUENCE OF classes repeat the ber.py
  `encode_content` bodies), always definite lengths and primitive strings; so `enc` is `Der.enc`.

  Decoder: differs from DER in
  * OCTET STRING, BIT STRING and the character strings (`PrimitiveOrConstructedType`): primitive or
    constructed (segments, recursively), definite or indefinite length;
  * SEQUENCE OF (`ArrayType`): indefinite length allowed;
  * CHOICE: the constructed form of a string alternative's tag is in `tag_to_member` too.
-/
namespace Asn1.BerCodec
open Asn1.Uper (Err)
open Asn1.Oer (splitAux readBytes decodeStr)
open Asn1.Der (EncM DecM Res Cur MSt mkTag tagOf readLen matchTag readTag skipTLV eoc isEnd readPrim
  bitsOfContent enumOfContent retry fill finishMembers)

def enc : Ty → Option Nat → Val → EncM Bytes := Der.enc

def encode (t : Ty) (v : Val) : EncM Bytes :=
  if Der.checkTypes t v then enc t none v else .error .encodeError

/-! ### loops -/

/-- The loop of `PrimitiveOrConstructedType.decode_constructed_contents` and of
`ArrayType.decode_content`: items until the end offset is reached or passed (definite length) or
an end-of-contents marker is found, which is consumed (indefinite length, `toEnd = none`).  An item
answering `TAG_MISMATCH` is a `DecodeTagError` (`check_decode_error`).  Returns the items, the
octets consumed and the remaining input. -/
def items {α : Type} (p : Bytes → DecM (Option (α × Nat × Bytes))) :
    (fuel : Nat) → (toEnd : Option Nat) → Bytes → DecM (List α × Nat × Bytes)
  | 0, _, _ => .error .unmodelled
  | fuel + 1, toEnd, bs =>
    let stop : DecM Bool :=
      match toEnd with
      | some r => .ok (r == 0)
      | none => eoc bs
    match stop with
    | .error e => .error e
    | .ok true =>
      match toEnd with
      | some _ => .ok ([], 0, bs)
      | none => .ok ([], 2, bs.drop 2)
    | .ok false =>
      match p bs with
      | .error e => .error e
      | .ok none => .error .decodeError
      | .ok (some (a, k, r)) =>
        match items p fuel (toEnd.map (· - k)) r with
        | .error e => .error e
        | .ok (as, k', r') => .ok (a :: as, k + k', r')

/-- `PrimitiveOrConstructedType.decode` for a type with identifier octets `tag` / `ctag`
(`constructed_tag`) whose segments are decoded by the *untagged* instance of the segment type
(`segTag` / `segCtag`: UNIVERSAL 4 for OCTET STRING and the character strings, UNIVERSAL 3 for BIT
STRING), recursively.  `prim contents rest` = `decode_primitive_contents`, `join` =
`decode_constructed_segments`.  A primitive encoding with the indefinite length form makes the
code add `None` to an `int` (`TypeError`). -/
def pcDecode {α : Type} (prim : Bytes → Bytes → DecM α) (join : List α → α) (segTag segCtag : Bytes) :
    (fuel : Nat) → (tag ctag : Bytes) → Bytes → DecM (Option (α × Nat × Bytes))
  | 0, _, _, _ => .error .unmodelled
  | fuel + 1, tag, ctag, bs =>
    match splitAux tag.length bs [] with
    | none => .error .decodeError
    | some (t, r0) =>
      if t == tag then
        match readLen false r0 with
        | .error e => .error e
        | .ok (none, _, _) => .error .foreign
        | .ok (some n, h, r1) =>
          match readBytes n r1 with
          | .error e => .error e
          | .ok (content, r2) =>
            match prim content r2 with
            | .error e => .error e
            | .ok a => .ok (some (a, tag.length + h + n, r2))
      else if t == ctag then
        match readLen false r0 with
        | .error e => .error e
        | .ok (len, h, r1) =>
          match items (pcDecode prim join segTag segCtag fuel segTag segCtag) (fuel + 1) len r1 with
          | .error e => .error e
          | .ok (segs, k, r2) => .ok (some (join segs, tag.length + h + k, r2))
      else .ok none

/-- OCTET STRING (and, before the character decoding, every `StringType`) -/
def decOctets (fuel : Nat) (tag ctag : Bytes) (bs : Bytes) : DecM (Option (Bytes × Nat × Bytes)) :=
  pcDecode (fun content _ => .ok content) List.flatten [4] [0x24] fuel tag ctag bs

/-- BIT STRING: the segments' data are concatenated and their bit counts added, wherever the
unused bits are -/
def decBits (fuel : Nat) (tag ctag : Bytes) (bs : Bytes) : DecM (Option ((Bytes × Nat) × Nat × Bytes)) :=
  pcDecode bitsOfContent (fun segs => ((segs.map (·.1)).flatten, (segs.map (·.2)).sum)) [3] [0x23] fuel tag ctag bs

/-- `PrimitiveOrConstructedType` subclasses (they have a `constructed_tag`) -/
def isString : Ty → Bool
  | .octetString _ => true
  | .bitString _ => true
  | .charString _ _ => true
  | _ => false

/-! ### the decoder -/

mutual
  /-- `type.decode(data, offset)` for `t` compiled in tagging context `tg`; `none` = `TAG_MISMATCH`.
  `fuel` = length of the whole input + 1. -/
  def dec : Ty → Option Nat → (fuel : Nat) → Bytes → DecM (Option Res)
    | .boolean, tg, _, bs => do
      match ← readPrim (mkTag 1 false tg) bs with
      | none => .ok none
      | some (content, k, r) =>
        match content with
        | [b] => .ok (some (.bool (b != 0), k, r))
        | _ => .error .decodeError
    | .null, tg, _, bs => do
      let tag := mkTag 5 false tg
      match ← matchTag tag bs with
      | none => .ok none
      | some r0 =>
        let (_, h, r1) ← readLen true r0
        .ok (some (.null, tag.length + h, r1))
    | .integer _, tg, _, bs => do
      match ← readPrim (mkTag 2 false tg) bs with
      | none => .ok none
      | some (content, k, r) => .ok (some (.int (bytesToInt content), k, r))
    | .enumerated root ext, tg, _, bs => do
      match ← readPrim (mkTag 10 false tg) bs with
      | none => .ok none
      | some (content, k, r) =>
        let v ← enumOfContent root ext content
        .ok (some (v, k, r))
    | .octetString _, tg, fuel, bs => do
      match ← decOctets fuel (mkTag 4 false tg) (mkTag 4 true tg) bs with
      | none => .ok none
      | some (content, k, r) => .ok (some (.bytes content, k, r))
    | .bitString _, tg, fuel, bs => do
      match ← decBits fuel (mkTag 3 false tg) (mkTag 3 true tg) bs with
      | none => .ok none
      | some ((body, n), k, r) => .ok (some (.bits body n, k, r))
    | .charString kind c, tg, fuel, bs => do
      let u := Der.univNumber (.charString kind c)
      match ← decOctets fuel (mkTag u false tg) (mkTag u true tg) bs with
      | none => .ok none
      | some (content, k, r) =>
        let cps ← decodeStr kind content
        .ok (some (.str cps, k, r))
    | .sequence root _ adds, tg, fuel, bs => do
      let tag := mkTag 16 true tg
      match ← matchTag tag bs with
      | none => .ok none
      | some r0 =>
        let (len, h, r1) ← readLen false r0
        let (slots, c1, ood1) ← retry (decPass root 0 fuel) (root.length + 1)
                                  (List.replicate root.length none) ⟨r1, tag.length + h, len⟩
        let fs ← fill root slots false
        if adds.length = 0 then finishMembers fs c1 ood1
        else
          -- `decode_members(..., out_of_data=out_of_data)`: `while not out_of_data:` (commit 300e5ac)
          let (slots2, c2, ood2) ←
            (if ood1 then .ok (List.replicate adds.length none, c1, true)
             else retry (decPass adds root.length fuel) (adds.length + 1)
                    (List.replicate adds.length none) c1)
          let fs2 ← fill adds slots2 true
          finishMembers (fs ++ fs2) c2 ood2
    | .sequenceOf e _, tg, fuel, bs => do
      let tag := mkTag 16 true tg
      match ← matchTag tag bs with
      | none => .ok none
      | some r0 =>
        let (len, h, r1) ← readLen false r0
        let (vs, k, r2) ← items (dec e none fuel) fuel len r1
        .ok (some (.list vs, tag.length + h + k, r2))
    | .choice root extensible adds, tg, fuel, bs =>
      let bare (b : Bytes) : DecM (Option Res) := do
        let (tag, _) ← readTag b
        match decAlt root 0 tag fuel b with
        | some res => res
        | none =>
          match decAlt adds root.length tag fuel b with
          | some res => res
          | none =>
            if extensible then do
              let (k, r) ← skipTLV b
              .ok (some (.choice "" .absent, k, r))
            else .ok none
      match tg with
      | none => bare bs
      | some _ => do
        let tag := mkTag 0 true tg
        match ← matchTag tag bs with
        | none => .ok none
        | some r0 =>
          let (len, h, r1) ← readLen false r0
          match ← bare r1 with
          | none => .error .decodeError
          | some (v, k, r2) =>
            match len with
            | some _ => .ok (some (v, tag.length + h + k, r2))
            | none =>
              if ← eoc r2 then .ok (some (v, tag.length + h + k + 2, r2.drop 2))
              else .error .decodeError

  def decPass : Members → Nat → (fuel : Nat) → List (Option Val) → MSt → DecM (List (Option Val) × MSt)
    | .nil, _, _, _, st => .ok ([], st)
    | .cons _ _ t rest, i, fuel, slots, st =>
      match slots.headD none with
      | some v => do
        let (r, st') ← decPass rest (i + 1) fuel slots.tail st
        .ok (some v :: r, st')
      | none =>
        if st.ood then do
          let (r, st') ← decPass rest (i + 1) fuel slots.tail st
          .ok (none :: r, st')
        else do
          match ← dec t (some i) fuel st.cur.bs with
          | none =>
            let (r, st') ← decPass rest (i + 1) fuel slots.tail st
            .ok (none :: r, st')
          | some (v, k, r) =>
            let (ood, c) ← isEnd (st.cur.advance k r)
            let (r, st') ← decPass rest (i + 1) fuel slots.tail ⟨c, ood, true⟩
            .ok (some v :: r, st')

  /-- `tag_to_member[tag]`: the member's tag, and its `constructed_tag` if it has one -/
  def decAlt : Alts → Nat → Bytes → (fuel : Nat) → Bytes → Option (DecM (Option Res))
    | .nil, _, _, _, _ => none
    | .cons n t rest, i, tag, fuel, bs =>
      if tag == tagOf t (some i) || (isString t && tag == mkTag (Der.univNumber t) true (some i)) then
        some (do
          match ← dec t (some i) fuel bs with
          | none => .error .unmodelled
          | some (v, k, r) => .ok (some (.choice n v, k, r)))
      else decAlt rest (i + 1) tag fuel bs
end

def decodeWithLength (t : Ty) (bs : Bytes) : DecM (Val × Nat) :=
  match dec t none (bs.length + 1) bs with
  | .error e => .error e
  | .ok none => .error .decodeError
  | .ok (some (v, k, _)) => .ok (v, k)

def decode (t : Ty) (bs : Bytes) : DecM Val := (decodeWithLength t bs).map (·.1)

/-! ### kernel-evaluation checks -/

example : (decodeWithLength (.sequence (.cons "a" .mandatory .boolean .nil) false .nil)
    [0x30, 0x80, 0x80, 1, 0xff, 0, 0]).toOption.map (·.2) = some 7 := by rfl
example : (decodeWithLength (.octetString ⟨0, none, false⟩) [0x24, 0x80, 4, 1, 0xaa, 0x24, 3, 4, 1, 0xbb, 0, 0]).toOption.map (·.2)
    = some 12 := by rfl

-- regression (commit 300e5ac): indefinite-length SEQUENCE whose type has extension additions, none present
example : (decode (.sequence (.cons "a" .mandatory .boolean .nil) true (.cons "b" .optional (.integer ⟨none, none, false⟩) .nil))
    [0x30, 0x80, 0x80, 1, 0xff, 0, 0]).isOk = true := by rfl

end Asn1.BerCodec
