import Asn1Model.Prim
/-
  The universe of types and values the codec models and theorems quantify over.
-/
namespace Asn1

/-- Abstract values in the shape asn1tools uses (dict / list / tuple / bytes ...). -/
inductive Val where
  | bool (b : Bool)
  | null
  | int (i : Int)
  | enum (name : String)
  | bytes (bs : Bytes)                 -- OCTET STRING
  | bits (data : Bytes) (n : Nat)      -- BIT STRING: (data, number of bits)
  | str (cps : List Nat)               -- character string as code points
  | record (fields : List (String × Val))
  | list (vs : List Val)
  | choice (alt : String) (v : Val)
  | absent                             -- `None` (unknown enumeration item / alternative)
  deriving Inhabited

mutual
  def Val.beq : Val → Val → Bool
    | .bool a, .bool b => a == b
    | .null, .null => true
    | .int a, .int b => a == b
    | .enum a, .enum b => a == b
    | .bytes a, .bytes b => a == b
    | .bits a n, .bits b m => a == b && n == m
    | .str a, .str b => a == b
    | .record a, .record b => Val.beqFields a b
    | .list a, .list b => Val.beqList a b
    | .choice a v, .choice b w => a == b && Val.beq v w
    | .absent, .absent => true
    | _, _ => false
  def Val.beqFields : List (String × Val) → List (String × Val) → Bool
    | [], [] => true
    | (n, v) :: r, (m, w) :: s => n == m && Val.beq v w && Val.beqFields r s
    | _, _ => false
  def Val.beqList : List Val → List Val → Bool
    | [], [] => true
    | v :: r, w :: s => Val.beq v w && Val.beqList r s
    | _, _ => false
end

instance : BEq Val := ⟨Val.beq⟩

inductive Presence where
  | mandatory
  | optional
  | default (v : Val)
  deriving Inhabited

/-- Kinds of restricted character string the model distinguishes. -/
inductive StrKind where
  | ia5 | visible | numeric | printable | utf8
  deriving DecidableEq, Repr, Inhabited

/-- value-range constraint on INTEGER: bounds `none` = MIN / MAX (or no constraint at all when both
are `none` and `ext = false`). -/
structure IntC where
  lo : Option Int
  hi : Option Int
  ext : Bool
  deriving DecidableEq, Repr, Inhabited

/-- SIZE constraint: `lo .. hi` (`hi = none` = MAX / unconstrained). -/
structure SizeC where
  lo : Nat
  hi : Option Nat
  ext : Bool
  deriving DecidableEq, Repr, Inhabited

mutual
  inductive Ty where
    | boolean
    | null
    | integer (c : IntC)
    | enumerated (root : List (String × Int)) (ext : Option (List (String × Int)))
    | octetString (c : SizeC)
    | bitString (c : SizeC)
    | charString (k : StrKind) (c : SizeC)
    | sequence (root : Members) (extensible : Bool) (additions : Members)
    | sequenceOf (elem : Ty) (c : SizeC)
    | choice (root : Alts) (extensible : Bool) (additions : Alts)
  inductive Members where
    | nil
    | cons (name : String) (p : Presence) (t : Ty) (rest : Members)
  inductive Alts where
    | nil
    | cons (name : String) (t : Ty) (rest : Alts)
end

instance : Inhabited Ty := ⟨.null⟩

def Members.length : Members → Nat
  | .nil => 0
  | .cons _ _ _ r => r.length + 1

def Alts.length : Alts → Nat
  | .nil => 0
  | .cons _ _ r => r.length + 1

def Members.names : Members → List String
  | .nil => []
  | .cons n _ _ r => n :: r.names

def Alts.names : Alts → List String
  | .nil => []
  | .cons n _ r => n :: r.names

/-- clear the unused bits of the last octet and drop surplus octets (`clean_bit_string_value`) -/
def cleanBits (data : Bytes) (n : Nat) : Bytes := packBits ((bytesToBits data).take n)

/-- `member.is_default(value)`: plain equality, except BIT STRING which compares cleaned values -/
def isDefault (t : Ty) (v d : Val) : Bool :=
  match t, v, d with
  | .bitString _, .bits a n, .bits b m => n == m && cleanBits a n == cleanBits b m
  | _, _, _ => v == d

/-- dictionary lookup (first match, like a Python dict built from the pairs) -/
def lookup {α : Type} (name : String) : List (String × α) → Option α
  | [] => none
  | (n, v) :: r => if n == name then some v else lookup name r

end Asn1
