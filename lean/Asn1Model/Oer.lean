import Asn1Model.Schema
import Asn1Model.Uper
/-
  M-level model of asn1tools' OER codec (codecs/oer.py) over the `Ty`/`Val` universe.
  Everything is octet aligned except the SEQUENCE preamble, so the model works on `Bytes`.
  CHOICE alternatives carry AUTOMATIC TAGS context tags `[i]` (i = position in root ++ additions).
-/
namespace Asn1.Oer
open Asn1.Uper (Err utf8Enc utf8Dec alphabetOf sortByVal)

abbrev EncM := Except Err
abbrev DecM := Except Err

/-- `append_length_determinant` -/
def lenDet (n : Nat) : EncM Bytes :=
  if n < 128 then .ok [n]
  else
    let ds := natToBytesMin n
    if ds.length > 127 then .error .encodeError else .ok ((0x80 + ds.length) :: ds)

/-- `append_integer`: length-prefixed two's complement -/
def encSigned (i : Int) : EncM Bytes := do
  let k := intByteLength i
  let l ← lenDet k
  .ok (l ++ intToBytesN k i)

/-- `append_unsigned_integer` (value is assumed non-negative) -/
def encUnsigned (n : Nat) : EncM Bytes := do
  let k := (max (bitLength n) 1 + 7) / 8
  let l ← lenDet k
  .ok (l ++ natToBytesN k n)

/-- `encode_tag(number, flags)` -/
def base128 : (fuel : Nat) → Nat → Bytes
  | 0, _ => []
  | fuel + 1, n => if n < 128 then [n] else base128 fuel (n / 128) ++ [n % 128]

def encTag (number flags : Nat) : Bytes :=
  if number < 63 then [flags + number]
  else
    let ds := base128 (bitLength number + 1) number
    (flags + 0x3f) :: (ds.dropLast.map (· + 0x80) ++ [ds.getLast?.getD 0])

/-- first `n` bytes and the rest -/
def splitAux : Nat → Bytes → Bytes → Option (Bytes × Bytes)
  | 0, bs, acc => some (acc.reverse, bs)
  | _ + 1, [], _ => none
  | n + 1, b :: r, acc => splitAux n r (b :: acc)

def readBytes (n : Nat) (bs : Bytes) : DecM (Bytes × Bytes) :=
  match splitAux n bs [] with
  | some x => .ok x
  | none => .error .decodeError

def readByte (bs : Bytes) : DecM (Nat × Bytes) :=
  match bs with
  | [] => .error .decodeError
  | b :: r => .ok (b, r)

/-- `read_length_determinant` -/
def readLenDet (bs : Bytes) : DecM (Nat × Bytes) := do
  let (v, r) ← readByte bs
  if v < 128 then .ok (v, r)
  else do
    let (ds, r') ← readBytes (v - 128) r
    .ok (bytesToNat ds, r')

/-- `read_integer` -/
def decSigned (bs : Bytes) : DecM (Int × Bytes) := do
  let (k, r) ← readLenDet bs
  let (ds, r') ← readBytes k r
  if k = 0 then .error .foreign        -- `1 << -1`
  else .ok (bytesToInt ds, r')

def decUnsigned (bs : Bytes) : DecM (Nat × Bytes) := do
  let (k, r) ← readLenDet bs
  let (ds, r') ← readBytes k r
  .ok (bytesToNat ds, r')

/-- `read_tag` : first octet, then continuation octets while the top bit is set -/
def readTagRest : (fuel : Nat) → Bytes → DecM (Bytes × Bytes)
  | 0, _ => .error .unmodelled
  | fuel + 1, bs => do
    let (b, r) ← readByte bs
    if b < 128 then .ok ([b], r)
    else do
      let (t, r') ← readTagRest fuel r
      .ok (b :: t, r')

def readTag (bs : Bytes) : DecM (Bytes × Bytes) := do
  let (b, r) ← readByte bs
  if b % 64 = 63 then do
    let (t, r') ← readTagRest (r.length + 1) r
    .ok (b :: t, r')
  else .ok ([b], r)

/-- fixed width of an INTEGER (`self.length`), from `set_restricted_to_range` -/
def intFixed (c : IntC) : Option (Nat × Bool) :=   -- (octets, signed)
  if c.ext then none else
  match c.lo, c.hi with
  | some lo, some hi =>
    if lo ≥ 0 then
      if hi < 256 then some (1, false)
      else if hi < 65536 then some (2, false)
      else if hi < 4294967296 then some (4, false)
      else if hi < 18446744073709551616 then some (8, false)
      else none
    else if lo ≥ -128 ∧ hi < 128 then some (1, true)
    else if lo ≥ -32768 ∧ hi < 32768 then some (2, true)
    else if lo ≥ -2147483648 ∧ hi < 2147483648 then some (4, true)
    else if lo ≥ -9223372036854775808 ∧ hi < 9223372036854775808 then some (8, true)
    else none
  | _, _ => none

/-- `self.signed` -/
def intSigned (c : IntC) : Bool :=
  match c.lo with
  | some lo => if c.ext then true else decide (lo < 0)
  | none => true

/-- fixed size (`number_of_bytes` / `number_of_bits`): a non-extensible single-value SIZE -/
def fixedSize (c : SizeC) : Option Nat :=
  if c.ext then none else
  match c.hi with
  | some hi => if c.lo = hi then some hi else none
  | none => none

def enumValue (name : String) : List (String × Int) → Option Int
  | [] => none
  | (n, v) :: r => if n == name then some v else enumValue name r

def enumName (v : Int) : List (String × Int) → Option String
  | [] => none
  | (n, w) :: r => if w = v then some n else enumName v r

def encodeStr (k : StrKind) (cps : List Nat) : EncM Bytes :=
  match k with
  | .utf8 => .ok (cps.flatMap utf8Enc)
  | _ => if cps.all (· < 128) then .ok cps else .error .foreign   -- UnicodeEncodeError

def decodeStr (k : StrKind) (bs : Bytes) : DecM (List Nat) :=
  match k with
  | .utf8 => match utf8Dec (bs.length + 1) bs with
    | some cps => .ok cps
    | none => .error .foreign
  | _ => if bs.all (· < 128) then .ok bs else .error .foreign     -- UnicodeDecodeError

mutual
  def enc : Ty → Val → EncM Bytes
    | .boolean, .bool b => .ok [if b then 0xff else 0]
    | .boolean, _ => .error .foreign
    | .null, _ => .ok []
    | .integer c, .int i =>
      match intFixed c with
      | some (k, _) =>
        -- struct.pack raises struct.error outside the format's range
        if (match c.lo, c.hi with | some lo, some hi => decide (lo ≤ i) && decide (i ≤ hi) | _, _ => false) then .ok (intToBytesN k i)
        else .error .unmodelled
      | none =>
        if intSigned c then encSigned i
        else if i < 0 then .error .unmodelled else encUnsigned i.toNat
    | .integer _, _ => .error .foreign
    | .enumerated root ext, .enum name =>
      match enumValue name (root ++ ext.getD []) with
      | none => .error .encodeError
      | some v =>
        if 0 ≤ v ∧ v ≤ 127 then .ok [v.toNat]
        else
          match encSigned v with
          | .ok (l :: r) => .ok ((l + 128) :: r)
          | .ok [] => .error .unmodelled
          | .error e => .error e
    | .enumerated _ _, _ => .error .foreign
    | .octetString c, .bytes data =>
      match fixedSize c with
      | some _ => .ok data
      | none => do let l ← lenDet data.length; .ok (l ++ data)
    | .octetString _, _ => .error .foreign
    | .bitString c, .bits data n =>
      if 8 * data.length < n then .error .foreign else     -- IndexError / too little data
      let body := cleanBits data n
      match fixedSize c with
      | some _ => .ok body
      | none => do
        let l ← lenDet (body.length + 1)
        .ok (l ++ [(8 - n % 8) % 8] ++ body)
    | .bitString _, _ => .error .foreign
    | .charString k c, .str cps =>
      match encodeStr k cps with
      | .error e => .error e
      | .ok bs =>
        match fixedSize c with
        | some _ => .ok bs
        | none => do let l ← lenDet bs.length; .ok (l ++ bs)
    | .charString _ _, _ => .error .foreign
    | .sequence root extensible adds, .record fs =>
      match encPreamble root fs, encMembers root fs false with
      | .ok pre, .ok body =>
        if extensible then
          match adds with
          | .nil => .ok (packBits (false :: pre) ++ body)
          | _ =>
            let (present, encs, _) := encAdditions adds fs
            if encs.isEmpty then .ok (packBits (false :: pre) ++ body)
            else
              let n := adds.length
              let bitmap := List.replicate (n - present.length) false ++ present
              match lenDet ((n + 7) / 8 + 1), encs.mapM (fun e => do let l ← lenDet e.length; .ok (l ++ e)) with
              | .ok l, .ok wrapped =>
                .ok (packBits (true :: pre) ++ body ++ l ++ [(8 - n % 8) % 8] ++ packBits bitmap ++ wrapped.flatten)
              | .error e, _ => .error e
              | _, .error e => .error e
        else .ok (packBits pre ++ body)
      | .error e, _ => .error e
      | _, .error e => .error e
    | .sequence _ _ _, _ => .error .foreign
    | .sequenceOf e _, .list vs =>
      match vs.mapM (enc e), encUnsigned vs.length with
      | .ok items, .ok q => .ok (q ++ items.flatten)
      | .error err, _ => .error err
      | _, .error err => .error err
    | .sequenceOf _ _, _ => .error .foreign
    | .choice root _ adds, .choice name v =>
      match encAlt root name v 0 with
      | some (idx, r) =>
        match r with
        | .error e => .error e
        | .ok body => .ok (encTag idx 0x80 ++ body)
      | none =>
        match encAlt adds name v root.length with
        | some (idx, r) =>
          match r with
          | .error e => .error e
          | .ok body => do let l ← lenDet body.length; .ok (encTag idx 0x80 ++ l ++ body)
        | none => .error .encodeError
    | .choice _ _ _, _ => .error .foreign

  def encPreamble : Members → List (String × Val) → EncM Bits
    | .nil, _ => .ok []
    | .cons name p t rest, fs =>
      match encPreamble rest fs with
      | .error e => .error e
      | .ok r =>
        match p with
        | .mandatory => .ok r
        | .optional => .ok ((lookup name fs).isSome :: r)
        | .default d =>
          match lookup name fs with
          | some v => .ok ((!(isDefault t v d)) :: r)
          | none => .ok (false :: r)

  def encMembers : Members → List (String × Val) → Bool → EncM Bytes
    | .nil, _, _ => .ok []
    | .cons name p t rest, fs, encDefault =>
      let here : EncM Bytes :=
        match lookup name fs with
        | some v =>
          match p with
          | .default d => if !(isDefault t v d) || encDefault then enc t v else .ok []
          | _ => enc t v
        | none =>
          match p with
          | .mandatory => .error .encodeError
          | _ => .ok []
      match here, encMembers rest fs encDefault with
      | .ok a, .ok b => .ok (a ++ b)
      | .error e, _ => .error e
      | _, .error e => .error e

  /-- `encode_additions`: presence bits of the additions processed, the encodings of those present,
  and whether an `EncodeError` stopped the loop (it is swallowed).  The presence bits are then
  written as one `len(additions)`-bit *integer*, i.e. right aligned when the loop stopped early. -/
  def encAdditions : Members → List (String × Val) → (Bits × List Bytes × Bool)
    | .nil, _ => ([], [], false)
    | .cons name p t rest, fs =>
      let here : EncM Bytes :=
        match lookup name fs with
        | some v => enc t v
        | none =>
          match p with
          | .mandatory => .error .encodeError
          | _ => .ok []
      match here with
      | .error _ => ([false], [], true)
      | .ok e =>
        let (bits, encs, stopped) := encAdditions rest fs
        if e.length > 0 ∨ (lookup name fs).isSome then (true :: bits, e :: encs, stopped)
        else (false :: bits, encs, stopped)

  def encAlt : Alts → String → Val → Nat → Option (Nat × EncM Bytes)
    | .nil, _, _, _ => none
    | .cons n t rest, name, v, i =>
      if n == name then some (i, enc t v) else encAlt rest name v (i + 1)
end

def encode (t : Ty) (v : Val) : EncM Bytes := enc t v

/-! ### decoder -/

def decRepeat {α : Type} (p : Bytes → DecM (α × Bytes)) : Nat → Bytes → DecM (List α × Bytes)
  | 0, bs => .ok ([], bs)
  | n + 1, bs => do
    let (a, r) ← p bs
    let (as, r') ← decRepeat p n r
    .ok (a :: as, r')

/-- additions unknown to this version: skipped by their length prefix -/
def skipUnknown : Bits → Bytes → DecM Bytes
  | [], bs => .ok bs
  | present :: bitmap, bs =>
    if present then do
      let (len, r) ← readLenDet bs
      let (_, r') ← readBytes len r
      skipUnknown bitmap r'
    else skipUnknown bitmap bs

mutual
  def dec : Ty → Bytes → DecM (Val × Bytes)
    | .boolean, bs => do let (b, r) ← readByte bs; .ok (.bool (b != 0), r)
    | .null, bs => .ok (.null, bs)
    | .integer c, bs =>
      match intFixed c with
      | some (k, signed) => do
        let (ds, r) ← readBytes k bs
        .ok (.int (if signed then bytesToInt ds else bytesToNat ds), r)
      | none =>
        if intSigned c then do let (i, r) ← decSigned bs; .ok (.int i, r)
        else do let (n, r) ← decUnsigned bs; .ok (.int n, r)
    | .enumerated root ext, bs => do
      let (b, _) ← readByte bs
      let (v, r) ← (if b ≥ 128 then decSigned ((b - 128) :: bs.drop 1)
                    else do let (x, r) ← readByte bs; .ok ((x : Int), r))
      match enumName v (root ++ ext.getD []) with
      | some n => .ok (.enum n, r)
      | none => if ext.isSome then .ok (.absent, r) else .error .decodeError
    | .octetString c, bs => do
      let (n, r) ← (match fixedSize c with | some n => .ok (n, bs) | none => readLenDet bs)
      let (body, r') ← readBytes n r
      .ok (.bytes body, r')
    | .bitString c, bs =>
      match fixedSize c with
      | some n => do
        let (body, r) ← readBytes ((n + 7) / 8) bs
        .ok (.bits body n, r)
      | none => do
        let (len, r) ← readLenDet bs
        let (unused, r') ← readByte r
        if len = 0 ∨ 8 * (len - 1) < unused then .error .unmodelled   -- negative sizes: whatever Python does
        else do
          let (body, r'') ← readBytes (len - 1) r'
          .ok (.bits body (8 * (len - 1) - unused), r'')
    | .charString k c, bs => do
      let (n, r) ← (match fixedSize c with | some n => .ok (n, bs) | none => readLenDet bs)
      let (body, r') ← readBytes n r
      let cps ← decodeStr k body
      .ok (.str cps, r')
    | .sequence root extensible adds, bs => do
      let nflags := optionalCount root + (if extensible then 1 else 0)
      let (pre, r0) ← readBytes ((nflags + 7) / 8) bs
      let bits := (bytesToBits pre).take nflags
      let ext := extensible && bits.head?.getD false
      let flags := if extensible then bits.drop 1 else bits
      let (fields, r1) ← decMembers root flags r0
      if ext then do
        let (len, r2) ← readLenDet r1
        let (unused, r3) ← readByte r2
        if len = 0 ∨ 8 * (len - 1) < unused then .error .unmodelled
        else do
          let n := 8 * (len - 1) - unused
          let (bm, r4) ← readBytes ((n + 7) / 8) r3
          let bitmap := (bytesToBits bm).take n
          let (more, r5) ← decAdditions adds bitmap r4
          .ok (.record (fields ++ more), r5)
      else .ok (.record fields, r1)
    | .sequenceOf e _, bs => do
      let (n, r) ← decUnsigned bs
      let (xs, r') ← decRepeat (dec e) n r
      .ok (.list xs, r')
    | .choice root extensible adds, bs => do
      let (tag, r) ← readTag bs
      match decAlt root tag 0 r with
      | some res => res
      | none =>
        match decAltAdd adds tag root.length r with
        | some res => res
        | none =>
          if extensible then do
            let (len, r') ← readLenDet r
            let (_, r'') ← readBytes len r'
            .ok (.choice "" .absent, r'')
          else .error .decodeError

  def optionalCount : Members → Nat
    | .nil => 0
    | .cons _ p _ rest =>
      match p with
      | .mandatory => optionalCount rest
      | _ => optionalCount rest + 1

  def decMembers : Members → Bits → Bytes → DecM (List (String × Val) × Bytes)
    | .nil, _, bs => .ok ([], bs)
    | .cons name p t rest, flags, bs =>
      match p with
      | .mandatory => do
        let (v, r) ← dec t bs
        let (fs, r') ← decMembers rest flags r
        .ok ((name, v) :: fs, r')
      | .optional =>
        match flags with
        | true :: fl => do
          let (v, r) ← dec t bs
          let (fs, r') ← decMembers rest fl r
          .ok ((name, v) :: fs, r')
        | _ :: fl => decMembers rest fl bs
        | [] => .error .unmodelled
      | .default d =>
        match flags with
        | true :: fl => do
          let (v, r) ← dec t bs
          let (fs, r') ← decMembers rest fl r
          .ok ((name, v) :: fs, r')
        | _ :: fl => do
          let (fs, r') ← decMembers rest fl bs
          .ok ((name, d) :: fs, r')
        | [] => .error .unmodelled

  /-- known additions are decoded in place (their length prefix is read and ignored) -/
  def decAdditions : Members → Bits → Bytes → DecM (List (String × Val) × Bytes)
    | .nil, bitmap, bs => do
      let r ← skipUnknown bitmap bs
      .ok ([], r)
    | .cons name _ t rest, bitmap, bs =>
      match bitmap with
      | [] => .ok ([], bs)
      | present :: bitmap =>
        if present then do
          let (_, r) ← readLenDet bs
          let (v, r') ← dec t r
          let (fs, r'') ← decAdditions rest bitmap r'
          .ok ((name, v) :: fs, r'')
        else decAdditions rest bitmap bs

  def decAlt : Alts → Bytes → Nat → Bytes → Option (DecM (Val × Bytes))
    | .nil, _, _, _ => none
    | .cons n t rest, tag, i, bs =>
      if tag == encTag i 0x80 then some (do let (v, r) ← dec t bs; .ok (.choice n v, r))
      else decAlt rest tag (i + 1) bs

  def decAltAdd : Alts → Bytes → Nat → Bytes → Option (DecM (Val × Bytes))
    | .nil, _, _, _ => none
    | .cons n t rest, tag, i, bs =>
      if tag == encTag i 0x80 then
        some (do let (_, r0) ← readLenDet bs; let (v, r) ← dec t r0; .ok (.choice n v, r))
      else decAltAdd rest tag (i + 1) bs
end

def decode (t : Ty) (bs : Bytes) : DecM Val := (dec t bs).map (·.1)

end Asn1.Oer
