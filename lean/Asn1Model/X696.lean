import Asn1Model.Schema
import Asn1Model.Uper
/-
  S-level specification of the Octet Encoding Rules: an encoder written clause by clause from
  Rec. ITU-T X.696 (08/2015) | ISO/IEC 8825-7, *not* from asn1tools' `codecs/oer.py`.

  Scope: the `Ty` / `Val` universe of `Schema.lean` (BOOLEAN, NULL, INTEGER with one value range,
  ENUMERATED, OCTET STRING, BIT STRING without named bits, IA5String / VisibleString / NumericString /
  PrintableString / UTF8String, SEQUENCE with OPTIONAL / DEFAULT and single extension additions,
  SEQUENCE OF, CHOICE under AUTOMATIC TAGS).  Not in the universe, hence not specified here: REAL,
  SET / SET OF ordering, extension addition *groups* `[[ ]]`, named bits, unions of ranges, time types.

  Encoder's options.  Basic-OER leaves the sender a few options (X.696 8.6.5 NOTE: long form of a length
  determinant for lengths < 128 and non-minimal length octets; 9.2: any non-zero octet for TRUE; 16.x:
  a component whose value equals its DEFAULT may be sent or omitted; unused bits).  A function has to pick
  one: this one always picks the option that Canonical-OER (clause on COER restrictions) makes mandatory,
  so every octet string produced here is *both* a valid Basic-OER and the Canonical-OER encoding.  A
  difference between the code and this function is therefore either a violation of Basic-OER or a
  (named) non-canonical option; `isOption` below says which names are of the second kind.

  Clause numbers are those of the 2015 edition as I remember them (no copy of the Recommendation is
  available in the sandbox); where I am not certain of the wording this is said in a comment and the
  reading is the one that reproduces the worked examples in /repo/tests (`overview_of_oer.asn`,
  `x691_a1.asn`), which are the examples of the OER overview paper by the editor of X.696.

  The primitive number <-> octet conversions (`natToBytesN`, `intToBytesN`, `bitLength`,
  `byteLength`, `intByteLength`, `packBits`) are the shared arithmetic vocabulary of `Prim.lean`; their
  declarative meaning (least number of octets, big-endian value, two's complement) is proved in
  `Asn1Proofs/Lemmas/X696Prim.lean`.
-/
namespace Asn1.X696
open Asn1.Uper (Err utf8Enc)

abbrev EncM := Except Err

/-! ### 8.6 Length determinant -/

/-- X.696 8.6.  Short form (8.6.4): one octet, bit 8 = 0, for lengths 0..127.  Long form (8.6.5): an
octet with bit 8 = 1 whose low seven bits give the number `k` (1..127) of subsequent octets, which hold
the length as an unsigned big-endian number.  Canonical choice: short form whenever possible, least `k`.
A length that needs more than 127 octets has no length determinant. -/
def lengthDet (n : Nat) : EncM Bytes :=
  if n < 128 then .ok [n]
  else
    let k := byteLength n
    if k ≤ 127 then .ok ((128 + k) :: natToBytesN k n) else .error .encodeError

/-! ### 10 INTEGER -/

/-- least number of octets (at least one) holding `n` as an unsigned number (10.7) -/
def unsignedOctets (n : Nat) : Nat := max 1 (byteLength n)

/-- least number of octets (at least one) holding `i` as a two's complement number (10.8) -/
def signedOctets (i : Int) : Nat := intByteLength i

/-- 10.7: variable-size unsigned number preceded by a length determinant -/
def varUnsigned (n : Nat) : EncM Bytes :=
  match lengthDet (unsignedOctets n) with
  | .ok l => .ok (l ++ natToBytesN (unsignedOctets n) n)
  | .error e => .error e

/-- 10.8: variable-size signed (two's complement) number preceded by a length determinant -/
def varSigned (i : Int) : EncM Bytes :=
  match lengthDet (signedOctets i) with
  | .ok l => .ok (l ++ intToBytesN (signedOctets i) i)
  | .error e => .error e

/-- the four shapes of an INTEGER encoding (10.2 - 10.4) -/
inductive IntForm where
  | fixedUnsigned (octets : Nat)
  | fixedSigned (octets : Nat)
  | varUnsigned
  | varSigned
  deriving DecidableEq, Repr

/-- 8.2 (OER-visible constraints): a value range is visible only when the constraint is *not*
extensible; an extensible constraint `(lo..hi, ...)` contributes no bound at all. -/
def visibleLo (c : IntC) : Option Int := if c.ext then none else c.lo
def visibleHi (c : IntC) : Option Int := if c.ext then none else c.hi

/-- X.696 10.2 - 10.4.
  a) lower bound ≥ 0: upper bound ≤ 2^8-1, 2^16-1, 2^32-1, 2^64-1 → fixed-size unsigned number in
     1, 2, 4, 8 octets; larger or no upper bound → variable-size unsigned number with length determinant;
  b) lower bound < 0 with an upper bound: bounds within -2^7..2^7-1, -2^15..2^15-1, -2^31..2^31-1,
     -2^63..2^63-1 → fixed-size signed number in 1, 2, 4, 8 octets; otherwise variable-size signed;
  c) no lower bound (or no visible constraint): variable-size signed number with length determinant.
(`overview_of_oer.asn`: `a5 INTEGER (1000..MAX)` = 1024 ↦ `02 04 00`, `a6 INTEGER (-1..MAX)` = 4 ↦ `01 04`.) -/
def intForm (c : IntC) : IntForm :=
  match visibleLo c with
  | none => .varSigned
  | some lb =>
    if 0 ≤ lb then
      match visibleHi c with
      | none => .varUnsigned
      | some ub =>
        if ub ≤ 255 then .fixedUnsigned 1                          -- 2^8 - 1
        else if ub ≤ 65535 then .fixedUnsigned 2                   -- 2^16 - 1
        else if ub ≤ 4294967295 then .fixedUnsigned 4              -- 2^32 - 1
        else if ub ≤ 18446744073709551615 then .fixedUnsigned 8    -- 2^64 - 1
        else .varUnsigned
    else
      match visibleHi c with
      | none => .varSigned
      | some ub =>
        if -128 ≤ lb ∧ ub ≤ 127 then .fixedSigned 1                                  -- -2^7 .. 2^7-1
        else if -32768 ≤ lb ∧ ub ≤ 32767 then .fixedSigned 2                         -- -2^15 .. 2^15-1
        else if -2147483648 ≤ lb ∧ ub ≤ 2147483647 then .fixedSigned 4               -- -2^31 .. 2^31-1
        else if -9223372036854775808 ≤ lb ∧ ub ≤ 9223372036854775807 then .fixedSigned 8   -- -2^63 .. 2^63-1
        else .varSigned

/-- the value satisfies the visible bounds (otherwise it is not a value of the type: no encoding) -/
def inVisibleRange (c : IntC) (i : Int) : Bool :=
  (match visibleLo c with | some lb => decide (lb ≤ i) | none => true) &&
  (match visibleHi c with | some ub => decide (i ≤ ub) | none => true)

def encInteger (c : IntC) (i : Int) : EncM Bytes :=
  if inVisibleRange c i then
    match intForm c with
    | .fixedUnsigned k => .ok (natToBytesN k i.toNat)
    | .fixedSigned k => .ok (intToBytesN k i)
    | .varUnsigned => varUnsigned i.toNat
    | .varSigned => varSigned i
  else .error .encodeError

/-! ### 11 ENUMERATED -/

def itemValue (name : String) : List (String × Int) → Option Int
  | [] => none
  | (n, v) :: r => if n == name then some v else itemValue name r

/-- X.696 11.  Short form (11.2): a single octet with bit 8 = 0 holding the value, for values 0..127.
Long form (11.3): an octet with bit 8 = 1 whose low seven bits give the number of subsequent octets, which
hold the value as a two's complement number (least number of octets: 11.4 / COER).  A value needing more
than 127 octets cannot be encoded.  Extension items are encoded like root items. -/
def encEnumerated (items : List (String × Int)) (name : String) : EncM Bytes :=
  match itemValue name items with
  | none => .error .encodeError
  | some v =>
    if 0 ≤ v ∧ v ≤ 127 then .ok [v.toNat]
    else
      let k := signedOctets v
      if k ≤ 127 then .ok ((128 + k) :: intToBytesN k v) else .error .encodeError

/-! ### 13, 14, 27 strings -/

/-- 8.2 / 13.1 / 14.1 / 27.2: a SIZE constraint is OER-visible only when not extensible; the string has a
*fixed size* when the visible constraint admits exactly one size. -/
def visibleFixedSize (c : SizeC) : Option Nat :=
  if c.ext then none
  else match c.hi with
    | some hi => if c.lo = hi then some hi else none
    | none => none

/-- X.696 14: fixed size → the octets alone; otherwise length determinant (number of octets) + octets -/
def encOctetString (c : SizeC) (data : Bytes) : EncM Bytes :=
  match visibleFixedSize c with
  | some _ => .ok data
  | none =>
    match lengthDet data.length with
    | .ok l => .ok (l ++ data)
    | .error e => .error e

/-- the first `n` bits, padded with zero bits to a whole number of octets (13.2.x: unused bits are zero
in COER; Basic-OER, as far as I remember, does not constrain them - zero is valid in both) -/
def bitOctets (data : Bytes) (n : Nat) : Bytes := packBits ((bytesToBits data).take n)

/-- X.696 13.3.1: variable-size BIT STRING = length determinant (number of subsequent octets, i.e. the
initial octet and the content octets), an initial octet holding the number of unused bits (0..7) of the
last content octet, the content octets.  An empty bit string is `01 00`. -/
def encBitsVar (octets : Bytes) (nbits : Nat) : EncM Bytes :=
  match lengthDet (1 + octets.length) with
  | .ok l => .ok (l ++ [8 * octets.length - nbits] ++ octets)
  | .error e => .error e

/-- X.696 13: fixed size (13.2) → ⌈n/8⌉ octets, no length, no unused-bits octet; otherwise 13.3.
(`overview_of_oer.asn`: `b5 BIT STRING (SIZE (4))` = '0101'B ↦ `50`, `b6 BIT STRING` ↦ `02 04 50`.) -/
def encBitString (c : SizeC) (data : Bytes) (n : Nat) : EncM Bytes :=
  if n ≤ 8 * data.length then
    match visibleFixedSize c with
    | some _ => .ok (bitOctets data n)
    | none => encBitsVar (bitOctets data n) n
  else .error .encodeError

/-- X.696 27.1: the known-multiplier character string types of the universe and their multiplier (octets
per character).  UTF8String is *not* one: a SIZE constraint counts characters, not octets. -/
def multiplier : StrKind → Option Nat
  | .ia5 => some 1
  | .visible => some 1
  | .numeric => some 1
  | .printable => some 1
  | .utf8 => none

/-- X.696 27.  Known-multiplier types: one octet per character (the ISO 646 code); fixed size (27.2) →
no length determinant, otherwise (27.3) length determinant (octets) + octets.  Other restricted character
string types (27.4; here UTF8String): always length determinant + the X.690 contents octets (UTF-8),
whatever the SIZE constraint says. -/
def encCharString (k : StrKind) (c : SizeC) (cps : List Nat) : EncM Bytes :=
  match multiplier k with
  | some _ =>
    if cps.all (· < 128) then
      match visibleFixedSize c with
      | some _ => .ok cps
      | none =>
        match lengthDet cps.length with
        | .ok l => .ok (l ++ cps)
        | .error e => .error e
    else .error .encodeError
  | none =>
    match lengthDet (cps.flatMap utf8Enc).length with
    | .ok l => .ok (l ++ cps.flatMap utf8Enc)
    | .error e => .error e

/-! ### 8.7 tags, 30 open types -/

/-- minimal base-128 digits, most significant first -/
def base128 : (fuel : Nat) → Nat → Bytes
  | 0, _ => []
  | fuel + 1, n => if n < 128 then [n] else base128 fuel (n / 128) ++ [n % 128]

/-- X.696 8.7: bits 8-7 of the first octet = class (00 universal, 01 application, 10 context-specific,
11 private); tag numbers 0..62 in bits 6-1; otherwise bits 6-1 all ones and the number follows in base 128,
most significant group first, bit 8 set in every octet but the last, no leading zero group. -/
def tagOctets (cls number : Nat) : Bytes :=
  if number < 63 then [64 * cls + number]
  else
    let ds := base128 (bitLength number + 1) number
    (64 * cls + 63) :: (ds.dropLast.map (· + 128) ++ [ds.getLast?.getD 0])

/-- class number of context-specific tags -/
def contextClass : Nat := 2

/-- X.696 30: an open type is a length determinant followed by the complete encoding of the value -/
def openType (e : Bytes) : EncM Bytes :=
  match lengthDet e.length with
  | .ok l => .ok (l ++ e)
  | .error er => .error er

/-! ### 16 SEQUENCE: preamble -/

/-- X.696 16.2.1 b): one bit per OPTIONAL / DEFAULT component of the extension root, in textual order;
1 = the encoding of the component is present.  A DEFAULT component equal to its default value is absent
(mandatory in COER; sender's option in Basic-OER, same as X.690 / X.691 - the canonical choice). -/
def rootPresence : Members → List (String × Val) → Bits
  | .nil, _ => []
  | .cons name p t rest, fs =>
    match p with
    | .mandatory => rootPresence rest fs
    | .optional => (lookup name fs).isSome :: rootPresence rest fs
    | .default d =>
      (match lookup name fs with
       | some v => !(isDefault t v d)
       | none => false) :: rootPresence rest fs

/-- is any of these components present in the value? -/
def anyPresent : Members → List (String × Val) → Bool
  | .nil, _ => false
  | .cons name _ _ rest, fs => (lookup name fs).isSome || anyPresent rest fs

mutual
  /-- X.696 clauses 9 - 30 -/
  def enc : Ty → Val → EncM Bytes
    -- 9: one octet, 00 = FALSE, FF = TRUE (Basic-OER accepts any non-zero octet; COER requires FF)
    | .boolean, .bool b => .ok [if b then 0xff else 0]
    -- 15: NULL has no octets
    | .null, .null => .ok []
    | .integer c, .int i => encInteger c i
    | .enumerated root ext, .enum name => encEnumerated (root ++ ext.getD []) name
    | .octetString c, .bytes data => encOctetString c data
    | .bitString c, .bits data n => encBitString c data n
    | .charString k c, .str cps => encCharString k c cps
    /- 16: preamble (16.2: extension bit if the type is extensible, root presence bitmap, zero padding to
       an octet boundary), the root components in textual order (16.3), and, when an extension addition is
       present, the extension addition presence bitmap (16.4: a variable-size BIT STRING, 13.3, one bit per
       addition of the type) followed by every present addition as an open type (16.5).
       I am not certain whether 16.4 fixes the bitmap length to the number of additions in the type or
       allows trailing zero bits to be dropped; the repository's expectations (test_oer.py, ASN.1 Studio
       generated vectors) use the number of additions, which is what is specified here. -/
    | .sequence root extensible adds, .record fs =>
      match encRoot root fs with
      | .error e => .error e
      | .ok body =>
        if extensible then
          match encSlots adds fs with
          | .error e => .error e
          | .ok slots =>
            if slots.all Option.isNone then .ok (packBits (false :: rootPresence root fs) ++ body)
            else
              match encBitsVar (packBits (slots.map Option.isSome)) slots.length,
                    (slots.filterMap id).mapM openType with
              | .ok bitmap, .ok opens =>
                .ok (packBits (true :: rootPresence root fs) ++ body ++ bitmap ++ opens.flatten)
              | .error e, _ => .error e
              | _, .error e => .error e
        else .ok (packBits (rootPresence root fs) ++ body)
    /- 17: quantity field (the number of occurrences as an INTEGER (0..MAX): variable-size unsigned number
       with its length determinant), then the occurrences.  A SIZE constraint changes nothing.
       (`overview_of_oer.asn`: four enumerated items ↦ `01 04 01 02 03 04`.) -/
    | .sequenceOf e _, .list vs =>
      match vs.mapM (enc e), varUnsigned vs.length with
      | .ok items, .ok q => .ok (q ++ items.flatten)
      | .error err, _ => .error err
      | _, .error err => .error err
    /- 20: the tag of the chosen alternative (8.7; AUTOMATIC TAGS: context-specific, number = textual
       position counted through root and additions), then the alternative: directly when it belongs to the
       root (20.2), as an open type when it is an extension addition (20.3). -/
    | .choice root _ adds, .choice name v =>
      match encAlt root name v 0 with
      | some (idx, r) =>
        (match r with
         | .error e => .error e
         | .ok body => .ok (tagOctets contextClass idx ++ body))
      | none =>
        match encAlt adds name v root.length with
        | some (idx, r) =>
          (match r with
           | .error e => .error e
           | .ok body =>
             match openType body with
             | .ok o => .ok (tagOctets contextClass idx ++ o)
             | .error e => .error e)
        | none => .error .encodeError
    | _, _ => .error .encodeError

  /-- 16.3: the components of the extension root, in textual order; absent OPTIONAL components and
  DEFAULT components equal to their default contribute nothing; a mandatory component must be there -/
  def encRoot : Members → List (String × Val) → EncM Bytes
    | .nil, _ => .ok []
    | .cons name p t rest, fs =>
      let here : EncM Bytes :=
        match lookup name fs with
        | some v =>
          (match p with
           | .default d => if isDefault t v d then .ok [] else enc t v
           | _ => enc t v)
        | none =>
          (match p with
           | .mandatory => .error .encodeError
           | _ => .ok [])
      match here, encRoot rest fs with
      | .ok a, .ok b => .ok (a ++ b)
      | .error e, _ => .error e
      | _, .error e => .error e

  /-- 16.4 / 16.5: one slot per extension addition, `some encoding` when present.  An addition with a
  DEFAULT equal to its default is absent (canonical choice, as for the root).  An absent addition that is
  neither OPTIONAL nor DEFAULT is legitimate only in a value of an earlier version of the type, i.e. when
  no later addition is present (X.680 version brackets aside, each addition is its own version). -/
  def encSlots : Members → List (String × Val) → EncM (List (Option Bytes))
    | .nil, _ => .ok []
    | .cons name p t rest, fs =>
      let here : EncM (Option Bytes) :=
        match lookup name fs with
        | some v =>
          (match p with
           | .default d =>
             if isDefault t v d then .ok none
             else (match enc t v with | .ok e => .ok (some e) | .error e => .error e)
           | _ => (match enc t v with | .ok e => .ok (some e) | .error e => .error e))
        | none =>
          (match p with
           | .mandatory => if anyPresent rest fs then .error .encodeError else .ok none
           | _ => .ok none)
      match here, encSlots rest fs with
      | .ok a, .ok b => .ok (a :: b)
      | .error e, _ => .error e
      | _, .error e => .error e

  /-- the alternative called `name`: its position (from `i`) and the encoding of the value -/
  def encAlt : Alts → String → Val → Nat → Option (Nat × EncM Bytes)
    | .nil, _, _, _ => none
    | .cons n t rest, name, v, i =>
      if n == name then some (i, enc t v) else encAlt rest name v (i + 1)
end

/-- **The specification**: the (canonical) Basic-OER encoding of value `v` of type `t`. -/
def encode (t : Ty) (v : Val) : EncM Bytes := enc t v

/-! ### Deviations of asn1tools' OER codec from this specification

One name per *kind* of deviation, computed from the type and the value alone.  `deviations t v = []` is
the hypothesis of `Asn1.C06.oer_refines`.

* `fixed-utf8` (violation): a UTF8String with a non-extensible single-value SIZE(n) is written by the
  code as the bare UTF-8 octets, without length determinant (X.696 27.4 requires one; the decoder then
  reads n octets, not n characters).
* `addition-error-swallowed` (violation): while encoding the extension additions of a SEQUENCE the code
  catches every `EncodeError` and stops the loop: an addition that cannot be encoded (or a missing
  non-optional addition) silently truncates the additions, and the presence bits written so far are
  right-aligned in the bitmap (so they are attributed to the wrong additions) instead of the encoding
  failing.  Flagged when some addition fails and some addition is present in the value.
* `addition-default-encoded` (non-canonical option, not a Basic-OER violation): an extension addition with
  a DEFAULT that is present and equal to its default is encoded (root components are omitted in the same
  situation).
* `default-unclean-bits-encoded` (non-canonical option; REAL CODE ONLY): a root BIT STRING component with
  a DEFAULT, present with the bits of the default but with non-zero unused bits in the last octet of the
  Python value, is encoded by the real `oer.py` (its `is_default` is plain `==`; only per.py / ber.py
  compare cleaned values).  The frozen model `Oer.lean` uses the cleaned comparison and therefore agrees
  with this specification here: the flag exists so that `deviations = []` also describes the real code.
* `enum-oversize` (violation, academic): an enumeration value needing more than 127 octets has no long
  form; the code writes a length determinant in long form with bit 8 of the *first* octet set.
-/

/-- some addition cannot be encoded: present with a failing encoding, or absent though mandatory -/
def additionFails : Members → List (String × Val) → Bool
  | .nil, _ => false
  | .cons name p t rest, fs =>
    (match lookup name fs with
     | some v => (match enc t v with | .ok _ => false | .error _ => true)
     | none => (match p with | .mandatory => true | _ => false)) || additionFails rest fs

/-- some addition with a DEFAULT is present and equal to its default value -/
def additionIsDefault : Members → List (String × Val) → Bool
  | .nil, _ => false
  | .cons name p t rest, fs =>
    (match p, lookup name fs with
     | .default d, some v => isDefault t v d
     | _, _ => false) || additionIsDefault rest fs

/-- some root component with a DEFAULT is present with the *abstract* value of its default but another
representation of it (`isDefault` holds, the two `Val`s differ: a BIT STRING whose unused bits are not
zero) -/
def rootDefaultUnclean : Members → List (String × Val) → Bool
  | .nil, _ => false
  | .cons name p t rest, fs =>
    (match p, lookup name fs with
     | .default d, some v => isDefault t v d && !(v == d)
     | _, _ => false) || rootDefaultUnclean rest fs

mutual
  def devs : Ty → Val → List String
    | .enumerated root ext, .enum name =>
      (match itemValue name (root ++ ext.getD []) with
       | some v => if (0 ≤ v ∧ v ≤ 127) ∨ signedOctets v ≤ 127 then [] else ["enum-oversize"]
       | none => [])
    | .charString k c, .str _ =>
      (match multiplier k, visibleFixedSize c with
       | none, some _ => ["fixed-utf8"]
       | _, _ => [])
    | .sequence root _ adds, .record fs =>
      devsMembers root fs ++ devsMembers adds fs ++
      (if additionIsDefault adds fs then ["addition-default-encoded"] else []) ++
      (if rootDefaultUnclean root fs then ["default-unclean-bits-encoded"] else []) ++
      (if additionFails adds fs && anyPresent adds fs then ["addition-error-swallowed"] else [])
    | .sequenceOf e _, .list vs => vs.flatMap (devs e)
    | .choice root _ adds, .choice name v => devsAlt root name v ++ devsAlt adds name v
    | _, _ => []
  /-- deviations inside the component values present in the value -/
  def devsMembers : Members → List (String × Val) → List String
    | .nil, _ => []
    | .cons name _ t rest, fs =>
      (match lookup name fs with
       | some v => devs t v
       | none => []) ++ devsMembers rest fs
  def devsAlt : Alts → String → Val → List String
    | .nil, _, _ => []
    | .cons n t rest, name, v => if n == name then devs t v else devsAlt rest name v
end

/-- the names of the kinds of deviation that apply to encoding `v` as `t` (each name once) -/
def deviations (t : Ty) (v : Val) : List String := (devs t v).eraseDups

/-- all names `deviations` can produce -/
def deviationNames : List String :=
  ["fixed-utf8", "addition-error-swallowed", "addition-default-encoded", "default-unclean-bits-encoded",
   "enum-oversize"]

/-- kinds of deviation where the code's octets are still a valid Basic-OER encoding of the value (a
sender's option resolved differently from Canonical-OER); every other name is a violation of X.696 -/
def isOption (name : String) : Bool :=
  name == "addition-default-encoded" || name == "default-unclean-bits-encoded"

/-! ### The worked examples available in the repository (kernel-checked) -/

section Examples
private def unc : SizeC := ⟨0, none, false⟩
private def intC (lo hi : Option Int) : Ty := .integer ⟨lo, hi, false⟩

/-- `overview_of_oer.asn`, type A -/
def exA : Ty := .sequence
  (.cons "a1" .mandatory (intC (some 0) (some 100))
  (.cons "a2" .mandatory (intC (some (-290)) (some 399))
  (.cons "a3" .optional (intC (some 0) (some 60000))
  (.cons "a4" .mandatory (intC (some (-5000000)) (some 5000000))
  (.cons "a5" .mandatory (intC (some 1000) none)
  (.cons "a6" .mandatory (intC (some (-1)) none)
  (.cons "a7" .optional (intC none none) .nil))))))) false .nil

def exAval : Val := .record [("a1", .int 4), ("a2", .int 4), ("a3", .int 4), ("a4", .int 4),
  ("a5", .int 1024), ("a6", .int 4), ("a7", .int 4)]

example : encode exA exAval =
    .ok [0xc0, 0x04, 0x00, 0x04, 0x00, 0x04, 0x00, 0x00, 0x00, 0x04, 0x02, 0x04, 0x00, 0x01, 0x04, 0x01, 0x04] := by
  rfl

/-- `overview_of_oer.asn`, type B -/
def exB : Ty := .sequence
  (.cons "b1" .mandatory (.charString .ia5 ⟨0, some 10, false⟩)
  (.cons "b2" .mandatory (.charString .ia5 ⟨3, some 3, false⟩)
  (.cons "b3" .mandatory (.charString .ia5 unc)
  (.cons "b4" .mandatory (.octetString unc)
  (.cons "b5" .mandatory (.bitString ⟨4, some 4, false⟩)
  (.cons "b6" .mandatory (.bitString unc) .nil)))))) false .nil

def exBval : Val := .record [("b1", .str [65, 66, 67]), ("b2", .str [65, 66, 67]), ("b3", .str [65, 66, 67]),
  ("b4", .bytes [1, 2, 3, 4]), ("b5", .bits [0x50] 4), ("b6", .bits [0x50] 4)]

example : encode exB exBval =
    .ok [0x03, 0x41, 0x42, 0x43, 0x41, 0x42, 0x43, 0x03, 0x41, 0x42, 0x43, 0x04, 0x01, 0x02, 0x03, 0x04,
         0x50, 0x02, 0x04, 0x50] := by
  rfl

/-- `overview_of_oer.asn`, type C -/
def exC : Ty := .choice
  (.cons "c1" .boolean
  (.cons "c2" (.sequenceOf (.enumerated [("a", 0), ("b", 1), ("c", 2), ("d", 3), ("e", 4)] none) unc) .nil))
  false .nil

def exCval : Val := .choice "c2" (.list [.enum "b", .enum "c", .enum "d", .enum "e"])

example : encode exC exCval = .ok [0x81, 0x01, 0x04, 0x01, 0x02, 0x03, 0x04] := by rfl

end Examples

end Asn1.X696
