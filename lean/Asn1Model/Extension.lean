import Asn1Model.Schema
import Asn1Model.Typing
/-
  C07 — extension additions (X.680 clause 3.8.x "extension addition", X.680 annex on the rules of
  extensibility): when is a type `t2` (version 2) an legal *extension* of a type `t1` (version 1),
  and what does a version-1 system see of a version-2 value.

  * `Extends t1 t2`: same constructor everywhere; an extensible SEQUENCE may get further
    additions APPENDED to its additions (the new ones OPTIONAL or DEFAULT), an extensible CHOICE
    further alternatives appended to its additions, an extensible ENUMERATED further items
    appended to its additions; the component types may themselves be extended (any nesting
    depth: SEQUENCE OF elements, root members, existing additions, alternatives); everything else
    (names, presence, DEFAULT values, constraints, extensibility flags) is identical.
  * `extendsB`: the same relation as a decidable checker (equivalence proved in
    `Asn1Proofs/Lemmas/ExtDefs.lean`).
  * `project t1 t2 v`: the version-1 view of a version-2 value (`harness/extend.py: project`):
    fields of additions unknown to V1 are dropped, a CHOICE value whose alternative is unknown to
    V1 becomes `.choice "" .absent` (Python `(None, None)`), an ENUMERATED item unknown to V1
    becomes `.absent` (Python `None`); recursively.
-/
namespace Asn1.Ext

/-- additions a newer version appends must be omissible (OPTIONAL or DEFAULT), otherwise old
values would not be values of the new version -/
def omissible : Presence → Bool
  | .mandatory => false
  | _ => true

def allOmissible : Members → Bool
  | .nil => true
  | .cons _ p _ rest => omissible p && allOmissible rest

mutual
  /-- `Extends t1 t2`: version 2 (`t2`) differs from version 1 (`t1`) only by extension additions
  after an extension marker -/
  inductive Extends : Ty → Ty → Prop
    | boolean : Extends .boolean .boolean
    | null : Extends .null .null
    | integer (c : IntC) : Extends (.integer c) (.integer c)
    | octetString (c : SizeC) : Extends (.octetString c) (.octetString c)
    | bitString (c : SizeC) : Extends (.bitString c) (.bitString c)
    | charString (k : StrKind) (c : SizeC) : Extends (.charString k c) (.charString k c)
    /-- not extensible: identical -/
    | enumerated (root : List (String × Int)) : Extends (.enumerated root none) (.enumerated root none)
    /-- extensible: further items `new` after the existing additions -/
    | enumeratedExt (root adds new : List (String × Int)) :
        Extends (.enumerated root (some adds)) (.enumerated root (some (adds ++ new)))
    | sequence {r1 r2 a1 a2 : Members} (x : Bool) :
        ExtendsMembers r1 r2 → ExtendsAdds x a1 a2 → Extends (.sequence r1 x a1) (.sequence r2 x a2)
    | sequenceOf {e1 e2 : Ty} (c : SizeC) : Extends e1 e2 → Extends (.sequenceOf e1 c) (.sequenceOf e2 c)
    | choice {r1 r2 a1 a2 : Alts} (x : Bool) :
        ExtendsAlts r1 r2 → ExtendsAltAdds x a1 a2 → Extends (.choice r1 x a1) (.choice r2 x a2)
  /-- same members (name, presence, DEFAULT), the member types possibly extended -/
  inductive ExtendsMembers : Members → Members → Prop
    | nil : ExtendsMembers .nil .nil
    | cons {t1 t2 : Ty} {m1 m2 : Members} (name : String) (p : Presence) :
        Extends t1 t2 → ExtendsMembers m1 m2 → ExtendsMembers (.cons name p t1 m1) (.cons name p t2 m2)
  /-- the additions of a SEQUENCE whose extension marker is `x`: the existing ones stay (types possibly
  extended), omissible new ones follow if there is a marker -/
  inductive ExtendsAdds : Bool → Members → Members → Prop
    | new (x : Bool) (ms : Members) : (x = true ∨ ms = .nil) → allOmissible ms = true → ExtendsAdds x .nil ms
    | cons {x : Bool} {t1 t2 : Ty} {m1 m2 : Members} (name : String) (p : Presence) :
        Extends t1 t2 → ExtendsAdds x m1 m2 → ExtendsAdds x (.cons name p t1 m1) (.cons name p t2 m2)
  inductive ExtendsAlts : Alts → Alts → Prop
    | nil : ExtendsAlts .nil .nil
    | cons {t1 t2 : Ty} {m1 m2 : Alts} (name : String) :
        Extends t1 t2 → ExtendsAlts m1 m2 → ExtendsAlts (.cons name t1 m1) (.cons name t2 m2)
  inductive ExtendsAltAdds : Bool → Alts → Alts → Prop
    | new (x : Bool) (as : Alts) : (x = true ∨ as = .nil) → ExtendsAltAdds x .nil as
    | cons {x : Bool} {t1 t2 : Ty} {m1 m2 : Alts} (name : String) :
        Extends t1 t2 → ExtendsAltAdds x m1 m2 → ExtendsAltAdds x (.cons name t1 m1) (.cons name t2 m2)
end

/-! ### the decidable checker -/

/-- equality of presence markers (DEFAULT values compared with `Val.beq`) -/
def presenceEq : Presence → Presence → Bool
  | .mandatory, .mandatory => true
  | .optional, .optional => true
  | .default a, .default b => a == b
  | _, _ => false

/-- `a` is an initial segment of `b` -/
def isPrefix : List (String × Int) → List (String × Int) → Bool
  | [], _ => true
  | _ :: _, [] => false
  | x :: r, y :: s => decide (x = y) && isPrefix r s

mutual
  def extendsB : Ty → Ty → Bool
    | .boolean, .boolean => true
    | .null, .null => true
    | .integer c, .integer c' => decide (c = c')
    | .octetString c, .octetString c' => decide (c = c')
    | .bitString c, .bitString c' => decide (c = c')
    | .charString k c, .charString k' c' => decide (k = k') && decide (c = c')
    | .enumerated root none, .enumerated root' none => decide (root = root')
    | .enumerated root (some adds), .enumerated root' (some adds') => decide (root = root') && isPrefix adds adds'
    | .sequence r1 x a1, .sequence r2 x' a2 => (x == x') && extendsMembersB r1 r2 && extendsAddsB x a1 a2
    | .sequenceOf e1 c, .sequenceOf e2 c' => decide (c = c') && extendsB e1 e2
    | .choice r1 x a1, .choice r2 x' a2 => (x == x') && extendsAltsB r1 r2 && extendsAltAddsB x a1 a2
    | _, _ => false
  termination_by structural t1 => t1
  def extendsMembersB : Members → Members → Bool
    | .nil, .nil => true
    | .cons n p t1 m1, .cons n' p' t2 m2 => (n == n') && presenceEq p p' && extendsB t1 t2 && extendsMembersB m1 m2
    | _, _ => false
  termination_by structural m1 => m1
  def extendsAddsB : Bool → Members → Members → Bool
    | x, .nil, ms => (x || (match ms with | .nil => true | _ => false)) && allOmissible ms
    | x, .cons n p t1 m1, .cons n' p' t2 m2 => (n == n') && presenceEq p p' && extendsB t1 t2 && extendsAddsB x m1 m2
    | _, .cons _ _ _ _, .nil => false
  termination_by structural _ m1 => m1
  def extendsAltsB : Alts → Alts → Bool
    | .nil, .nil => true
    | .cons n t1 m1, .cons n' t2 m2 => (n == n') && extendsB t1 t2 && extendsAltsB m1 m2
    | _, _ => false
  termination_by structural m1 => m1
  def extendsAltAddsB : Bool → Alts → Alts → Bool
    | x, .nil, as => x || (match as with | .nil => true | _ => false)
    | x, .cons n t1 m1, .cons n' t2 m2 => (n == n') && extendsB t1 t2 && extendsAltAddsB x m1 m2
    | _, .cons _ _ _, .nil => false
  termination_by structural _ m1 => m1
end

/-! ### the version-1 view of a version-2 value -/

mutual
  /-- `project t1 t2 v`: `t1` the version-1 type, `t2` the version-2 type, `v` a version-2 value -/
  def project : Ty → Ty → Val → Val
    | .enumerated root ext, _, .enum n =>
      if (namesOf root).contains n || (match ext with | some a => (namesOf a).contains n | none => false)
      then .enum n else .absent
    | .sequence r1 _ a1, .sequence r2 _ a2, .record fs =>
      .record (projectMembers r1 r2 fs ++ projectMembers a1 a2 fs)
    | .sequenceOf e1 _, .sequenceOf e2 _, .list vs => .list (vs.map (project e1 e2))
    | .choice r1 _ a1, .choice r2 _ a2, .choice n v =>
      match projectAlt r1 r2 n v with
      | some w => .choice n w
      | none =>
        match projectAlt a1 a2 n v with
        | some w => .choice n w
        | none => .choice "" .absent           -- `(None, None)`
    | _, _, v => v
  /-- the fields of the members version 1 knows, in declaration order; the members of both versions
  correspond by position (`Extends`) -/
  def projectMembers : Members → Members → List (String × Val) → List (String × Val)
    | .cons n _ t1 m1, .cons _ _ t2 m2, fs =>
      match lookup n fs with
      | some v => (n, project t1 t2 v) :: projectMembers m1 m2 fs
      | none => projectMembers m1 m2 fs
    | _, _, _ => []
  def projectAlt : Alts → Alts → String → Val → Option Val
    | .cons n t1 m1, .cons _ t2 m2, name, v =>
      if n == name then some (project t1 t2 v) else projectAlt m1 m2 name v
    | _, _, _, _ => none
end

/-! ### kernel-evaluation checks -/

-- an addition whose type is itself extended, inside a SEQUENCE OF
private def v1 : Ty := .sequenceOf (.sequence (.cons "a" .mandatory .boolean .nil) true
  (.cons "b" .optional (.choice (.cons "x" .null .nil) true .nil) .nil)) ⟨0, none, false⟩
private def v2 : Ty := .sequenceOf (.sequence (.cons "a" .mandatory .boolean .nil) true
  (.cons "b" .optional (.choice (.cons "x" .null .nil) true (.cons "k1" .boolean .nil))
    (.cons "n1" .optional (.integer ⟨none, none, false⟩) .nil))) ⟨0, none, false⟩

example : extendsB v1 v2 = true := by rfl
example : extendsB v2 v1 = false := by rfl
example : project v1 v2 (.list [.record [("a", .bool true), ("b", .choice "k1" (.bool false)), ("n1", .int 5)]])
    = .list [.record [("a", .bool true), ("b", .choice "" .absent)]] := by rfl

end Asn1.Ext
