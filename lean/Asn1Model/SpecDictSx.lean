import Asn1Model.Sexp
import Asn1Model.SpecDict
/-
  S-expression form of the parser dictionary (wire format of the driver op `prep`; not part of any
  theorem).

    spec    ::= ( module* )
    module  ::= ( NAME (imports (FROM SYM*)*) TAGS EXT (types (NAME desc)*) (values (NAME STR)*) )
                TAGS ::= - | STR            EXT ::= T | F
    desc    ::= ( d TYPE NAME? TAG? OPT? DEF? VALUES? NBITS? (EXTRA*) BODY )
                NAME?   ::= - | STR
                TAG?    ::= - | (tag NUM CLS? KIND?)     NUM ::= INT | STR    CLS?, KIND? ::= - | STR
                OPT?    ::= - | T | F
                DEF?    ::= - | defval
                VALUES? ::= - | ( ( ... | (STR INT) | (STR STR) )* )
                NBITS?  ::= - | ( (STR STR)* )
                EXTRA   ::= (STR STR)            -- any other key, value as canonical text
                BODY    ::= leaf | (members item*) | (element desc)
    item    ::= ... | (group desc*) | (compof STR) | desc
    defval  ::= none | (i INT) | (b T|F) | (s STR) | (l STR*) | (y HEX) | (t HEX N) | (o STR)
    STR     ::= ' followed by the UTF-8 bytes of the text, every byte outside [A-Za-z0-9_.&-] as %XX
    HEX     ::= x followed by two hexadecimal digits per octet
-/
namespace Asn1.SpecDict.Sx
open Asn1 Asn1.SpecDict

def hexVal (c : Char) : Option Nat :=
  if '0' ≤ c ∧ c ≤ '9' then some (c.toNat - '0'.toNat)
  else if 'a' ≤ c ∧ c ≤ 'f' then some (c.toNat - 'a'.toNat + 10)
  else if 'A' ≤ c ∧ c ≤ 'F' then some (c.toNat - 'A'.toNat + 10)
  else none

def unescapeAux : List Char → ByteArray → Option ByteArray
  | [], acc => some acc
  | '%' :: a :: b :: t, acc =>
    match hexVal a, hexVal b with
    | some x, some y => unescapeAux t (acc.push (UInt8.ofNat (16 * x + y)))
    | _, _ => none
  | '%' :: _, _ => none
  | c :: t, acc => unescapeAux t (acc.push (UInt8.ofNat c.toNat))

def str? : Sx → Option String
  | .atom s =>
    match s.toList with
    | '\'' :: t =>
      match unescapeAux t ByteArray.empty with
      | some b => String.fromUTF8? b
      | none => none
    | _ => none
  | _ => none

def hexChar (n : Nat) : Char :=
  if n < 10 then Char.ofNat ('0'.toNat + n) else Char.ofNat ('a'.toNat + n - 10)

def plainByte (b : UInt8) : Bool :=
  let n := b.toNat
  (48 ≤ n && n ≤ 57) || (65 ≤ n && n ≤ 90) || (97 ≤ n && n ≤ 122) || n = 95 || n = 46 || n = 38 || n = 45

def strOut (s : String) : String :=
  let bs := s.toUTF8
  let cs := bs.toList.foldr (fun b acc =>
    if plainByte b then Char.ofNat b.toNat :: acc
    else '%' :: hexChar (b.toNat / 16) :: hexChar (b.toNat % 16) :: acc) []
  String.ofList ('\'' :: cs)

def int? : Sx → Option Int
  | .atom s => s.toInt?
  | _ => none

def nat? : Sx → Option Nat
  | .atom s => s.toNat?
  | _ => none

def bool? : Sx → Option Bool
  | .atom "T" => some true
  | .atom "F" => some false
  | _ => none

def boolOut (b : Bool) : String := if b then "T" else "F"

def hexBytesAux : List Char → Option (List Nat)
  | [] => some []
  | a :: b :: t =>
    match hexVal a, hexVal b, hexBytesAux t with
    | some x, some y, some r => some ((16 * x + y) :: r)
    | _, _, _ => none
  | _ => none

def hex? : Sx → Option (List Nat)
  | .atom s =>
    match s.toList with
    | 'x' :: t => hexBytesAux t
    | _ => none
  | _ => none

def hexOut (bs : List Nat) : String :=
  String.ofList ('x' :: bs.foldr (fun b acc => hexChar (b / 16 % 16) :: hexChar (b % 16) :: acc) [])

def optStr? : Sx → Option (Option String)
  | .atom "-" => some none
  | x => (str? x).map some

def optStrOut : Option String → String
  | none => "-"
  | some s => strOut s

def tag? : Sx → Option (Option Tag)
  | .atom "-" => some none
  | .list [.atom "tag", n, c, k] => do
    let num ← (match int? n with
      | some i => some (TagNum.int i)
      | none => (str? n).map TagNum.ref)
    let c ← optStr? c
    let k ← optStr? k
    some (some ⟨num, c, k⟩)
  | _ => none

def tagOut : Option Tag → String
  | none => "-"
  | some t =>
    let n := match t.number with
      | .int i => toString i
      | .ref s => strOut s
    s!"(tag {n} {optStrOut t.cls} {optStrOut t.kind})"

def defVal? : Sx → Option DefVal
  | .atom "none" => some .null
  | .list [.atom "i", x] => (int? x).map .int
  | .list [.atom "b", x] => (bool? x).map .bool
  | .list [.atom "s", x] => (str? x).map .str
  | .list (.atom "l" :: xs) => (xs.mapM str?).map .names
  | .list [.atom "y", x] => (hex? x).map .bytes
  | .list [.atom "t", x, n] => do
    let b ← hex? x
    let n ← nat? n
    some (.bits b n)
  | .list [.atom "o", x] => (str? x).map .other
  | _ => none

def defValOut : DefVal → String
  | .null => "none"
  | .int i => s!"(i {i})"
  | .bool b => s!"(b {boolOut b})"
  | .str s => s!"(s {strOut s})"
  | .names l => "(l" ++ String.join (l.map fun s => " " ++ strOut s) ++ ")"
  | .bytes b => s!"(y {hexOut b})"
  | .bits b n => s!"(t {hexOut b} {n})"
  | .other s => s!"(o {strOut s})"

def optDef? : Sx → Option (Option DefVal)
  | .atom "-" => some none
  | x => (defVal? x).map some

def enumItem? : Sx → Option EnumItem
  | .atom "..." => some .marker
  | .list [n, v] => do
    let n ← str? n
    let v ← (match int? v with
      | some i => some (EnumVal.int i)
      | none => (str? v).map EnumVal.ref)
    some (.item n v)
  | _ => none

def enumItemOut : EnumItem → String
  | .marker => "..."
  | .item n (.int v) => s!"({strOut n} {v})"
  | .item n (.ref v) => s!"({strOut n} {strOut v})"

def pair? : Sx → Option (String × String)
  | .list [a, b] => do
    let a ← str? a
    let b ← str? b
    some (a, b)
  | _ => none

def pairOut (p : String × String) : String := s!"({strOut p.1} {strOut p.2})"

def optList? {α : Type} (f : Sx → Option α) : Sx → Option (Option (List α))
  | .atom "-" => some none
  | .list xs => (xs.mapM f).map some
  | _ => none

def listOut {α : Type} (f : α → String) (l : List α) : String :=
  "(" ++ " ".intercalate (l.map f) ++ ")"

def optListOut {α : Type} (f : α → String) : Option (List α) → String
  | none => "-"
  | some l => listOut f l

def optBool? : Sx → Option (Option Bool)
  | .atom "-" => some none
  | x => (bool? x).map some

def attrs? (ty nm tg op df vs nb ex : Sx) : Option Attrs := do
  let ty ← str? ty
  let nm ← optStr? nm
  let tg ← tag? tg
  let op ← optBool? op
  let df ← optDef? df
  let vs ← optList? enumItem? vs
  let nb ← optList? pair? nb
  let ex ← (match ex with
    | .list xs => xs.mapM pair?
    | _ => none)
  some ⟨ty, nm, tg, op, df, vs, nb, ex⟩

mutual
  partial def desc? : Sx → Option Desc
    | .list [.atom "d", ty, nm, tg, op, df, vs, nb, ex, body] => do
      let a ← attrs? ty nm tg op df vs nb ex
      let b ← body? body
      some (.mk a b)
    | _ => none
  partial def body? : Sx → Option Body
    | .atom "leaf" => some .leaf
    | .list (.atom "members" :: xs) => (xs.mapM item?).map .members
    | .list [.atom "element", e] => (desc? e).map .element
    | _ => none
  partial def item? : Sx → Option Item
    | .atom "..." => some .marker
    | .list [.atom "compof", r] => (str? r).map .compOf
    | .list (.atom "group" :: xs) => (xs.mapM desc?).map .group
    | x => (desc? x).map .desc
end

def attrsOut (a : Attrs) : String :=
  " ".intercalate [strOut a.type, optStrOut a.name, tagOut a.tag,
    (match a.optional with | none => "-" | some b => boolOut b),
    (match a.default with | none => "-" | some v => defValOut v),
    optListOut enumItemOut a.values, optListOut pairOut a.namedBits, listOut pairOut a.extra]

mutual
  partial def descOut : Desc → String
    | .mk a b => "(d " ++ attrsOut a ++ " " ++ bodyOut b ++ ")"
  partial def bodyOut : Body → String
    | .leaf => "leaf"
    | .members ms => "(members" ++ String.join (ms.map fun i => " " ++ itemOut i) ++ ")"
    | .element e => "(element " ++ descOut e ++ ")"
  partial def itemOut : Item → String
    | .marker => "..."
    | .compOf r => s!"(compof {strOut r})"
    | .group g => "(group" ++ String.join (g.map fun d => " " ++ descOut d) ++ ")"
    | .desc d => descOut d
end

def import? : Sx → Option (String × List String)
  | .list (f :: syms) => do
    let f ← str? f
    let syms ← syms.mapM str?
    some (f, syms)
  | _ => none

def namedDesc? : Sx → Option (String × Desc)
  | .list [n, d] => do
    let n ← str? n
    let d ← desc? d
    some (n, d)
  | _ => none

def module? : Sx → Option (String × Module)
  | .list [n, .list (.atom "imports" :: imps), tg, ext, .list (.atom "types" :: tys),
      .list (.atom "values" :: vals)] => do
    let n ← str? n
    let imps ← imps.mapM import?
    let tg ← optStr? tg
    let ext ← bool? ext
    let tys ← tys.mapM namedDesc?
    let vals ← vals.mapM pair?
    some (n, ⟨imps, tg, ext, tys, vals⟩)
  | _ => none

def spec? : Sx → Option Spec
  | .list ms => ms.mapM module?
  | _ => none

def moduleOut (p : String × Module) : String :=
  let m := p.2
  "(" ++ strOut p.1
    ++ " (imports" ++ String.join (m.imports.map fun (f, syms) =>
          " (" ++ strOut f ++ String.join (syms.map fun s => " " ++ strOut s) ++ ")") ++ ")"
    ++ " " ++ optStrOut m.tags ++ " " ++ boolOut m.extImplied
    ++ " (types" ++ String.join (m.types.map fun (n, d) => " (" ++ strOut n ++ " " ++ descOut d ++ ")") ++ ")"
    ++ " (values" ++ String.join (m.values.map fun p => " " ++ pairOut p) ++ ")"
    ++ ")"

def specOut (s : Spec) : String := listOut moduleOut s

/-- `prep <numeric:T|F> <spec>`: the dictionary after `Compiler(d, numeric).pre_process()` -/
def opPrep (args : List Asn1.Sx) : String :=
  match args with
  | [n, s] =>
    match bool? n, spec? s with
    | some numeric, some spec => "ok " ++ specOut (Preprocess.run numeric spec)
    | none, _ => "bad-flag"
    | _, none => "bad-spec"
  | _ => "bad-args"

/-- `prepseq <flags: (T|F)*> <spec>`: the dictionary after a sequence of rewrites -/
def opPrepSeq (args : List Asn1.Sx) : String :=
  match args with
  | [.list ns, s] =>
    match ns.mapM bool?, spec? s with
    | some flags, some spec => "ok " ++ specOut (flags.foldl (fun d n => Preprocess.run n d) spec)
    | none, _ => "bad-flag"
    | _, none => "bad-spec"
  | _ => "bad-args"

end Asn1.SpecDict.Sx
