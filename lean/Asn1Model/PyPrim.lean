/-
  Python primitives used by the MECHANICALLY TRANSLATED functions of `Asn1Model/Translated.lean`
  (harness/py2lean.py).  Integers are Python's unbounded `int` (Lean `Int`); `bytes` / `bytearray` /
  lists of integers are `List Int`.  Every definition is total; where Python raises (IndexError,
  ValueError for a negative shift count) the translator emits the `Except`-valued variant.
  No imports: the compiled driver links this file.
-/
namespace Py

abbrev PBytes := List Int

/-- `int.bit_length()` -/
def bitLength (x : Int) : Int :=
  let n := x.natAbs
  if n = 0 then 0 else ((Nat.log2 n + 1 : Nat) : Int)

/-- Python `a & b` (two's complement with infinite sign extension) -/
def band (a b : Int) : Int :=
  match a, b with
  | .ofNat m, .ofNat n => Int.ofNat (m &&& n)
  | .ofNat m, .negSucc n => Int.ofNat (m - (m &&& n))          -- m & ~n
  | .negSucc m, .ofNat n => Int.ofNat (n - (n &&& m))
  | .negSucc m, .negSucc n => .negSucc (m ||| n)                -- ~m & ~n = ~(m | n)

/-- Python `a | b` -/
def bor (a b : Int) : Int :=
  match a, b with
  | .ofNat m, .ofNat n => Int.ofNat (m ||| n)
  | .ofNat m, .negSucc n => .negSucc (n - (n &&& m))            -- m | ~n = ~(n & ~m)
  | .negSucc m, .ofNat n => .negSucc (m - (m &&& n))
  | .negSucc m, .negSucc n => .negSucc (m &&& n)

/-- Python `a ^ b` -/
def bxor (a b : Int) : Int :=
  match a, b with
  | .ofNat m, .ofNat n => Int.ofNat (m ^^^ n)
  | .ofNat m, .negSucc n => .negSucc (m ^^^ n)
  | .negSucc m, .ofNat n => .negSucc (m ^^^ n)
  | .negSucc m, .negSucc n => Int.ofNat (m ^^^ n)

/-- Python `a >> n` for `n ≥ 0` (floor) -/
def shr (a n : Int) : Int := Int.shiftRight a n.toNat

/-- Python `a << n` for `n ≥ 0` -/
def shl (a n : Int) : Int := a * (2 : Int) ^ n.toNat

/-- shifts whose count comes from data: `ValueError: negative shift count` -/
def shlE (a n : Int) : Except String Int := if n < 0 then .error "ValueError" else .ok (shl a n)
def shrE (a n : Int) : Except String Int := if n < 0 then .error "ValueError" else .ok (shr a n)

/-- Python `a // b` (floor division) and `a % b` (sign of the divisor) -/
def fdiv (a b : Int) : Int := Int.fdiv a b
def fmod (a b : Int) : Int := Int.fmod a b

/-- Python `a ** b` for `b ≥ 0` -/
def pow (a b : Int) : Int := a ^ b.toNat

def len {α : Type} (xs : List α) : Int := (xs.length : Int)

/-- `xs[i]` with Python's negative indices; `none` = IndexError -/
def getIdx? {α : Type} (xs : List α) (i : Int) : Option α :=
  if i ≥ 0 then xs[i.toNat]? else
    if (-i).toNat ≤ xs.length then xs[xs.length - (-i).toNat]? else none

/-- `xs[i]` inside `Except` -/
def getIdx {α : Type} (xs : List α) (i : Int) : Except String α :=
  match getIdx? xs i with
  | some v => .ok v
  | none => .error "IndexError"

/-- `xs[i] = v` (in place); out of range leaves the list unchanged (the translator only emits it
next to a `getIdx` of the same index, which has already failed in that case) -/
def setIdx {α : Type} (xs : List α) (i : Int) (v : α) : List α :=
  if i ≥ 0 then xs.set i.toNat v else
    if (-i).toNat ≤ xs.length then xs.set (xs.length - (-i).toNat) v else xs

/-- clamp a slice bound the way Python does -/
def clamp (n : Nat) (i : Int) : Nat :=
  if i ≥ 0 then min i.toNat n else n - min (-i).toNat n

/-- `xs[a:b]` -/
def slice {α : Type} (xs : List α) (a b : Int) : List α :=
  let lo := clamp xs.length a
  let hi := clamp xs.length b
  (xs.drop lo).take (hi - lo)

/-- `xs[a:]` -/
def sliceFrom {α : Type} (xs : List α) (a : Int) : List α := xs.drop (clamp xs.length a)

/-- `xs[:b]` -/
def sliceTo {α : Type} (xs : List α) (b : Int) : List α := xs.take (clamp xs.length b)

/-- `int(binascii.hexlify(data), 16)`: big-endian value of a byte string (bytes are 0..255) -/
def bytesToInt (xs : PBytes) : Int := xs.foldl (fun acc b => 256 * acc + b) 0

/-- truthiness -/
def truthyInt (x : Int) : Bool := x != 0
def truthyList {α : Type} (xs : List α) : Bool := !xs.isEmpty

/-- generic fuel for `while` loops: one more than the sum of the magnitudes of the integers
and the lengths of the lists that are live at loop entry -/
def fuelOfInt (x : Int) : Nat := x.natAbs
def fuelOfList {α : Type} (xs : List α) : Nat := xs.length

def boolToInt (b : Bool) : Int := if b then 1 else 0

/-- an exception whose attributes matter to the code that catches it: class name and integer attributes
(e.g. `MissingDataError(offset, expected_length)`) -/
structure Err where
  cls : String
  args : List Int
  deriving Repr, BEq, DecidableEq

/-- a computation that raises plain exceptions, used where exceptions carry data -/
def liftE {α : Type} : Except String α → Except Err α
  | .ok v => .ok v
  | .error s => .error ⟨s, []⟩

/-- `try: x except …: handler` for one raising step -/
def catchWith {ε α : Type} (x : Except ε α) (h : ε → Except ε α) : Except ε α :=
  match x with
  | .ok v => .ok v
  | .error e => h e

/-- the i-th integer attribute of a caught exception -/
def excArg (e : Err) (i : Nat) : Int := e.args.getD i 0

/-- `issubclass(cls, base)` along the single-inheritance chain given by `parent` (fuel: class hierarchies are shallow) -/
def isSubAux (parent : String → Option String) : Nat → String → String → Bool
  | 0, c, b => c == b
  | fuel + 1, c, b => c == b || (match parent c with | some p => isSubAux parent fuel p b | none => false)

def isSub (parent : String → Option String) (c b : String) : Bool := isSubAux parent 12 c b

/-- `s * n` for a `str` -/
def strRepeat (s : List Char) (n : Int) : List Char := (List.replicate n.toNat s).flatten

/-- `int(s, 2)` for a string of '0' / '1' characters (no sign, no prefix, no underscores: the only forms the
translated code produces); anything else, and the empty string, is ValueError -/
def intOfBin (s : List Char) : Except String Int :=
  if s.isEmpty then .error "ValueError"
  else if s.all (fun c => c == '0' || c == '1') then
    .ok (Int.ofNat (s.foldl (fun acc c => 2 * acc + (if c == '1' then 1 else 0)) 0))
  else .error "ValueError"

/-- `s[i]` for a `str`: a one-character string; IndexError when out of range -/
def strIdx (s : List Char) (i : Int) : Except String (List Char) :=
  match getIdx? s i with
  | some c => .ok [c]
  | none => .error "IndexError"

/-- `int(s)` for a string of decimal digits (the only form the translated code produces); else ValueError -/
def intOfDec (s : List Char) : Except String Int :=
  if s.isEmpty then .error "ValueError"
  else if s.all (fun c => c.isDigit) then
    .ok (Int.ofNat (s.foldl (fun acc c => 10 * acc + (c.toNat - 48)) 0))
  else .error "ValueError"

/-- hexadecimal digits of `n`, most significant first (`0 ↦ [0]`), as `hex(n)[2:]` -/
def hexDigitsAux : Nat → Nat → List Nat → List Nat
  | 0, _, acc => acc
  | fuel + 1, n, acc => if n < 16 then n :: acc else hexDigitsAux fuel (n / 16) (n % 16 :: acc)

def hexDigits (n : Nat) : List Nat := hexDigitsAux (n + 1) n []

/-- binary digits of `n`, most significant first (`0 ↦ ['0']`), as `bin(n)[2:]` -/
def binDigitsAux : Nat → Nat → List Char → List Char
  | 0, _, acc => acc
  | fuel + 1, n, acc =>
    let c := if n % 2 = 1 then '1' else '0'
    if n < 2 then c :: acc else binDigitsAux fuel (n / 2) (c :: acc)

def binDigits (n : Nat) : List Char := binDigitsAux (n + 1) n []

/-- `bin(x)[10:]` for `x ≥ 0`: the binary digits of `x` behind its eight leading ones (the idiom of a 0x80 sentinel octet) -/
def binAfter10 (x : Int) : List Char := (binDigits x.toNat).drop 8

def pairUp : List Nat → List Int
  | a :: b :: r => Int.ofNat (16 * a + b) :: pairUp r
  | _ => []

/-- `binascii.unhexlify(hex(x)[4:].rstrip('L'))`: the octets of `x` behind its two leading hexadecimal digits (the idiom
of a 0x80 sentinel octet); an odd number of remaining digits is `binascii.Error` -/
def unhexAfter4 (x : Int) : Except String (List Int) :=
  if x < 0 then .error "Error"      -- hex(-n) = '-0x…': the slice keeps a hex prefix character, unhexlify fails
  else
    let ds := (hexDigits x.toNat).drop 2
    if ds.length % 2 = 1 then .error "Error" else .ok (pairUp ds)

end Py
