import Asn1Model.Prim
import Asn1Model.Sexp
import Asn1Model.Comments
import Asn1Model.Schema
import Asn1Model.Uper
import Asn1Model.Typing
import Asn1Model.Oer
import Asn1Model.Per
import Asn1Model.Der
import Asn1Model.BerCodec
import Asn1Model.OerTyping
import Asn1Model.BerFraming
import Asn1Model.Constraints
import Asn1Model.TypeCheck
import Asn1Model.Cache
import Asn1Model.X696
import Asn1Model.X691
import Asn1Model.Extension
import Asn1Model.Json
import Asn1Model.Jer
import Asn1Model.Gser
import Asn1Model.SpecDictSx
import Asn1Model.Xml
import Asn1Model.Xer
import Asn1Model.CCursorProto
import Asn1Model.X690Value
import Asn1Model.X690
import Asn1Model.X690Strict
/-
  Line protocol: one request per line `op<TAB>arg...`, args are S-expressions.
  One answer line per request.  Everything printed is canonical.
-/
namespace Asn1.Proto
open Asn1

def sxNat? : Sx → Option Nat
  | .atom s => s.toNat?
  | _ => none

def sxInt? : Sx → Option Int
  | .atom s => s.toInt?
  | _ => none

def sxNats? : Sx → Option (List Nat)
  | .list xs => xs.mapM sxNat?
  | _ => none

def natsToStr (ns : List Nat) : String := " ".intercalate (ns.map toString)

def opStrip (args : List Sx) : String :=
  match args with
  | [a] =>
    match sxNats? a with
    | none => "bad-args"
    | some cps =>
      match Comments.strip (cps.map Char.ofNat) with
      | .ok out => "ok (" ++ natsToStr (out.map Char.toNat) ++ ")"
      | .error (.missingNewline p) => s!"err single {p}"
      | .error (.missingClose p) => s!"err multi {p}"
  | _ => "bad-args"


/-! ### S-expression <-> Ty / Val -/

def sxOptInt? : Sx → Option (Option Int)
  | .atom "min" => some none
  | .atom "max" => some none
  | x => (sxInt? x).map some

def sxBool? : Sx → Option Bool
  | .atom "T" => some true
  | .atom "F" => some false
  | _ => none

def sxSize? (lo hi ext : Sx) : Option SizeC := do
  let l ← sxNat? lo
  let h ← (match hi with | .atom "max" => some none | x => (sxNat? x).map some)
  let e ← sxBool? ext
  some ⟨l, h, e⟩

def sxEnumItems? : Sx → Option (List (String × Int))
  | .list xs => xs.mapM fun (f : Sx) =>
    match f with
    | Sx.list [Sx.atom n, v] => (sxInt? v).map fun i => (n, i)
    | _ => none
  | _ => none

def sxStrKind? : Sx → Option StrKind
  | .atom "ia5" => some .ia5
  | .atom "visible" => some .visible
  | .atom "numeric" => some .numeric
  | .atom "printable" => some .printable
  | .atom "utf8" => some .utf8
  | _ => none

partial def sxVal? : Sx → Option Val
  | .atom "T" => some (.bool true)
  | .atom "F" => some (.bool false)
  | .atom "N" => some .null
  | .atom "none" => some .absent
  | .list [.atom "i", n] => (sxInt? n).map .int
  | .list [.atom "e", .atom n] => some (.enum n)
  | .list [.atom "o", .atom h] => (fromHex (if h == "-" then "" else h)).map .bytes
  | .list [.atom "b", .atom h, n] => do
    let bs ← fromHex (if h == "-" then "" else h)
    let k ← sxNat? n
    some (.bits bs k)
  | .list (.atom "s" :: cps) => (cps.mapM sxNat?).map .str
  | .list (.atom "rec" :: fs) => (fs.mapM fun (f : Sx) =>
      match f with
      | Sx.list [Sx.atom n, v] => (sxVal? v).map fun x => (n, x)
      | _ => none).map .record
  | .list (.atom "lst" :: vs) => (vs.mapM sxVal?).map .list
  | .list [.atom "ch", .atom n, v] => (sxVal? v).map (.choice n)
  | _ => none

mutual
  partial def sxTy? : Sx → Option Ty
    | .atom "bool" => some .boolean
    | .atom "null" => some .null
    | .list [.atom "int", lo, hi, ext] => do
      let l ← sxOptInt? lo; let h ← sxOptInt? hi; let e ← sxBool? ext
      some (.integer ⟨l, h, e⟩)
    | .list [.atom "enum", root, ext] => do
      let r ← sxEnumItems? root
      let e ← (match ext with | .atom "none" => some none | x => (sxEnumItems? x).map some)
      some (.enumerated r e)
    | .list [.atom "octs", lo, hi, ext] => (sxSize? lo hi ext).map .octetString
    | .list [.atom "bits", lo, hi, ext] => (sxSize? lo hi ext).map .bitString
    | .list [.atom "str", k, lo, hi, ext] => do
      let kk ← sxStrKind? k
      let c ← sxSize? lo hi ext
      some (.charString kk c)
    | .list [.atom "seq", .list ms, ext] => do
      let r ← sxMembers? ms
      match ext with
      | .atom "none" => some (.sequence r false .nil)
      | .list as => do let a ← sxMembers? as; some (.sequence r true a)
      | _ => none
    | .list [.atom "seqof", e, lo, hi, ext] => do
      let t ← sxTy? e
      let c ← sxSize? lo hi ext
      some (.sequenceOf t c)
    | .list [.atom "choice", .list ms, ext] => do
      let r ← sxAlts? ms
      match ext with
      | .atom "none" => some (.choice r false .nil)
      | .list as => do let a ← sxAlts? as; some (.choice r true a)
      | _ => none
    | _ => none
  partial def sxMembers? : List Sx → Option Members
    | [] => some .nil
    | .list [.atom n, t, p] :: rest => do
      let ty ← sxTy? t
      let pr ← (match p with
        | .atom "man" => some Presence.mandatory
        | .atom "opt" => some Presence.optional
        | .list [.atom "def", v] => (sxVal? v).map Presence.default
        | _ => none)
      let r ← sxMembers? rest
      some (.cons n pr ty r)
    | _ => none
  partial def sxAlts? : List Sx → Option Alts
    | [] => some .nil
    | .list [.atom n, t] :: rest => do
      let ty ← sxTy? t
      let r ← sxAlts? rest
      some (.cons n ty r)
    | _ => none
end

partial def valToStr : Val → String
  | .bool true => "T"
  | .bool false => "F"
  | .null => "N"
  | .absent => "none"
  | .int i => s!"(i {i})"
  | .enum n => s!"(e {n})"
  | .bytes bs => "(o " ++ (if bs.isEmpty then "-" else toHex bs) ++ ")"
  | .bits bs n => "(b " ++ (if bs.isEmpty then "-" else toHex bs) ++ s!" {n})"
  | .str cps => "(s" ++ String.join (cps.map fun c => s!" {c}") ++ ")"
  | .record fs => "(rec" ++ String.join (fs.map fun (n, v) => s!" ({n} {valToStr v})") ++ ")"
  | .list vs => "(lst" ++ String.join (vs.map fun v => " " ++ valToStr v) ++ ")"
  | .choice n v => if n == "" then "(ch none none)" else s!"(ch {n} {valToStr v})"

def uperErr : Uper.Err → String
  | .encodeError => "EncodeError"
  | .decodeError => "DecodeError"
  | .notImplemented => "NotImplementedError"
  | .foreign => "Foreign"
  | .unmodelled => "unmodelled"

/-- `enc <codec> <ty> <val>` -/
def opEnc (args : List Sx) : String :=
  match args with
  | [.atom codec, t, v] =>
    match sxTy? t, sxVal? v with
    | some ty, some val =>
      match codec with
      | "uper" =>
        match Uper.encode ty val with
        | .ok bs => "ok " ++ (if bs.isEmpty then "-" else toHex bs)
        | .error e => "err " ++ uperErr e
      | "oer" =>
        match Oer.encode ty val with
        | .ok bs => "ok " ++ (if bs.isEmpty then "-" else toHex bs)
        | .error e => "err " ++ uperErr e
      | "per" =>
        match Per.encode ty val with
        | .ok bs => "ok " ++ (if bs.isEmpty then "-" else toHex bs)
        | .error e => "err " ++ uperErr e
      | "der" =>
        match Der.encode ty val with
        | .ok bs => "ok " ++ (if bs.isEmpty then "-" else toHex bs)
        | .error e => "err " ++ uperErr e
      | "ber" =>
        match BerCodec.encode ty val with
        | .ok bs => "ok " ++ (if bs.isEmpty then "-" else toHex bs)
        | .error e => "err " ++ uperErr e
      | _ => "bad-codec"
    | none, _ => "bad-type"
    | _, none => "bad-value"
  | _ => "bad-args"

/-- `spec <codec> <ty> <val>`: the encoding the *standard* prescribes (S-level specification) and the
names of the kinds of deviation of the code from the standard that apply to this type / value:
`ok <hex> dev=(<names...>)` or `err <class> dev=(<names...>)` -/
def opSpec (args : List Sx) : String :=
  match args with
  | [.atom codec, t, v] =>
    match sxTy? t, sxVal? v with
    | some ty, some val =>
      match codec with
      | "oer" =>
        let dev := " dev=(" ++ " ".intercalate (X696.deviations ty val) ++ ")"
        match X696.encode ty val with
        | .ok bs => "ok " ++ (if bs.isEmpty then "-" else toHex bs) ++ dev
        | .error e => "err " ++ uperErr e ++ dev
      | "per" =>
        let dev := " dev=(" ++ " ".intercalate (X691.deviations true ty val) ++ ")"
        match X691.encode true ty val with
        | .ok bs => "ok " ++ (if bs.isEmpty then "-" else toHex bs) ++ dev
        | .error e => "err " ++ uperErr e ++ dev
      | "uper" =>
        let dev := " dev=(" ++ " ".intercalate (X691.deviations false ty val) ++ ")"
        match X691.encode false ty val with
        | .ok bs => "ok " ++ (if bs.isEmpty then "-" else toHex bs) ++ dev
        | .error e => "err " ++ uperErr e ++ dev
      | "der" =>
        let names := (if hasType ty val then [] else ["untyped"]) ++ X690.deviations ty val
        let dev := " dev=(" ++ " ".intercalate names ++ ")"
        match X690.derEncode ty val with
        | .ok bs => "ok " ++ (if bs.isEmpty then "-" else toHex bs) ++ dev
        | .error e => "err " ++ uperErr e ++ dev
      | _ => "bad-codec"
    | none, _ => "bad-type"
    | _, none => "bad-value"
  | _ => "bad-args"


/-- `dec <codec> <ty> <hex>` -/
def opDec (args : List Sx) : String :=
  match args with
  | [.atom codec, t, .atom h] =>
    match sxTy? t, fromHex (if h == "-" then "" else h) with
    | some ty, some bs =>
      match codec with
      | "uper" =>
        match Uper.decode ty bs with
        | .ok v => "ok " ++ valToStr v
        | .error e => "err " ++ uperErr e
      | "oer" =>
        match Oer.decode ty bs with
        | .ok v => "ok " ++ valToStr v
        | .error e => "err " ++ uperErr e
      | "per" =>
        match Per.decode ty bs with
        | .ok v => "ok " ++ valToStr v
        | .error e => "err " ++ uperErr e
      | "der" =>
        match Der.decode ty bs with
        | .ok v => "ok " ++ valToStr v
        | .error e => "err " ++ uperErr e
      | "ber" =>
        match BerCodec.decode ty bs with
        | .ok v => "ok " ++ valToStr v
        | .error e => "err " ++ uperErr e
      | _ => "bad-codec"
    | none, _ => "bad-type"
    | _, none => "bad-hex"
  | _ => "bad-args"


/-- `decwl <codec> <ty> <hex>`: `decode_with_length` of the BER / DER codecs, answers
`ok <value> <octets consumed>` -/
def opDecWl (args : List Sx) : String :=
  match args with
  | [.atom codec, t, .atom h] =>
    match sxTy? t, fromHex (if h == "-" then "" else h) with
    | some ty, some bs =>
      match codec with
      | "der" =>
        match Der.decodeWithLength ty bs with
        | .ok (v, k) => "ok " ++ valToStr v ++ s!" {k}"
        | .error e => "err " ++ uperErr e
      | "ber" =>
        match BerCodec.decodeWithLength ty bs with
        | .ok (v, k) => "ok " ++ valToStr v ++ s!" {k}"
        | .error e => "err " ++ uperErr e
      | _ => "bad-codec"
    | none, _ => "bad-type"
    | _, none => "bad-hex"
  | _ => "bad-args"

/-- `probe <hex>` : `decode_full_length` -/
def opProbe (args : List Sx) : String :=
  match args with
  | [.atom h] =>
    match fromHex (if h == "-" then "" else h) with
    | some bs =>
      match Ber.fullLength bs with
      | .unknown => "unknown"
      | .indefinite => "indefinite"
      | .known n => s!"known {n}"
    | none => "bad-hex"
  | _ => "bad-args"

/-- `check <ty> <val>` : constraints checker model -/
def opCheck (args : List Sx) : String :=
  match args with
  | [t, v] =>
    match sxTy? t, sxVal? v with
    | some ty, some val =>
      (match Constraints.check ty val with
       | none => "ok"
       | some p => "err " ++ ".".intercalate p) ++ (if Constraints.admits ty val then " admits=T" else " admits=F")
    | _, _ => "bad-args"
  | _ => "bad-args"

partial def sxPyVal? : Sx → Option TypeCheck.PyVal
  | .atom "pf" => some .float
  | .atom "pn" => some .none
  | .list [.atom "pi", n] => (sxInt? n).map .int
  | .list [.atom "pb", b] => (sxBool? b).map .bool
  | .list (.atom "ps" :: cps) => (cps.mapM sxNat?).map .str
  | .list [.atom "py", .atom h] => (fromHex (if h == "-" then "" else h)).map .bytes
  | .list (.atom "pt" :: xs) => (xs.mapM sxPyVal?).map .tuple
  | .list (.atom "pl" :: xs) => (xs.mapM sxPyVal?).map .list
  | .list (.atom "pd" :: kvs) => (kvs.mapM fun (f : Sx) =>
      match f with
      | Sx.list [Sx.atom k, v] => (sxPyVal? v).map fun x => (k, x)
      | _ => none).map .dict
  | _ => none

/-- `tcheck <ty> <pyval>` : type checker model -/
def opTcheck (args : List Sx) : String :=
  match args with
  | [t, v] =>
    match sxTy? t, sxPyVal? v with
    | some ty, some pv =>
      (match TypeCheck.tcheck ty pv with
       | none => "ok"
       | some p => "err " ++ TypeCheck.locationStr "A" p)
    | _, _ => "bad-args"
  | _ => "bad-args"

/-- `cachekey <codec-hex> <opts-hex> (<file-hex> ...)` : the key bytes the cache uses -/
def opCacheKey (args : List Sx) : String :=
  match args with
  | [.atom c, .atom o, .list fs] =>
    let hx (h : String) := fromHex (if h == "-" then "" else h)
    match hx c, hx o, fs.mapM (fun (f : Sx) => match f with | Sx.atom h => hx h | _ => none) with
    | some cb, some ob, some fbs => toHex (Cache.key ⟨cb, ob, fbs⟩)
    | _, _, _ => "bad-hex"
  | _ => "bad-args"

def b2s (b : Bool) : String := if b then "T" else "F"

/-- `rt <codec> <ty> <val>`: evaluates the hypotheses and the conclusion of the round-trip theorem -/
def opRt (args : List Sx) : String :=
  match args with
  | [.atom "uper", t, v] =>
    match sxTy? t, sxVal? v with
    | some ty, some val =>
      let hyps := s!"wf={b2s ty.wf} defaults={b2s ty.defaultsOk} hasType={b2s (hasType ty val)} fragFree={b2s (Uper.fragFree ty val)}"
      match Uper.enc ty val with
      | .error e => hyps ++ " enc=err:" ++ uperErr e
      | .ok bits =>
        let rest : Bits := [true, false, true]
        match Uper.dec ty (bits.length + rest.length + 2) (bits ++ rest) with
        | .error e => hyps ++ " enc=ok dec=err:" ++ uperErr e
        | .ok (w, r) =>
          hyps ++ s!" enc=ok dec=ok value={b2s (w == canon ty val)} rest={b2s (r == rest)}"
    | _, _ => "bad-args"
  | [.atom "oer", t, v] =>
    match sxTy? t, sxVal? v with
    | some ty, some val =>
      let hyps := s!"wf={b2s (ty.wf && Oer.oerWf ty)} defaults={b2s ty.defaultsOk} hasType={b2s (hasType ty val)} fragFree={b2s (Oer.utf8Ok ty val)}"
      match Oer.enc ty val with
      | .error e => hyps ++ " enc=err:" ++ uperErr e
      | .ok bytes =>
        let rest : Bytes := [1, 2, 255]
        match Oer.dec ty (bytes ++ rest) with
        | .error e => hyps ++ " enc=ok dec=err:" ++ uperErr e
        | .ok (w, r) =>
          hyps ++ s!" enc=ok dec=ok value={b2s (w == canon ty val)} rest={b2s (r == rest)}"
    | _, _ => "bad-args"
  | _ => "bad-args"

/-- `rtder <der|ber> <ty> <val>`: hypotheses and conclusion of the BER/DER round-trip theorem -/
def opRtDer (args : List Sx) : String :=
  match args with
  | [.atom codec, t, v] =>
    match sxTy? t, sxVal? v with
    | some ty, some val =>
      let hyps := s!"wf={b2s (ty.wf && Oer.oerWf ty)} defaults={b2s (X690.defaultsOkV ty)} hasType={b2s (hasType ty val)}"
      match Der.encode ty val with
      | .error e => hyps ++ " enc=err:" ++ uperErr e
      | .ok bytes =>
        let rest : Bytes := [0, 0, 255]
        let r := if codec == "ber" then BerCodec.decodeWithLength ty (bytes ++ rest)
                 else Der.decodeWithLength ty (bytes ++ rest)
        match r with
        | .error e => hyps ++ " enc=ok dec=err:" ++ uperErr e
        | .ok (w, k) =>
          hyps ++ s!" enc=ok dec=ok value={b2s (w == X690.canonV ty val)} rest={b2s (k == bytes.length)}"
    | _, _ => "bad-args"
  | _ => "bad-args"

/-- `refdec <ty> <hex>`: the reference BER decoder `X690.berDecodeRef` -/
def opRefDec (args : List Sx) : String :=
  match args with
  | [t, .atom h] =>
    match sxTy? t, fromHex (if h == "-" then "" else h) with
    | some ty, some bs =>
      match X690.berDecodeRef ty bs with
      | some v => "ok " ++ valToStr v
      | none => "none"
    | none, _ => "bad-type"
    | _, none => "bad-hex"
  | _ => "bad-args"

/-- `refdecs <ty> <hex>`: the strict reference decoder (reference decoder minus the named C04
deviations of the code) -/
def opRefDecStrict (args : List Sx) : String :=
  match args with
  | [t, .atom h] =>
    match sxTy? t, fromHex (if h == "-" then "" else h) with
    | some ty, some bs =>
      match X690.berDecodeRefStrict ty bs with
      | some v => "ok " ++ valToStr v
      | none => "none"
    | none, _ => "bad-type"
    | _, none => "bad-hex"
  | _ => "bad-args"

/-- `project <ty1> <ty2> <val>`: the version-1 view of a version-2 value and the `Extends` checker
(C07), answers `ok <value> extends=<T|F>` -/
def opProject (args : List Sx) : String :=
  match args with
  | [t1, t2, v] =>
    match sxTy? t1, sxTy? t2, sxVal? v with
    | some ty1, some ty2, some val =>
      "ok " ++ valToStr (Ext.project ty1 ty2 val) ++ " extends=" ++ b2s (Ext.extendsB ty1 ty2)
    | none, _, _ => "bad-type"
    | _, none, _ => "bad-type"
    | _, _, none => "bad-value"
  | _ => "bad-args"

/-- `c07 <fwd|bwd> <codec> <ty1> <ty2> <val>`: hypotheses and conclusion of the C07 theorems.
`fwd`: `val` is a version-2 value, encoded under `ty2`, decoded under `ty1`, expected `canon ty1 (project ty1 ty2 val)`;
`bwd`: `val` is a version-1 value, encoded under `ty1`, decoded under `ty2`, expected `canon ty2 val`
(`canon` = `X690.canonV` for der).  Arbitrary further input must be left untouched. -/
def opC07 (args : List Sx) : String :=
  match args with
  | [.atom dir, .atom codec, t1, t2, v] =>
    match sxTy? t1, sxTy? t2, sxVal? v with
    | some ty1, some ty2, some val =>
      let fwd := dir == "fwd"
      let tD := if fwd then ty1 else ty2
      let tE := if fwd then ty2 else ty1
      let want := if fwd then Ext.project ty1 ty2 val else val
      let common := s!"extends={b2s (Ext.extendsB ty1 ty2)} wf={b2s (ty1.wf && ty2.wf && Oer.oerWf ty1 && Oer.oerWf ty2)} hasType={b2s (hasType tE val)}"
      match codec with
      | "uper" =>
        let hyps := common ++ s!" defaults={b2s (ty1.defaultsOk && ty2.defaultsOk)} side={b2s (Uper.fragFree tE val)}"
        match Uper.enc tE val with
        | .error e => hyps ++ " enc=err:" ++ uperErr e
        | .ok bits =>
          let rest : Bits := [true, false, true]
          match Uper.dec tD (bits.length + rest.length + 2) (bits ++ rest) with
          | .error e => hyps ++ " enc=ok dec=err:" ++ uperErr e
          | .ok (w, r) => hyps ++ s!" enc=ok dec=ok value={b2s (w == canon tD want)} rest={b2s (r == rest)}"
      | "oer" =>
        let hyps := common ++ s!" defaults={b2s (ty1.defaultsOk && ty2.defaultsOk)} side={b2s (Oer.utf8Ok tE val)}"
        match Oer.enc tE val with
        | .error e => hyps ++ " enc=err:" ++ uperErr e
        | .ok bytes =>
          let rest : Bytes := [1, 2, 255]
          match Oer.dec tD (bytes ++ rest) with
          | .error e => hyps ++ " enc=ok dec=err:" ++ uperErr e
          | .ok (w, r) => hyps ++ s!" enc=ok dec=ok value={b2s (w == canon tD want)} rest={b2s (r == rest)}"
      | "der" =>
        let hyps := common ++ s!" defaults={b2s (X690.defaultsOkV ty1 && X690.defaultsOkV ty2)} side=T"
        match Der.encode tE val with
        | .error e => hyps ++ " enc=err:" ++ uperErr e
        | .ok bytes =>
          let rest : Bytes := [0, 0, 255]
          match Der.dec tD none (bytes.length + 1) (bytes ++ rest) with
          | .error e => hyps ++ " enc=ok dec=err:" ++ uperErr e
          | .ok none => hyps ++ " enc=ok dec=err:TagMismatch"
          | .ok (some (w, k, r)) =>
            hyps ++ s!" enc=ok dec=ok value={b2s (w == X690.canonV tD want)} rest={b2s (r == rest && k == bytes.length)}"
      | _ => "bad-codec"
    | _, _, _ => "bad-args"
  | _ => "bad-args"

/-- `jenc <ty> <val> <indent|none>`: the octets of the JER document, `ok <hex>` / `err <class>` -/
def opJEnc (args : List Sx) : String :=
  match args with
  | [t, v, ind] =>
    match sxTy? t, sxVal? v, (match ind with | .atom "none" => some none | x => (sxNat? x).map some) with
    | some ty, some val, some indent =>
      match Jer.encode ty val indent with
      | .ok bs => "ok " ++ (if bs.isEmpty then "-" else toHex bs)
      | .error e => "err " ++ uperErr e
    | none, _, _ => "bad-type"
    | _, none, _ => "bad-value"
    | _, _, none => "bad-indent"
  | _ => "bad-args"

/-- `jdec <ty> <hex>`: `ok <val>` / `err <class>` / `malformed` (not UTF-8 or not an RFC 8259 document) -/
def opJDec (args : List Sx) : String :=
  match args with
  | [t, .atom h] =>
    match sxTy? t, fromHex (if h == "-" then "" else h) with
    | some ty, some bs =>
      if !Jer.isJson bs then "malformed" else
      match Jer.decode ty bs with
      | .ok v => "ok " ++ valToStr v
      | .error e => "err " ++ uperErr e
    | none, _ => "bad-type"
    | _, none => "bad-hex"
  | _ => "bad-args"

/-- `jparse <hex>`: the independent RFC 8259 reader on the octets: `ok` / `malformed` -/
def opJParse (args : List Sx) : String :=
  match args with
  | [.atom h] =>
    match fromHex (if h == "-" then "" else h) with
    | some bs => if Jer.isJson bs then "ok" else "malformed"
    | none => "bad-hex"
  | _ => "bad-args"

/-- `prep <numeric:T|F> <spec>`: the parser dictionary after the in-place rewrite of
`Compiler.pre_process` (model `Asn1.SpecDict.Preprocess.run`); format in `SpecDictSx.lean` -/
def opPrep (args : List Sx) : String := Asn1.SpecDict.Sx.opPrep args

/-- `prepseq (<T|F>*) <spec>`: the dictionary after a sequence of rewrites -/
def opPrepSeq (args : List Sx) : String := Asn1.SpecDict.Sx.opPrepSeq args

/-! ### XER -/

def hexArg? (h : String) : Option Bytes := fromHex (if h == "-" then "" else h)

def hexOut (bs : Bytes) : String := if bs.isEmpty then "-" else toHex bs

def xencAnswer (t v : Sx) (ind name : String) : String :=
  match sxTy? t, sxVal? v, (if ind == "none" then some none else ind.toNat?.map some) with
  | some ty, some val, some indent =>
    match Xer.encode ty name val indent with
    | .ok bs => "ok " ++ hexOut bs
    | .error e => "err " ++ uperErr e
  | none, _, _ => "bad-type"
  | _, none, _ => "bad-value"
  | _, _, none => "bad-indent"

/-- `xenc <ty> <val> <indent|none> [<type name>]`: the XER document (type name `A` when not given):
`ok <hex>` / `err <class>` -/
def opXenc (args : List Sx) : String :=
  match args with
  | [t, v, .atom ind] => xencAnswer t v ind "A"
  | [t, v, .atom ind, .atom name] => xencAnswer t v ind name
  | _ => "bad-args"

/-- `xdec <ty> <hex>`: `ok <val>` / `err <class>` / `malformed` / `unsupported` -/
def opXdec (args : List Sx) : String :=
  match args with
  | [t, .atom h] =>
    match sxTy? t, hexArg? h with
    | some ty, some bs =>
      match Xer.parseDoc bs with
      | .error .malformed => "malformed"
      | .error .unsupported => "unsupported"
      | .ok x =>
        match Xer.ofXml ty x with
        | .ok v => "ok " ++ valToStr v
        | .error e => "err " ++ uperErr e
    | none, _ => "bad-type"
    | _, none => "bad-hex"
  | _ => "bad-args"

/-- `xparse <hex>`: is the document well-formed XML (inside the supported subset):
`ok` / `malformed` / `unsupported` -/
def opXparse (args : List Sx) : String :=
  match args with
  | [.atom h] =>
    match hexArg? h with
    | some bs =>
      match Xer.parseDoc bs with
      | .ok _ => "ok"
      | .error .malformed => "malformed"
      | .error .unsupported => "unsupported"
    | none => "bad-hex"
  | _ => "bad-args"


/-! ### GSER -/

def cpsToStr (cps : List Nat) : String := String.ofList (cps.map Char.ofNat)

/-- `gser <indent|-> <type name> <ty> <val>`: the octets of the GSER text `name Name ::= value`,
`ok <hex>` / `err <class>` (`-` = `indent=None`) -/
def opGser (args : List Sx) : String :=
  match args with
  | [.atom ind, .atom name, t, v] =>
    match sxTy? t, sxVal? v, (if ind == "-" then some none else ind.toNat?.map some) with
    | some ty, some val, some indent =>
      match Gser.encode name ty val indent with
      | .ok bs => "ok " ++ hexOut bs
      | .error e => "err " ++ uperErr e
    | none, _, _ => "bad-type"
    | _, none, _ => "bad-value"
    | _, _, none => "bad-indent"
  | _ => "bad-args"

/-- `gserread <ty> <hex>`: the independent RFC 3641 reader on the octets of a whole text:
`ok <val> <valuename> <typename> strict=<T|F>` (strict: also accepted without white space around `:`) /
`malformed` (not UTF-8, or not `valuereference Typereference ::= Value` followed by nothing) /
`illtyped` (a Value, but not one of the type) -/
def opGserRead (args : List Sx) : String :=
  match args with
  | [t, .atom h] =>
    match sxTy? t, hexArg? h with
    | some ty, some bs =>
      match Gser.textCps bs with
      | none => "malformed"
      | some s =>
        match Gser.parseAssignment true s with
        | none => "malformed"
        | some (vn, tn, g) =>
          match Gser.toVal ty g with
          | none => "illtyped"
          | some v =>
            "ok " ++ valToStr v ++ " " ++ cpsToStr vn ++ " " ++ cpsToStr tn ++ " strict=" ++
              b2s (Gser.parseAssignment false s).isSome
    | none, _ => "bad-type"
    | _, none => "bad-hex"
  | _ => "bad-args"

/-- `gserrt <indent|-> <type name> <ty> <val>`: hypotheses and conclusion of `gser_roundtrip` on the case -/
def opGserRt (args : List Sx) : String :=
  match args with
  | [.atom ind, .atom name, t, v] =>
    match sxTy? t, sxVal? v, (if ind == "-" then some none else ind.toNat?.map some) with
    | some ty, some val, some indent =>
      let hyps := s!"wf={b2s ty.wf} typed={b2s (hasType ty val)} ids={b2s (Gser.idsOk ty)} name={b2s (Gser.typeNameOk name)}"
      match Gser.encode name ty val indent with
      | .error e => hyps ++ " enc=err:" ++ uperErr e
      | .ok bs =>
        match Gser.decode ty bs with
        | none => hyps ++ " enc=ok read=none"
        | some (_, _, w) => hyps ++ s!" enc=ok read=ok value={b2s (w == Gser.canonG ty val)}"
    | _, _, _ => "bad-args"
  | _ => "bad-args"


/-- `cops <sequence>`: run a sequence of C helper library calls on the model (`Asn1Model/CCursorProto.lean`) -/
def opCops (args : List Sx) : String := Asn1.CProto.opCops args

end Asn1.Proto
