import Asn1Model.Schema
import Asn1Model.Uper
import Asn1Model.Typing
import Asn1Model.X690Value
/-
  S-level: ITU-T X.690 (BER / DER) written from the standard, over the `Ty` / `Val` universe of
  Schema.lean, for modules with AUTOMATIC TAGS (X.680 24.7 - 24.9, 28.5, 31.2.7: the components of
  a SEQUENCE and the alternatives of a CHOICE are tagged [0], [1], ... over root ++ additions,
  IMPLICIT, except that a component whose type is an untagged CHOICE is tagged EXPLICIT; a type
  that is not a component keeps its UNIVERSAL tag, an untagged CHOICE has none).

  * `derEncode`     the distinguished encoding (X.690 clauses 8, 10, 11);
  * `berDecodeRef`  a deliberately simple and permissive reference decoder for BER: every form
                    X.690 clause 8 allows for the sender's options that matter in practice
                    (any definite length form, indefinite length on constructed encodings,
                    constructed string encodings, any non-zero octet for TRUE, unused bits of any
                    value), everything else as in the distinguished encoding.

  Nothing here refers to the code models (Der.lean, BerCodec.lean, BerFraming.lean); shared are
  only the arithmetic of Prim.lean, UTF-8 (`Uper.utf8Enc/utf8Dec`) and the alphabets.
  The universe has no SET, SET OF, REAL, time types, named bits: 11.3, 11.6 - 11.8, 8.5, 8.11,
  8.12, 11.2.2 do not arise.
-/
namespace Asn1.X690
open Asn1.Uper (Err utf8Enc utf8Dec alphabetOf)

/-! ## 8.1.2 identifier octets -/

inductive TagClass where
  | universal | application | context | priv
  deriving DecidableEq, Repr

/-- bits 8 and 7 (Table 1) -/
def TagClass.bits : TagClass → Nat
  | .universal => 0x00
  | .application => 0x40
  | .context => 0x80
  | .priv => 0xc0

/-- base-128 digits, most significant first, without leading zero digit (8.1.2.4.2 c) -/
def digits128 : (fuel : Nat) → Nat → Bytes
  | 0, _ => []
  | fuel + 1, n => if n < 128 then [n] else digits128 fuel (n / 128) ++ [n % 128]

/-- 8.1.2.4.2: bit 8 of each subsequent octet is one, except for the last -/
def subsequentOctets : Bytes → Bytes
  | [] => []
  | [d] => [d]
  | d :: r => (d + 0x80) :: subsequentOctets r

/-- 8.1.2.2 - 8.1.2.4: class, primitive / constructed bit, tag number -/
def identifier (cls : TagClass) (constructed : Bool) (number : Nat) : Bytes :=
  let lead := cls.bits + (if constructed then 0x20 else 0)
  if number < 31 then [lead + number]                        -- 8.1.2.3 (number ≤ 30)
  else (lead + 31) :: subsequentOctets (digits128 (number + 1) number)   -- 8.1.2.4

/-! ## 8.1.3 length octets -/

/-- 10.1: definite form, encoded in the minimum number of octets (8.1.3.4 short form up to 127,
else 8.1.3.5 long form without leading zero octets).  8.1.3.5 allows at most 126 subsequent octets;
lengths of 2^1008 octets and more are outside X.690 and outside every use of this function. -/
def lengthOctets (n : Nat) : Bytes :=
  if n ≤ 127 then [n]
  else
    let ds := natToBytesMin n
    (0x80 + ds.length) :: ds

/-- identifier octets, length octets, contents octets (8.1.1) -/
def tlv (ident contents : Bytes) : Bytes := ident ++ lengthOctets contents.length ++ contents

/-! ## types: UNIVERSAL tag numbers (X.680 8.6) and the form of the encoding -/

def universalTag : Ty → Nat
  | .boolean => 1
  | .integer _ => 2
  | .bitString _ => 3
  | .octetString _ => 4
  | .null => 5
  | .enumerated _ _ => 10
  | .charString .utf8 _ => 12
  | .sequence _ _ _ => 16
  | .sequenceOf _ _ => 16
  | .charString .numeric _ => 18
  | .charString .printable _ => 19
  | .charString .ia5 _ => 22
  | .charString .visible _ => 26
  | .choice _ _ _ => 0          -- no tag of its own

/-- SEQUENCE, SEQUENCE OF (8.9.1, 8.10.1) and explicitly tagged types (8.14.2) are constructed;
everything else is primitive in DER (10.2 for the string types) -/
def derConstructed : Ty → Bool
  | .sequence _ _ _ => true
  | .sequenceOf _ _ => true
  | .choice _ _ _ => true        -- only ever asked for a CHOICE component: the EXPLICIT wrapper
  | _ => false

/-- identifier octets of `t` in tagging context `tg`: its UNIVERSAL tag, or the context tag `[i]`
that replaces it (8.14.3 implicit tagging; for a CHOICE component: the tag of the explicit wrapper) -/
def header (t : Ty) (tg : Option Nat) (constructed : Bool) : Bytes :=
  match tg with
  | none => identifier .universal constructed (universalTag t)
  | some i => identifier .context constructed i

/-! ## contents octets -/

/-- 8.2 with 11.1: a single octet, all bits set for TRUE -/
def booleanContents (b : Bool) : Bytes := [if b then 0xff else 0x00]

/-- 8.3: two's complement, as few octets as possible (8.3.2) -/
def integerContents (i : Int) : Bytes := intToBytesMin i

/-- 8.6.2 with 11.2.1: initial octet = number of unused bits, unused bits set to zero (named
bits and 11.2.2 do not occur in the universe) -/
def bitStringContents (data : Bytes) (n : Nat) : Bytes := ((8 - n % 8) % 8) :: cleanBits data n

/-- 8.23: the characters as octets -- ISO 646 codes for the G0 sets of NumericString,
PrintableString, IA5String, VisibleString (8.23.5, one octet per character), UTF-8 for UTF8String
(8.23.10); characters outside the type's repertoire have no encoding -/
def charContents (k : StrKind) (cps : List Nat) : Except Err Bytes :=
  match k with
  | .utf8 =>
    if cps.all (fun cp => decide (cp < 0x110000) && !(decide (0xd800 ≤ cp) && decide (cp < 0xe000)))
    then .ok (cps.flatMap utf8Enc) else .error .encodeError
  | _ => if cps.all (fun cp => (alphabetOf k).contains cp) then .ok cps else .error .encodeError

def enumNumber (name : String) : List (String × Int) → Option Int
  | [] => none
  | (n, v) :: r => if n == name then some v else enumNumber name r

/-- 11.5 is about the *value*: "equal to its default value" -/
def isDefaultValue (t : Ty) (v d : Val) : Bool := sameValue t v d

/-! ## the distinguished encoding -/

mutual
  /-- DER encoding of `v : t` in tagging context `tg` -/
  def encV : Ty → Option Nat → Val → Except Err Bytes
    | .boolean, tg, .bool b => .ok (tlv (header .boolean tg false) (booleanContents b))           -- 8.2, 11.1
    | .null, tg, .null => .ok (tlv (header .null tg false) [])                                      -- 8.8
    | .integer c, tg, .int i => .ok (tlv (header (.integer c) tg false) (integerContents i))        -- 8.3
    | .enumerated root ext, tg, .enum name =>                                                       -- 8.4
      match enumNumber name (root ++ ext.getD []) with
      | none => .error .encodeError
      | some i => .ok (tlv (header (.enumerated root ext) tg false) (integerContents i))
    | .octetString c, tg, .bytes data => .ok (tlv (header (.octetString c) tg false) data)          -- 8.7, 10.2
    | .bitString c, tg, .bits data n =>                                                              -- 8.6, 10.2, 11.2
      .ok (tlv (header (.bitString c) tg false) (bitStringContents data n))
    | .charString k c, tg, .str cps =>                                                               -- 8.23, 10.2
      match charContents k cps with
      | .error e => .error e
      | .ok bs => .ok (tlv (header (.charString k c) tg false) bs)
    | .sequence root e adds, tg, .record fs =>                                                       -- 8.9
      match encComponents root 0 fs with
      | .error err => .error err
      | .ok a =>
        match encComponents adds root.length fs with
        | .error err => .error err
        | .ok b => .ok (tlv (header (.sequence root e adds) tg true) (a ++ b))
    | .sequenceOf e c, tg, .list vs =>                                                               -- 8.10
      match vs.mapM (encV e none) with
      | .error err => .error err
      | .ok items => .ok (tlv (header (.sequenceOf e c) tg true) items.flatten)
    | .choice root _ adds, tg, .choice name v =>                                                     -- 8.13
      let chosen : Except Err Bytes :=
        match encAlternative root 0 name v with
        | some r => r
        | none =>
          match encAlternative adds root.length name v with
          | some r => r
          | none => .error .encodeError
      match tg with
      | none => chosen
      | some i =>                                                                                    -- 8.14.2 explicit tagging
        match chosen with
        | .error err => .error err
        | .ok body => .ok (tlv (identifier .context true i) body)
    | _, _, _ => .error .encodeError

  /-- 8.9.2 / 8.9.3 / 11.5: the component encodings in the order of the type definition; absent
  OPTIONAL / DEFAULT components have none; a component equal to its DEFAULT value has none (11.5) -/
  def encComponents : Members → Nat → List (String × Val) → Except Err Bytes
    | .nil, _, _ => .ok []
    | .cons name p t rest, i, fs =>
      let here : Except Err Bytes :=
        match lookup name fs with
        | some v =>
          match p with
          | .default d => if isDefaultValue t v d then .ok [] else encV t (some i) v
          | _ => encV t (some i) v
        | none =>
          match p with
          | .mandatory => .error .encodeError
          | _ => .ok []
      match here with
      | .error err => .error err
      | .ok a =>
        match encComponents rest (i + 1) fs with
        | .error err => .error err
        | .ok b => .ok (a ++ b)

  def encAlternative : Alts → Nat → String → Val → Option (Except Err Bytes)
    | .nil, _, _, _ => none
    | .cons n t rest, i, name, v =>
      if n == name then some (encV t (some i) v) else encAlternative rest (i + 1) name v
end

/-- the DER encoding of a value of a (top-level) type -/
def derEncode (t : Ty) (v : Val) : Except Err Bytes := encV t none v

/-! ## where the code is known to differ from 11.5 -/

/-- what the code elides: a component *written* like the DEFAULT (Python `==`, BIT STRING compared
after clearing the unused bits); a NULL component is never elided -/
def writtenLikeDefault (t : Ty) (v d : Val) : Bool :=
  match t with
  | .null => false
  | _ => isDefault t v d

mutual
  /-- no present DEFAULT component, anywhere in the value, denotes its default value without being
  written like it (e.g. `x SEQUENCE { a BOOLEAN DEFAULT FALSE } DEFAULT {}` with value
  `{ x { a FALSE } }`, or any `n NULL DEFAULT NULL`) -/
  def elisionOk : Ty → Val → Bool
    | .sequence root _ adds, .record fs => elisionOkMembers root fs && elisionOkMembers adds fs
    | .sequenceOf e _, .list vs => vs.all (elisionOk e)
    | .choice root _ adds, .choice n v => elisionOkAlt root n v && elisionOkAlt adds n v
    | _, _ => true
  def elisionOkMembers : Members → List (String × Val) → Bool
    | .nil, _ => true
    | .cons name p t rest, fs =>
      (match lookup name fs with
       | some v =>
         (match p with
          | .default d => writtenLikeDefault t v d == isDefaultValue t v d
          | _ => true) && elisionOk t v
       | none => true) && elisionOkMembers rest fs
  def elisionOkAlt : Alts → String → Val → Bool
    | .nil, _, _ => true
    | .cons n t rest, name, v => if n == name then elisionOk t v else elisionOkAlt rest name v
end

/-- named deviations of asn1tools' DER encoder from `derEncode` on the value `v : t` -/
def deviations (t : Ty) (v : Val) : List String :=
  if elisionOk t v then [] else ["default-valued-component-not-elided"]

/-! ## reference decoder for BER -/

/-- first `n` octets and the rest (one pass) -/
def takeN : Nat → Bytes → Bytes → Option (Bytes × Bytes)
  | 0, bs, acc => some (acc.reverse, bs)
  | _ + 1, [], _ => none
  | n + 1, b :: r, acc => takeN n r (b :: acc)

def stripPrefix : Bytes → Bytes → Option Bytes
  | [], bs => some bs
  | _ :: _, [] => none
  | p :: ps, b :: bs => if p == b then stripPrefix ps bs else none

inductive Len where
  | definite (n : Nat)
  | indefinite

/-- 8.1.3: short form, long form with any number (1 .. 126) of subsequent octets -- leading zero
octets are allowed in BER --, or the indefinite form; `0xff` is reserved (8.1.3.5 c) -/
def readLength : Bytes → Option (Len × Bytes)
  | [] => none
  | l :: r =>
    if l < 128 then some (.definite l, r)
    else if l = 128 then some (.indefinite, r)
    else if l < 255 then
      match takeN (l - 128) r [] with
      | some (ds, r') => some (.definite (bytesToNat ds), r')
      | none => none
    else none

/-- contents octets of a primitive encoding (8.1.3.2 a: definite form), and what follows -/
def primitiveContents (bs : Bytes) : Option (Bytes × Bytes) :=
  match readLength bs with
  | some (.definite n, r) => takeN n r []
  | _ => none

def startsEOC : Bytes → Bool
  | 0 :: 0 :: _ => true
  | _ => false

/-- contents of a constructed encoding, parsed by `p`: with a definite length `p` has to use up
exactly the announced octets, with the indefinite form (8.1.3.6) the end-of-contents octets
(8.1.5) have to follow what `p` parsed -/
def constructedContents {α : Type} (p : Bytes → Option (α × Bytes)) (bs : Bytes) : Option (α × Bytes) :=
  match readLength bs with
  | some (.definite n, r) =>
    match takeN n r [] with
    | some (c, rest) =>
      match p c with
      | some (a, []) => some (a, rest)
      | _ => none
    | none => none
  | some (.indefinite, r) =>
    match p r with
    | some (a, 0 :: 0 :: rest) => some (a, rest)
    | _ => none
  | none => none

/-- 8.7.3 / 8.6.4 / 8.23.6: the contents of a constructed string encoding are zero or more
encodings with UNIVERSAL tag `u` (4 = OCTET STRING, 3 = BIT STRING), each primitive or itself
constructed; the primitive contents are returned in order -/
def segments (u : Nat) : (fuel : Nat) → Bytes → Option (List Bytes × Bytes)
  | 0, _ => none
  | fuel + 1, bs =>
    if bs.isEmpty || startsEOC bs then some ([], bs)
    else
      match bs with
      | [] => none
      | b :: r =>
        if b = u then
          match primitiveContents r with
          | some (c, r') =>
            match segments u fuel r' with
            | some (cs, r'') => some (c :: cs, r'')
            | none => none
          | none => none
        else if b = u + 0x20 then
          match constructedContents (segments u fuel) r with
          | some (cs1, r') =>
            match segments u fuel r' with
            | some (cs, r'') => some (cs1 ++ cs, r'')
            | none => none
          | none => none
        else none

/-- a string encoding with identifier octets `prim` (primitive form) or `cons` (constructed form):
the list of primitive contents -/
def stringChunks (u : Nat) (fuel : Nat) (prim cons : Bytes) (bs : Bytes) : Option (List Bytes × Bytes) :=
  match stripPrefix prim bs with
  | some r =>
    match primitiveContents r with
    | some (c, r') => some ([c], r')
    | none => none
  | none =>
    match stripPrefix cons bs with
    | some r => constructedContents (segments u fuel) r
    | none => none

/-- 8.6: every segment starts with its number of unused bits (0 .. 7, and 0 if there is nothing
else, 8.6.2.3); only the last segment may have unused bits (8.6.4); their value is irrelevant in
BER (8.6.2.4) and not part of the abstract value -/
def bitsOfChunks : List Bytes → Option (Bytes × Nat)
  | [] => some ([], 0)
  | [c] =>
    match c with
    | [] => none
    | u :: body => if u ≤ 7 ∧ (body.isEmpty → u = 0) then some (body, 8 * body.length - u) else none
  | c :: cs =>
    match c with
    | 0 :: body =>
      match bitsOfChunks cs with
      | some (d, n) => some (body ++ d, 8 * body.length + n)
      | none => none
    | _ => none

/-- 8.3.2: the first nine bits are not all equal -/
def minimalInteger : Bytes → Bool
  | [] => false
  | [_] => true
  | a :: b :: _ => !((a == 0 && b < 128) || (a == 255 && b ≥ 128))

def enumNameOf (v : Int) : List (String × Int) → Option String
  | [] => none
  | (n, w) :: r => if w = v then some n else enumNameOf v r

def charsOf (k : StrKind) (bs : Bytes) : Option (List Nat) :=
  match k with
  | .utf8 => utf8Dec (bs.length + 1) bs
  | _ => if bs.all (fun b => (alphabetOf k).contains b) then some bs else none

/-- the possible primitive / constructed bits of the identifier octets of a component of type `t` -/
def isStringType : Ty → Bool
  | .octetString _ => true
  | .bitString _ => true
  | .charString _ _ => true
  | _ => false

/-- is the component `[i]` of type `t` next in the input -/
def componentPresent (t : Ty) (i : Nat) (bs : Bytes) : Bool :=
  (stripPrefix (identifier .context (derConstructed t) i) bs).isSome ||
  (isStringType t && (stripPrefix (identifier .context true i) bs).isSome)

/-- SEQUENCE OF contents: element encodings up to the end of the contents / the end-of-contents octets -/
def elements (p : Bytes → Option (Val × Bytes)) : (fuel : Nat) → Bytes → Option (List Val × Bytes)
  | 0, _ => none
  | fuel + 1, bs =>
    if bs.isEmpty || startsEOC bs then some ([], bs)
    else
      match p bs with
      | some (v, r) =>
        match elements p fuel r with
        | some (vs, r') => some (v :: vs, r')
        | none => none
      | none => none

mutual
  /-- one BER encoding of a value of type `t` in tagging context `tg` at the start of the input:
  the abstract value (in `canonV` normal form) and the rest of the input -/
  def decV : Ty → Option Nat → (fuel : Nat) → Bytes → Option (Val × Bytes)
    | .boolean, tg, _, bs =>
      match stripPrefix (header .boolean tg false) bs with
      | none => none
      | some r =>
        match primitiveContents r with
        | some ([b], r') => some (.bool (b != 0), r')             -- 8.2.2: any non-zero octet is TRUE
        | _ => none
    | .null, tg, _, bs =>
      match stripPrefix (header .null tg false) bs with
      | none => none
      | some r =>
        match primitiveContents r with
        | some ([], r') => some (.null, r')                        -- 8.8.2
        | _ => none
    | .integer c, tg, _, bs =>
      match stripPrefix (header (.integer c) tg false) bs with
      | none => none
      | some r =>
        match primitiveContents r with
        | some (ct, r') => if minimalInteger ct then some (.int (bytesToInt ct), r') else none
        | none => none
    | .enumerated root ext, tg, _, bs =>
      match stripPrefix (header (.enumerated root ext) tg false) bs with
      | none => none
      | some r =>
        match primitiveContents r with
        | some (ct, r') =>
          if minimalInteger ct then
            match enumNameOf (bytesToInt ct) (root ++ ext.getD []) with
            | some n => some (.enum n, r')
            | none => none
          else none
        | none => none
    | .octetString c, tg, fuel, bs =>
      match stringChunks 4 fuel (header (.octetString c) tg false) (header (.octetString c) tg true) bs with
      | some (cs, r) => some (.bytes cs.flatten, r)
      | none => none
    | .bitString c, tg, fuel, bs =>
      match stringChunks 3 fuel (header (.bitString c) tg false) (header (.bitString c) tg true) bs with
      | some (cs, r) =>
        match bitsOfChunks cs with
        | some (data, n) => some (.bits (cleanBits data n) n, r)
        | none => none
      | none => none
    | .charString k c, tg, fuel, bs =>
      match stringChunks 4 fuel (header (.charString k c) tg false) (header (.charString k c) tg true) bs with
      | some (cs, r) =>
        match charsOf k cs.flatten with
        | some cps => some (.str cps, r)
        | none => none
      | none => none
    | .sequence root e adds, tg, fuel, bs =>
      match stripPrefix (header (.sequence root e adds) tg true) bs with
      | none => none
      | some r =>
        constructedContents (fun c =>
          match decComponents root 0 fuel c with
          | none => none
          | some (fs1, c1) =>
            match decComponents adds root.length fuel c1 with
            | none => none
            | some (fs2, c2) => some (Val.record (fs1 ++ fs2), c2)) r
    | .sequenceOf e c, tg, fuel, bs =>
      match stripPrefix (header (.sequenceOf e c) tg true) bs with
      | none => none
      | some r =>
        match constructedContents (elements (decV e none fuel) fuel) r with
        | some (vs, r') => some (.list vs, r')
        | none => none
    | .choice root _ adds, tg, fuel, bs =>
      let chosen (b : Bytes) : Option (Val × Bytes) :=
        match decAlternatives root 0 fuel b with
        | some x => some x
        | none => decAlternatives adds root.length fuel b
      match tg with
      | none => chosen bs
      | some i =>
        match stripPrefix (identifier .context true i) bs with
        | none => none
        | some r => constructedContents chosen r

  /-- components in the order of the type definition (8.9.2); a component that is not there is
  skipped if OPTIONAL and denotes its default value if DEFAULT -/
  def decComponents : Members → Nat → (fuel : Nat) → Bytes → Option (List (String × Val) × Bytes)
    | .nil, _, _, bs => some ([], bs)
    | .cons name p t rest, i, fuel, bs =>
      if componentPresent t i bs then
        match decV t (some i) fuel bs with
        | none => none
        | some (v, r) =>
          match decComponents rest (i + 1) fuel r with
          | none => none
          | some (fs, r') => some ((name, v) :: fs, r')
      else
        match p with
        | .mandatory => none
        | .optional => decComponents rest (i + 1) fuel bs
        | .default d =>
          match decComponents rest (i + 1) fuel bs with
          | none => none
          | some (fs, r') => some ((name, d) :: fs, r')

  /-- 8.13: the encoding of a CHOICE value is that of the chosen alternative -/
  def decAlternatives : Alts → Nat → (fuel : Nat) → Bytes → Option (Val × Bytes)
    | .nil, _, _, _ => none
    | .cons n t rest, i, fuel, bs =>
      if componentPresent t i bs then
        match decV t (some i) fuel bs with
        | some (v, r) => some (.choice n v, r)
        | none => none
      else decAlternatives rest (i + 1) fuel bs
end

/-- the abstract value of which `bs` is a BER encoding -/
def berDecodeRef (t : Ty) (bs : Bytes) : Option Val :=
  match decV t none (bs.length + 1) bs with
  | some (v, []) => some v
  | _ => none

/-! ### kernel-evaluation checks -/

example : derEncode (.sequence (.cons "a" .mandatory .boolean .nil) false .nil) (.record [("a", .bool true)])
    = .ok [0x30, 3, 0x80, 1, 0xff] := by rfl
example : (berDecodeRef (.sequence (.cons "a" .mandatory .boolean .nil) false .nil)
    [0x30, 0x80, 0x80, 0x81, 1, 0x01, 0, 0]).isSome = true := by rfl
example : identifier .context false 31 = [0x9f, 0x1f] ∧ identifier .context true 300 = [0xbf, 0x82, 0x2c] := by
  constructor <;> rfl

end Asn1.X690
