import Asn1Model.Prim
/-
  A small XML 1.0 reader and the writer asn1tools' XER codec uses.

  * `XmlT`: element trees (`name`, `text` = the character data before the first child =
    ElementTree's `.text`, `kids`).  An element without text and without children is the empty
    element `<a />`.
  * `render` / `renderDoc`: what `xml.etree.ElementTree.tostring(element)` emits after the
    `indent_xml` helper of `codecs/xer.py` has been applied (`indent = none | some k`):
    default encoding `us-ascii`, i.e. `&`, `<`, `>` escaped, every code point above 127 written as
    a decimal character reference, no XML declaration, empty elements as `<a />`.
    The writer mirrors ElementTree on the trees the XER encoder builds (`XmlT.plain`: an element
    has text or children, never both).
  * `parse`: an independent XML 1.0 reader (character-level state machine, one `foldlM` over the
    code points, so it is structurally recursive and kernel-evaluable).  Supported: elements,
    character data, the five predefined entities, decimal / hexadecimal character references,
    end-of-line normalisation (2.11), white space in tags / prolog / epilog, a leading BOM.
    Rejected as `malformed`: everything that violates well-formedness inside that subset
    (mismatched or unclosed tags, stray `<` / `&`, `]]>` in content, characters outside `Char`,
    references to such characters or to undeclared entities, junk around the root, bad names).
    Answered `unsupported` (well-formed XML may look like this, the reader does not handle it):
    attributes, comments, processing instructions / XML declaration, CDATA sections, DOCTYPE,
    `:` in names (name-space prefixes cannot be bound without attributes).
    White space: character data of an element *that has child elements* is dropped when it is all
    white space (indentation); text after the first child (ElementTree's `.tail`) is checked but
    not kept, the XER decoder never reads it.
-/
namespace Asn1.Xml

/-- code points of a string -/
def toCps (s : String) : List Nat := s.toList.map Char.toNat
def ofCps (l : List Nat) : String := String.ofList (l.map Char.ofNat)

inductive XmlT where
  | elem (name : String) (text : List Nat) (kids : List XmlT)
  deriving Inhabited

def XmlT.name : XmlT → String
  | .elem n _ _ => n
def XmlT.text : XmlT → List Nat
  | .elem _ t _ => t
def XmlT.kids : XmlT → List XmlT
  | .elem _ _ k => k

/-! ### character classes (XML 1.0 fifth edition) -/

/-- `S` -/
def isWs (c : Nat) : Bool := c == 32 || c == 9 || c == 10 || c == 13

/-- `Char` -/
def isChar (c : Nat) : Bool :=
  c == 9 || c == 10 || c == 13 || (decide (32 ≤ c) && decide (c ≤ 0xD7FF)) ||
  (decide (0xE000 ≤ c) && decide (c ≤ 0xFFFD)) || (decide (0x10000 ≤ c) && decide (c ≤ 0x10FFFF))

/-- `NameStartChar` without `:` -/
def isNameStart (c : Nat) : Bool :=
  (decide (65 ≤ c) && decide (c ≤ 90)) || c == 95 || (decide (97 ≤ c) && decide (c ≤ 122)) ||
  (decide (0xC0 ≤ c) && decide (c ≤ 0xD6)) || (decide (0xD8 ≤ c) && decide (c ≤ 0xF6)) ||
  (decide (0xF8 ≤ c) && decide (c ≤ 0x2FF)) || (decide (0x370 ≤ c) && decide (c ≤ 0x37D)) ||
  (decide (0x37F ≤ c) && decide (c ≤ 0x1FFF)) || (decide (0x200C ≤ c) && decide (c ≤ 0x200D)) ||
  (decide (0x2070 ≤ c) && decide (c ≤ 0x218F)) || (decide (0x2C00 ≤ c) && decide (c ≤ 0x2FEF)) ||
  (decide (0x3001 ≤ c) && decide (c ≤ 0xD7FF)) || (decide (0xF900 ≤ c) && decide (c ≤ 0xFDCF)) ||
  (decide (0xFDF0 ≤ c) && decide (c ≤ 0xFFFD)) || (decide (0x10000 ≤ c) && decide (c ≤ 0xEFFFF))

/-- `NameChar` without `:` -/
def isNameChar (c : Nat) : Bool :=
  isNameStart c || c == 45 || c == 46 || (decide (48 ≤ c) && decide (c ≤ 57)) || c == 0xB7 ||
  (decide (0x300 ≤ c) && decide (c ≤ 0x36F)) || (decide (0x203F ≤ c) && decide (c ≤ 0x2040))

/-- the names the writer can emit unchanged: ASCII letters, digits, `-`, `.`, `_` -/
def isAsciiNameStart (c : Nat) : Bool :=
  (decide (65 ≤ c) && decide (c ≤ 90)) || c == 95 || (decide (97 ≤ c) && decide (c ≤ 122))
def isAsciiNameChar (c : Nat) : Bool :=
  isAsciiNameStart c || c == 45 || c == 46 || (decide (48 ≤ c) && decide (c ≤ 57))

def isAsciiName (cs : List Nat) : Bool :=
  match cs with
  | [] => false
  | c :: r => isAsciiNameStart c && r.all isAsciiNameChar

/-- character data that survives a write / read cycle by the rules of XML: a `Char` other than
CR (a literal CR is turned into LF by every XML processor, 2.11; ElementTree does not escape it) -/
def isTextChar (c : Nat) : Bool := isChar c && c != 13

/-! ### writer -/

def natToDecAux : (fuel : Nat) → Nat → List Nat
  | 0, _ => []
  | fuel + 1, n => if n < 10 then [48 + n] else natToDecAux fuel (n / 10) ++ [48 + n % 10]

/-- decimal digits (ASCII codes) of `n` -/
def natToDec (n : Nat) : List Nat := natToDecAux (n + 1) n

/-- `_escape_cdata` followed by `.encode('us-ascii', 'xmlcharrefreplace')` -/
def escChar (c : Nat) : List Nat :=
  if c = 38 then [38, 97, 109, 112, 59]          -- &amp;
  else if c = 60 then [38, 108, 116, 59]         -- &lt;
  else if c = 62 then [38, 103, 116, 59]         -- &gt;
  else if c < 128 then [c]
  else [38, 35] ++ natToDec c ++ [59]            -- &#N;

def escText (t : List Nat) : List Nat := t.flatMap escChar

/-- the white space `indent_xml` puts in front of an element at `level` -/
def indentStr (ind : Option Nat) (level : Nat) : List Nat :=
  match ind with
  | none => []
  | some k => 10 :: List.replicate (level * k) 32

mutual
  def render (ind : Option Nat) : Nat → XmlT → List Nat
    | level, .elem name text kids =>
      match kids with
      | [] =>
        if text.isEmpty then [60] ++ toCps name ++ [32, 47, 62]                      -- <a />
        else [60] ++ toCps name ++ [62] ++ escText text ++ [60, 47] ++ toCps name ++ [62]
      | k :: ks =>
        [60] ++ toCps name ++ [62] ++ escText text ++ renderKids ind (level + 1) (k :: ks) ++
          indentStr ind level ++ [60, 47] ++ toCps name ++ [62]
  def renderKids (ind : Option Nat) : Nat → List XmlT → List Nat
    | _, [] => []
    | level, k :: ks => indentStr ind level ++ render ind level k ++ renderKids ind level ks
end

/-- `ElementTree.tostring(element)` after `indent_xml(element, indent * " ")`: the root gets a
trailing new-line when it is indented and has children -/
def renderDoc (ind : Option Nat) (x : XmlT) : List Nat :=
  render ind 0 x ++ (if ind.isSome && !x.kids.isEmpty then [10] else [])

mutual
  /-- the trees the XER encoder builds, restricted to what XML can carry: ASCII names, character
  data made of `isTextChar`, text or children but not both -/
  def XmlT.plain : XmlT → Bool
    | .elem name text kids =>
      isAsciiName (toCps name) && text.all isTextChar && (text.isEmpty || kids.isEmpty) &&
      plainList kids
  def plainList : List XmlT → Bool
    | [] => true
    | k :: ks => k.plain && plainList ks
end

/-! ### reader -/

inductive PErr where
  | malformed
  | unsupported
  deriving DecidableEq, Repr, Inhabited

structure Frame where
  name : List Nat          -- code points of the tag name
  text : List Nat          -- character data before the first child, reversed
  kids : List XmlT         -- children so far, reversed

inductive Mode where
  | content (rb : Nat)           -- in character data; `rb` = number of `]` immediately before
  | lt                           -- after `<`
  | openName (acc : List Nat)    -- in the name of a start tag (reversed)
  | openWs (acc : List Nat)      -- white space after the name of a start tag
  | emptyClose (acc : List Nat)  -- after the `/` of an empty-element tag
  | closeName (acc : List Nat)   -- after `</`
  | closeWs (acc : List Nat)     -- white space after the name of an end tag
  | ref (acc : List Nat)         -- after `&`

structure St where
  stack : List Frame
  mode : Mode
  root : Option XmlT

/-- (2.11) CR LF and CR become LF before parsing; `prevCr`: the previous character was a CR -/
def normEolAux : Bool → List Nat → List Nat
  | _, [] => []
  | prevCr, c :: r =>
    if c = 13 then 10 :: normEolAux true r
    else if c = 10 ∧ prevCr = true then normEolAux false r
    else c :: normEolAux false r

def normEol (cs : List Nat) : List Nat := normEolAux false cs

def isDigit (c : Nat) : Bool := decide (48 ≤ c) && decide (c ≤ 57)

def decToNat (ds : List Nat) : Nat := ds.foldl (fun a d => 10 * a + (d - 48)) 0

def hexVal? (c : Nat) : Option Nat :=
  if 48 ≤ c ∧ c ≤ 57 then some (c - 48)
  else if 97 ≤ c ∧ c ≤ 102 then some (c - 87)
  else if 65 ≤ c ∧ c ≤ 70 then some (c - 55)
  else none

def hexToNat? (ds : List Nat) : Option Nat :=
  ds.foldlM (fun a d => (hexVal? d).map (fun v => 16 * a + v)) 0

/-- the character an entity / character reference `&body;` stands for -/
def decodeRef (body : List Nat) : Option Nat :=
  if body = [108, 116] then some 60              -- lt
  else if body = [103, 116] then some 62         -- gt
  else if body = [97, 109, 112] then some 38     -- amp
  else if body = [97, 112, 111, 115] then some 39    -- apos
  else if body = [113, 117, 111, 116] then some 34   -- quot
  else
    match body with
    | 35 :: rest =>
      if rest.head? = some 120 then
        (if rest.tail.isEmpty then none else
         match hexToNat? rest.tail with
         | some n => if isChar n then some n else none
         | none => none)
      else if rest.isEmpty || !rest.all isDigit then none
      else if isChar (decToNat rest) then some (decToNat rest) else none
    | _ => none

/-- a finished element goes to its parent, or becomes the root -/
def addKid (x : XmlT) (stack : List Frame) (root : Option XmlT) :
    Except PErr (List Frame × Option XmlT) :=
  match stack with
  | f :: st => .ok ({ f with kids := x :: f.kids } :: st, root)
  | [] =>
    match root with
    | none => .ok ([], some x)
    | some _ => .error .malformed

/-- a character of character data: kept while the element has no child yet -/
def addChar (c : Nat) : List Frame → List Frame
  | f :: st => (if f.kids.isEmpty then { f with text := c :: f.text } else f) :: st
  | [] => []

def closeFrame (f : Frame) : XmlT :=
  let text := f.text.reverse
  .elem (ofCps f.name) (if !f.kids.isEmpty && text.all isWs then [] else text) f.kids.reverse

def closeTag (s : St) (acc : List Nat) : Except PErr St :=
  match s.stack with
  | f :: st =>
    if acc.reverse = f.name then
      match addKid (closeFrame f) st s.root with
      | .ok (st', r) => .ok ⟨st', .content 0, r⟩
      | .error e => .error e
    else .error .malformed
  | [] => .error .malformed

def emptyTag (s : St) (acc : List Nat) : Except PErr St :=
  match addKid (.elem (ofCps acc.reverse) [] []) s.stack s.root with
  | .ok (st', r) => .ok ⟨st', .content 0, r⟩
  | .error e => .error e

def step (s : St) (c : Nat) : Except PErr St :=
  if !isChar c then .error .malformed else
  match s.mode with
  | .content rb =>
    if c = 60 then
      if s.stack.isEmpty && s.root.isSome then .error .malformed else .ok { s with mode := .lt }
    else if c = 38 then
      if s.stack.isEmpty then .error .malformed else .ok { s with mode := .ref [] }
    else if s.stack.isEmpty then
      if isWs c then .ok s else .error .malformed
    else if c = 62 ∧ 2 ≤ rb then .error .malformed
    else .ok { s with stack := addChar c s.stack, mode := .content (if c = 93 then rb + 1 else 0) }
  | .lt =>
    if c = 47 then
      if s.stack.isEmpty then .error .malformed else .ok { s with mode := .closeName [] }
    else if c = 33 ∨ c = 63 ∨ c = 58 then .error .unsupported
    else if isNameStart c then .ok { s with mode := .openName [c] }
    else .error .malformed
  | .openName acc =>
    if isNameChar c then .ok { s with mode := .openName (c :: acc) }
    else if isWs c then .ok { s with mode := .openWs acc }
    else if c = 47 then .ok { s with mode := .emptyClose acc }
    else if c = 62 then .ok { s with stack := ⟨acc.reverse, [], []⟩ :: s.stack, mode := .content 0 }
    else if c = 58 then .error .unsupported
    else .error .malformed
  | .openWs acc =>
    if isWs c then .ok s
    else if c = 47 then .ok { s with mode := .emptyClose acc }
    else if c = 62 then .ok { s with stack := ⟨acc.reverse, [], []⟩ :: s.stack, mode := .content 0 }
    else if isNameStart c ∨ c = 58 then .error .unsupported      -- an attribute
    else .error .malformed
  | .emptyClose acc =>
    if c = 62 then emptyTag s acc else .error .malformed
  | .closeName acc =>
    if (if acc.isEmpty then isNameStart c else isNameChar c) then .ok { s with mode := .closeName (c :: acc) }
    else if acc.isEmpty then .error .malformed
    else if isWs c then .ok { s with mode := .closeWs acc }
    else if c = 62 then closeTag s acc
    else .error .malformed
  | .closeWs acc =>
    if isWs c then .ok s
    else if c = 62 then closeTag s acc
    else .error .malformed
  | .ref acc =>
    if c = 59 then
      match decodeRef acc.reverse with
      | some ch => .ok { s with stack := addChar ch s.stack, mode := .content 0 }
      | none => .error .malformed
    else if c = 35 ∨ isNameChar c then .ok { s with mode := .ref (c :: acc) }
    else .error .malformed

def run (s : St) (cs : List Nat) : Except PErr St := cs.foldlM step s

def initSt : St := ⟨[], .content 0, none⟩

def finish (s : St) : Except PErr XmlT :=
  match s.stack, s.mode, s.root with
  | [], .content _, some x => .ok x
  | _, _, _ => .error .malformed

def dropBom : List Nat → List Nat
  | 0xFEFF :: r => r
  | cs => cs

/-- the document (as code points) to its element tree -/
def parse (cs : List Nat) : Except PErr XmlT :=
  match run initSt (normEol (dropBom cs)) with
  | .ok s => finish s
  | .error e => .error e

end Asn1.Xml
