import Asn1Model.Prim
/-
  JSON (RFC 8259): value type, an independent reader and the writer that mirrors Python's
  `json.dumps` as asn1tools' JER codec calls it (codecs/jer.py, `CompiledType.encode`):

    indent is None :  json.dumps(d, separators=(',', ':'))
    indent = n     :  json.dumps(d, indent=n)            -- separators default to (',', ': ')

  both with the default `ensure_ascii=True` (every code point outside 0x20..0x7e is written as
  `\uXXXX`, astral code points as a surrogate pair, hex digits in lower case).

  Documents are lists of CODE POINTS (`List Nat`).  `Json.parse` works on code points; the octets of a
  document are its UTF-8 form (`Jer.encode` / `Jer.decode` in Jer.lean do that step with the strict
  UTF-8 coder of Uper.lean).  Because of `ensure_ascii` every document the writer emits is pure ASCII,
  i.e. code points and octets coincide.

  The reader is written from RFC 8259 alone (not from Python's `json` module):
    * `ws = *( %x20 / %x09 / %x0A / %x0D )` around every structural token and around the document;
    * literals `null` `true` `false`;
    * numbers `[ minus ] int [ frac ] [ exp ]`, no leading zeros, no `+`, no bare `.`; a number written
      with a fraction or an exponent is kept as `JsonV.dec mantissa exponent` (the universe has no
      REAL, the JER model never produces it);
    * strings: `"` ... `"`, unescaped characters are %x20-21 / %x23-5B / %x5D-10FFFF, escapes
      `\" \\ \/ \b \f \n \r \t \uXXXX`; a `\uD800..\uDBFF` escape must be followed by a
      `\uDC00..\uDFFF` escape (they combine to one code point), any other surrogate escape and any raw
      surrogate / out-of-range code point is REJECTED (I-JSON, RFC 7493 section 2.1: the reader is the
      oracle for "is a valid JSON document", so it takes the strict reading of RFC 8259 section 8.2);
    * arrays, objects (member names are strings; duplicate names are kept in order: the object is
      an ordered key/value list);
    * exactly one value per document, nothing but white space after it.
-/
namespace Asn1

inductive JsonV where
  | null
  | bool (b : Bool)
  | num (i : Int)
  /-- a number written with a fraction and/or an exponent: `mant * 10 ^ exp` -/
  | dec (mant : Int) (exp : Int)
  | str (cps : List Nat)
  | arr (xs : List JsonV)
  | obj (kvs : List (List Nat × JsonV))
  deriving Inhabited

namespace Json

/-! ### the writer (`json.dumps`, ensure_ascii) -/

def hexDigitN (n : Nat) : Nat := if n < 10 then 48 + n else 87 + n

/-- `'\\u{0:04x}'.format(u)` -/
def uEscape (u : Nat) : List Nat :=
  [92, 117, hexDigitN (u / 4096 % 16), hexDigitN (u / 256 % 16), hexDigitN (u / 16 % 16), hexDigitN (u % 16)]

/-- `ESCAPE_ASCII` / `ESCAPE_DCT` of json.encoder -/
def renderChar (c : Nat) : List Nat :=
  if c = 34 then [92, 34]            -- \"
  else if c = 92 then [92, 92]       -- \\
  else if c = 10 then [92, 110]      -- \n
  else if c = 13 then [92, 114]      -- \r
  else if c = 9 then [92, 116]       -- \t
  else if c = 12 then [92, 102]      -- \f
  else if c = 8 then [92, 98]        -- \b
  else if 32 ≤ c ∧ c ≤ 126 then [c]
  else if c < 0x10000 then uEscape c
  else uEscape (0xd800 + (c - 0x10000) / 1024 % 1024) ++ uEscape (0xdc00 + (c - 0x10000) % 1024)

def renderStr (cps : List Nat) : List Nat := [34] ++ cps.flatMap renderChar ++ [34]

/-- decimal digits of `n`, most significant first, prepended to `acc` -/
def natDigitsAux : (fuel : Nat) → Nat → List Nat → List Nat
  | 0, _, acc => acc
  | fuel + 1, n, acc =>
    if n < 10 then (48 + n) :: acc else natDigitsAux fuel (n / 10) ((48 + n % 10) :: acc)

def natDigits (n : Nat) : List Nat := natDigitsAux (n + 1) n []

/-- `int.__repr__` -/
def renderInt (i : Int) : List Nat :=
  if i < 0 then 45 :: natDigits (-i).toNat else natDigits i.toNat

/-- `'\n' + ' ' * (indent * level)`; nothing when `indent is None` -/
def nl (indent : Option Nat) (level : Nat) : List Nat :=
  match indent with
  | none => []
  | some n => 10 :: List.replicate (n * level) 32

/-- `key_separator` -/
def keySep (indent : Option Nat) : List Nat :=
  match indent with
  | none => [58]
  | some _ => [58, 32]

mutual
  /-- `_iterencode` at nesting depth `level` -/
  def renderV (indent : Option Nat) : Nat → JsonV → List Nat
    | _, .null => [110, 117, 108, 108]
    | _, .bool true => [116, 114, 117, 101]
    | _, .bool false => [102, 97, 108, 115, 101]
    | _, .num i => renderInt i
    | _, .dec m e => renderInt m ++ [101] ++ renderInt e    -- never produced by the JER model
    | _, .str cps => renderStr cps
    | _, .arr [] => [91, 93]
    | level, .arr (x :: xs) =>
      [91] ++ nl indent (level + 1) ++ renderV indent (level + 1) x ++ renderTail indent (level + 1) xs
        ++ nl indent level ++ [93]
    | _, .obj [] => [123, 125]
    | level, .obj ((k, v) :: kvs) =>
      [123] ++ nl indent (level + 1) ++ renderStr k ++ keySep indent ++ renderV indent (level + 1) v
        ++ renderMembers indent (level + 1) kvs ++ nl indent level ++ [125]
  /-- the 2nd, 3rd ... items of an array, each preceded by `item_separator` and the new line -/
  def renderTail (indent : Option Nat) : Nat → List JsonV → List Nat
    | _, [] => []
    | level, x :: xs => [44] ++ nl indent level ++ renderV indent level x ++ renderTail indent level xs
  def renderMembers (indent : Option Nat) : Nat → List (List Nat × JsonV) → List Nat
    | _, [] => []
    | level, (k, v) :: kvs =>
      [44] ++ nl indent level ++ renderStr k ++ keySep indent ++ renderV indent level v
        ++ renderMembers indent level kvs
end

/-- `json.dumps(j, separators=(',', ':'))` for `indent = none`, `json.dumps(j, indent=n)` for `some n` -/
def render (indent : Option Nat) (j : JsonV) : List Nat := renderV indent 0 j

/-! ### the reader (RFC 8259) -/

def isWs (c : Nat) : Bool := c == 32 || c == 9 || c == 10 || c == 13

def skipWs : List Nat → List Nat
  | [] => []
  | c :: r => if isWs c then skipWs r else c :: r

def isDigit (c : Nat) : Bool := decide (48 ≤ c) && decide (c ≤ 57)

/-- longest prefix of digits and the rest -/
def spanDigits : List Nat → List Nat × List Nat
  | [] => ([], [])
  | c :: r =>
    if isDigit c then
      match spanDigits r with
      | (ds, rest) => (c :: ds, rest)
    else ([], c :: r)

def digitsVal (ds : List Nat) : Nat := ds.foldl (fun acc c => 10 * acc + (c - 48)) 0

def hexNat (c : Nat) : Option Nat :=
  if 48 ≤ c ∧ c ≤ 57 then some (c - 48)
  else if 97 ≤ c ∧ c ≤ 102 then some (c - 87)
  else if 65 ≤ c ∧ c ≤ 70 then some (c - 55)
  else none

/-- `4HEXDIG` -/
def hex4 : List Nat → Option (Nat × List Nat)
  | a :: b :: c :: d :: r =>
    match hexNat a, hexNat b, hexNat c, hexNat d with
    | some x, some y, some z, some w => some (4096 * x + 256 * y + 16 * z + w, r)
    | _, _, _, _ => none
  | _ => none

/-- Unicode scalar value -/
def isScalar (c : Nat) : Bool := decide (c < 0x110000) && !(decide (0xd800 ≤ c) && decide (c < 0xe000))

/-- one `char` of a string body (not positioned at the closing quote): the code point and the rest -/
def strStep : List Nat → Option (Nat × List Nat)
  | [] => none
  | c :: r =>
    if c = 92 then
      match r with
      | [] => none
      | e :: r1 =>
        if e = 34 then some (34, r1)
        else if e = 92 then some (92, r1)
        else if e = 47 then some (47, r1)
        else if e = 98 then some (8, r1)
        else if e = 102 then some (12, r1)
        else if e = 110 then some (10, r1)
        else if e = 114 then some (13, r1)
        else if e = 116 then some (9, r1)
        else if e = 117 then
          match hex4 r1 with
          | none => none
          | some (u, r2) =>
            if 0xd800 ≤ u ∧ u < 0xdc00 then
              match r2 with
              | b :: u' :: r3 =>
                if b = 92 ∧ u' = 117 then
                  match hex4 r3 with
                  | none => none
                  | some (l, r4) =>
                    if 0xdc00 ≤ l ∧ l < 0xe000 then
                      some (0x10000 + (u - 0xd800) * 1024 + (l - 0xdc00), r4)
                    else none
                else none
              | _ => none
            else if 0xdc00 ≤ u ∧ u < 0xe000 then none
            else some (u, r2)
        else none
    else if c < 32 then none
    else if c = 34 then none
    else if isScalar c then some (c, r)
    else none

/-- the body of a string up to and including the closing quote -/
def parseStr : (fuel : Nat) → List Nat → Option (List Nat × List Nat)
  | 0, _ => none
  | _ + 1, [] => none
  | fuel + 1, c :: r =>
    if c = 34 then some ([], r)
    else
      match strStep (c :: r) with
      | none => none
      | some (cp, r') =>
        match parseStr fuel r' with
        | none => none
        | some (cps, r'') => some (cp :: cps, r'')

def signed (neg : Bool) (n : Nat) : Int := if neg then -(n : Int) else (n : Int)

/-- `[ exp ]` and the construction of the value; `ds` = int digits, `fs` = fraction digits -/
def parseExp (neg : Bool) (ds fs : List Nat) (s : List Nat) : Option (JsonV × List Nat) :=
  let mant := signed neg (digitsVal (ds ++ fs))
  match s with
  | e :: r =>
    if e = 101 ∨ e = 69 then
      let (eneg, r1) : Bool × List Nat :=
        match r with
        | sg :: r' => if sg = 45 then (true, r') else if sg = 43 then (false, r') else (false, r)
        | [] => (false, r)
      match spanDigits r1 with
      | (es, r2) =>
        if es.isEmpty then none
        else some (.dec mant (signed eneg (digitsVal es) - (fs.length : Int)), r2)
    else if fs.isEmpty then some (.num mant, s) else some (.dec mant (-(fs.length : Int)), s)
  | [] => if fs.isEmpty then some (.num mant, s) else some (.dec mant (-(fs.length : Int)), s)

/-- `number = [ minus ] int [ frac ] [ exp ]` -/
def parseNumber (s : List Nat) : Option (JsonV × List Nat) :=
  let (neg, s1) : Bool × List Nat :=
    match s with
    | c :: r => if c = 45 then (true, r) else (false, s)
    | [] => (false, s)
  match spanDigits s1 with
  | (ds, s2) =>
    match ds with
    | [] => none
    | d :: ds' =>
      if d = 48 ∧ !ds'.isEmpty then none      -- leading zero
      else
        match s2 with
        | p :: r =>
          if p = 46 then
            match spanDigits r with
            | (fs, s3) => if fs.isEmpty then none else parseExp neg ds fs s3
          else parseExp neg ds [] s2
        | [] => parseExp neg ds [] s2

/-- the rest of a literal name -/
def expect (lit : List Nat) (v : JsonV) (s : List Nat) : Option (JsonV × List Nat) :=
  if lit.isPrefixOf s then some (v, s.drop lit.length) else none

mutual
  /-- `value`, positioned at its first character (white space already skipped) -/
  def value : (fuel : Nat) → List Nat → Option (JsonV × List Nat)
    | 0, _ => none
    | _ + 1, [] => none
    | fuel + 1, c :: r =>
      if c = 110 then expect [117, 108, 108] .null r
      else if c = 116 then expect [114, 117, 101] (.bool true) r
      else if c = 102 then expect [97, 108, 115, 101] (.bool false) r
      else if c = 34 then
        match parseStr fuel r with
        | none => none
        | some (cps, r') => some (.str cps, r')
      else if c = 91 then
        match skipWs r with
        | [] => none
        | d :: r' =>
          if d = 93 then some (.arr [], r')
          else
            match elems fuel (d :: r') with
            | none => none
            | some (xs, r'') => some (.arr xs, r'')
      else if c = 123 then
        match skipWs r with
        | [] => none
        | d :: r' =>
          if d = 125 then some (.obj [], r')
          else
            match members fuel (d :: r') with
            | none => none
            | some (kvs, r'') => some (.obj kvs, r'')
      else if c = 45 ∨ isDigit c then parseNumber (c :: r)
      else none
  /-- `value *( ws "," ws value ) ws "]"`, positioned at the first character of the first value -/
  def elems : (fuel : Nat) → List Nat → Option (List JsonV × List Nat)
    | 0, _ => none
    | fuel + 1, s =>
      match value fuel s with
      | none => none
      | some (v, r) =>
        match skipWs r with
        | [] => none
        | d :: r' =>
          if d = 44 then
            match elems fuel (skipWs r') with
            | none => none
            | some (vs, r'') => some (v :: vs, r'')
          else if d = 93 then some ([v], r')
          else none
  /-- `member *( ws "," ws member ) ws "}"`, `member = string ws ":" ws value` -/
  def members : (fuel : Nat) → List Nat → Option (List (List Nat × JsonV) × List Nat)
    | 0, _ => none
    | _ + 1, [] => none
    | fuel + 1, q :: r0 =>
      if q = 34 then
        match parseStr fuel r0 with
        | none => none
        | some (k, r1) =>
          match skipWs r1 with
          | [] => none
          | c :: r2 =>
            if c = 58 then
              match value fuel (skipWs r2) with
              | none => none
              | some (v, r3) =>
                match skipWs r3 with
                | [] => none
                | d :: r4 =>
                  if d = 44 then
                    match members fuel (skipWs r4) with
                    | none => none
                    | some (kvs, r5) => some ((k, v) :: kvs, r5)
                  else if d = 125 then some ([(k, v)], r4)
                  else none
            else none
      else none
end

/-- `JSON-text = ws value ws` -/
def parse (s : List Nat) : Option JsonV :=
  match value (2 * s.length + 2) (skipWs s) with
  | none => none
  | some (v, r) => if (skipWs r).isEmpty then some v else none

end Json
end Asn1
