import Asn1Model.Schema
import Asn1Model.Typing
/-
  The abstract value denoted by a Python-shaped `Val` of type `t` (X.680): what X.690 means by
  "the value" when it says that equal values have one distinguished encoding.

  * a SEQUENCE component with a DEFAULT that is not present denotes the default value
    (X.680 25.10), in the extension root *and* in the extension additions;
  * the unused bits of the last octet of a BIT STRING are not part of the value;
  * record fields in declaration order.

  This is also exactly what asn1tools' BER and DER decoders return for an encoding of `v`
  (they fill in the DEFAULT of absent extension additions too, unlike the PER / OER decoders for
  which `Typing.canon` is the right normal form).
-/
namespace Asn1.X690

mutual
  /-- normal form of the abstract value -/
  def canonV : Ty → Val → Val
    | .bitString _, .bits data n => .bits (cleanBits data n) n
    | .sequence root _ adds, .record fs => .record (canonMembersV root fs ++ canonMembersV adds fs)
    | .sequenceOf e _, .list vs => .list (vs.map (canonV e))
    | .choice root _ adds, .choice n v =>
      match canonAltV root n v with
      | some w => .choice n w
      | none => match canonAltV adds n v with
        | some w => .choice n w
        | none => .choice n v
    | _, v => v
  def canonMembersV : Members → List (String × Val) → List (String × Val)
    | .nil, _ => []
    | .cons name p t rest, fs =>
      match lookup name fs with
      | some v => (name, canonV t v) :: canonMembersV rest fs
      | none =>
        match p with
        | .default d => (name, d) :: canonMembersV rest fs
        | _ => canonMembersV rest fs
  def canonAltV : Alts → String → Val → Option Val
    | .nil, _, _ => none
    | .cons n t rest, name, v => if n == name then some (canonV t v) else canonAltV rest name v
end

mutual
  /-- DEFAULT values are written in normal form (as `Ty.defaultsOk`, but for `canonV`: a DEFAULT
  of SEQUENCE type spells out the DEFAULT-valued extension additions of that SEQUENCE too) -/
  def defaultsOkV : Ty → Bool
    | .sequence root _ adds => membersDefaultsOkV root && membersDefaultsOkV adds
    | .sequenceOf e _ => defaultsOkV e
    | .choice root _ adds => altsDefaultsOkV root && altsDefaultsOkV adds
    | _ => true
  def membersDefaultsOkV : Members → Bool
    | .nil => true
    | .cons _ p t rest =>
      (match p with
       | .default d => hasType t d && (canonV t d == d)
       | _ => true) && defaultsOkV t && membersDefaultsOkV rest
  def altsDefaultsOkV : Alts → Bool
    | .nil => true
    | .cons _ t rest => defaultsOkV t && altsDefaultsOkV rest
end

/-- two values of type `t` denote the same abstract value -/
def sameValue (t : Ty) (v w : Val) : Bool := canonV t v == canonV t w

end Asn1.X690
