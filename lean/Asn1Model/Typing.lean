import Asn1Model.Schema
import Asn1Model.Uper
/-
  Well-formed types, well-typed values and canonical values: the hypotheses of the
  round-trip theorems.  `HasType t v` is "passes the library's own type and constraint
  checks" restricted to the shapes the model covers; `canon` is the abstract-value
  normal form a decoder returns (absent DEFAULT components filled in, unused bits of
  a BIT STRING cleared, record fields in declaration order).
-/
namespace Asn1

def allBytes (bs : Bytes) : Bool := bs.all (· < 256)

def intInRange (c : IntC) (i : Int) : Bool :=
  (match c.lo with | some lo => decide (lo ≤ i) | none => true) &&
  (match c.hi with | some hi => decide (i ≤ hi) | none => true)

def sizeOk (c : SizeC) (n : Nat) : Bool :=
  decide (c.lo ≤ n) && (match c.hi with | some hi => decide (n ≤ hi) | none => true)

def namesOf (xs : List (String × Int)) : List String := xs.map (·.1)

def fieldNames (fs : List (String × Val)) : List String := fs.map (·.1)

def sizeWf (c : SizeC) : Bool :=
  match c.hi with
  | some hi => decide (c.lo ≤ hi)
  | none => !c.ext

mutual
  /-- types the compiler accepts *and* the UPER model predicts: non-empty enumerations and
  choices, distinct names, consistent bounds, no extensible constraint with an open upper bound. -/
  def Ty.wf : Ty → Bool
    | .boolean => true
    | .null => true
    | .integer c =>
      (match c.lo, c.hi with
       | some lo, some hi => decide (lo ≤ hi)
       | _, _ => !c.ext)
    | .enumerated root ext =>
      !root.isEmpty &&
      (namesOf root ++ (match ext with | some a => namesOf a | none => [])).Nodup &&
      (root.map (·.2)).Nodup
    | .octetString c => sizeWf c
    | .bitString c => sizeWf c
    | .charString _ c => sizeWf c
    | .sequence root ext adds =>
      root.wf && adds.wf && (root.names ++ adds.names).Nodup && (ext || adds.length == 0) &&
      decide (adds.length ≤ 64)
    | .sequenceOf e c => e.wf && sizeWf c
    | .choice root ext adds =>
      root.wf && adds.wf && decide (0 < root.length) && (root.names ++ adds.names).Nodup &&
      (ext || adds.length == 0)
  def Members.wf : Members → Bool
    | .nil => true
    | .cons _ _ t rest => t.wf && rest.wf
  def Alts.wf : Alts → Bool
    | .nil => true
    | .cons _ t rest => t.wf && rest.wf
end

mutual
  /-- `HasType t v`: the value is accepted by the type checker and the constraints checker.
  For records the fields are the present members in declaration order. -/
  def hasType : Ty → Val → Bool
    | .boolean, .bool _ => true
    | .null, .null => true
    | .integer c, .int i => c.ext || intInRange c i
    | .enumerated root ext, .enum n =>
      (namesOf root).contains n || (match ext with | some a => (namesOf a).contains n | none => false)
    | .octetString c, .bytes bs => allBytes bs && (c.ext || sizeOk c bs.length)
    | .bitString c, .bits data n =>
      allBytes data && decide (data.length = (n + 7) / 8) && sizeOk c n
    | .charString k c, .str cps =>
      (match k with
       | .utf8 => cps.all (fun cp => decide (cp < 0x110000) && !(decide (0xd800 ≤ cp) && decide (cp < 0xe000)))
       | _ => cps.all (fun cp => (Uper.alphabetOf k).contains cp) && sizeOk c cps.length)
    | .sequence root _ adds, .record fs =>
      (match hasMembers root fs with
       | some rest => (match hasMembers adds rest with
         | some rest' => rest'.isEmpty
         | none => false)
       | none => false)
    | .sequenceOf e c, .list vs => vs.all (hasType e) && (c.ext || sizeOk c vs.length)
    | .choice root _ adds, .choice n v => hasAlt root n v || hasAlt adds n v
    | _, _ => false
  /-- consume the fields that belong to the given members (in declaration order); the rest is returned -/
  def hasMembers : Members → List (String × Val) → Option (List (String × Val))
    | .nil, fs => some fs
    | .cons name p t rest, fs =>
      (match fs with
       | (n, v) :: fs' =>
         if n == name then (if hasType t v then hasMembers rest fs' else none)
         else (match p with | .mandatory => none | _ => hasMembers rest fs)
       | [] => (match p with | .mandatory => none | _ => hasMembers rest []))
  def hasAlt : Alts → String → Val → Bool
    | .nil, _, _ => false
    | .cons n t rest, name, v => if n == name then hasType t v else hasAlt rest name v
end

mutual
  /-- the abstract value a decoder returns for an encoding of `v` -/
  def canon : Ty → Val → Val
    | .bitString _, .bits data n => .bits (cleanBits data n) n
    | .sequence root _ adds, .record fs => .record (canonMembers root fs true ++ canonMembers adds fs false)
    | .sequenceOf e _, .list vs => .list (vs.map (canon e))
    | .choice root _ adds, .choice n v =>
      match canonAlt root n v with
      | some w => .choice n w
      | none => match canonAlt adds n v with
        | some w => .choice n w
        | none => .choice n v
    | _, v => v
  /-- `fillDefault`: root members get their DEFAULT when absent, additions do not -/
  def canonMembers : Members → List (String × Val) → Bool → List (String × Val)
    | .nil, _, _ => []
    | .cons name p t rest, fs, fillDefault =>
      match lookup name fs with
      | some v => (name, canon t v) :: canonMembers rest fs fillDefault
      | none =>
        match p with
        | .default d => if fillDefault then (name, d) :: canonMembers rest fs fillDefault
                        else canonMembers rest fs fillDefault
        | _ => canonMembers rest fs fillDefault
  def canonAlt : Alts → String → Val → Option Val
    | .nil, _, _ => none
    | .cons n t rest, name, v => if n == name then some (canon t v) else canonAlt rest name v
end


mutual
  /-- DEFAULT values are well-typed canonical values of their member type (the parser/compiler
  produce them in that form) -/
  def Ty.defaultsOk : Ty → Bool
    | .sequence root _ adds => root.defaultsOk && adds.defaultsOk
    | .sequenceOf e _ => e.defaultsOk
    | .choice root _ adds => root.defaultsOk && adds.defaultsOk
    | _ => true
  def Members.defaultsOk : Members → Bool
    | .nil => true
    | .cons _ p t rest =>
      (match p with
       | .default d => hasType t d && (canon t d == d)
       | _ => true) && t.defaultsOk && rest.defaultsOk
  def Alts.defaultsOk : Alts → Bool
    | .nil => true
    | .cons _ t rest => t.defaultsOk && rest.defaultsOk
end

namespace Uper

/-- Finding predicate F_unfragmented (negated): no length determinant that the code writes
*without* fragmentation (`append_length_determinant` called directly: unconstrained INTEGER
octet count, extensible OCTET STRING / SEQUENCE OF outside the root, open types of extension
additions) reaches 16384.  Outside this predicate the UPER codec does not round-trip. -/
def smallLen (n : Nat) : Bool := decide (n < 16384)

mutual
  def fragFree : Ty → Val → Bool
    | .integer c, .int i =>
      (match c.lo, c.hi with
       | some lo, some hi => (decide (lo ≤ i) && decide (i ≤ hi)) || smallLen (intByteLength i)
       | _, _ => smallLen (intByteLength i))
    | .octetString c, .bytes bs => !c.ext || inSize c bs.length || smallLen bs.length
    | .sequence root _ adds, .record fs => fragFreeMembers root fs false && fragFreeMembers adds fs true
    | .sequenceOf e c, .list vs => vs.all (fragFree e) && (!c.ext || inSize c vs.length || smallLen vs.length)
    | .choice root _ adds, .choice n v => fragFreeAlt root n v false && fragFreeAlt adds n v true
    | _, _ => true
  def fragFreeMembers : Members → List (String × Val) → Bool → Bool
    | .nil, _, _ => true
    | .cons name _ t rest, fs, openType =>
      (match lookup name fs with
       | some v => fragFree t v &&
         (!openType || (match enc t v with | .ok e => smallLen ((e.length + 7) / 8) | .error _ => true))
       | none => true) && fragFreeMembers rest fs openType
  def fragFreeAlt : Alts → String → Val → Bool → Bool
    | .nil, _, _, _ => true
    | .cons n t rest, name, v, openType =>
      if n == name then
        fragFree t v && (!openType || (match enc t v with | .ok e => smallLen ((e.length + 7) / 8) | .error _ => true))
      else fragFreeAlt rest name v openType
end

end Uper

end Asn1
