import Asn1Model.Prim
import Asn1Model.Sexp
import Asn1Model.Comments
import Asn1Model.Extracted
import Asn1Model.Schema
import Asn1Model.Uper
import Asn1Model.Proto
