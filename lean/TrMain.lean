import Asn1Model.TranslatedWire
open Asn1 Asn1.Translated

/-- one request per line: `<python function key>\t<arg>\t<arg>…` (arguments are S-expressions) -/
def handle (line : String) : String :=
  match (line.splitOn "\t") with
  | [] => "bad-op"
  | op :: rest =>
    match rest.mapM (fun a => Sx.parse a) with
    | none => "bad-sexp"
    | some args =>
      match trDispatch op args with
      | some r => toString r
      | none => "bad-op"

partial def loop (h : IO.FS.Stream) (out : IO.FS.Stream) : IO Unit := do
  let line ← h.getLine
  if line.isEmpty then return ()
  let line := if line.back == '\n' then (line.dropEnd 1).toString else line
  out.putStrLn (handle line)
  loop h out

def main : IO Unit := do
  let out ← IO.getStdout
  loop (← IO.getStdin) out
  out.flush
