import Asn1Model.Extension
import Asn1Proofs.Lemmas.ExtLemmas
import Asn1Proofs.Lemmas.ExtUper
import Asn1Proofs.Lemmas.ExtOer
import Asn1Proofs.Lemmas.ExtDer
/-
  C07 — extension additions keep old and new versions of a type interoperable.  Property theorems.

  `Ext.Extends t1 t2` (Asn1Model/Extension.lean): version 2 differs from version 1 only by extension
  additions after an extension marker (new SEQUENCE additions, CHOICE alternatives, ENUMERATED items,
  at any nesting depth).  `Ext.project t1 t2 v`: the version-1 view of a version-2 value.

    forward_<codec>  : a V2 encoding, followed by anything, decodes under V1 to the canonical form of
                       the V1 projection and leaves exactly what follows (FRAME: additions V1 does
                       not know are skipped by exactly their length);
    backward_<codec> : a V1 encoding, followed by anything, decodes under V2 to the same (canonical)
                       value and leaves exactly what follows.

  The side conditions are those of the C01 round-trip theorems (`fragFree`/`nsOk` for UPER,
  `oerWf`/`utf8Ok`/`noSwallow` for OER, `oerWf` for DER; for DER the canonical value is `X690.canonV`
  and DEFAULT values are in `canonV` normal form, `X690.defaultsOkV`), for the ENCODER's type and the value; DEFAULT values
  have to be well-typed canonical values of their member type in both versions (`defaultsOk`).

  All the proofs go through one statement per codec about a decoder type and an encoder type that
  agree up to the tails of their extension additions (`Ext.Compat`, `Ext.UperX.xt_all`,
  `Ext.OerX.xt_all`, `Ext.DerX.xt_all`).

  NOT a theorem: `enc t2 v = enc t1 v` for a V1 value `v` ("enc_stable") in UPER / OER -- the
  presence bitmap of a SEQUENCE has one bit per addition of the ENCODER's type, so it grows with the
  type (`uper_enc_not_stable`, `oer_enc_not_stable` below).  It does hold for DER (`der_enc_stable`).
-/
namespace Asn1.C07
open Asn1 Asn1.Ext

/-! ### UPER -/

/-- **UPER forward compatibility.** -/
theorem forward_uper (t1 t2 : Ty) (v : Val) (bits rest : Bits) (fuel : Nat)
    (hx : Extends t1 t2)
    (hwf : t2.wf = true) (hd1 : t1.defaultsOk = true) (hd2 : t2.defaultsOk = true)
    (hns : t2.nsOk = true) (ht : hasType t2 v = true) (hf : Uper.fragFree t2 v = true)
    (he : Uper.enc t2 v = .ok bits) (hfuel : bits.length + rest.length + 2 ≤ fuel) :
    Uper.dec t1 fuel (bits ++ rest) = .ok (canon t1 (project t1 t2 v), rest) := by
  have h := UperX.xt_all (compat_of_extends hx) v bits rest fuel hwf hd2 hns
    (dOk_fwd false hx hwf (by rw [defaultsOkG_false]; exact hd1)) ht hf he hfuel
  rw [view_project false hx (wf_of_extends hx hwf) v, canonG_false] at h
  exact h

/-- **UPER backward compatibility.** -/
theorem backward_uper (t1 t2 : Ty) (v : Val) (bits rest : Bits) (fuel : Nat)
    (hx : Extends t1 t2)
    (hwf : t2.wf = true) (hd1 : t1.defaultsOk = true) (hd2 : t2.defaultsOk = true)
    (hns : t2.nsOk = true) (ht : hasType t1 v = true) (hf : Uper.fragFree t1 v = true)
    (he : Uper.enc t1 v = .ok bits) (hfuel : bits.length + rest.length + 2 ≤ fuel) :
    Uper.dec t2 fuel (bits ++ rest) = .ok (canon t2 v, rest) := by
  have h := UperX.xt_all (compat_of_extends_rev hx) v bits rest fuel (wf_of_extends hx hwf) hd1
    (UperX.nsOk_of_extends hx hns)
    (dOk_bwd false hx hwf (by rw [defaultsOkG_false]; exact hd1) (by rw [defaultsOkG_false]; exact hd2))
    ht hf he hfuel
  rw [(view_same false hx hwf v ht).2, canonG_false] at h
  exact h

/-! ### OER -/

/-- **OER forward compatibility.** -/
theorem forward_oer (t1 t2 : Ty) (v : Val) (bytes rest : Bytes)
    (hx : Extends t1 t2)
    (hwf : t2.wf = true) (hwf' : Oer.oerWf t2 = true) (hd1 : t1.defaultsOk = true)
    (hd2 : t2.defaultsOk = true) (ht : hasType t2 v = true) (hu : Oer.utf8Ok t2 v = true)
    (hns : Oer.noSwallow t2 v = true) (he : Oer.enc t2 v = .ok bytes) :
    Oer.dec t1 (bytes ++ rest) = .ok (canon t1 (project t1 t2 v), rest) := by
  have h := OerX.xt_all (compat_of_extends hx) v bytes rest hwf hwf' hd2
    (dOk_fwd false hx hwf (by rw [defaultsOkG_false]; exact hd1)) ht hu hns he
  rw [view_project false hx (wf_of_extends hx hwf) v, canonG_false] at h
  exact h

/-- **OER backward compatibility.** -/
theorem backward_oer (t1 t2 : Ty) (v : Val) (bytes rest : Bytes)
    (hx : Extends t1 t2)
    (hwf : t2.wf = true) (hwf' : Oer.oerWf t2 = true) (hd1 : t1.defaultsOk = true)
    (hd2 : t2.defaultsOk = true) (ht : hasType t1 v = true) (hu : Oer.utf8Ok t1 v = true)
    (hns : Oer.noSwallow t1 v = true) (he : Oer.enc t1 v = .ok bytes) :
    Oer.dec t2 (bytes ++ rest) = .ok (canon t2 v, rest) := by
  have h := OerX.xt_all (compat_of_extends_rev hx) v bytes rest (wf_of_extends hx hwf)
    (oerWf_of_extends hx hwf') hd1
    (dOk_bwd false hx hwf (by rw [defaultsOkG_false]; exact hd1) (by rw [defaultsOkG_false]; exact hd2))
    ht hu hns he
  rw [(view_same false hx hwf v ht).2, canonG_false] at h
  exact h

/-! ### DER -/

/-- **DER forward compatibility**, recursive decoder in any tagging context: value, exact length of the
encoding, and exactly the octets that follow -/
theorem forward_der_dec (t1 t2 : Ty) (tg : Option Nat) (v : Val) (bytes rest : Bytes) (fuel : Nat)
    (hx : Extends t1 t2)
    (hwf : t2.wf = true) (henum : Oer.oerWf t2 = true) (hd1 : X690.defaultsOkV t1 = true)
    (hd2 : X690.defaultsOkV t2 = true) (ht : hasType t2 v = true)
    (he : Der.enc t2 tg v = .ok bytes) (hf : bytes.length < fuel) :
    Der.dec t1 tg fuel (bytes ++ rest) =
      .ok (some (X690.canonV t1 (project t1 t2 v), bytes.length, rest)) := by
  have h := DerX.xt_all (compat_of_extends hx) tg v bytes rest fuel hwf henum hd2
    (dOk_fwd true hx hwf (by rw [defaultsOkG_true]; exact hd1)) ht he hf
  rw [view_project true hx (wf_of_extends hx hwf) v, canonG_true] at h
  exact h

/-- **DER forward compatibility**, `decode_with_length` of the V1 specification on a V2 encoding
followed by arbitrary octets -/
theorem forward_der (t1 t2 : Ty) (v : Val) (bytes rest : Bytes)
    (hx : Extends t1 t2)
    (hwf : t2.wf = true) (henum : Oer.oerWf t2 = true) (hd1 : X690.defaultsOkV t1 = true)
    (hd2 : X690.defaultsOkV t2 = true) (ht : hasType t2 v = true)
    (he : Der.encode t2 v = .ok bytes) :
    Der.decodeWithLength t1 (bytes ++ rest) = .ok (X690.canonV t1 (project t1 t2 v), bytes.length) := by
  unfold Der.decodeWithLength
  rw [forward_der_dec t1 t2 none v bytes rest _ hx hwf henum hd1 hd2 ht (Der.enc_of_encode he)
    (by simp; omega)]

/-- **DER backward compatibility**, recursive decoder in any tagging context -/
theorem backward_der_dec (t1 t2 : Ty) (tg : Option Nat) (v : Val) (bytes rest : Bytes) (fuel : Nat)
    (hx : Extends t1 t2)
    (hwf : t2.wf = true) (henum : Oer.oerWf t2 = true) (hd1 : X690.defaultsOkV t1 = true)
    (hd2 : X690.defaultsOkV t2 = true) (ht : hasType t1 v = true)
    (he : Der.enc t1 tg v = .ok bytes) (hf : bytes.length < fuel) :
    Der.dec t2 tg fuel (bytes ++ rest) = .ok (some (X690.canonV t2 v, bytes.length, rest)) := by
  have h := DerX.xt_all (compat_of_extends_rev hx) tg v bytes rest fuel (wf_of_extends hx hwf)
    (oerWf_of_extends hx henum) hd1
    (dOk_bwd true hx hwf (by rw [defaultsOkG_true]; exact hd1) (by rw [defaultsOkG_true]; exact hd2))
    ht he hf
  rw [(view_same true hx hwf v ht).2, canonG_true] at h
  exact h

/-- **DER backward compatibility**, `decode_with_length` of the V2 specification on a V1 encoding -/
theorem backward_der (t1 t2 : Ty) (v : Val) (bytes rest : Bytes)
    (hx : Extends t1 t2)
    (hwf : t2.wf = true) (henum : Oer.oerWf t2 = true) (hd1 : X690.defaultsOkV t1 = true)
    (hd2 : X690.defaultsOkV t2 = true) (ht : hasType t1 v = true)
    (he : Der.encode t1 v = .ok bytes) :
    Der.decodeWithLength t2 (bytes ++ rest) = .ok (X690.canonV t2 v, bytes.length) := by
  unfold Der.decodeWithLength
  rw [backward_der_dec t1 t2 none v bytes rest _ hx hwf henum hd1 hd2 ht (Der.enc_of_encode he)
    (by simp; omega)]

/-- DER: the encoding of a V1 value does not change when the type is extended (positional tags, new
additions last and absent).  False for UPER / OER, see `uper_enc_not_stable`. -/
theorem der_enc_stable (t1 t2 : Ty) (tg : Option Nat) (v : Val) (hx : Extends t1 t2)
    (hwf : t2.wf = true) (ht : hasType t1 v = true) : Der.enc t2 tg v = Der.enc t1 tg v :=
  DerX.enc_stable hx hwf tg v ht

/-! ### a V1 value is a V2 value -/

theorem v1_value_is_v2_value (t1 t2 : Ty) (v : Val) (hx : Extends t1 t2) (hwf : t2.wf = true)
    (ht : hasType t1 v = true) : hasType t2 v = true :=
  hasType_of_extends hx hwf v ht

/-- the decidable checker used by the harness decides `Extends` -/
theorem extendsB_correct (t1 t2 : Ty) : extendsB t1 t2 = true ↔ Extends t1 t2 := extendsB_iff t1 t2

/-! ### non-vacuity: a nested extension (an addition whose type is itself extended, inside a SEQUENCE OF) -/

/-- V1: `SEQUENCE OF SEQUENCE { a BOOLEAN, ..., b CHOICE { x NULL, ... } OPTIONAL }` -/
def exT1 : Ty := .sequenceOf (.sequence (.cons "a" .mandatory .boolean .nil) true
  (.cons "b" .optional (.choice (.cons "x" .null .nil) true .nil) .nil)) ⟨0, none, false⟩
/-- V2: `SEQUENCE OF SEQUENCE { a BOOLEAN, ..., b CHOICE { x NULL, ..., k1 BOOLEAN } OPTIONAL, n1 INTEGER OPTIONAL }` -/
def exT2 : Ty := .sequenceOf (.sequence (.cons "a" .mandatory .boolean .nil) true
  (.cons "b" .optional (.choice (.cons "x" .null .nil) true (.cons "k1" .boolean .nil))
    (.cons "n1" .optional (.integer ⟨none, none, false⟩) .nil))) ⟨0, none, false⟩
/-- a V2 value using the new alternative and the new addition -/
def exV : Val := .list [.record [("a", .bool true), ("b", .choice "k1" (.bool false)), ("n1", .int 5)],
  .record [("a", .bool false), ("b", .choice "x" .null)]]
/-- what V1 sees of it -/
def exV' : Val := .list [.record [("a", .bool true), ("b", .choice "" .absent)],
  .record [("a", .bool false), ("b", .choice "x" .null)]]
/-- a V1 value -/
def exV1 : Val := .list [.record [("a", .bool true), ("b", .choice "x" .null)], .record [("a", .bool false)]]
def exBits : Bits := [false, false, false, false, false, false, true, false, true, true, false, false, false, false, false, false, true,
 true, true, false, false, false, false, false, false, true, true, true, false, false, false, false, false, false,
 false, false, false, false, false, false, false, false, true, false, false, false, false, false, false, false, false,
 false, false, false, false, false, false, true, false, false, false, false, false, false, false, false, true, false,
 false, false, false, false, true, false, true, true, false, false, false, false, false, false, false, true, true,
 false, false, false, false, false, false, false, false, true, false, false, false, false, false, false, false, false]
def exBytesOer : Bytes := [1, 2, 128, 255, 2, 6, 192, 3, 129, 1, 0, 2, 1, 5, 128, 0, 2, 6, 128, 1, 128]

example : extendsB exT1 exT2 = true ∧ extendsB exT2 exT1 = false ∧ project exT1 exT2 exV = exV' := by
  refine ⟨by rfl, by rfl, by rfl⟩

/-- every hypothesis of `forward_uper` holds for the example, and its conclusion is the evaluated decoding -/
example : Uper.dec exT1 200 (exBits ++ [true, false, true]) = .ok (exV', [true, false, true]) :=
  forward_uper exT1 exT2 exV exBits [true, false, true] 200 ((extendsB_correct _ _).1 (by rfl))
    (by decide +kernel) (by decide +kernel) (by decide +kernel) (by decide +kernel) (by decide +kernel)
    (by decide +kernel) (by rfl) (by decide +kernel)

/-- the same, evaluated in the kernel without the theorem -/
example : Uper.enc exT2 exV = .ok exBits ∧
    Uper.dec exT1 200 (exBits ++ [true, false, true]) = .ok (exV', [true, false, true]) := by
  constructor <;> rfl

example : Oer.dec exT1 (exBytesOer ++ [7, 8]) = .ok (exV', [7, 8]) :=
  forward_oer exT1 exT2 exV exBytesOer [7, 8] ((extendsB_correct _ _).1 (by rfl))
    (by decide +kernel) (by decide +kernel) (by decide +kernel) (by decide +kernel) (by decide +kernel)
    (by decide +kernel) (by decide +kernel) (by rfl)

example : Oer.enc exT2 exV = .ok exBytesOer ∧ Oer.dec exT1 (exBytesOer ++ [7, 8]) = .ok (exV', [7, 8]) := by
  constructor <;> rfl

/-- backward: the V1 encodings of a V1 value decode under V2 -/
example : Uper.dec exT2 200 ([false, false, false, false, false, false, true, false, true, true, false, false, false, false, false, false,
 false, true, false, false, false, false, false, false, false, true, false, false, false, false, false, false, false,
 false, false, false] ++ [true]) = .ok (exV1, [true]) :=
  backward_uper exT1 exT2 exV1 _ [true] 200 ((extendsB_correct _ _).1 (by rfl))
    (by decide +kernel) (by decide +kernel) (by decide +kernel) (by decide +kernel) (by decide +kernel)
    (by decide +kernel) (by rfl) (by decide +kernel)

example : Oer.dec exT2 ([1, 2, 128, 255, 2, 7, 128, 1, 128, 0, 0] ++ [9]) = .ok (exV1, [9]) :=
  backward_oer exT1 exT2 exV1 _ [9] ((extendsB_correct _ _).1 (by rfl))
    (by decide +kernel) (by decide +kernel) (by decide +kernel) (by decide +kernel) (by decide +kernel)
    (by decide +kernel) (by decide +kernel) (by rfl)

def exBytesDer : Bytes := [48, 22, 48, 11, 128, 1, 255, 161, 3, 129, 1, 0, 130, 1, 5, 48, 7, 128, 1, 0, 161, 2, 128, 0]

example : Der.decodeWithLength exT1 (exBytesDer ++ [0, 0]) = .ok (exV', 24) :=
  forward_der exT1 exT2 exV exBytesDer [0, 0] ((extendsB_correct _ _).1 (by rfl))
    (by decide +kernel) (by decide +kernel) (by decide +kernel) (by decide +kernel) (by decide +kernel)
    (by rfl)

example : Der.encode exT2 exV = .ok exBytesDer ∧
    Der.decodeWithLength exT1 (exBytesDer ++ [0, 0]) = .ok (exV', 24) := by
  constructor <;> rfl

example : Der.decodeWithLength exT2 ([48, 14, 48, 7, 128, 1, 255, 161, 2, 128, 0, 48, 3, 128, 1, 0] ++ [5]) =
    .ok (exV1, 16) :=
  backward_der exT1 exT2 exV1 _ [5] ((extendsB_correct _ _).1 (by rfl))
    (by decide +kernel) (by decide +kernel) (by decide +kernel) (by decide +kernel) (by decide +kernel)
    (by rfl)

/-! ### "enc_stable" is false for UPER and OER

The encoding of a V1 value changes when the type is extended: the SEQUENCE presence bitmap has one bit
per addition of the encoder's type (UPER: normally-small length 1 vs 2 and bitmap `1` vs `10`; OER:
unused-bits octet 7 vs 6).  `backward_uper` / `backward_oer` hold nevertheless. -/

theorem uper_enc_not_stable :
    Extends exT1 exT2 ∧ hasType exT1 exV1 = true ∧
    Uper.enc exT1 exV1 = .ok [false, false, false, false, false, false, true, false, true, true, false, false, false, false, false, false,
 false, true, false, false, false, false, false, false, false, true, false, false, false, false, false, false, false,
 false, false, false] ∧
    Uper.enc exT2 exV1 = .ok [false, false, false, false, false, false, true, false, true, true, false, false, false, false, false, false, true,
 true, false, false, false, false, false, false, false, false, true, false, false, false, false, false, false, false,
 false, false, false] := by
  refine ⟨(extendsB_correct _ _).1 (by rfl), by decide +kernel, by rfl, by rfl⟩

theorem oer_enc_not_stable :
    Extends exT1 exT2 ∧ hasType exT1 exV1 = true ∧
    Oer.enc exT1 exV1 = .ok [1, 2, 128, 255, 2, 7, 128, 1, 128, 0, 0] ∧
    Oer.enc exT2 exV1 = .ok [1, 2, 128, 255, 2, 6, 128, 1, 128, 0, 0] := by
  refine ⟨(extendsB_correct _ _).1 (by rfl), by decide +kernel, by rfl, by rfl⟩

end Asn1.C07
