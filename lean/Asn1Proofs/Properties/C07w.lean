import Asn1Model.SpecDict
/-
  C07, recorded finding `C07-automatic-tags-trailing-root` as closed theorems about the rewrite model
  (`Preprocess.run`, tied to `Compiler.pre_process` by dictionary-exact correspondence on every run):
  automatic tag numbers follow the textual order of the components across BOTH extension markers, so the tag
  of a root component written after the second marker changes when an addition is inserted between the markers.
  X.680 25.7 numbers the components of the extension root first.  BER / DER encodings of the two versions of
  such a type therefore do not interoperate (PER, OER, JER, XER do not use the tags).
-/
namespace Asn1.C07w
open Asn1.SpecDict Asn1.SpecDict.Preprocess

def comp (n ty : String) (opt : Bool := false) : Item :=
  .desc (.mk { type := ty, name := some n, optional := if opt then some true else none } .leaf)

/-- `S ::= SEQUENCE { a INTEGER, ..., x INTEGER OPTIONAL, ..., z INTEGER }` -/
def v1 : Desc := .mk { type := "SEQUENCE" } (.members
  [comp "a" "INTEGER", .marker, comp "x" "INTEGER" true, .marker, comp "z" "INTEGER"])

/-- the next version: `y OCTET STRING OPTIONAL` added at the insertion point -/
def v2 : Desc := .mk { type := "SEQUENCE" } (.members
  [comp "a" "INTEGER", .marker, comp "x" "INTEGER" true, comp "y" "OCTET STRING" true, .marker, comp "z" "INTEGER"])

def specOf (d : Desc) : Spec := [("M", { tags := some "AUTOMATIC", types := [("S", d)] })]

def memberTag (n : String) : List Item → Option TagNum
  | [] => none
  | .desc (.mk a _) :: t => if a.name = some n then a.tag.map (·.number) else memberTag n t
  | _ :: t => memberTag n t

/-- the tag number of component `n` of type `S` after the rewrite -/
def tagAfterRun (d : Desc) (n : String) : Option TagNum :=
  match find? "M" (run false (specOf d)) with
  | none => none
  | some m =>
    match find? "S" m.types with
    | some (.mk _ (.members ms)) => memberTag n ms
    | _ => none

/-- version 1: a ↦ [0], x ↦ [1], z ↦ [2] -/
theorem v1_tags : (tagAfterRun v1 "a", tagAfterRun v1 "x", tagAfterRun v1 "z")
    = (some (.int 0), some (.int 1), some (.int 2)) := by decide

/-- version 2: the inserted addition takes [2] and pushes the ROOT component z to [3] -/
theorem v2_tags : (tagAfterRun v2 "a", tagAfterRun v2 "x", tagAfterRun v2 "y", tagAfterRun v2 "z")
    = (some (.int 0), some (.int 1), some (.int 2), some (.int 3)) := by decide

/-- the recorded finding: a legal extension step changes the tag of a root component -/
theorem trailing_root_tag_moves : tagAfterRun v1 "z" ≠ tagAfterRun v2 "z" := by decide

/-- while the components in front of the first marker keep theirs -/
theorem leading_root_tags_stable : tagAfterRun v1 "a" = tagAfterRun v2 "a" ∧ tagAfterRun v1 "x" = tagAfterRun v2 "x" := by decide

end Asn1.C07w

#print axioms Asn1.C07w.v1_tags
#print axioms Asn1.C07w.v2_tags
#print axioms Asn1.C07w.trailing_root_tag_moves
#print axioms Asn1.C07w.leading_root_tags_stable
