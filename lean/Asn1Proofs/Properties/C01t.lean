import Asn1Proofs.Lemmas.Bridge
/-
  C01 — TRANSLATOR TIE for OBJECT IDENTIFIER subidentifiers and `lowest_set_bit` (outside the Ty universe of the codec
  models): the theorems are DIRECTLY about the definitions regenerated from /repo/asn1tools/codecs/ber.py and
  codecs/compiler.py by harness/py2lean.py.
-/
namespace Asn1.C01t
open Asn1 Asn1.Translated Asn1.Bridge

/-- decoding what `encode_object_identifier_subidentifier` wrote returns the number and the offset right behind it,
for EVERY subidentifier (arbitrary size) and whatever octets follow -/
theorem oid_subidentifier_roundtrip (n : Nat) (rest : List Int) :
    ber_decode_object_identifier_subidentifier (ber_encode_object_identifier_subidentifier (n : Int) ++ rest) 0
      = .ok ((n : Int), ((ber_encode_object_identifier_subidentifier (n : Int)).length : Int)) :=
  Bridge.oid_subidentifier_roundtrip n rest

/-- X.690 8.19.2: octets, continuation bits, and the fewest possible octets (no leading 0x80) -/
theorem oid_subidentifier_shape (n : Nat) :
    let e := ber_encode_object_identifier_subidentifier (n : Int)
    e ≠ [] ∧ (∀ b ∈ e, 0 ≤ b ∧ b < 256) ∧ (∀ b ∈ e.dropLast, 128 ≤ b) ∧ (∀ b, e.getLast? = some b → b < 128) ∧
      (e.length > 1 → e.head? ≠ some 128) :=
  Bridge.oid_subidentifier_shape n

/-- `lowest_set_bit` (named-bit BIT STRING trimming, REAL mantissa normalisation) is the 2-adic valuation -/
theorem lowest_set_bit_spec (n : Nat) (h : 0 < n) :
    ∃ k : Nat, compiler_lowest_set_bit (n : Int) = (k : Int) ∧ 2 ^ k ∣ n ∧ ¬ 2 ^ (k + 1) ∣ n :=
  compiler_lowest_set_bit_spec n h

theorem lowest_set_bit_zero : compiler_lowest_set_bit 0 = 0 := compiler_lowest_set_bit_zero

example : ber_encode_object_identifier_subidentifier 999 = [135, 103] := by decide

end Asn1.C01t
