import Asn1Proofs.Lemmas.X690CompAll
/-
  C04 -- the BER decoder accepts every valid BER serialisation with the same meaning.
  Property theorems only; proofs in Asn1Proofs/Lemmas/X690*.lean.

  "Valid BER serialisation of a value of type t" = accepted by the reference decoder
  `X690.berDecodeRef` (Asn1Model/X690.lean): any definite length form (padded long forms
  included), indefinite length + end-of-contents on every constructed encoding, OCTET / BIT /
  character strings as arbitrarily nested constructed segments, any non-zero octet for TRUE, any
  value of the unused bits; everything else as the DER encoder produces it.

  Named deviation of the code (decidable predicate `X690.berDeviates t bs`: accepted by the
  reference decoder but not by `X690.berDecodeRefStrict`, Asn1Model/X690Strict.lean):
    * `dirtyUnusedBits` -- `witness_dirty_unused_bits`.
  A second one, `indefiniteExtensibleNoAddition` (a genuine defect of ber.py), has been repaired in
  /repo commit 300e5ac and is no longer a deviation: `fixed_indefinite_extensible_accepted`.
-/
namespace Asn1.C04
open Asn1

/-- **the encoder's output is in the specification**: the code's BER / DER encoder output is, for
the reference decoder, a BER encoding of the canonical value.  `hlen`: X.690 8.1.3.5 allows at
most 126 subsequent length octets (the reference decoder rejects a first length octet `0xff`). -/
theorem encoder_in_spec (t : Ty) (v : Val) (bytes : Bytes)
    (hwf : t.wf = true) (henum : Oer.oerWf t = true) (hd : X690.defaultsOkV t = true)
    (ht : hasType t v = true) (he : Der.encode t v = .ok bytes) (hlen : bytes.length < 256 ^ 126) :
    X690.berDecodeRef t bytes = some (Der.canon' t v) :=
  X690.encoder_in_spec t v bytes hwf henum hd ht he hlen

/-- **completeness**: every valid BER serialisation, outside the named deviations, is decoded by
the code's BER decoder to the same value -- for all types, all length forms, all nestings of
constructed strings, with no well-formedness hypothesis on the type -/
theorem complete (t : Ty) (bs : Bytes) (v : Val)
    (h : X690.berDecodeRef t bs = some v) (hdev : X690.berDeviates t bs = false) :
    BerCodec.decode t bs = .ok v :=
  X690.complete t bs v h hdev

/-- the same with the exact length and arbitrary trailing octets (`decode_with_length`) -/
theorem complete_with_length (t : Ty) (bs extra : Bytes) (v : Val)
    (h : X690.berDecodeRef t bs = some v) (hdev : X690.berDeviates t bs = false) :
    BerCodec.decodeWithLength t (bs ++ extra) = .ok (v, bs.length) :=
  X690.complete_strict_with_length t bs extra v (X690.strict_of_not_deviates t bs v h hdev)

/-- the recursive form: in any tagging context, whatever follows in the input -/
theorem complete_tagged (t : Ty) (tg : Option Nat) (fuel fuelC : Nat) (bs rest extra : Bytes) (v : Val)
    (h : X690.decVS t tg fuel bs = some (v, rest)) (hf : (bs ++ extra).length < fuelC) :
    ∃ k, BerCodec.dec t tg fuelC (bs ++ extra) = .ok (some (v, k, rest ++ extra)) ∧ bs.length = k + rest.length :=
  X690.dec_complete t tg fuel fuelC bs rest extra v h hf

/-- the deviation predicate only removes encodings: the strict reference decoder is a restriction
of the reference decoder -/
theorem strict_sub (t : Ty) (bs : Bytes) (v : Val)
    (h : X690.berDecodeRefStrict t bs = some v) : X690.berDecodeRef t bs = some v :=
  X690.berDecodeRefStrict_sub t bs v h

/-- the first milestone, kept: the length-form dimension and the primitive leaves, with no
deviation hypothesis at all (BOOLEAN, NULL, INTEGER, ENUMERATED) -/
theorem complete_partial (t : Ty) (bs : Bytes) (v : Val) (hl : X690.isPrimLeaf t = true)
    (h : X690.berDecodeRef t bs = some v) : BerCodec.decode t bs = .ok v :=
  X690.complete_partial t bs v hl h

/-- any valid definite length octets (short, long, padded long up to 126 octets) are read by the
code's `decode_length` like by the reference decoder -/
theorem any_length_form (l : Bytes) (n : Nat) (content rest : Bytes) (d : Bool)
    (hl : Ber.validLen l n) (h255 : l.head? ≠ some 255) (hc : content.length = n) :
    ∃ hdr, Der.readLen d (l ++ (content ++ rest)) = .ok (some n, hdr, content ++ rest) := by
  have h1 := X690.readLength_validLen l n (content ++ rest) hl h255
  subst hc
  obtain ⟨hdr, h2, _⟩ := X690.readLen_of_readLength (d := d) h1 (X690.takeN_append content rest)
  exact ⟨hdr, h2⟩

/-- REGRESSION for the repaired defect (commit 300e5ac): SEQUENCE { a BOOLEAN, ..., b INTEGER OPTIONAL },
indefinite length, no addition present -- `30 80 80 01 ff 00 00` used to be a `DecodeError`.  Now it
decodes (with DEFAULT additions filled in), also nested, also through the DER model. -/
theorem fixed_indefinite_extensible_accepted :
    let t : Ty := .sequence (.cons "a" .mandatory .boolean .nil) true (.cons "b" .optional (.integer ⟨none, none, false⟩) .nil)
    let d : Ty := .sequence (.cons "a" .mandatory .boolean .nil) true (.cons "b" (.default (.int 7)) (.integer ⟨none, none, false⟩) .nil)
    let o : Ty := .sequence (.cons "x" .mandatory t (.cons "y" .mandatory .boolean .nil)) false .nil
    X690.berDecodeRef t [0x30, 0x80, 0x80, 0x01, 0xff, 0x00, 0x00] = some (.record [("a", .bool true)]) ∧
    BerCodec.decodeWithLength t [0x30, 0x80, 0x80, 0x01, 0xff, 0x00, 0x00] = .ok (.record [("a", .bool true)], 7) ∧
    BerCodec.decodeWithLength d [0x30, 0x80, 0x80, 0x01, 0xff, 0x00, 0x00] = .ok (.record [("a", .bool true), ("b", .int 7)], 7) ∧
    BerCodec.decodeWithLength o [0x30, 0x80, 0xa0, 0x80, 0x80, 0x01, 0xff, 0x00, 0x00, 0x81, 0x01, 0x00, 0x00, 0x00]
      = .ok (.record [("x", .record [("a", .bool true)]), ("y", .bool false)], 14) ∧
    BerCodec.decodeWithLength o [0x30, 0x0a, 0xa0, 0x80, 0x80, 0x01, 0xff, 0x00, 0x00, 0x81, 0x01, 0x00]
      = .ok (.record [("x", .record [("a", .bool true)]), ("y", .bool false)], 12) ∧
    X690.berDecodeRef o [0x30, 0x80, 0xa0, 0x80, 0x80, 0x01, 0xff, 0x00, 0x00, 0x81, 0x01, 0x00, 0x00, 0x00]
      = some (.record [("x", .record [("a", .bool true)]), ("y", .bool false)]) ∧
    BerCodec.decode t [0x30, 0x03, 0x80, 0x01, 0xff] = .ok (.record [("a", .bool true)]) ∧
    BerCodec.decode t [0x30, 0x80, 0x80, 0x01, 0xff, 0x81, 0x01, 0x05, 0x00, 0x00] = .ok (.record [("a", .bool true), ("b", .int 5)]) ∧
    Der.decodeWithLength t [0x30, 0x80, 0x80, 0x01, 0xff, 0x00, 0x00] = .ok (.record [("a", .bool true)], 7) ∧
    Der.decodeWithLength o [0x30, 0x0a, 0xa0, 0x80, 0x80, 0x01, 0xff, 0x00, 0x00, 0x81, 0x01, 0x00]
      = .ok (.record [("x", .record [("a", .bool true)]), ("y", .bool false)], 12) :=
  X690.fixed_indefinite_extensible_accepted

/-- ... and it is no deviation any more -/
theorem fixed_indefinite_extensible_no_deviation :
    X690.berDeviates (.sequence (.cons "a" .mandatory .boolean .nil) true (.cons "b" .optional (.integer ⟨none, none, false⟩) .nil))
      [0x30, 0x80, 0x80, 0x01, 0xff, 0x00, 0x00] = false := by rfl

/-- deviation `dirtyUnusedBits`: the code returns the unused bits as part of the value -/
theorem witness_dirty_unused_bits :
    X690.berDecodeRef (.bitString ⟨0, none, false⟩) [0x03, 0x02, 0x05, 0xff] = some (.bits [0xe0] 3) ∧
    BerCodec.decode (.bitString ⟨0, none, false⟩) [0x03, 0x02, 0x05, 0xff] = .ok (.bits [0xff] 3) ∧
    X690.berDeviates (.bitString ⟨0, none, false⟩) [0x03, 0x02, 0x05, 0xff] = true :=
  ⟨X690.witness_dirty_unused_bits.1, X690.witness_dirty_unused_bits.2, by rfl⟩

/-! ### non-vacuity: valid BER forms far from DER that `complete` covers -/

-- padded long-form lengths, indefinite lengths, nested constructed segments, in one encoding
example :
    let t : Ty := .sequence (.cons "s" .mandatory (.octetString ⟨0, none, false⟩)
      (.cons "l" .mandatory (.sequenceOf (.integer ⟨none, none, false⟩) ⟨0, none, false⟩) .nil)) false .nil
    let bs : Bytes := [0x30, 0x80,
      0xa0, 0x80, 0x04, 0x81, 0x01, 0xaa, 0x24, 0x05, 0x04, 0x00, 0x04, 0x01, 0xbb, 0x00, 0x00,
      0xa1, 0x83, 0x00, 0x00, 0x07, 0x02, 0x01, 0x05, 0x02, 0x81, 0x01, 0x07,
      0x00, 0x00]
    X690.berDecodeRef t bs = some (.record [("s", .bytes [0xaa, 0xbb]), ("l", .list [.int 5, .int 7])]) ∧
    X690.berDeviates t bs = false ∧
    BerCodec.decode t bs = .ok (.record [("s", .bytes [0xaa, 0xbb]), ("l", .list [.int 5, .int 7])]) := by
  refine ⟨by rfl, by rfl, by rfl⟩

end Asn1.C04
