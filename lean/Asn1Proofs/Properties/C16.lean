import Asn1Model.Uper
import Asn1Model.Oer
/-
  C16 — a truncated encoding is a decode error.  Property theorems.
  The primitives of the models carry the code's own remaining-data checks; the theorems below state that
  a read which needs more than is left is `decodeError` (the library's DecodeError/OutOfDataError class),
  never a value and never a foreign exception.
-/
namespace Asn1.C16
open Asn1

theorem uper_splitAux_none (n : Nat) (bs acc : Bits) (h : bs.length < n) :
    Uper.splitAux n bs acc = none := by
  induction n generalizing bs acc with
  | zero => omega
  | succ n ih =>
    cases bs with
    | nil => rfl
    | cons b r =>
      simp only [Uper.splitAux]
      exact ih r (b :: acc) (by simp at h; omega)

/-- UPER: reading `n` bits from fewer than `n` remaining bits is OutOfDataError -/
theorem uper_readBits_short (n : Nat) (bs : Bits) (h : bs.length < n) :
    Uper.readBits n bs = .error .decodeError := by
  simp [Uper.readBits, Uper.splitExact, uper_splitAux_none n bs [] h]

theorem uper_readNat_short (n : Nat) (bs : Bits) (h : bs.length < n) :
    Uper.readNat n bs = .error .decodeError := by
  simp [Uper.readNat, Uper.splitExact, uper_splitAux_none n bs [] h]

theorem uper_readBit_empty : Uper.readBit [] = .error .decodeError := rfl

theorem oer_splitAux_none (n : Nat) (bs acc : Bytes) (h : bs.length < n) :
    Oer.splitAux n bs acc = none := by
  induction n generalizing bs acc with
  | zero => omega
  | succ n ih =>
    cases bs with
    | nil => rfl
    | cons b r =>
      simp only [Oer.splitAux]
      exact ih r (b :: acc) (by simp at h; omega)

/-- OER: reading `n` octets from fewer than `n` remaining octets is OutOfDataError -/
theorem oer_readBytes_short (n : Nat) (bs : Bytes) (h : bs.length < n) :
    Oer.readBytes n bs = .error .decodeError := by
  simp [Oer.readBytes, oer_splitAux_none n bs [] h]

/-- OER ENUMERATED on exhausted input is a decode error (after the repair of `peek_bit`; before it
this was a ValueError: negative shift count) -/
theorem oer_enumerated_empty (root : List (String × Int)) (ext : Option (List (String × Int))) :
    Oer.dec (.enumerated root ext) [] = .error .decodeError := rfl

/-- a SEQUENCE cut inside its preamble is a decode error -/
theorem oer_sequence_empty (a : String) (t : Ty) :
    Oer.dec (.sequence (.cons a .optional t .nil) false .nil) [] = .error .decodeError := by
  simp [Oer.dec, Oer.optionalCount, Oer.readBytes, Oer.splitAux, bind, Except.bind]

end Asn1.C16
