import Asn1Model.Uper
import Asn1Model.Oer
import Asn1Model.Der
import Asn1Proofs.Lemmas.PrefixOerTypes
import Asn1Proofs.Lemmas.PrefixDerTop
/-
  C16 — a truncated encoding is a decode error.  Property theorems.
  The primitives of the models carry the code's own remaining-data checks; the theorems below state that
  a read which needs more than is left is `decodeError` (the library's DecodeError/OutOfDataError class),
  never a value and never a foreign exception.
-/
namespace Asn1.C16
open Asn1

theorem uper_splitAux_none (n : Nat) (bs acc : Bits) (h : bs.length < n) :
    Uper.splitAux n bs acc = none := by
  induction n generalizing bs acc with
  | zero => omega
  | succ n ih =>
    cases bs with
    | nil => rfl
    | cons b r =>
      simp only [Uper.splitAux]
      exact ih r (b :: acc) (by simp at h; omega)

/-- UPER: reading `n` bits from fewer than `n` remaining bits is OutOfDataError -/
theorem uper_readBits_short (n : Nat) (bs : Bits) (h : bs.length < n) :
    Uper.readBits n bs = .error .decodeError := by
  simp [Uper.readBits, Uper.splitExact, uper_splitAux_none n bs [] h]

theorem uper_readNat_short (n : Nat) (bs : Bits) (h : bs.length < n) :
    Uper.readNat n bs = .error .decodeError := by
  simp [Uper.readNat, Uper.splitExact, uper_splitAux_none n bs [] h]

theorem uper_readBit_empty : Uper.readBit [] = .error .decodeError := rfl

theorem oer_splitAux_none (n : Nat) (bs acc : Bytes) (h : bs.length < n) :
    Oer.splitAux n bs acc = none := by
  induction n generalizing bs acc with
  | zero => omega
  | succ n ih =>
    cases bs with
    | nil => rfl
    | cons b r =>
      simp only [Oer.splitAux]
      exact ih r (b :: acc) (by simp at h; omega)

/-- OER: reading `n` octets from fewer than `n` remaining octets is OutOfDataError -/
theorem oer_readBytes_short (n : Nat) (bs : Bytes) (h : bs.length < n) :
    Oer.readBytes n bs = .error .decodeError := by
  simp [Oer.readBytes, oer_splitAux_none n bs [] h]

/-- OER ENUMERATED on exhausted input is a decode error (after the repair of `peek_bit`; before it
this was a ValueError: negative shift count) -/
theorem oer_enumerated_empty (root : List (String × Int)) (ext : Option (List (String × Int))) :
    Oer.dec (.enumerated root ext) [] = .error .decodeError := rfl

/-- a SEQUENCE cut inside its preamble is a decode error -/
theorem oer_sequence_empty (a : String) (t : Ty) :
    Oer.dec (.sequence (.cons a .optional t .nil) false .nil) [] = .error .decodeError := by
  simp [Oer.dec, Oer.optionalCount, Oer.readBytes, Oer.splitAux, bind, Except.bind]

/-! ### every strict byte prefix of a valid encoding is a decode error -/

/-- bit-level form: a strict prefix of the bits of an encoding (followed by nothing) is rejected with
`decodeError`, whatever fuel (larger than the prefix) the decoder gets -/
theorem uper_truncated_bits (t : Ty) (v : Val) (bits q x : Bits) (f' : Nat)
    (hwf : t.wf = true) (hd : t.defaultsOk = true) (hns : t.nsOk = true) (ht : hasType t v = true)
    (hf : Uper.fragFree t v = true) (he : Uper.enc t v = .ok bits)
    (hq : bits = q ++ x) (hx : x ≠ []) (hfuel : q.length < f') :
    Uper.dec t f' q = .error .decodeError := by
  have hrt := Uper.roundtrip_partial t v bits [] (bits.length + 2) hwf hd hns ht hf he (by simp)
  rw [List.append_nil, hq] at hrt
  rcases Uper.dec_prefix t _ f' q x _ _ hfuel hrt with ⟨r', _, h2⟩ | h1
  · have := congrArg List.length h2
    simp only [List.length_append, List.length_nil] at this
    have : x.length = 0 := by omega
    exact absurd (List.eq_nil_of_length_eq_zero this) hx
  · exact h1

/-- **C16, UPER.**  Every strict byte prefix of the encoding of a well-typed value is rejected by the
decoder with the library's decode error: it is not decoded to a value and no foreign exception
escapes.  Same hypotheses as the round-trip theorem `C01.uper_roundtrip_partial`. -/
theorem uper_truncated (t : Ty) (v : Val) (bytes : Bytes) (k : Nat)
    (hwf : t.wf = true) (hd : t.defaultsOk = true) (hns : t.nsOk = true) (ht : hasType t v = true)
    (hf : Uper.fragFree t v = true) (he : Uper.encode t v = .ok bytes) (hk : k < bytes.length) :
    Uper.decode t (bytes.take k) = .error .decodeError := by
  unfold Uper.encode at he
  cases hb : Uper.enc t v with
  | error e => rw [hb] at he; cases he
  | ok bits =>
    rw [hb] at he
    have hbytes : bytes = packBits bits := by cases he; rfl
    subst hbytes
    obtain ⟨pad, hpad⟩ := bytesToBits_bitsToBytes (bits.length + 1) bits (Nat.le_refl _)
    change bytesToBits (packBits bits) = bits ++ pad at hpad
    have hlen : (packBits bits).length = (bits.length + 7) / 8 := packBits_length bits
    have hpadlen : pad.length < 8 := by
      have := congrArg List.length hpad
      simp only [bytesToBits_length, List.length_append, hlen] at this
      omega
    have hsplit : bytesToBits ((packBits bits).take k) ++ bytesToBits ((packBits bits).drop k)
        = bits ++ pad := by
      rw [← bytesToBits_append, List.take_append_drop, hpad]
    have hrt := Uper.roundtrip_partial t v bits pad (bits.length + pad.length + 2) hwf hd hns ht hf hb
      (Nat.le_refl _)
    rw [← hsplit] at hrt
    have hq : (bytesToBits ((packBits bits).take k)).length < 8 * ((packBits bits).take k).length + 2 := by
      rw [bytesToBits_length]; omega
    unfold Uper.decode
    rcases Uper.dec_prefix t _ _ _ _ _ _ hq hrt with ⟨r', _, h2⟩ | h1
    · exfalso
      have := congrArg List.length h2
      simp only [List.length_append, bytesToBits_length, List.length_drop] at this
      omega
    · rw [h1]; rfl

/-- **C16, OER.**  Every strict byte prefix of the encoding of a well-typed value is rejected by the
decoder with the library's decode error.  Same hypotheses as `C01.oer_roundtrip_partial`. -/
theorem oer_truncated (t : Ty) (v : Val) (bytes : Bytes) (k : Nat)
    (hwf : t.wf = true) (hwf' : Oer.oerWf t = true) (hd : t.defaultsOk = true) (ht : hasType t v = true)
    (hu : Oer.utf8Ok t v = true) (hns : Oer.noSwallow t v = true) (he : Oer.encode t v = .ok bytes)
    (hk : k < bytes.length) :
    Oer.decode t (bytes.take k) = .error .decodeError := by
  have hrt := Oer.roundtrip_partial t v bytes [] hwf hwf' hd ht hu hns he
  rw [List.append_nil] at hrt
  conv at hrt => rw [← List.take_append_drop k bytes]
  unfold Oer.decode
  rcases Oer.dec_prefix t _ _ _ _ hrt with ⟨r', _, h2⟩ | h1
  · exfalso
    have := congrArg List.length h2
    simp only [List.length_append, List.length_nil, List.length_drop] at this
    omega
  · rw [h1]; rfl

/-- the decoders are prefix deterministic for *every* type, also outside the round-trip hypotheses:
a prefix of an accepted input is either accepted with the same value or rejected with `decodeError` -/
theorem uper_prefix_deterministic (t : Ty) (f f' : Nat) (q x : Bits) (a : Val) (r : Bits)
    (hf : q.length < f') (h : Uper.dec t f (q ++ x) = .ok (a, r)) :
    (∃ r', Uper.dec t f' q = .ok (a, r') ∧ r = r' ++ x) ∨ Uper.dec t f' q = .error .decodeError :=
  Uper.dec_prefix t f f' q x a r hf h

theorem oer_prefix_deterministic (t : Ty) (q x : Bytes) (a : Val) (r : Bytes)
    (h : Oer.dec t (q ++ x) = .ok (a, r)) :
    (∃ r', Oer.dec t q = .ok (a, r') ∧ r = r' ++ x) ∨ Oer.dec t q = .error .decodeError :=
  Oer.dec_prefix t q x a r h

/-- **C16, DER.**  Every strict byte prefix of a DER encoding is rejected by the decoder with the
library's decode error.  No side condition at all: any type of the universe, any value the encoder
(type checker included) accepts.  (Every DER decoder matches the tag and then `decode_length` checks
that the announced contents are present before anything else is looked at.) -/
theorem der_truncated (t : Ty) (v : Val) (bytes : Bytes) (k : Nat)
    (he : Der.encode t v = .ok bytes) (hk : k < bytes.length) :
    Der.decode t (bytes.take k) = .error .decodeError :=
  Der.decode_short t v bytes k he hk

/-- non-vacuity of the three theorems on one type with OPTIONAL / DEFAULT members, extension
additions, an extensible CHOICE and a SEQUENCE OF: all hypotheses hold and the encodings are not empty -/
example :
    let t : Ty := .sequenceOf (.sequence
        (.cons "a" .optional (.integer ⟨some 0, some 300, true⟩)
        (.cons "b" (.default (.bool true)) .boolean .nil)) true
        (.cons "c" .optional (.choice (.cons "x" .null (.cons "y" (.octetString ⟨0, none, false⟩) .nil)) true
            (.cons "z" (.charString .ia5 ⟨1, some 4, false⟩) .nil)) .nil)) ⟨0, some 3, true⟩
    let v : Val := .list [.record [("a", .int 70000), ("c", .choice "z" (.str [65, 66]))], .record [("b", .bool false)]]
    t.wf = true ∧ Oer.oerWf t = true ∧ t.defaultsOk = true ∧ t.nsOk = true ∧ hasType t v = true ∧
      Uper.fragFree t v = true ∧ Oer.utf8Ok t v = true ∧ Oer.noSwallow t v = true ∧
      ((Uper.encode t v).toOption.map List.length) = some 12 ∧
      ((Oer.encode t v).toOption.map List.length) = some 18 ∧
      ((Der.encode t v).toOption.map List.length) = some 20 := by
  refine ⟨by decide +kernel, by decide +kernel, by decide +kernel, by decide +kernel, by decide +kernel,
    by decide +kernel, by decide +kernel, by decide +kernel, by decide +kernel, by decide +kernel,
    by decide +kernel⟩

end Asn1.C16

#print axioms Asn1.C16.der_truncated
#print axioms Asn1.C16.uper_truncated
#print axioms Asn1.C16.oer_truncated
#print axioms Asn1.C16.uper_prefix_deterministic
#print axioms Asn1.C16.oer_prefix_deterministic
