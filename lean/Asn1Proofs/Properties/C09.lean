import Asn1Proofs.Lemmas.CCursorRefineDec
import Asn1Proofs.Lemmas.CCursorBits5
/-
  C09 (helper library part): memory safety and short-buffer behaviour of the C helper library that
  asn1tools emits into every generated UPER C source, proved about the checked model
  `Asn1Model/CCursor.lean` (tied to the real generator output by `tools/compare_chelpers.py`).

  In the model EVERY memory access is a checked `Mem.load`/`Mem.store`, every shift a checked shift,
  every `ssize_t` operation goes through `ssz`; a `Fault` is returned instead of leaving defined
  behaviour.  "`= .ok _`" therefore means: no out-of-bounds access, no undefined shift, no signed
  overflow.
-/
namespace Asn1.C09
open Asn1 Asn1.CCursor

/-! ## (a) SAFETY -/

/-- `encoder_init` establishes the invariant (for any object smaller than 2^59 bytes and a claimed
size not larger than the object). -/
theorem enc_init_inv {buf : Mem} {size : UInt64} (hs : size.toNat ≤ buf.size)
    (hb : buf.size < 576460752303423488) :
    ∃ e, Enc.init buf size = .ok e ∧ e.Inv ∧ e.buf = buf ∧ e.pos = 0 ∧ e.size = 8 * (size.toNat : Int) :=
  Enc.init_inv hs hb

theorem dec_init_inv {buf : Mem} {size : UInt64} (hs : size.toNat ≤ buf.size)
    (hb : buf.size < 576460752303423488) :
    ∃ d, Dec.init buf size = .ok d ∧ d.Inv ∧ d.buf = buf ∧ d.pos = 0 ∧ d.size = 8 * (size.toNat : Int) :=
  Dec.init_inv hs hb

/-- Every encoder helper preserves the invariant and never faults - for all argument values
satisfying `EncOp.Pre`, all buffer contents, all cursor positions. -/
theorem enc_step_safe {e : Enc} (hi : e.Inv) {op : EncOp} (hpre : op.Pre) :
    ∃ e', e.run op = .ok e' ∧ e'.Inv ∧ e'.buf.size = e.buf.size := by
  by_cases ha : ∃ err, op = .abort err
  · obtain ⟨err, rfl⟩ := ha
    show ∃ e', e.abort err = .ok e' ∧ _
    by_cases hl : e.size < 0
    · exact ⟨e, Enc.abort_latched hl err, hi, rfl⟩
    · exact ⟨_, Enc.abort_live (by omega) (by have := hpre.1; omega) (by have := hpre.2; omega),
        Enc.latch_inv hi.1 hpre.1 hpre.2, rfl⟩
  · have hna : ∀ err, op ≠ .abort err := fun err h => ha ⟨err, h⟩
    have hs := Enc.run_spec hi hpre hna
    by_cases hl : e.size < 0
    · exact ⟨e, hs.1 hl, hi, rfl⟩
    · by_cases hr : e.pos + (op.need : Int) ≤ e.size
      · obtain ⟨buf', hb', hrun⟩ := hs.2.1 (by omega) hr
        exact ⟨_, hrun, Enc.inv_step hi hb' (by obtain ⟨_, h | h⟩ := hi <;> omega) hr, hb'⟩
      · obtain ⟨buf', hb', hrun⟩ := hs.2.2 (by omega) (by omega)
        exact ⟨_, hrun, Enc.inv_latch hi hb', hb'⟩

/-- Once the error is latched every encoder helper is a no-op: same struct, same error code, the
destination buffer is not touched. -/
theorem enc_latched_frozen {e : Enc} (hi : e.Inv) (hl : e.size < 0) {op : EncOp} (hpre : op.Pre) :
    e.run op = .ok e := by
  by_cases ha : ∃ err, op = .abort err
  · obtain ⟨err, rfl⟩ := ha
    exact Enc.abort_latched hl err
  · exact (Enc.run_spec hi hpre (fun err h => ha ⟨err, h⟩)).1 hl

/-- No sequence of encoder helper calls can fault. -/
theorem enc_no_fault : ∀ (ops : List EncOp) (e : Enc), e.Inv → (∀ op ∈ ops, op.Pre) →
    ∃ e', e.runAll ops = .ok e' ∧ e'.Inv ∧ e'.buf.size = e.buf.size := by
  intro ops
  induction ops with
  | nil => intro e hi _; exact ⟨e, rfl, hi, rfl⟩
  | cons op ops ih =>
    intro e hi hpre
    obtain ⟨e1, h1, hi1, hs1⟩ := enc_step_safe hi (hpre op (by simp))
    obtain ⟨e2, h2, hi2, hs2⟩ := ih e1 hi1 (fun o ho => hpre o (by simp [ho]))
    refine ⟨e2, ?_, hi2, by rw [hs2, hs1]⟩
    simp only [Enc.runAll, bind, Except.bind, h1, h2]

/-- `encoder_get_result` never faults under the invariant. -/
theorem enc_result_safe {e : Enc} (hi : e.Inv) : ∃ r, e.getResult = .ok r := by
  by_cases hl : e.size < 0
  · exact ⟨_, Enc.getResult_latched hl⟩
  · exact ⟨_, Enc.getResult_live hi (by omega)⟩

/-- Every decoder helper preserves the invariant and never faults - ON ARBITRARY INPUT BYTES: there
is no hypothesis on `d.buf`'s content, on the cursor, or on the number of bits requested
(`DecOp.Pre` only asks that destination objects are as large as claimed). -/
theorem dec_step_safe {d : Dec} (hi : d.Inv) {op : DecOp} (hpre : op.Pre) :
    ∃ v d', d.run op = .ok (v, d') ∧ d'.Inv ∧ d'.buf = d.buf := by
  by_cases ha : ∃ err, op = .abort err
  · obtain ⟨err, rfl⟩ := ha
    by_cases hl : d.size < 0
    · refine ⟨.unit, d, ?_, hi, rfl⟩
      show (do let d ← d.abort err; (.ok (DecVal.unit, d) : C _)) = _
      rw [Dec.abort_latched hl]; rfl
    · refine ⟨.unit, d.latch err, ?_, Dec.latch_inv hi.1 hpre.1 hpre.2, rfl⟩
      show (do let d ← d.abort err; (.ok (DecVal.unit, d) : C _)) = _
      rw [Dec.abort_live (by omega) (by have := hpre.1; omega) (by have := hpre.2; omega)]; rfl
  · obtain ⟨v, d', hr, ht⟩ := Dec.run_spec hi hpre (fun err h => ha ⟨err, h⟩)
    exact ⟨v, d', hr, (ht.inv hi).1, (ht.inv hi).2⟩

/-- Once the error is latched every decoder helper leaves the struct unchanged. -/
theorem dec_latched_frozen {d : Dec} (hi : d.Inv) (hl : d.size < 0) {op : DecOp} (hpre : op.Pre) :
    ∃ v, d.run op = .ok (v, d) := by
  by_cases ha : ∃ err, op = .abort err
  · obtain ⟨err, rfl⟩ := ha
    refine ⟨.unit, ?_⟩
    show (do let d ← d.abort err; (.ok (DecVal.unit, d) : C _)) = _
    rw [Dec.abort_latched hl]; rfl
  · obtain ⟨v, d', hr, ht⟩ := Dec.run_spec hi hpre (fun err h => ha ⟨err, h⟩)
    exact ⟨v, by rw [hr, ht.1 hl]⟩

/-- No sequence of decoder helper calls can fault, whatever the input bytes are. -/
theorem dec_no_fault : ∀ (ops : List DecOp) (d : Dec), d.Inv → (∀ op ∈ ops, op.Pre) →
    ∃ vs d', d.runAll ops = .ok (vs, d') ∧ d'.Inv ∧ d'.buf = d.buf := by
  intro ops
  induction ops with
  | nil => intro d hi _; exact ⟨[], d, rfl, hi, rfl⟩
  | cons op ops ih =>
    intro d hi hpre
    obtain ⟨v, d1, h1, hi1, hb1⟩ := dec_step_safe hi (hpre op (by simp))
    obtain ⟨vs, d2, h2, hi2, hb2⟩ := ih d1 hi1 (fun o ho => hpre o (by simp [ho]))
    refine ⟨v :: vs, d2, ?_, hi2, by rw [hb2, hb1]⟩
    simp only [Dec.runAll, bind, Except.bind, h1, h2]

theorem dec_result_safe {d : Dec} (hi : d.Inv) : ∃ r, d.getResult = .ok r := by
  by_cases hl : d.size < 0
  · exact ⟨_, Dec.getResult_latched hl⟩
  · exact ⟨_, Dec.getResult_live hi (by omega)⟩

/-- shape of every generated `<type>_encode(dst, size, src)` function: init, helper calls, result -/
def encode (buf : Mem) (size : UInt64) (ops : List EncOp) : C (Int × Mem) := do
  let e ← Enc.init buf size
  let e ← e.runAll ops
  let r ← e.getResult
  .ok (r, e.buf)

/-- shape of every generated `<type>_decode(dst, src, size)` function -/
def decode (buf : Mem) (size : UInt64) (ops : List DecOp) : C (Int × List DecVal) := do
  let d ← Dec.init buf size
  let (vs, d) ← d.runAll ops
  let r ← d.getResult
  .ok (r, vs)

/-- END TO END, encoder: for every destination object and claimed size `≤` its real size, every
sequence of helper calls with admissible arguments runs without any fault. -/
theorem encode_no_fault {buf : Mem} {size : UInt64} (hs : size.toNat ≤ buf.size)
    (hb : buf.size < 576460752303423488) {ops : List EncOp} (hpre : ∀ op ∈ ops, op.Pre) :
    ∃ r out, encode buf size ops = .ok (r, out) ∧ out.size = buf.size := by
  obtain ⟨e, he, hi, hbuf, _, _⟩ := enc_init_inv hs hb
  obtain ⟨e', hr, hi', hsz⟩ := enc_no_fault ops e hi hpre
  obtain ⟨r, hres⟩ := enc_result_safe hi'
  refine ⟨r, e'.buf, ?_, by rw [hsz, hbuf]⟩
  simp only [encode, bind, Except.bind, he, hr, hres]

/-- END TO END, decoder: for EVERY input byte string (`buf` arbitrary) every sequence of helper
calls runs without out-of-bounds access, undefined shift or signed overflow. -/
theorem decode_no_fault {buf : Mem} {size : UInt64} (hs : size.toNat ≤ buf.size)
    (hb : buf.size < 576460752303423488) {ops : List DecOp} (hpre : ∀ op ∈ ops, op.Pre) :
    ∃ r vs, decode buf size ops = .ok (r, vs) := by
  obtain ⟨d, hd, hi, _, _, _⟩ := dec_init_inv hs hb
  obtain ⟨vs, d', hr, hi', _⟩ := dec_no_fault ops d hi hpre
  obtain ⟨r, hres⟩ := dec_result_safe hi'
  refine ⟨r, vs, ?_⟩
  simp only [decode, bind, Except.bind, hd, hr, hres]

/-! ## (b) SHORT BUFFER -/

/-- total number of bits a sequence of helper calls appends -/
def needs (ops : List EncOp) : Nat := (ops.map EncOp.need).sum

/-- no explicit `encoder_abort` call in the sequence -/
def NoAbort (ops : List EncOp) : Prop := ∀ op ∈ ops, ∀ err, op ≠ .abort err

/-- The cursor after a sequence of helper calls: frozen if latched; advanced by exactly the number
of bits needed if they fit; otherwise `-ENOMEM` is latched (never a silent overrun: by
`enc_no_fault` there is no out-of-bounds write on the way). -/
theorem enc_runAll_cursor : ∀ (ops : List EncOp) (e : Enc), e.Inv → (∀ op ∈ ops, op.Pre) → NoAbort ops →
    ∃ e', e.runAll ops = .ok e' ∧ e'.Inv ∧
      (e.size < 0 → e' = e) ∧
      (0 ≤ e.size → e.pos + (needs ops : Int) ≤ e.size → e'.size = e.size ∧ e'.pos = e.pos + (needs ops : Int)) ∧
      (0 ≤ e.size → e.size < e.pos + (needs ops : Int) → e'.size = -12 ∧ e'.pos = -12) := by
  intro ops
  induction ops with
  | nil =>
    intro e hi _ _
    refine ⟨e, rfl, hi, fun _ => rfl, fun _ _ => ⟨rfl, by simp [needs]⟩, fun h0 h => ?_⟩
    exfalso
    have h' : e.size < e.pos := by simpa [needs] using h
    obtain ⟨_, hl | hl⟩ := hi <;> omega
  | cons op ops ih =>
    intro e hi hpre hna
    have hpre' : ∀ o ∈ ops, o.Pre := fun o ho => hpre o (by simp [ho])
    have hna' : NoAbort ops := fun o ho => hna o (by simp [ho])
    have hs := Enc.run_spec hi (hpre op (by simp)) (hna op (by simp))
    have hn : (needs (op :: ops) : Int) = (op.need : Int) + (needs ops : Int) := by
      simp [needs]
    by_cases hl : e.size < 0
    · obtain ⟨e2, h2, hi2, hf, _, _⟩ := ih e hi hpre' hna'
      refine ⟨e2, by simp only [Enc.runAll, bind, Except.bind, hs.1 hl, h2], hi2,
        fun _ => hf hl, fun h => by omega, fun h => by omega⟩
    · by_cases hr : e.pos + (op.need : Int) ≤ e.size
      · obtain ⟨buf', hb', hrun⟩ := hs.2.1 (by omega) hr
        have hi1 := Enc.inv_step (p' := e.pos + (op.need : Int)) hi hb'
          (by obtain ⟨_, h | h⟩ := hi <;> omega) hr
        obtain ⟨e2, h2, hi2, _, hfit, hover⟩ := ih _ hi1 hpre' hna'
        refine ⟨e2, by simp only [Enc.runAll, bind, Except.bind, hrun, h2], hi2, fun h => by omega,
          fun h0 h => ?_, fun h0 h => ?_⟩
        · have := hfit h0 (by simp only []; omega)
          exact ⟨this.1, by rw [this.2]; simp only []; omega⟩
        · exact hover h0 (by simp only []; omega)
      · obtain ⟨buf', hb', hrun⟩ := hs.2.2 (by omega) (by omega)
        have hi1 := Enc.inv_latch hi hb'
        obtain ⟨e2, h2, hi2, hf, _, _⟩ := ih _ hi1 hpre' hna'
        have he2 := hf (by simp [Enc.latch])
        refine ⟨e2, by simp only [Enc.runAll, bind, Except.bind, hrun, h2], hi2, fun h => by omega,
          fun h0 h => ?_, fun _ _ => by rw [he2]; simp [Enc.latch]⟩
        exfalso
        have : (0 : Int) ≤ (needs ops : Int) := Int.natCast_nonneg _
        omega

/-- SHORT BUFFER theorem: a generated encode function whose helper calls need more bits than the
destination has (`8 * size`) returns `-ENOMEM` (= -12) - in particular a buffer one byte too small is
reported as an error; if the bits fit it returns the number of bytes used `⌈bits / 8⌉`.  In both cases
no fault occurs (no overrun). -/
theorem short_buffer {buf : Mem} {size : UInt64} (hs : size.toNat ≤ buf.size)
    (hb : buf.size < 576460752303423488) {ops : List EncOp} (hpre : ∀ op ∈ ops, op.Pre)
    (hna : NoAbort ops) :
    ∃ out, out.size = buf.size ∧
      encode buf size ops
        = .ok (if needs ops ≤ 8 * size.toNat then (((needs ops + 7) / 8 : Nat) : Int) else -12, out) := by
  obtain ⟨e, he, hi, hbuf, hpos, hsize⟩ := enc_init_inv hs hb
  obtain ⟨e', hr, hi', _, hfit, hover⟩ := enc_runAll_cursor ops e hi hpre hna
  obtain ⟨e'', hr', _, hsz⟩ := enc_no_fault ops e hi hpre
  have hee : e'' = e' := by rw [hr] at hr'; exact (Except.ok.inj hr').symm
  subst hee
  refine ⟨e''.buf, by rw [hsz, hbuf], ?_⟩
  have h0 : 0 ≤ e.size := by omega
  by_cases hfits : needs ops ≤ 8 * size.toNat
  · have := hfit h0 (by omega)
    have hres := Enc.getResult_live hi' (by omega)
    simp only [encode, bind, Except.bind, he, hr, hres, if_pos hfits]
    rw [this.2, hpos]
    congr 2
    omega
  · have := hover h0 (by omega)
    have hres := Enc.getResult_latched (e := e'') (by omega)
    simp only [encode, bind, Except.bind, he, hr, hres, if_neg hfits]
    rw [this.2]


/-! ### out of data: the decoder counterpart of SHORT BUFFER -/

/-- total number of bits a sequence of decoder helper calls consumes -/
def dneeds (ops : List DecOp) : Nat := (ops.map DecOp.need).sum

def DNoAbort (ops : List DecOp) : Prop := ∀ op ∈ ops, ∀ err, op ≠ .abort err

theorem dec_runAll_cursor : ∀ (ops : List DecOp) (d : Dec), d.Inv → (∀ op ∈ ops, op.Pre) → DNoAbort ops →
    ∃ vs d', d.runAll ops = .ok (vs, d') ∧ d'.Inv ∧ vs.length = ops.length ∧
      (d.size < 0 → d' = d) ∧
      (0 ≤ d.size → d.pos + (dneeds ops : Int) ≤ d.size → d' = { d with pos := d.pos + (dneeds ops : Int) }) ∧
      (0 ≤ d.size → d.size < d.pos + (dneeds ops : Int) → d' = d.latch 500) := by
  intro ops
  induction ops with
  | nil =>
    intro d hi _ _
    refine ⟨[], d, rfl, hi, rfl, fun _ => rfl, fun _ _ => by simp [dneeds], fun h0 h => ?_⟩
    exfalso
    have h' : d.size < d.pos := by simpa [dneeds] using h
    obtain ⟨_, hl | hl⟩ := hi <;> omega
  | cons op ops ih =>
    intro d hi hpre hna
    have hpre' : ∀ o ∈ ops, o.Pre := fun o ho => hpre o (by simp [ho])
    have hna' : DNoAbort ops := fun o ho => hna o (by simp [ho])
    obtain ⟨v, d1, h1, ht⟩ := Dec.run_spec hi (hpre op (by simp)) (hna op (by simp))
    have hi1 := (ht.inv hi).1
    obtain ⟨vs, d2, h2, hi2, hlen, hf, hfit, hover⟩ := ih d1 hi1 hpre' hna'
    have hn : (dneeds (op :: ops) : Int) = (op.need : Int) + (dneeds ops : Int) := by simp [dneeds]
    have hnn : (0 : Int) ≤ (dneeds ops : Int) := Int.natCast_nonneg _
    refine ⟨v :: vs, d2, by simp only [Dec.runAll, bind, Except.bind, h1, h2], hi2, by simp [hlen],
      fun hl => ?_, fun h0 h => ?_, fun h0 h => ?_⟩
    · have := ht.1 hl; subst this; exact hf hl
    · have := ht.2.1 h0 (by omega); subst this
      rw [hfit h0 (by simp only []; omega)]
      simp only []
      congr 1
      omega
    · by_cases hr : d.pos + (op.need : Int) ≤ d.size
      · have := ht.2.1 h0 hr; subst this
        rw [hover h0 (by simp only []; omega)]
        rfl
      · have := ht.2.2 h0 (by omega); subst this
        exact hf (by simp [Dec.latch])

/-- OUT OF DATA theorem: a generated decode function whose helper calls need more bits than the
input has returns `-EOUTOFDATA` (= -500) - on any input bytes, without any out-of-bounds read
(`decode_no_fault`); if the data suffices it returns the number of bytes consumed. -/
theorem short_input {buf : Mem} {size : UInt64} (hs : size.toNat ≤ buf.size)
    (hb : buf.size < 576460752303423488) {ops : List DecOp} (hpre : ∀ op ∈ ops, op.Pre)
    (hna : DNoAbort ops) :
    ∃ vs, vs.length = ops.length ∧
      decode buf size ops
        = .ok (if dneeds ops ≤ 8 * size.toNat then (((dneeds ops + 7) / 8 : Nat) : Int) else -500, vs) := by
  obtain ⟨d, hd, hi, hbuf, hpos, hsize⟩ := dec_init_inv hs hb
  obtain ⟨vs, d', hr, hi', hlen, _, hfit, hover⟩ := dec_runAll_cursor ops d hi hpre hna
  refine ⟨vs, hlen, ?_⟩
  have h0 : 0 ≤ d.size := by omega
  by_cases hfits : dneeds ops ≤ 8 * size.toNat
  · have hd' := hfit h0 (by omega)
    have hres := Dec.getResult_live hi' (by rw [hd']; exact h0)
    simp only [decode, bind, Except.bind, hd, hr, hres, if_pos hfits]
    rw [hd']
    simp only [hpos]
    congr 2
    omega
  · have hd' := hover h0 (by omega)
    have hres := Dec.getResult_latched (d := d') (by rw [hd']; simp [Dec.latch])
    simp only [decode, bind, Except.bind, hd, hr, hres, if_neg hfits]
    rw [hd']
    rfl

/-! ## the preconditions are necessary: outside `Pre` the helper library itself is NOT safe

Each witness is also confirmed on the real C text by `tools/compare_chelpers.py ub` (UBSan/ASan report,
model answers `FAULT`). -/

/-- `encoder_append_non_negative_binary_integer(value, 65)` shifts a 64 bit operand by 64. -/
theorem nnbi_65_is_undefined :
    ∃ e, Enc.init (Array.replicate 16 0) 16 = .ok e ∧ e.Inv ∧ e.appendNnbi 1 65 = .error .undefinedShift :=
  ⟨_, rfl, ⟨by decide, Or.inl ⟨by decide, by decide, by decide⟩⟩, rfl⟩

/-- `encoder_append_bit` with a negative `int` shifts a negative value. -/
theorem bit_negative_is_undefined :
    ∃ e, Enc.init (Array.replicate 4 0) 4 = .ok e ∧ e.Inv ∧ e.appendBit (-1) = .error .undefinedShift :=
  ⟨_, rfl, ⟨by decide, Or.inl ⟨by decide, by decide, by decide⟩⟩, rfl⟩

/-- `encoder_append_bytes(src, 2^61 - 1)` at an unaligned position: `8u * size` wraps to `2^64 - 8`,
`(ssize_t)` of that is `-8`, so `encoder_alloc` SUCCEEDS (and moves the cursor backwards) and the copy
loop runs off the end of the source/destination objects. -/
theorem bytes_huge_size_overruns :
    ∃ e e1, Enc.init (Array.replicate 4 0) 4 = .ok e ∧ e.appendBit 1 = .ok e1 ∧ e1.Inv ∧
      e1.appendBytes #[1, 2] 2305843009213693951 = .error .outOfBounds :=
  ⟨_, _, rfl, rfl, ⟨by decide, Or.inl ⟨by decide, by decide, by decide⟩⟩, rfl⟩

/-- same wrap-around in `decoder_read_bytes` -/
theorem read_bytes_huge_size_overruns :
    ∃ d v d1, Dec.init #[1, 2, 3, 4] 4 = .ok d ∧ d.readBit = .ok (v, d1) ∧ d1.Inv ∧
      d1.readBytes #[0, 0] 2305843009213693951 = .error .outOfBounds :=
  ⟨_, _, _, rfl, rfl, ⟨by decide, Or.inl ⟨by decide, by decide, by decide⟩⟩, rfl⟩

/-! ## observation: UPER `decoder_read_uint16/32/64` return uninitialised stack bytes when out of data

`uint8_t buf[2];` is not initialised and `decoder_read_bytes` returns early in the error state, so the
value handed back is whatever the automatic array contained (`junk`).  Not undefined behaviour
(`unsigned char` has no trap representation and the array's address is taken) and the error is latched,
but the struct field is filled with an unspecified value.  (The OER helpers `memset` the destination.) -/
theorem read_uint16_out_of_data_returns_junk {d : Dec} (hi : d.Inv) (h0 : 0 ≤ d.size)
    (h : d.size < d.pos + 16) {junk : Mem} (hj : junk.size = 2) :
    d.readU16 junk = .ok (valU16 junk, d.latch 500) := by
  have c2 : (2 : UInt64).toNat = 2 := rfl
  unfold Dec.readU16
  rw [Dec.readBytes_empty hi h0 junk (n := 2) (by rw [c2]; omega) (by rw [c2]; omega)]
  have := Dec.readU16_core (m := junk) hj (d.latch 500)
  simp only [bind, Except.bind] at this ⊢
  rw [this]

/-- in the good case the result does not depend on the uninitialised array -/
theorem read_uint16_independent_of_junk {d : Dec} (hi : d.Inv) (h0 : 0 ≤ d.size)
    (h : d.pos + 16 ≤ d.size) {j1 j2 : Mem} (h1 : j1.size = 2) (h2 : j2.size = 2)
    (hval : valU16 (readBytesVal d.buf d.pos.toNat j1 2) = valU16 (readBytesVal d.buf d.pos.toNat j2 2)) :
    d.readU16 j1 = d.readU16 j2 := by
  rw [Dec.readU16_ok hi h0 h h1, Dec.readU16_ok hi h0 h h2, hval]

/-! ## (e) non-vacuity: the theorems apply to concrete runs (kernel evaluation of the model) -/

example : encode (Array.replicate 2 0x55) 2 [.bit 1, .nnbi 5 3, .u8 255] = .ok (2, #[0xdf, 0xf0]) := rfl
/-- one byte too small: `-ENOMEM`, the byte after the object is never touched (there is none) -/
example : encode (Array.replicate 1 0x55) 1 [.bit 1, .nnbi 5 3, .u8 255] = .ok (-12, #[0xd0]) := rfl
example : needs [.bit 1, .nnbi 5 3, .u8 255] = 12 := rfl
example : decode #[0xff, 0x0a] 2 [.bit, .u8, .nnbi 3, .bytes #[0xaa] 1]
    = .ok (-500, [.int 1, .int 254, .int 0, .mem #[0xaa]]) := rfl
example : decode #[0xdf, 0xf0] 2 [.bit, .nnbi 3, .u8] = .ok (2, [.int 1, .int 5, .int 255]) := rfl
example : (∀ op ∈ [EncOp.bit 1, .nnbi 5 3, .u8 255], op.Pre) := by
  intro op h
  simp only [List.mem_cons, List.mem_nil_iff, or_false] at h
  rcases h with rfl | rfl | rfl
  · exact ⟨by decide, by decide⟩
  · show (3 : UInt64).toNat ≤ 64; decide
  · trivial


/-! ## (c) FUNCTIONAL -/

theorem i8_offset (v : Int8) : (UInt8.ofNat (v.toUInt8.toNat + 128)).toNat = (v.toInt + 128).toNat := by
  have h2 : v.toInt = Int.bmod v.toUInt8.toNat 256 := by
    show v.toBitVec.toInt = _
    rw [BitVec.toInt_eq_toNat_bmod]; rfl
  rw [h2, UInt8.toNat_ofNat']
  have hn := v.toUInt8.toNat_lt
  generalize v.toUInt8.toNat = n at *
  simp only [Int.bmod_def]
  omega

theorem i16_offset (v : Int16) : (UInt16.ofNat (v.toUInt16.toNat + 32768)).toNat = (v.toInt + 32768).toNat := by
  have h2 : v.toInt = Int.bmod v.toUInt16.toNat 65536 := by
    show v.toBitVec.toInt = _
    rw [BitVec.toInt_eq_toNat_bmod]; rfl
  rw [h2, UInt16.toNat_ofNat']
  have hn := v.toUInt16.toNat_lt
  generalize v.toUInt16.toNat = n at *
  simp only [Int.bmod_def]
  omega

theorem i32_offset (v : Int32) :
    (UInt32.ofNat (v.toUInt32.toNat + 2147483648)).toNat = (v.toInt + 2147483648).toNat := by
  have h2 : v.toInt = Int.bmod v.toUInt32.toNat 4294967296 := by
    show v.toBitVec.toInt = _
    rw [BitVec.toInt_eq_toNat_bmod]; rfl
  rw [h2, UInt32.toNat_ofNat']
  have hn := v.toUInt32.toNat_lt
  generalize v.toUInt32.toNat = n at *
  simp only [Int.bmod_def]
  omega

theorem i64_offset (v : Int64) :
    (v.toUInt64 + 9223372036854775808).toNat = (v.toInt + 9223372036854775808).toNat := by
  have h2 : v.toInt = Int.bmod v.toUInt64.toNat 18446744073709551616 := by
    show v.toBitVec.toInt = _
    rw [BitVec.toInt_eq_toNat_bmod]; rfl
  rw [h2, UInt64.toNat_add]
  have hn := v.toUInt64.toNat_lt
  have hc : (9223372036854775808 : UInt64).toNat = 9223372036854775808 := rfl
  rw [hc]
  generalize v.toUInt64.toNat = n at *
  simp only [Int.bmod_def]
  omega

/-- functional invariant of a live encoder: the memory-safety invariant, no latched error, and
zero padding from the cursor to the next byte boundary (the helpers use `|=`) -/
def Good (e : Enc) : Prop := e.Inv ∧ 0 ≤ e.size ∧ Padded e.buf e.pos.toNat

/-- the bit string a helper call appends (the Python codec's primitives from `Asn1Model/Prim.lean`):
`append_non_negative_binary_integer(v, n)` is `natToBits n v`; the signed helpers append the value
minus the type's minimum (offset binary), which is what UPER prescribes for a constrained INTEGER
whose range is the full `intN_t` -/
def opBits : EncOp → Bits
  | .bit v => [v == 1]
  | .bool b => [b]
  | .bytes src n => bytesToBits ((src.toList.take n.toNat).map UInt8.toNat)
  | .u8 v => natToBits 8 v.toNat
  | .u16 v => natToBits 16 v.toNat
  | .u32 v => natToBits 32 v.toNat
  | .u64 v => natToBits 64 v.toNat
  | .i8 v => natToBits 8 (v.toInt + 128).toNat
  | .i16 v => natToBits 16 (v.toInt + 32768).toNat
  | .i32 v => natToBits 32 (v.toInt + 2147483648).toNat
  | .i64 v => natToBits 64 (v.toInt + 9223372036854775808).toNat
  | .nnbi v n => natToBits n.toNat v.toNat
  | .abort _ => []

/-- `encoder_append_bit` is only meaningful for the values 0 and 1 -/
def BitOk : EncOp → Prop
  | .bit v => v = 0 ∨ v = 1
  | _ => True

theorem init_good {buf : Mem} {size : UInt64} (hs : size.toNat ≤ buf.size)
    (hb : buf.size < 576460752303423488) :
    ∃ e, Enc.init buf size = .ok e ∧ Good e ∧ e.buf = buf ∧ e.pos = 0 ∧ e.size = 8 * (size.toNat : Int) := by
  obtain ⟨e, he, hi, hbuf, hpos, hsize⟩ := enc_init_inv hs hb
  refine ⟨e, he, ⟨hi, by omega, ?_⟩, hbuf, hpos, hsize⟩
  rw [hpos]
  exact padded_aligned _ _ rfl

/-- the core of the functional proof for the byte-oriented helpers -/
theorem appendBytes_bits {e : Enc} (hg : Good e) {src : Mem} {n : UInt64}
    (hn : n.toNat < 576460752303423488) (hsrc : n.toNat ≤ src.size)
    (hroom : e.pos + 8 * (n.toNat : Int) ≤ e.size) :
    ∃ e', e.appendBytes src n = .ok e' ∧ Good e' ∧ e'.size = e.size ∧
      e'.pos = e.pos + 8 * (n.toNat : Int) ∧
      bitsFrom e'.buf 0 e'.pos.toNat
        = bitsFrom e.buf 0 e.pos.toNat ++ bytesToBits ((src.toList.take n.toNat).map UInt8.toNat) := by
  obtain ⟨hi, h0, hpad⟩ := hg
  have hlive : 0 ≤ e.pos ∧ e.pos ≤ e.size ∧ e.size ≤ 8 * (e.buf.size : Int) := by
    obtain ⟨_, h | h⟩ := hi
    · exact h
    · omega
  have hpos' : (e.pos + 8 * (n.toNat : Int)).toNat = e.pos.toNat + 8 * n.toNat := by omega
  obtain ⟨hb1, hb2, hb3⟩ := writeBytes_spec e.buf e.pos.toNat src n.toNat hsrc (by omega) hpad
  refine ⟨_, Enc.appendBytes_room hi h0 hn hsrc hroom, ⟨?_, h0, ?_⟩, rfl, rfl, ?_⟩
  · exact Enc.inv_step hi hb3 (by omega) hroom
  · simp only [hpos']; exact hb2
  · simp only [hpos']; exact hb1

/-- ONE HELPER CALL, functional: with room, the call succeeds, keeps the invariant, advances the
cursor by `need` bits, and the written bit string is the old one followed by `opBits op`. -/
theorem enc_step_bits {e : Enc} (hg : Good e) {op : EncOp} (hpre : op.Pre) (hbit : BitOk op)
    (hna : ∀ err, op ≠ .abort err) (hroom : e.pos + (op.need : Int) ≤ e.size) :
    ∃ e', e.run op = .ok e' ∧ Good e' ∧ e'.size = e.size ∧ e'.pos = e.pos + (op.need : Int) ∧
      bitsFrom e'.buf 0 e'.pos.toNat = bitsFrom e.buf 0 e.pos.toNat ++ opBits op := by
  have c1 : (1 : UInt64).toNat = 1 := rfl
  have c2 : (2 : UInt64).toNat = 2 := rfl
  have c4 : (4 : UInt64).toNat = 4 := rfl
  have c8 : (8 : UInt64).toNat = 8 := rfl
  have hg' := hg
  obtain ⟨hi, h0, hpad⟩ := hg'
  have hlive : 0 ≤ e.pos ∧ e.pos ≤ e.size ∧ e.size ≤ 8 * (e.buf.size : Int) := by
    obtain ⟨_, h | h⟩ := hi
    · exact h
    · omega
  -- the single-bit case, shared by `bit` and `bool`
  have hbitcase : ∀ v : Int, (v = 0 ∨ v = 1) → e.pos + 1 ≤ e.size →
      ∃ e', e.appendBit v = .ok e' ∧ Good e' ∧ e'.size = e.size ∧ e'.pos = e.pos + 1 ∧
        bitsFrom e'.buf 0 e'.pos.toNat = bitsFrom e.buf 0 e.pos.toNat ++ [v == 1] := by
    intro v hv hr
    have hv1 : v.toNat ≤ 1 := by omega
    have hp8 : e.pos.toNat / 8 < e.buf.size := by omega
    have hpos' : (e.pos + 1).toNat = e.pos.toNat + 1 := by omega
    obtain ⟨_, _, hp3, _, hp5⟩ := getBit_writeBit e.buf e.pos.toNat v.toNat hv1 hp8 hpad
    have hb := bitsFrom_writeBit e.buf e.pos.toNat v.toNat hv1 hp8 hpad
    have hveq : (v.toNat == 1) = (v == 1) := by
      rcases hv with rfl | rfl <;> rfl
    refine ⟨_, Enc.appendBit_room hi h0 hr (by omega) (by omega), ⟨?_, h0, ?_⟩, rfl, rfl, ?_⟩
    · exact Enc.inv_step hi hp5 (by omega) hr
    · simp only [hpos']; exact hp3
    · simp only [hpos']; rw [hb, hveq]
  cases op with
  | bit v => exact hbitcase v hbit hroom
  | bool b =>
    have := hbitcase (if b then 1 else 0) (by cases b <;> simp) hroom
    cases b <;> exact this
  | bytes src n =>
    have hr : e.pos + 8 * (n.toNat : Int) ≤ e.size := by
      have : ((EncOp.bytes src n).need : Int) = 8 * (n.toNat : Int) := by simp [EncOp.need]
      omega
    obtain ⟨e', h1, h2, h3, h4, h5⟩ := appendBytes_bits hg hpre.2 hpre.1 hr
    exact ⟨e', h1, h2, h3, by rw [h4]; simp [EncOp.need], h5⟩
  | u8 v =>
    obtain ⟨e', h1, h2, h3, h4, h5⟩ := appendBytes_bits (src := #[v]) (n := 1) hg (by rw [c1]; omega)
      (by rw [c1]; simp) (by rw [c1]; exact hroom)
    refine ⟨e', h1, h2, h3, by rw [h4, c1]; rfl, ?_⟩
    rw [h5, c1]
    simp [opBits, bytesToBits]
  | u16 v =>
    obtain ⟨e', h1, h2, h3, h4, h5⟩ := appendBytes_bits (src := bytesU16 v) (n := 2) hg (by rw [c2]; omega)
      (by rw [c2]; simp [bytesU16]) (by rw [c2]; exact hroom)
    refine ⟨e', by show e.appendU16 v = _; rw [Enc.appendU16_eq]; exact h1, h2, h3, by rw [h4, c2]; rfl, ?_⟩
    rw [h5, c2]
    have : (bytesU16 v).toList.take 2 = (bytesU16 v).toList := by simp [bytesU16]
    rw [this, bytesToBits_bytesU16]; rfl
  | u32 v =>
    obtain ⟨e', h1, h2, h3, h4, h5⟩ := appendBytes_bits (src := bytesU32 v) (n := 4) hg (by rw [c4]; omega)
      (by rw [c4]; simp [bytesU32]) (by rw [c4]; exact hroom)
    refine ⟨e', by show e.appendU32 v = _; rw [Enc.appendU32_eq]; exact h1, h2, h3, by rw [h4, c4]; rfl, ?_⟩
    rw [h5, c4]
    have : (bytesU32 v).toList.take 4 = (bytesU32 v).toList := by simp [bytesU32]
    rw [this, bytesToBits_bytesU32]; rfl
  | u64 v =>
    obtain ⟨e', h1, h2, h3, h4, h5⟩ := appendBytes_bits (src := bytesU64 v) (n := 8) hg (by rw [c8]; omega)
      (by rw [c8]; simp [bytesU64]) (by rw [c8]; exact hroom)
    refine ⟨e', by show e.appendU64 v = _; rw [Enc.appendU64_eq]; exact h1, h2, h3, by rw [h4, c8]; rfl, ?_⟩
    rw [h5, c8]
    have : (bytesU64 v).toList.take 8 = (bytesU64 v).toList := by simp [bytesU64]
    rw [this, bytesToBits_bytesU64]; rfl
  | i8 v =>
    obtain ⟨e', h1, h2, h3, h4, h5⟩ := appendBytes_bits (src := #[UInt8.ofNat (v.toUInt8.toNat + 128)]) (n := 1) hg
      (by rw [c1]; omega) (by rw [c1]; simp) (by rw [c1]; exact hroom)
    refine ⟨e', h1, h2, h3, by rw [h4, c1]; rfl, ?_⟩
    rw [h5, c1]
    have : ((#[UInt8.ofNat (v.toUInt8.toNat + 128)] : Mem).toList.take 1)
        = (#[UInt8.ofNat (v.toUInt8.toNat + 128)] : Mem).toList := by simp
    rw [this, bytesToBits_u8, i8_offset]; rfl
  | i16 v =>
    obtain ⟨e', h1, h2, h3, h4, h5⟩ := appendBytes_bits
      (src := bytesU16 (UInt16.ofNat (v.toUInt16.toNat + 32768))) (n := 2) hg (by rw [c2]; omega)
      (by rw [c2]; simp [bytesU16]) (by rw [c2]; exact hroom)
    refine ⟨e', by show e.appendU16 _ = _; rw [Enc.appendU16_eq]; exact h1, h2, h3, by rw [h4, c2]; rfl, ?_⟩
    rw [h5, c2]
    have : ∀ w : UInt16, (bytesU16 w).toList.take 2 = (bytesU16 w).toList := by intro w; simp [bytesU16]
    rw [this, bytesToBits_bytesU16, i16_offset]; rfl
  | i32 v =>
    obtain ⟨e', h1, h2, h3, h4, h5⟩ := appendBytes_bits
      (src := bytesU32 (UInt32.ofNat (v.toUInt32.toNat + 2147483648))) (n := 4) hg (by rw [c4]; omega)
      (by rw [c4]; simp [bytesU32]) (by rw [c4]; exact hroom)
    refine ⟨e', by show e.appendU32 _ = _; rw [Enc.appendU32_eq]; exact h1, h2, h3, by rw [h4, c4]; rfl, ?_⟩
    rw [h5, c4]
    have : ∀ w : UInt32, (bytesU32 w).toList.take 4 = (bytesU32 w).toList := by intro w; simp [bytesU32]
    rw [this, bytesToBits_bytesU32, i32_offset]; rfl
  | i64 v =>
    obtain ⟨e', h1, h2, h3, h4, h5⟩ := appendBytes_bits
      (src := bytesU64 (v.toUInt64 + 9223372036854775808)) (n := 8) hg (by rw [c8]; omega)
      (by rw [c8]; simp [bytesU64]) (by rw [c8]; exact hroom)
    refine ⟨e', by show e.appendU64 _ = _; rw [Enc.appendU64_eq]; exact h1, h2, h3, by rw [h4, c8]; rfl, ?_⟩
    rw [h5, c8]
    have : ∀ w : UInt64, (bytesU64 w).toList.take 8 = (bytesU64 w).toList := by intro w; simp [bytesU64]
    rw [this, bytesToBits_bytesU64, i64_offset]; rfl
  | nnbi v n =>
    have hn64 : n.toNat ≤ 64 := hpre
    have hr : e.pos + (n.toNat : Int) ≤ e.size := hroom
    have hrun := (Enc.nnbiLoop_spec v n hn64 n.toNat 0 e hi (by simp)).2.1 h0 hr
    have hpos' : (e.pos + (n.toNat : Int)).toNat = e.pos.toNat + n.toNat := by omega
    obtain ⟨hb1, hb2, hb3⟩ := writeNnbi_spec v n.toNat hn64 e.buf e.pos.toNat (by omega) hpad
    have hz : (0 : UInt64).toNat = 0 := rfl
    refine ⟨_, hrun, ⟨?_, h0, ?_⟩, rfl, rfl, ?_⟩
    · exact Enc.inv_step hi (by rw [hz]; exact hb3) (by omega) hr
    · simp only [hpos', hz]; exact hb2
    · simp only [hpos', hz]; exact hb1
  | abort err => exact absurd rfl (hna err)

/-- THE GENERAL LEMMA: the written bit string is the concatenation of the appended bit strings. -/
theorem enc_bits : ∀ (ops : List EncOp) (e : Enc), Good e → (∀ op ∈ ops, op.Pre) → (∀ op ∈ ops, BitOk op) →
    NoAbort ops → e.pos + (needs ops : Int) ≤ e.size →
    ∃ e', e.runAll ops = .ok e' ∧ Good e' ∧ e'.size = e.size ∧ e'.pos = e.pos + (needs ops : Int) ∧
      bitsFrom e'.buf 0 e'.pos.toNat = bitsFrom e.buf 0 e.pos.toNat ++ ops.flatMap opBits := by
  intro ops
  induction ops with
  | nil =>
    intro e hg _ _ _ _
    exact ⟨e, rfl, hg, rfl, by simp [needs], by simp⟩
  | cons op ops ih =>
    intro e hg hpre hbit hna hroom
    have hn : (needs (op :: ops) : Int) = (op.need : Int) + (needs ops : Int) := by simp [needs]
    have hnn : (0 : Int) ≤ (needs ops : Int) := Int.natCast_nonneg _
    obtain ⟨e1, h1, hg1, hs1, hp1, hb1⟩ := enc_step_bits hg (hpre op (by simp)) (hbit op (by simp))
      (hna op (by simp)) (by omega)
    obtain ⟨e2, h2, hg2, hs2, hp2, hb2⟩ := ih e1 hg1 (fun o ho => hpre o (by simp [ho]))
      (fun o ho => hbit o (by simp [ho])) (fun o ho => hna o (by simp [ho])) (by rw [hp1, hs1]; omega)
    refine ⟨e2, by simp only [Enc.runAll, bind, Except.bind, h1, h2], hg2, by rw [hs2, hs1],
      by rw [hp2, hp1]; omega, ?_⟩
    rw [hb2, hb1, List.flatMap_cons, List.append_assoc]

/-- FUNCTIONAL theorem for a generated encode function: if the bits fit, the function returns
`⌈bits/8⌉` and the first that many bytes of the destination are exactly
`packBits (concatenation of the appended bit strings)` - the Python encoder's `as_bytearray()`
of the same appends (zero padded to a byte boundary). -/
theorem encode_functional {buf : Mem} {size : UInt64} (hs : size.toNat ≤ buf.size)
    (hb : buf.size < 576460752303423488) {ops : List EncOp} (hpre : ∀ op ∈ ops, op.Pre)
    (hbit : ∀ op ∈ ops, BitOk op) (hna : NoAbort ops) (hfit : needs ops ≤ 8 * size.toNat) :
    ∃ out, encode buf size ops = .ok ((((needs ops + 7) / 8 : Nat) : Int), out) ∧ out.size = buf.size ∧
      (out.toList.take ((needs ops + 7) / 8)).map UInt8.toNat = packBits (ops.flatMap opBits) := by
  obtain ⟨e, he, hg, hbuf, hpos, hsize⟩ := init_good hs hb
  obtain ⟨e', hr, hg', hs', hp', hbits⟩ := enc_bits ops e hg hpre hbit hna (by omega)
  obtain ⟨hi', h0', hpad'⟩ := hg'
  have hres := Enc.getResult_live hi' h0'
  have hpn : e'.pos.toNat = needs ops := by omega
  have hsz' : e'.buf.size = buf.size := by
    obtain ⟨e'', hr'', _, hsz''⟩ := enc_no_fault ops e hg.1 hpre
    have : e'' = e' := by rw [hr] at hr''; exact (Except.ok.inj hr'').symm
    rw [← this, hsz'', hbuf]
  refine ⟨e'.buf, ?_, hsz', ?_⟩
  · simp only [encode, bind, Except.bind, he, hr, hres]
    congr 2
    omega
  · have hlive : e'.size ≤ 8 * (e'.buf.size : Int) := by
      obtain ⟨_, h | h⟩ := hi'
      · exact h.2.2
      · omega
    have := packBits_bitsFrom e'.buf e'.pos.toNat hpad' (by omega)
    rw [hpn] at this
    rw [this]
    rw [hpn, hpos] at hbits
    rw [hbits]
    simp [bitsFrom]

/-- the instance asked for: a fresh encoder with enough room, one
`encoder_append_non_negative_binary_integer(v, n)` (`n ≤ 64`), then `encoder_get_result`:
the result is `⌈n/8⌉` and the bytes are `packBits (natToBits n v)`. -/
theorem append_nnbi_functional {buf : Mem} {size : UInt64} (hs : size.toNat ≤ buf.size)
    (hb : buf.size < 576460752303423488) (v n : UInt64) (hn : n.toNat ≤ 64) (hfit : n.toNat ≤ 8 * size.toNat) :
    ∃ out, encode buf size [.nnbi v n] = .ok ((((n.toNat + 7) / 8 : Nat) : Int), out) ∧
      (out.toList.take ((n.toNat + 7) / 8)).map UInt8.toNat = packBits (natToBits n.toNat v.toNat) := by
  have hneeds : needs [EncOp.nnbi v n] = n.toNat := by simp [needs, EncOp.need]
  obtain ⟨out, h1, _, h3⟩ := encode_functional (ops := [.nnbi v n]) hs hb
    (by intro op h; simp only [List.mem_cons, List.mem_nil_iff, or_false] at h; subst h; exact hn)
    (by intro op h; simp only [List.mem_cons, List.mem_nil_iff, or_false] at h; subst h; trivial)
    (by intro op h err; simp only [List.mem_cons, List.mem_nil_iff, or_false] at h; subst h; exact fun h => by cases h)
    (by rw [hneeds]; exact hfit)
  rw [hneeds] at h1 h3
  exact ⟨out, h1, by simpa [opBits] using h3⟩

/-! ### decoder bridges -/

/-- `decoder_read_bit` returns the next bit of the input -/
theorem read_bit_functional {d : Dec} (hi : d.Inv) (h0 : 0 ≤ d.size) (h : d.pos + 1 ≤ d.size) :
    d.readBit = .ok (if getBit d.buf d.pos.toNat then 1 else 0, { d with pos := d.pos + 1 }) := by
  rw [Dec.readBit_ok hi h0 h, readBitVal_eq]

/-- `decoder_read_non_negative_binary_integer(n)` (`n ≤ 64`, enough data) returns `bitsToNat` of the
next `n` bits - `Uper.lean`'s `readNat` primitive. -/
theorem read_nnbi_functional {d : Dec} (hi : d.Inv) (h0 : 0 ≤ d.size) {n : UInt64} (hn : n.toNat ≤ 64)
    (h : d.pos + (n.toNat : Int) ≤ d.size) :
    ∃ v, d.readNnbi n = .ok (v, { d with pos := d.pos + (n.toNat : Int) }) ∧
      v.toNat = bitsToNat (bitsFrom d.buf d.pos.toNat n.toNat) :=
  ⟨_, Dec.readNnbi_ok hi h0 h, readNnbiVal_spec_le _ _ _ hn⟩

/-- for any number of bits: the low 64 bits of the big-endian number -/
theorem read_nnbi_functional_any {d : Dec} (hi : d.Inv) (h0 : 0 ≤ d.size) {n : UInt64}
    (h : d.pos + (n.toNat : Int) ≤ d.size) :
    ∃ v, d.readNnbi n = .ok (v, { d with pos := d.pos + (n.toNat : Int) }) ∧
      v.toNat = bitsToNat (bitsFrom d.buf d.pos.toNat n.toNat) % 2 ^ 64 :=
  ⟨_, Dec.readNnbi_ok hi h0 h, readNnbiVal_spec _ _ _⟩


/-! ### decoder bridges in terms of the next bits, and encoder/decoder round trips -/

theorem read_u8_of_bits {d : Dec} (hi : d.Inv) (h0 : 0 ≤ d.size) (h : d.pos + 8 ≤ d.size) (v : UInt8)
    (hb : bitsFrom d.buf d.pos.toNat 8 = natToBits 8 v.toNat) :
    d.readU8 = .ok (v, { d with pos := d.pos + 8 }) := by
  rw [Dec.readU8_ok hi h0 h, readU8_of_bits _ _ _ v (by simp) hb]

theorem read_u16_of_bits {d : Dec} (hi : d.Inv) (h0 : 0 ≤ d.size) (h : d.pos + 16 ≤ d.size) (v : UInt16)
    {junk : Mem} (hj : junk.size = 2) (hb : bitsFrom d.buf d.pos.toNat 16 = natToBits 16 v.toNat) :
    d.readU16 junk = .ok (v, { d with pos := d.pos + 16 }) := by
  rw [Dec.readU16_ok hi h0 h hj, readU16_of_bits _ _ _ v (by omega) hb]

theorem read_u32_of_bits {d : Dec} (hi : d.Inv) (h0 : 0 ≤ d.size) (h : d.pos + 32 ≤ d.size) (v : UInt32)
    {junk : Mem} (hj : junk.size = 4) (hb : bitsFrom d.buf d.pos.toNat 32 = natToBits 32 v.toNat) :
    d.readU32 junk = .ok (v, { d with pos := d.pos + 32 }) := by
  rw [Dec.readU32_ok hi h0 h hj, readU32_of_bits _ _ _ v (by omega) hb]

theorem read_u64_of_bits {d : Dec} (hi : d.Inv) (h0 : 0 ≤ d.size) (h : d.pos + 64 ≤ d.size) (v : UInt64)
    {junk : Mem} (hj : junk.size = 8) (hb : bitsFrom d.buf d.pos.toNat 64 = natToBits 64 v.toNat) :
    d.readU64 junk = .ok (v, { d with pos := d.pos + 64 }) := by
  rw [Dec.readU64_ok hi h0 h hj, readU64_of_bits _ _ _ v (by omega) hb]

/-- the signed helpers undo the offset: reading the offset-binary bits of `v` gives back `v` -/
theorem read_i8_of_bits {d : Dec} (hi : d.Inv) (h0 : 0 ≤ d.size) (h : d.pos + 8 ≤ d.size) (v : Int8)
    (hb : bitsFrom d.buf d.pos.toNat 8 = natToBits 8 (v.toInt + 128).toNat) :
    d.readI8 = .ok (v, { d with pos := d.pos + 8 }) := by
  unfold Dec.readI8
  rw [read_u8_of_bits hi h0 h (UInt8.ofNat (v.toUInt8.toNat + 128)) (by rw [i8_offset]; exact hb)]
  simp only [bind, Except.bind]
  rw [i8_offset_roundtrip]

theorem read_i16_of_bits {d : Dec} (hi : d.Inv) (h0 : 0 ≤ d.size) (h : d.pos + 16 ≤ d.size) (v : Int16)
    {junk : Mem} (hj : junk.size = 2)
    (hb : bitsFrom d.buf d.pos.toNat 16 = natToBits 16 (v.toInt + 32768).toNat) :
    d.readI16 junk = .ok (v, { d with pos := d.pos + 16 }) := by
  unfold Dec.readI16
  rw [read_u16_of_bits hi h0 h (UInt16.ofNat (v.toUInt16.toNat + 32768)) hj (by rw [i16_offset]; exact hb)]
  simp only [bind, Except.bind]
  rw [i16_offset_roundtrip]

theorem read_i32_of_bits {d : Dec} (hi : d.Inv) (h0 : 0 ≤ d.size) (h : d.pos + 32 ≤ d.size) (v : Int32)
    {junk : Mem} (hj : junk.size = 4)
    (hb : bitsFrom d.buf d.pos.toNat 32 = natToBits 32 (v.toInt + 2147483648).toNat) :
    d.readI32 junk = .ok (v, { d with pos := d.pos + 32 }) := by
  unfold Dec.readI32
  rw [read_u32_of_bits hi h0 h (UInt32.ofNat (v.toUInt32.toNat + 2147483648)) hj (by rw [i32_offset]; exact hb)]
  simp only [bind, Except.bind]
  rw [i32_offset_roundtrip]

theorem read_i64_of_bits {d : Dec} (hi : d.Inv) (h0 : 0 ≤ d.size) (h : d.pos + 64 ≤ d.size) (v : Int64)
    {junk : Mem} (hj : junk.size = 8)
    (hb : bitsFrom d.buf d.pos.toNat 64 = natToBits 64 (v.toInt + 9223372036854775808).toNat) :
    d.readI64 junk = .ok (v, { d with pos := d.pos + 64 }) := by
  unfold Dec.readI64
  rw [read_u64_of_bits hi h0 h (v.toUInt64 + 9223372036854775808) hj (by rw [i64_offset]; exact hb)]
  simp only [bind, Except.bind]
  rw [i64_offset_roundtrip]

theorem read_nnbi_of_bits {d : Dec} (hi : d.Inv) (h0 : 0 ≤ d.size) {n : UInt64} (hn : n.toNat ≤ 64)
    (h : d.pos + (n.toNat : Int) ≤ d.size) {x : Nat} (hx : x < 2 ^ n.toNat)
    (hb : bitsFrom d.buf d.pos.toNat n.toNat = natToBits n.toNat x) :
    d.readNnbi n = .ok (UInt64.ofNat x, { d with pos := d.pos + (n.toNat : Int) }) := by
  rw [Dec.readNnbi_ok hi h0 h]
  have := readNnbiVal_of_bits d.buf n.toNat d.pos.toNat x hn hx hb
  have hv : readNnbiVal d.buf n.toNat 0 d.pos.toNat = UInt64.ofNat x := by
    apply UInt64.toNat_inj.1
    rw [this, UInt64.toNat_ofNat']
    have : 2 ^ n.toNat ≤ 2 ^ 64 := Nat.pow_le_pow_right (by decide) hn
    omega
  rw [hv]

theorem read_bool_of_bits {d : Dec} (hi : d.Inv) (h0 : 0 ≤ d.size) (h : d.pos + 1 ≤ d.size) (b : Bool)
    (hb : bitsFrom d.buf d.pos.toNat 1 = [b]) :
    d.readBool = .ok (b, { d with pos := d.pos + 1 }) := by
  unfold Dec.readBool
  rw [read_bit_functional hi h0 h]
  have : getBit d.buf d.pos.toNat = b := by simpa [bitsFrom] using hb
  rw [this]
  cases b <;> rfl

/-- after a helper call the bits at the old cursor position are the appended bit string -/
theorem enc_step_bits_at {e : Enc} (hg : Good e) {op : EncOp} (hpre : op.Pre) (hbit : BitOk op)
    (hna : ∀ err, op ≠ .abort err) (hroom : e.pos + (op.need : Int) ≤ e.size) :
    ∃ e', e.run op = .ok e' ∧ Good e' ∧ e'.size = e.size ∧ e'.pos = e.pos + (op.need : Int) ∧
      (opBits op).length = op.need ∧ bitsFrom e'.buf e.pos.toNat op.need = opBits op := by
  obtain ⟨e', h1, h2, h3, h4, h5⟩ := enc_step_bits hg hpre hbit hna hroom
  have h0 : 0 ≤ e.pos := by
    obtain ⟨⟨_, h | h⟩, hs, _⟩ := hg <;> omega
  have hp : e'.pos.toNat = e.pos.toNat + op.need := by omega
  rw [hp] at h5
  have hlen : (opBits op).length = op.need := by
    have := congrArg List.length h5
    simp only [bitsFrom_length, List.length_append] at this
    omega
  exact ⟨e', h1, h2, h3, h4, hlen, bitsFrom_at_of_append _ _ _ _ _ (by simp) h5⟩

/-- a decoder looking at the encoder's buffer, positioned where the encoder was before the call -/
structure Follows (d : Dec) (e e' : Enc) : Prop where
  inv : d.Inv
  buf : d.buf = e'.buf
  pos : d.pos = e.pos
  size : e'.pos ≤ d.size

theorem Follows.facts {e e' : Enc} {d : Dec} (hg : Good e) (hf : Follows d e e') {n : Nat}
    (hp : e'.pos = e.pos + (n : Int)) :
    0 ≤ d.size ∧ d.pos + (n : Int) ≤ d.size ∧ d.pos.toNat = e.pos.toNat := by
  have h0 : 0 ≤ e.pos := by
    obtain ⟨⟨_, h | h⟩, hs, _⟩ := hg <;> omega
  have := hf.size
  have := hf.pos
  refine ⟨by omega, by omega, by rw [hf.pos]⟩

/-- ROUND TRIP for every encoder/decoder helper pair (at ANY bit position, after ANY prefix):
what `encoder_append_X(v)` wrote, `decoder_read_X` reads back as `v` - including the signed
helpers' offset trick (`+ 2^(N-1)` on encoding, `- 2^(N-1)` on decoding). -/
theorem roundtrip_u8 {e : Enc} (hg : Good e) (hroom : e.pos + 8 ≤ e.size) (v : UInt8) :
    ∃ e', e.appendU8 v = .ok e' ∧ Good e' ∧ ∀ d, Follows d e e' →
      d.readU8 = .ok (v, { d with pos := d.pos + 8 }) := by
  obtain ⟨e', h1, h2, _, h4, _, h6⟩ := enc_step_bits_at hg (op := .u8 v) trivial trivial (fun _ h => by cases h) hroom
  refine ⟨e', h1, h2, fun d hf => ?_⟩
  obtain ⟨f0, f1, f2⟩ := hf.facts hg h4
  exact read_u8_of_bits hf.inv f0 f1 v (by rw [hf.buf, f2]; exact h6)

theorem roundtrip_u16 {e : Enc} (hg : Good e) (hroom : e.pos + 16 ≤ e.size) (v : UInt16) :
    ∃ e', e.appendU16 v = .ok e' ∧ Good e' ∧ ∀ (d : Dec) (junk : Mem), Follows d e e' → junk.size = 2 →
      d.readU16 junk = .ok (v, { d with pos := d.pos + 16 }) := by
  obtain ⟨e', h1, h2, _, h4, _, h6⟩ := enc_step_bits_at hg (op := .u16 v) trivial trivial (fun _ h => by cases h) hroom
  refine ⟨e', h1, h2, fun d junk hf hj => ?_⟩
  obtain ⟨f0, f1, f2⟩ := hf.facts hg h4
  exact read_u16_of_bits hf.inv f0 f1 v hj (by rw [hf.buf, f2]; exact h6)

theorem roundtrip_u32 {e : Enc} (hg : Good e) (hroom : e.pos + 32 ≤ e.size) (v : UInt32) :
    ∃ e', e.appendU32 v = .ok e' ∧ Good e' ∧ ∀ (d : Dec) (junk : Mem), Follows d e e' → junk.size = 4 →
      d.readU32 junk = .ok (v, { d with pos := d.pos + 32 }) := by
  obtain ⟨e', h1, h2, _, h4, _, h6⟩ := enc_step_bits_at hg (op := .u32 v) trivial trivial (fun _ h => by cases h) hroom
  refine ⟨e', h1, h2, fun d junk hf hj => ?_⟩
  obtain ⟨f0, f1, f2⟩ := hf.facts hg h4
  exact read_u32_of_bits hf.inv f0 f1 v hj (by rw [hf.buf, f2]; exact h6)

theorem roundtrip_u64 {e : Enc} (hg : Good e) (hroom : e.pos + 64 ≤ e.size) (v : UInt64) :
    ∃ e', e.appendU64 v = .ok e' ∧ Good e' ∧ ∀ (d : Dec) (junk : Mem), Follows d e e' → junk.size = 8 →
      d.readU64 junk = .ok (v, { d with pos := d.pos + 64 }) := by
  obtain ⟨e', h1, h2, _, h4, _, h6⟩ := enc_step_bits_at hg (op := .u64 v) trivial trivial (fun _ h => by cases h) hroom
  refine ⟨e', h1, h2, fun d junk hf hj => ?_⟩
  obtain ⟨f0, f1, f2⟩ := hf.facts hg h4
  exact read_u64_of_bits hf.inv f0 f1 v hj (by rw [hf.buf, f2]; exact h6)

theorem roundtrip_i8 {e : Enc} (hg : Good e) (hroom : e.pos + 8 ≤ e.size) (v : Int8) :
    ∃ e', e.appendI8 v = .ok e' ∧ Good e' ∧ ∀ (d : Dec), Follows d e e' →
      d.readI8 = .ok (v, { d with pos := d.pos + 8 }) := by
  obtain ⟨e', h1, h2, _, h4, _, h6⟩ := enc_step_bits_at hg (op := .i8 v) trivial trivial (fun _ h => by cases h) hroom
  refine ⟨e', h1, h2, fun d hf => ?_⟩
  obtain ⟨f0, f1, f2⟩ := hf.facts hg h4
  exact read_i8_of_bits hf.inv f0 f1 v (by rw [hf.buf, f2]; exact h6)

theorem roundtrip_i16 {e : Enc} (hg : Good e) (hroom : e.pos + 16 ≤ e.size) (v : Int16) :
    ∃ e', e.appendI16 v = .ok e' ∧ Good e' ∧ ∀ (d : Dec) (junk : Mem), Follows d e e' → junk.size = 2 →
      d.readI16 junk = .ok (v, { d with pos := d.pos + 16 }) := by
  obtain ⟨e', h1, h2, _, h4, _, h6⟩ := enc_step_bits_at hg (op := .i16 v) trivial trivial (fun _ h => by cases h) hroom
  refine ⟨e', h1, h2, fun d junk hf hj => ?_⟩
  obtain ⟨f0, f1, f2⟩ := hf.facts hg h4
  exact read_i16_of_bits hf.inv f0 f1 v hj (by rw [hf.buf, f2]; exact h6)

theorem roundtrip_i32 {e : Enc} (hg : Good e) (hroom : e.pos + 32 ≤ e.size) (v : Int32) :
    ∃ e', e.appendI32 v = .ok e' ∧ Good e' ∧ ∀ (d : Dec) (junk : Mem), Follows d e e' → junk.size = 4 →
      d.readI32 junk = .ok (v, { d with pos := d.pos + 32 }) := by
  obtain ⟨e', h1, h2, _, h4, _, h6⟩ := enc_step_bits_at hg (op := .i32 v) trivial trivial (fun _ h => by cases h) hroom
  refine ⟨e', h1, h2, fun d junk hf hj => ?_⟩
  obtain ⟨f0, f1, f2⟩ := hf.facts hg h4
  exact read_i32_of_bits hf.inv f0 f1 v hj (by rw [hf.buf, f2]; exact h6)

theorem roundtrip_i64 {e : Enc} (hg : Good e) (hroom : e.pos + 64 ≤ e.size) (v : Int64) :
    ∃ e', e.appendI64 v = .ok e' ∧ Good e' ∧ ∀ (d : Dec) (junk : Mem), Follows d e e' → junk.size = 8 →
      d.readI64 junk = .ok (v, { d with pos := d.pos + 64 }) := by
  obtain ⟨e', h1, h2, _, h4, _, h6⟩ := enc_step_bits_at hg (op := .i64 v) trivial trivial (fun _ h => by cases h) hroom
  refine ⟨e', h1, h2, fun d junk hf hj => ?_⟩
  obtain ⟨f0, f1, f2⟩ := hf.facts hg h4
  exact read_i64_of_bits hf.inv f0 f1 v hj (by rw [hf.buf, f2]; exact h6)

theorem roundtrip_bool {e : Enc} (hg : Good e) (hroom : e.pos + 1 ≤ e.size) (b : Bool) :
    ∃ e', e.appendBool b = .ok e' ∧ Good e' ∧ ∀ d, Follows d e e' →
      d.readBool = .ok (b, { d with pos := d.pos + 1 }) := by
  obtain ⟨e', h1, h2, _, h4, _, h6⟩ := enc_step_bits_at hg (op := .bool b) trivial trivial (fun _ h => by cases h) hroom
  refine ⟨e', h1, h2, fun d hf => ?_⟩
  obtain ⟨f0, f1, f2⟩ := hf.facts hg h4
  exact read_bool_of_bits hf.inv f0 f1 b (by rw [hf.buf, f2]; exact h6)

/-- `append_non_negative_binary_integer(value, n)` / `read_non_negative_binary_integer(n)`:
the low `n` bits of `value` come back (all of it when `value < 2^n`, which generated code ensures) -/
theorem roundtrip_nnbi {e : Enc} (hg : Good e) (value n : UInt64) (hn : n.toNat ≤ 64)
    (hroom : e.pos + (n.toNat : Int) ≤ e.size) :
    ∃ e', e.appendNnbi value n = .ok e' ∧ Good e' ∧ ∀ d, Follows d e e' →
      d.readNnbi n = .ok (UInt64.ofNat (value.toNat % 2 ^ n.toNat), { d with pos := d.pos + (n.toNat : Int) }) := by
  obtain ⟨e', h1, h2, _, h4, _, h6⟩ := enc_step_bits_at hg (op := .nnbi value n) hn trivial (fun _ h => by cases h) hroom
  refine ⟨e', h1, h2, fun d hf => ?_⟩
  obtain ⟨f0, f1, f2⟩ := hf.facts hg h4
  refine read_nnbi_of_bits hf.inv f0 hn f1 (Nat.mod_lt _ (Nat.two_pow_pos _)) ?_
  rw [hf.buf, f2, natToBits_mod]
  exact h6



/-! ### whole-sequence round trip -/

theorem bytesToBits_length (L : List Nat) : (bytesToBits L).length = 8 * L.length := by
  induction L with
  | nil => rfl
  | cons a L ih =>
    show (natToBits 8 a ++ bytesToBits L).length = _
    rw [List.length_append, ih, natToBits_length, List.length_cons]; omega

theorem opBits_length {op : EncOp} (hpre : op.Pre) : (opBits op).length = op.need := by
  cases op with
  | bytes src n =>
    have h1 := hpre.1
    show (bytesToBits _).length = 8 * n.toNat
    rw [bytesToBits_length, List.length_map, List.length_take]
    have : src.toList.length = src.size := by simp
    omega
  | _ => simp [opBits, EncOp.need]

/-- the groups of 8 bits of `bytesToBits` -/
theorem bits_groups (m : Mem) : ∀ (L : List Nat) (p : Nat),
    bitsFrom m p (8 * L.length) = bytesToBits L → ∀ k (hk : k < L.length), bitsFrom m (p + 8 * k) 8 = natToBits 8 L[k] := by
  intro L
  induction L with
  | nil => intro p _ k hk; simp at hk
  | cons a L ih =>
    intro p h k hk
    have h8 : 8 * (a :: L).length = 8 + 8 * L.length := by simp; omega
    rw [h8, bitsFrom_add] at h
    have h' : bitsFrom m p 8 ++ bitsFrom m (p + 8) (8 * L.length) = natToBits 8 a ++ bytesToBits L := h
    obtain ⟨ha, hL⟩ := List.append_inj h' (by simp)
    cases k with
    | zero => simpa using ha
    | succ k =>
      have := ih (p + 8) hL k (by simpa using hk)
      have e : p + 8 + 8 * k = p + 8 * (k + 1) := by omega
      rw [e] at this
      simpa using this

theorem natToBits8_inj {a b : Nat} (ha : a < 256) (hb : b < 256) (h : natToBits 8 a = natToBits 8 b) : a = b := by
  have h1 := bitsToNat_natToBits_of_lt (w := 8) (n := a) (by omega)
  have h2 := bitsToNat_natToBits_of_lt (w := 8) (n := b) (by omega)
  rw [h] at h1
  omega

/-- `decoder_read_bytes` reads back what `encoder_append_bytes` wrote -/
theorem read_bytes_of_bits {d : Dec} (hi : d.Inv) (h0 : 0 ≤ d.size) {n : UInt64}
    (hn : n.toNat < 576460752303423488) (h : d.pos + 8 * (n.toNat : Int) ≤ d.size) (src : Mem)
    (hsrc : n.toNat ≤ src.size) (fill : UInt8)
    (hb : bitsFrom d.buf d.pos.toNat (8 * n.toNat) = bytesToBits ((src.toList.take n.toNat).map UInt8.toNat)) :
    d.readBytes (Array.replicate n.toNat fill) n
      = .ok (src.extract 0 n.toNat, { d with pos := d.pos + 8 * (n.toNat : Int) }) := by
  rw [Dec.readBytes_ok hi h0 hn (by simp) h]
  obtain ⟨h1, _, h3⟩ := readBytesVal_spec d.buf d.pos.toNat (Array.replicate n.toNat fill) n.toNat (by simp)
  have hlen : ((src.toList.take n.toNat).map UInt8.toNat).length = n.toNat := by
    rw [List.length_map, List.length_take]
    have : src.toList.length = src.size := by simp
    omega
  have hg := bits_groups d.buf ((src.toList.take n.toNat).map UInt8.toNat) d.pos.toNat (by rw [hlen]; exact hb)
  have hm : readBytesVal d.buf d.pos.toNat (Array.replicate n.toNat fill) n.toNat = src.extract 0 n.toNat := by
    apply Array.ext
    · rw [h3]; simp; omega
    · intro i hi1 hi2
      have hin : i < n.toNat := by rw [h3] at hi1; simpa using hi1
      have e1 := h1 i hin
      have e2 := hg i (by rw [hlen]; exact hin)
      rw [e2] at e1
      have hsi : i < src.size := by omega
      have e3 : ((src.toList.take n.toNat).map UInt8.toNat)[i]'(by rw [hlen]; exact hin) = src[i].toNat := by
        simp
      rw [e3] at e1
      have := natToBits8_inj (UInt8.toNat_lt _) (UInt8.toNat_lt _) e1
      have hx : (readBytesVal d.buf d.pos.toNat (Array.replicate n.toNat fill) n.toNat)[i]! = src[i] :=
        UInt8.toNat_inj.1 this
      rw [getElem!_pos _ i hi1] at hx
      rw [hx]; simp
  rw [hm]


/-- the decoder helper call that generated code pairs with an encoder helper call -/
def decOf : EncOp → DecOp
  | .bit _ => .bit
  | .bool _ => .bool
  | .bytes _ n => .bytes (Array.replicate n.toNat 0xaa) n
  | .u8 _ => .u8
  | .u16 _ => .u16 (Array.replicate 2 0)
  | .u32 _ => .u32 (Array.replicate 4 0)
  | .u64 _ => .u64 (Array.replicate 8 0)
  | .i8 _ => .i8
  | .i16 _ => .i16 (Array.replicate 2 0)
  | .i32 _ => .i32 (Array.replicate 4 0)
  | .i64 _ => .i64 (Array.replicate 8 0)
  | .nnbi _ n => .nnbi n
  | .abort err => .abort err

/-- the value the decoder must hand back -/
def expected : EncOp → DecVal
  | .bit v => .int v
  | .bool b => .int (if b then 1 else 0)
  | .bytes src n => .mem (src.extract 0 n.toNat)
  | .u8 v => .int v.toNat
  | .u16 v => .int v.toNat
  | .u32 v => .int v.toNat
  | .u64 v => .int v.toNat
  | .i8 v => .int v.toInt
  | .i16 v => .int v.toInt
  | .i32 v => .int v.toInt
  | .i64 v => .int v.toInt
  | .nnbi v n => .int ((v.toNat % 2 ^ n.toNat : Nat) : Int)
  | .abort _ => .unit

theorem dec_step_of_bits {d : Dec} (hi : d.Inv) (h0 : 0 ≤ d.size) {op : EncOp} (hpre : op.Pre)
    (hbit : BitOk op) (hna : ∀ err, op ≠ .abort err) (hroom : d.pos + (op.need : Int) ≤ d.size)
    (hb : bitsFrom d.buf d.pos.toNat op.need = opBits op) :
    d.run (decOf op) = .ok (expected op, { d with pos := d.pos + (op.need : Int) }) := by
  cases op with
  | bit v =>
    show (do let (v, d) ← d.readBit; (.ok (DecVal.int v, d) : C _)) = _
    rw [read_bit_functional hi h0 hroom]
    have hg : getBit d.buf d.pos.toNat = (v == 1) := by simpa [bitsFrom, opBits, EncOp.need] using hb
    rw [hg]
    rcases hbit with rfl | rfl <;> rfl
  | bool b =>
    show (do let (v, d) ← d.readBool; (.ok (DecVal.int (if v then 1 else 0), d) : C _)) = _
    rw [read_bool_of_bits hi h0 hroom b hb]
    rfl
  | bytes src n =>
    show (do let (m, d) ← d.readBytes (Array.replicate n.toNat 0xaa) n; (.ok (DecVal.mem m, d) : C _)) = _
    have hr : d.pos + 8 * (n.toNat : Int) ≤ d.size := by
      have : ((EncOp.bytes src n).need : Int) = 8 * (n.toNat : Int) := by simp [EncOp.need]
      omega
    rw [read_bytes_of_bits hi h0 hpre.2 hr src hpre.1 0xaa hb]
    have hc : ((EncOp.bytes src n).need : Int) = 8 * (n.toNat : Int) := by simp [EncOp.need]
    rw [hc]
    rfl
  | u8 v =>
    show (do let (v, d) ← d.readU8; (.ok (DecVal.int v.toNat, d) : C _)) = _
    rw [read_u8_of_bits hi h0 hroom v hb]; rfl
  | u16 v =>
    show (do let (v, d) ← d.readU16 (Array.replicate 2 0); (.ok (DecVal.int v.toNat, d) : C _)) = _
    rw [read_u16_of_bits hi h0 hroom v (by simp) hb]; rfl
  | u32 v =>
    show (do let (v, d) ← d.readU32 (Array.replicate 4 0); (.ok (DecVal.int v.toNat, d) : C _)) = _
    rw [read_u32_of_bits hi h0 hroom v (by simp) hb]; rfl
  | u64 v =>
    show (do let (v, d) ← d.readU64 (Array.replicate 8 0); (.ok (DecVal.int v.toNat, d) : C _)) = _
    rw [read_u64_of_bits hi h0 hroom v (by simp) hb]; rfl
  | i8 v =>
    show (do let (v, d) ← d.readI8; (.ok (DecVal.int v.toInt, d) : C _)) = _
    rw [read_i8_of_bits hi h0 hroom v hb]; rfl
  | i16 v =>
    show (do let (v, d) ← d.readI16 (Array.replicate 2 0); (.ok (DecVal.int v.toInt, d) : C _)) = _
    rw [read_i16_of_bits hi h0 hroom v (by simp) hb]; rfl
  | i32 v =>
    show (do let (v, d) ← d.readI32 (Array.replicate 4 0); (.ok (DecVal.int v.toInt, d) : C _)) = _
    rw [read_i32_of_bits hi h0 hroom v (by simp) hb]; rfl
  | i64 v =>
    show (do let (v, d) ← d.readI64 (Array.replicate 8 0); (.ok (DecVal.int v.toInt, d) : C _)) = _
    rw [read_i64_of_bits hi h0 hroom v (by simp) hb]; rfl
  | nnbi v n =>
    show (do let (v, d) ← d.readNnbi n; (.ok (DecVal.int v.toNat, d) : C _)) = _
    have hn : n.toNat ≤ 64 := hpre
    have hb' : bitsFrom d.buf d.pos.toNat n.toNat = natToBits n.toNat (v.toNat % 2 ^ n.toNat) := by
      rw [natToBits_mod]; exact hb
    rw [read_nnbi_of_bits hi h0 hn hroom (Nat.mod_lt _ (Nat.two_pow_pos _)) hb']
    have h64 : 2 ^ n.toNat ≤ 2 ^ 64 := Nat.pow_le_pow_right (by decide) hn
    have hlt := Nat.mod_lt v.toNat (Nat.two_pow_pos n.toNat)
    have : (UInt64.ofNat (v.toNat % 2 ^ n.toNat)).toNat = v.toNat % 2 ^ n.toNat := by
      rw [UInt64.toNat_ofNat']; omega
    simp only [bind, Except.bind, expected, this]
    rfl
  | abort err => exact absurd rfl (hna err)

/-- a decoder whose next bits are the concatenation of the bit strings appended by `ops` reads back
all the values -/
theorem dec_seq_of_bits : ∀ (ops : List EncOp) (d : Dec), d.Inv → 0 ≤ d.size → (∀ op ∈ ops, op.Pre) →
    (∀ op ∈ ops, BitOk op) → NoAbort ops → d.pos + (needs ops : Int) ≤ d.size →
    bitsFrom d.buf d.pos.toNat (needs ops) = ops.flatMap opBits →
    d.runAll (ops.map decOf) = .ok (ops.map expected, { d with pos := d.pos + (needs ops : Int) }) := by
  intro ops
  induction ops with
  | nil => intro d _ _ _ _ _ _ _; simp [Dec.runAll, needs]
  | cons op ops ih =>
    intro d hi h0 hpre hbit hna hroom hb
    have hn : needs (op :: ops) = op.need + needs ops := by simp [needs]
    have hnn : (0 : Int) ≤ (needs ops : Int) := Int.natCast_nonneg _
    have hp0 : 0 ≤ d.pos := by obtain ⟨_, h | h⟩ := hi <;> omega
    rw [hn, bitsFrom_add, List.flatMap_cons] at hb
    obtain ⟨hb1, hb2⟩ := List.append_inj hb (by rw [bitsFrom_length, opBits_length (hpre op (by simp))])
    have hstep := dec_step_of_bits hi h0 (hpre op (by simp)) (hbit op (by simp)) (hna op (by simp))
      (by rw [hn] at hroom; omega) hb1
    have hi1 : ({ d with pos := d.pos + (op.need : Int) } : Dec).Inv :=
      Dec.inv_step hi (by omega) (by rw [hn] at hroom; omega)
    have hpn : (d.pos + (op.need : Int)).toNat = d.pos.toNat + op.need := by omega
    have hrest := ih _ hi1 h0 (fun o ho => hpre o (by simp [ho])) (fun o ho => hbit o (by simp [ho]))
      (fun o ho => hna o (by simp [ho])) (by simp only []; rw [hn] at hroom; omega)
      (by simp only [hpn]; exact hb2)
    simp only [List.map_cons, Dec.runAll, bind, Except.bind, hstep, hrest]
    congr 3
    rw [hn]; omega

/-- END-TO-END ROUND TRIP of the helper library: any admissible sequence of encoder helper calls that
fits the destination, followed by the matching sequence of decoder helper calls on the produced bytes,
hands back exactly the encoded values, and both sides report the same number of bytes. -/
theorem roundtrip {buf : Mem} {size : UInt64} (hs : size.toNat ≤ buf.size)
    (hb : buf.size < 576460752303423488) {ops : List EncOp} (hpre : ∀ op ∈ ops, op.Pre)
    (hbit : ∀ op ∈ ops, BitOk op) (hna : NoAbort ops) (hfit : needs ops ≤ 8 * size.toNat) :
    ∃ r out, encode buf size ops = .ok (r, out) ∧
      decode out size (ops.map decOf) = .ok (r, ops.map expected) := by
  obtain ⟨e, he, hg, hbuf, hpos, hsize⟩ := init_good hs hb
  obtain ⟨e', hr, hg', hs', hp', hbits⟩ := enc_bits ops e hg hpre hbit hna (by omega)
  obtain ⟨hi', h0', hpad'⟩ := hg'
  have hres := Enc.getResult_live hi' h0'
  have hpn : e'.pos.toNat = needs ops := by omega
  have hsz' : e'.buf.size = buf.size := by
    obtain ⟨e'', hr'', _, hsz''⟩ := enc_no_fault ops e hg.1 hpre
    have : e'' = e' := by rw [hr] at hr''; exact (Except.ok.inj hr'').symm
    rw [← this, hsz'', hbuf]
  refine ⟨(e'.pos + 7) / 8, e'.buf, by simp only [encode, bind, Except.bind, he, hr, hres], ?_⟩
  obtain ⟨d, hd, hdi, hdbuf, hdpos, hdsize⟩ := dec_init_inv (buf := e'.buf) (size := size) (by omega) (by omega)
  have hbits' : bitsFrom d.buf d.pos.toNat (needs ops) = ops.flatMap opBits := by
    rw [hpn, hpos] at hbits
    rw [hdbuf, hdpos]
    simpa [bitsFrom] using hbits
  have hrun := dec_seq_of_bits ops d hdi (by omega) hpre hbit hna (by omega) hbits'
  have hi2 : ({ d with pos := d.pos + (needs ops : Int) } : Dec).Inv := Dec.inv_step hdi (by omega) (by omega)
  have hres2 := Dec.getResult_live hi2 (by show 0 ≤ d.size; omega)
  simp only [decode, bind, Except.bind, hd, hrun, hres2]
  congr 2
  rw [hp', hpos, hdpos]


/-! ### non-vacuity of the functional theorems -/

example : packBits ([EncOp.bit 1, .nnbi 5 3, .u8 255].flatMap opBits) = [0xdf, 0xf0] := by decide
example : opBits (.i8 (-128)) = natToBits 8 0 := rfl
example : opBits (.i16 32767) = natToBits 16 65535 := rfl

example : decode #[0xdf, 0xf0] 2 ([EncOp.bit 1, .nnbi 5 3, .u8 255].map decOf)
    = .ok (2, [EncOp.bit 1, .nnbi 5 3, .u8 255].map expected) := rfl
example : encode (Array.replicate 5 0) 5 [.bool true, .i16 (-2), .bytes #[1, 2, 3] 2]
    = .ok (5, #[0xbf, 0xff, 0x00, 0x81, 0x00]) := rfl
example : decode #[0xbf, 0xff, 0x00, 0x81, 0x00] 5 ([EncOp.bool true, .i16 (-2), .bytes #[1, 2, 3] 2].map decOf)
    = .ok (5, [.int 1, .int (-2), .mem #[1, 2]]) := rfl

example : decode #[0xff] 1 [.u8, .bit] = .ok (-500, [.int 255, .int 0]) := rfl
example : dneeds [.u8, .bit] = 9 := rfl

end Asn1.C09
