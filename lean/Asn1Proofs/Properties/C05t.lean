import Asn1Proofs.Lemmas.Bridge
/-
  C05 — TRANSLATOR TIE for the PER bit buffer.  `Asn1.Translated.per_Encoder_*` are regenerated from the Python class
  `per.Encoder` (/repo/asn1tools/codecs/per.py: a big integer `value`, a bit count, and 4096-bit `chunks`) by
  harness/py2lean.py on every run.  The theorems say: under the representation invariant `EncInv` (established by
  `Encoder()` and preserved by every method) each method appends to the abstract bit string `absBits` exactly the bits of
  the corresponding primitive of the UPER / PER code models (`natToBits`, `Per.alignBits`, `Uper.lenDet`, `Uper.encNsnnwn`,
  `Uper.encNsLength`, `Per.encCwn`, `Uper.encUnconstrained`) about which `uper_refines` / `per_refines` (C05) are proved —
  for ALL buffer states (any number of flushed chunks), values and widths.  The integer tricks of the Python code (shift/or
  accumulation, the chunk flush above 4096 bits, two's complement by `(1 << 8k) + value`) are thereby verified, not assumed.
-/
namespace Asn1.C05t
open Asn1 Asn1.Translated Asn1.Bridge

theorem encoder_init : EncInv Bridge.empty ∧ absBits Bridge.empty = [] := ⟨empty_inv, empty_abs⟩

theorem encoder_number_of_bytes (s : per_EncoderS) (h : EncInv s) :
    per_Encoder_number_of_bytes s = (((absBits s).length + 7) / 8 : Nat) := number_of_bytes_eq s h

theorem encoder_append_non_negative_binary_integer (s : per_EncoderS) (h : EncInv s) (v n : Nat) (hv : v < 2 ^ n) :
    EncInv (per_Encoder_append_non_negative_binary_integer s v n) ∧
    absBits (per_Encoder_append_non_negative_binary_integer s v n) = absBits s ++ natToBits n v :=
  append_non_negative_binary_integer_refines s h v n hv

theorem encoder_append_bit (s : per_EncoderS) (h : EncInv s) (b : Bool) :
    EncInv (per_Encoder_append_bit s (if b then 1 else 0)) ∧
    absBits (per_Encoder_append_bit s (if b then 1 else 0)) = absBits s ++ [b] := append_bit_refines s h b

/-- `align_always` pads with zero bits to the next octet boundary of the WHOLE buffer (flushed chunks included) -/
theorem encoder_align_always (s : per_EncoderS) (h : EncInv s) :
    EncInv (per_Encoder_align_always s) ∧
    absBits (per_Encoder_align_always s) = absBits s ++ Per.alignBits (absBits s).length := align_always_refines s h

theorem encoder_align (s : per_EncoderS) (h : EncInv s) :
    EncInv (per_Encoder_align s) ∧
    absBits (per_Encoder_align s) = absBits s ++ Per.alignBits (absBits s).length := align_refines s h

theorem encoder_append_bits (s : per_EncoderS) (h : EncInv s) (data : Bytes) (hd : ∀ b ∈ data, b < 256)
    (n : Nat) (hn : n ≤ 8 * data.length) :
    EncInv (per_Encoder_append_bits s (ofNats data) n) ∧
    absBits (per_Encoder_append_bits s (ofNats data) n) = absBits s ++ (bytesToBits data).take n :=
  append_bits_refines s h data hd n hn

theorem encoder_append_bytes (s : per_EncoderS) (h : EncInv s) (data : Bytes) (hd : ∀ b ∈ data, b < 256) :
    EncInv (per_Encoder_append_bytes s (ofNats data)) ∧
    absBits (per_Encoder_append_bytes s (ofNats data)) = absBits s ++ bytesToBits data :=
  append_bytes_refines s h data hd

/-- the length determinant octets and the number of items they announce (16K fragment sizes above 16383) -/
theorem encoder_append_length_determinant (s : per_EncoderS) (h : EncInv s) (n : Nat) :
    EncInv (per_Encoder_append_length_determinant s n).1 ∧
    absBits (per_Encoder_append_length_determinant s n).1 = absBits s ++ (Uper.lenDet n).1 ∧
    (per_Encoder_append_length_determinant s n).2 = ((Uper.lenDet n).2 : Int) :=
  append_length_determinant_refines s h n

theorem encoder_append_normally_small_non_negative_whole_number (s : per_EncoderS) (h : EncInv s) (v : Nat) :
    EncInv (per_Encoder_append_normally_small_non_negative_whole_number s v) ∧
    absBits (per_Encoder_append_normally_small_non_negative_whole_number s v) = absBits s ++ Uper.encNsnnwn v :=
  append_normally_small_non_negative_whole_number_refines s h v

/-- normally small length: the bits of the model, and NotImplementedError exactly where the model has it (> 127) -/
theorem encoder_append_normally_small_length (s : per_EncoderS) (h : EncInv s) (v : Nat) (hv : 1 ≤ v) :
    match Uper.encNsLength v with
    | .ok bits => ∃ s', per_Encoder_append_normally_small_length s v = .ok s' ∧ EncInv s' ∧ absBits s' = absBits s ++ bits
    | .error _ => per_Encoder_append_normally_small_length s v = .error "NotImplementedError" :=
  append_normally_small_length_refines s h v hv

/-- constrained whole number incl. the aligned variant's octet alignment for ranges of 256 and more values -/
theorem encoder_append_constrained_whole_number (s : per_EncoderS) (h : EncInv s) (value lo hi : Int) (nbits : Nat)
    (h1 : lo ≤ value) (h2 : value ≤ hi) (hfit : (value - lo).toNat < 2 ^ nbits) :
    EncInv (per_Encoder_append_constrained_whole_number s value lo hi nbits) ∧
    absBits (per_Encoder_append_constrained_whole_number s value lo hi nbits) =
      absBits s ++ Per.encCwn (absBits s).length (value - lo).toNat (hi - lo + 1).toNat nbits :=
  append_constrained_whole_number_refines s h value lo hi nbits h1 h2 hfit

/-- unconstrained whole number: length determinant + minimal two's complement octets, for EVERY integer -/
theorem encoder_append_unconstrained_whole_number (s : per_EncoderS) (h : EncInv s) (i : Int) :
    EncInv (per_Encoder_append_unconstrained_whole_number s i) ∧
    absBits (per_Encoder_append_unconstrained_whole_number s i) = absBits s ++ Uper.encUnconstrained i :=
  append_unconstrained_whole_number_refines s h i

/-- `self += other` (used for every open type / extension addition) appends the other buffer's bits -/
theorem encoder_iadd (s o : per_EncoderS) (h : EncInv s) (ho : EncInv o) :
    EncInv (per_Encoder___iadd__ s o) ∧ absBits (per_Encoder___iadd__ s o) = absBits s ++ absBits o :=
  iadd_refines s o h ho

theorem translated_integer_as_number_of_bits (n : Nat) :
    per_integer_as_number_of_bits (n : Int) = (bitLength n : Int) := per_integer_as_number_of_bits_eq n

theorem translated_integer_as_number_of_bits_power_of_two (n : Nat) :
    per_integer_as_number_of_bits_power_of_two (n : Int) = (Per.bitsPow2 n : Int) :=
  per_integer_as_number_of_bits_power_of_two_eq n

theorem translated_size_as_number_of_bytes (n : Nat) :
    per_size_as_number_of_bytes (n : Int) = (Per.sizeAsBytes n : Int) := per_size_as_number_of_bytes_eq n

theorem translated_to_byte_array (num nbits : Nat) :
    per_to_byte_array (num : Int) (nbits : Int) = ofNats (natToBytesN ((nbits + 7) / 8) num) :=
  per_to_byte_array_eq num nbits

/-- non-vacuity: a state with a flushed chunk satisfies the invariant and the theorems apply to it -/
example : EncInv { number_of_bits := 3, value := 5, chunks_number_of_bits := 4, chunks := [(9, 4)] } :=
  { nb := by decide, v0 := by decide, vlt := by decide, ch := by simp, cnb := by decide }
example : absBits { number_of_bits := 3, value := 5, chunks_number_of_bits := 4, chunks := [(9, 4)] }
    = [true, false, false, true, true, false, true] := by decide

end Asn1.C05t
