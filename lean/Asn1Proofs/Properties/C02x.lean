import Asn1Proofs.Lemmas.XerPlain
/-
  C02 (XER half): for every type and constraint-satisfying value whose characters are
  XML-1.0-legal the XER encoding is a well-formed XML document and decoding it yields the same
  abstract value, with and without indentation.

  Statements are about the model of `codecs/xer.py` (`Asn1Model/Xer.lean`), the writer that mirrors
  `ElementTree.tostring` + `indent_xml` and the independent XML reader (`Asn1Model/Xml.lean`);
  `tools/compare_xer.py` ties the three to the real library.

  Hypotheses (all decidable):
  * `t.wf`, `hasType t v`        — the type is accepted by the compiler, the value passes the
                                   library's type / constraint checks;
  * `Xer.intsOk t v`             — every INTEGER has at most 4300 decimal digits.  NECESSARY: the
                                   codec uses `str()` / `int()`, CPython refuses longer conversions
                                   (`int_needs_4300_digits` below);
  * `Xer.namesOk t`, `nameOk`    — identifiers are (ASCII) XML names; true of every ASN.1 identifier;
  * `Xer.textOk t v`             — characters of character strings are XML `Char`s other than CR.
                                   NECESSARY: other characters are written raw / as references to
                                   non-characters, giving an ill-formed document, and a CR comes
                                   back as LF (`control_char_not_wellformed`, `cr_changes_value`).
  The value returned is `X690.canonV t v`: `v` with absent DEFAULT members filled in and unused
  BIT STRING bits cleared.
-/
namespace Asn1.C02x
open Asn1 Asn1.Xml Asn1.Xer

/-- Tree level: the decoder applied to the element tree the encoder builds returns the value.
No assumption on characters or names is needed here. -/
theorem xer_tree_roundtrip (t : Ty) (name : String) (v : Val)
    (hwf : t.wf = true) (hty : hasType t v = true) (hint : Xer.intsOk t v = true) :
    ∃ x, Xer.toXml t name v = .ok x ∧ x.name = name ∧ Xer.ofXml t x = .ok (X690.canonV t v) := by
  obtain ⟨x, h1, h2, h3⟩ := Xer.rt_all t false name v hwf hty hint
  exact ⟨x, h1, h3 rfl, h2⟩

/-- the same for the element forms used inside SEQUENCE OF (`encode_of` / `decode_of`) -/
theorem xer_tree_roundtrip_in_list (t : Ty) (v : Val)
    (hwf : t.wf = true) (hty : hasType t v = true) (hint : Xer.intsOk t v = true) :
    ∃ x, Xer.enc t true (Xer.typeName t) v = .ok x ∧ Xer.dec t true x = .ok (X690.canonV t v) := by
  obtain ⟨x, h1, h2, _⟩ := Xer.rt_all t true (Xer.typeName t) v hwf hty hint
  exact ⟨x, h1, h2⟩

/-- The XML reader reads back every tree the encoder can produce, for every indentation
(`none` = no indentation, `some k` = `indent=k`). -/
theorem xml_parse_render (indent : Option Nat) (x : XmlT) (hp : x.plain = true) :
    Xml.parse (Xml.renderDoc indent x) = .ok x :=
  Xml.parse_renderDoc indent x hp

/-- the trees the encoder produces are of that kind -/
theorem xer_tree_plain (t : Ty) (name : String) (v : Val) (x : XmlT)
    (hnames : Xer.namesOk t = true) (hname : Xer.nameOk name = true)
    (htext : Xer.textOk t v = true) (h : Xer.toXml t name v = .ok x) : x.plain = true :=
  Xer.pl_all t false name v x hnames hname htext h

/-- Document level: the encoding exists, is pure ASCII, is a well-formed XML document (the
independent reader accepts it) and decodes to the value — for every indentation. -/
theorem xer_document_roundtrip (t : Ty) (name : String) (v : Val) (indent : Option Nat)
    (hwf : t.wf = true) (hty : hasType t v = true) (hint : Xer.intsOk t v = true)
    (hnames : Xer.namesOk t = true) (hname : Xer.nameOk name = true)
    (htext : Xer.textOk t v = true) :
    ∃ doc, Xer.encode t name v indent = .ok doc ∧ (∀ b ∈ doc, b < 128) ∧
      (∃ x, Xer.parseDoc doc = .ok x) ∧ Xer.decode t doc = .ok (X690.canonV t v) := by
  obtain ⟨x, h1, _, h3⟩ := xer_tree_roundtrip t name v hwf hty hint
  have hp := xer_tree_plain t name v x hnames hname htext h1
  have hd := Xer.parseDoc_renderDoc indent x hp
  refine ⟨Xml.renderDoc indent x, by simp only [Xer.encode, h1], ?_, ⟨x, hd⟩, ?_⟩
  · exact fun b hb => (Xml.outOk_renderDoc indent x hp b hb).2
  · simp only [Xer.decode, hd, h3]

/-- the indentation does not matter: all indentations decode to the same value -/
theorem xer_indent_irrelevant (t : Ty) (name : String) (v : Val) (i j : Option Nat)
    (hwf : t.wf = true) (hty : hasType t v = true) (hint : Xer.intsOk t v = true)
    (hnames : Xer.namesOk t = true) (hname : Xer.nameOk name = true)
    (htext : Xer.textOk t v = true) :
    ∃ d1 d2, Xer.encode t name v i = .ok d1 ∧ Xer.encode t name v j = .ok d2 ∧
      Xer.decode t d1 = Xer.decode t d2 := by
  obtain ⟨d1, e1, _, _, r1⟩ := xer_document_roundtrip t name v i hwf hty hint hnames hname htext
  obtain ⟨d2, e2, _, _, r2⟩ := xer_document_roundtrip t name v j hwf hty hint hnames hname htext
  exact ⟨d1, d2, e1, e2, by rw [r1, r2]⟩

/-! ### the known defect: list element forms are not extension aware -/

def unconstrained : IntC := ⟨none, none, false⟩
def anySize : SizeC := ⟨0, none, false⟩

/-- version 1: `CHOICE { n NULL, ... }` -/
def choiceV1 : Ty := .choice (.cons "n" .null .nil) true .nil
/-- version 2: `CHOICE { n NULL, ..., m INTEGER }` -/
def choiceV2 : Ty := .choice (.cons "n" .null .nil) true (.cons "m" (.integer unconstrained) .nil)

/-- `<A><m>5</m></A>` -/
def docNewAlt : Bytes := [60, 65, 62, 60, 109, 62, 53, 60, 47, 109, 62, 60, 47, 65, 62]

/-- A version-1 reader of `SEQUENCE OF CHOICE { n NULL, ... }` cannot read the alternative `m`
added in version 2: `decode_of` raises DecodeError although the CHOICE is extensible … -/
theorem seqof_choice_not_extension_aware :
    Xer.encode (.sequenceOf choiceV2 anySize) "A" (.list [.choice "m" (.int 5)]) none = .ok docNewAlt ∧
    Xer.decode (.sequenceOf choiceV1 anySize) docNewAlt = .error .decodeError := by
  constructor <;> rfl

/-- … whereas outside a SEQUENCE OF the same situation is handled (`(None, None)`). -/
theorem choice_extension_aware :
    Xer.encode choiceV2 "A" (.choice "m" (.int 5)) none = .ok docNewAlt ∧
    Xer.decode choiceV1 docNewAlt = .ok (.choice "" .absent) := by
  constructor <;> rfl

def enumV1 : Ty := .enumerated [("a", 0)] (some [])
def enumV2 : Ty := .enumerated [("a", 0)] (some [("b", 1)])

/-- `<A><b /></A>` -/
def docNewItem : Bytes := [60, 65, 62, 60, 98, 32, 47, 62, 60, 47, 65, 62]

/-- the same defect for `SEQUENCE OF ENUMERATED { a, ... }` and an item added later -/
theorem seqof_enum_not_extension_aware :
    Xer.encode (.sequenceOf enumV2 anySize) "A" (.list [.enum "b"]) none = .ok docNewItem ∧
    Xer.decode (.sequenceOf enumV1 anySize) docNewItem = .error .decodeError ∧
    Xer.decode enumV1 docNewItem = .ok .absent := by
  refine ⟨?_, ?_, ?_⟩ <;> rfl

/-! ### the hypotheses are necessary -/

/-- `10^4300`, the smallest number with 4301 decimal digits -/
def big : Nat := 10 ^ 4300

theorem big_ge : 10 ^ 4300 ≤ big := Nat.le_refl _

theorem intText_big : Xer.intText (big : Int) = .error .foreign := by
  have h : 4300 < (Xml.natToDec big).length := Xml.natToDec_length_gt big 4300 big_ge
  unfold Xer.intText
  simp only [Int.natAbs_natCast]
  rw [if_pos (by unfold Xer.maxStrDigits; omega)]

theorem toXml_int_error (c : IntC) (name : String) (i : Int) (h : Xer.intText i = .error .foreign) :
    Xer.toXml (.integer c) name (.int i) = .error .foreign := by
  simp only [Xer.toXml, Xer.enc, h]

theorem hasType_int_unconstrained (i : Int) : hasType (.integer unconstrained) (.int i) = true := by
  simp [hasType, unconstrained, intInRange]

/-- a well-typed INTEGER with 4301 digits cannot be encoded (`str()` raises ValueError) -/
theorem int_needs_4300_digits :
    hasType (.integer unconstrained) (.int (big : Int)) = true ∧
    Xer.toXml (.integer unconstrained) "A" (.int (big : Int)) = .error .foreign :=
  ⟨hasType_int_unconstrained _, toXml_int_error _ _ _ intText_big⟩

def ia5 : Ty := .charString .ia5 anySize

/-- a NUL in an IA5String is written raw: `<A>\x00</A>` is not well-formed XML (the real
`decode` raises `ParseError`) -/
theorem control_char_not_wellformed :
    hasType ia5 (.str [0]) = true ∧
    Xer.encode ia5 "A" (.str [0]) none = .ok [60, 65, 62, 0, 60, 47, 65, 62] ∧
    Xer.parseDoc [60, 65, 62, 0, 60, 47, 65, 62] = .error .malformed := by
  refine ⟨?_, ?_, ?_⟩ <;> rfl

/-- U+FFFF in a UTF8String is written as `&#65535;`, a reference to a non-character -/
theorem nonchar_not_wellformed :
    hasType (.charString .utf8 anySize) (.str [0xFFFF]) = true ∧
    Xer.encode (.charString .utf8 anySize) "A" (.str [0xFFFF]) none =
      .ok [60, 65, 62, 38, 35, 54, 53, 53, 51, 53, 59, 60, 47, 65, 62] ∧
    Xer.parseDoc [60, 65, 62, 38, 35, 54, 53, 53, 51, 53, 59, 60, 47, 65, 62] = .error .malformed := by
  refine ⟨?_, ?_, ?_⟩ <;> rfl

/-- a CR is written raw and read back as LF (XML 1.0, 2.11): the value changes silently -/
theorem cr_changes_value :
    hasType ia5 (.str [13]) = true ∧
    Xer.encode ia5 "A" (.str [13]) none = .ok [60, 65, 62, 13, 60, 47, 65, 62] ∧
    Xer.decode ia5 [60, 65, 62, 13, 60, 47, 65, 62] = .ok (.str [10]) := by
  refine ⟨?_, ?_, ?_⟩ <;> rfl

/-! ### non-vacuity -/

/-- `SEQUENCE { a BOOLEAN, b UTF8String OPTIONAL, c INTEGER DEFAULT 7, d SEQUENCE OF ENUMERATED {x, y},
..., e BIT STRING }` -/
def exTy : Ty :=
  .sequence
    (.cons "a" .mandatory .boolean
      (.cons "b" .optional (.charString .utf8 anySize)
        (.cons "c" (.default (.int 7)) (.integer unconstrained)
          (.cons "d" .mandatory (.sequenceOf (.enumerated [("x", 0), ("y", 1)] none) anySize) .nil))))
    true
    (.cons "e" .optional (.bitString anySize) .nil)

/-- `{a TRUE, b " <&>\t\né ", d {y, x}, e '101'B}` -/
def exVal : Val :=
  .record [("a", .bool true), ("b", .str [32, 60, 38, 62, 9, 10, 233, 32]),
    ("d", .list [.enum "y", .enum "x"]), ("e", .bits [0xbf] 3)]

example : exTy.wf = true := by decide
example : hasType exTy exVal = true := by decide
example : Xer.intsOk exTy exVal = true := by decide
example : Xer.namesOk exTy = true := by decide
example : Xer.textOk exTy exVal = true := by decide

/-- the instance of the document theorem for the example (all hypotheses hold) -/
example : ∃ doc, Xer.encode exTy "A" exVal (some 2) = .ok doc ∧ (∀ b ∈ doc, b < 128) ∧
    (∃ x, Xer.parseDoc doc = .ok x) ∧ Xer.decode exTy doc = .ok (X690.canonV exTy exVal) :=
  xer_document_roundtrip exTy "A" exVal (some 2) (by decide) (by decide) (by decide) (by decide)
    (by decide) (by decide)

/-- and what it says concretely: DEFAULT filled in, unused bits cleared -/
example : X690.canonV exTy exVal =
    .record [("a", .bool true), ("b", .str [32, 60, 38, 62, 9, 10, 233, 32]), ("c", .int 7),
      ("d", .list [.enum "y", .enum "x"]), ("e", .bits [0xa0] 3)] := by rfl

/-- `<A><a><true /></a><b> &lt;&amp;&gt;\t\n&#233; </b><d><y /><x /></d><e>101</e></A>` -/
example : Xer.encode exTy "A" exVal none =
    .ok [60, 65, 62, 60, 97, 62, 60, 116, 114, 117, 101, 32, 47, 62, 60, 47, 97, 62, 60, 98, 62, 32, 38,
      108, 116, 59, 38, 97, 109, 112, 59, 38, 103, 116, 59, 9, 10, 38, 35, 50, 51, 51, 59, 32, 60, 47, 98,
      62, 60, 100, 62, 60, 121, 32, 47, 62, 60, 120, 32, 47, 62, 60, 47, 100, 62, 60, 101, 62, 49, 48, 49,
      60, 47, 101, 62, 60, 47, 65, 62] := by rfl

end Asn1.C02x
