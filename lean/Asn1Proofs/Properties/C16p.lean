import Asn1Model.Typing
import Asn1Model.Per
import Asn1Proofs.Lemmas.PrefixPerTop
import Asn1Proofs.Lemmas.PrefixPerCounterexample
/-
  C16p — a truncated ALIGNED PER encoding is a decode error.  Property theorems only.
  (The proofs are in Asn1Proofs/Lemmas/PrefixPer*.lean; `Per.fragFree` is defined in
  Asn1Proofs/Lemmas/PerDefs.lean, `Ty.nsOk` in Asn1Proofs/Lemmas/UperDefs.lean.)

  Route, as for UPER in C16: "exact consumption + extension stability".  The round-trip theorem
  `C01p.per_roundtrip_partial` says the decoder consumes exactly the encoding; prefix determinism
  (`per_prefix_deterministic`) says that a run which succeeds on a prefix succeeds with the same value
  and the same consumption on every extension; so success on a strict prefix would contradict exact
  consumption, and every failure on exhausted input is the library's DecodeError/OutOfDataError class by
  the primitive readers of the model (`Per.readBits`, `Per.readNat`, `Per.readBit`).

  What is specific to the aligned variant: `Decoder.align_always` drops `number_of_bits & 7` of the
  REMAINING bits.  That is stable under extension of the input only when the input ends at an octet
  boundary of the message -- which every input the library can be given does.  So the bit-level
  statements carry the hypothesis `(pos + q.length) % 8 = 0`, shown necessary below, and the byte-level
  theorem needs nothing beyond the hypotheses of the UPER theorem.
-/
namespace Asn1.C16p
open Asn1

/-- **C16, aligned PER.**  Every strict byte prefix of the encoding of a well-typed value is rejected
by the decoder with the library's decode error: it is not decoded to a value and no foreign exception
escapes.  All types of the universe, all values, all cut points.  Same hypotheses as the round-trip
theorem `C01p.per_decode_encode` (and the same shape as `C16.uper_truncated`); `Per.fragFree` is
necessary (`per_truncated_needs_fragFree`). -/
theorem per_truncated (t : Ty) (v : Val) (bytes : Bytes) (k : Nat)
    (hwf : t.wf = true) (hd : t.defaultsOk = true) (ht : hasType t v = true)
    (hf : Per.fragFree t v = true) (hns : t.nsOk = true)
    (he : Per.encode t v = .ok bytes) (hk : k < bytes.length) :
    Per.decode t (bytes.take k) = .error .decodeError :=
  Per.truncated t v bytes k hwf hd ht hf hns he hk

/-- bit-level form, at every start position: the encoder wrote `bits` behind `pos` bits; a strict
prefix `q` of `bits` that ends at an octet boundary of the message (followed by nothing) is rejected
with `decodeError`, whatever fuel (larger than the prefix) the decoder gets.  This covers a cut inside
an enclosing message, e.g. inside the open type of an extension addition. -/
theorem per_truncated_bits (t : Ty) (v : Val) (pos : Nat) (bits q x : Bits) (f' : Nat)
    (hwf : t.wf = true) (hd : t.defaultsOk = true) (ht : hasType t v = true)
    (hf : Per.fragFree t v = true) (hns : t.nsOk = true) (he : Per.enc t pos v = .ok bits)
    (hq : bits = q ++ x) (hx : x ≠ []) (hal : (pos + q.length) % 8 = 0) (hfuel : q.length < f') :
    Per.dec t f' ⟨pos, q⟩ = .error .decodeError :=
  Per.truncated_bits t v pos bits q x f' hwf hd ht hf hns he hq hx hal hfuel

/-- the aligned PER decoder is prefix deterministic for *every* type, also outside the round-trip
hypotheses: a prefix, ending at an octet boundary of the message, of an accepted input is either
accepted with the same value, the same read position and the same consumption (`r.bs = r' ++ x`,
position + remaining bits unchanged), or rejected with `decodeError`.  The position component of the
state does not depend on what follows the prefix. -/
theorem per_prefix_deterministic (t : Ty) (f f' pos : Nat) (q x : Bits) (a : Val) (r : Per.St)
    (hal : (pos + q.length) % 8 = 0) (hf : q.length < f')
    (h : Per.dec t f ⟨pos, q ++ x⟩ = .ok (a, r)) :
    (∃ r', Per.dec t f' ⟨pos, q⟩ = .ok (a, ⟨r.pos, r'⟩) ∧ r.bs = r' ++ x ∧
        r.pos + r'.length = pos + q.length) ∨
      Per.dec t f' ⟨pos, q⟩ = .error .decodeError :=
  Per.dec_prefix t f f' pos q x a r hal hf h

/-! ### the added hypotheses are necessary -/

/-- **Necessity of the octet-boundary hypothesis of `per_truncated_bits`.**
`OCTET STRING (SIZE(0..5))`, empty value: three bits of length, `align_always`, no contents; the
encoding is eight zero bits.  All other hypotheses hold; cut after four BITS, the decoder reads the
length, "aligns" by dropping the single bit that is left and returns the value.  (Such a cut cannot be
presented to `Specification.decode`, which takes whole octets: `per_truncated`.) -/
theorem per_truncated_bits_needs_octet_boundary :
    Per.cxaTy.wf = true ∧ Per.cxaTy.defaultsOk = true ∧ hasType Per.cxaTy (.bytes []) = true ∧
    Per.fragFree Per.cxaTy (.bytes []) = true ∧ Per.cxaTy.nsOk = true ∧
    Per.enc Per.cxaTy 0 (.bytes []) = .ok Per.cxaBits ∧
    Per.cxaBits = List.replicate 4 false ++ List.replicate 4 false ∧
    Per.dec Per.cxaTy 6 ⟨0, List.replicate 4 false⟩ = .ok (.bytes [], ⟨8, []⟩) :=
  Per.truncated_bits_unaligned_counterexample

/-- **Necessity of the octet-boundary hypothesis of `per_prefix_deterministic`.**  Same type: there
are `q`, `x` on which the decoder accepts both `q ++ x` and `q` with the same value and position, but
what it leaves of `q ++ x` is not what it leaves of `q` followed by `x` (`align` ate four bits of `x`). -/
theorem per_prefix_needs_octet_boundary :
    ∃ (q x : Bits) (r : Per.St), Per.dec Per.cxaTy 20 ⟨0, q ++ x⟩ = .ok (.bytes [], r) ∧
      (∀ f', ∃ r', Per.dec Per.cxaTy (f' + 1) ⟨0, q⟩ = .ok (.bytes [], ⟨r.pos, r'⟩) ∧ r.bs ≠ r' ++ x) :=
  Per.dec_prefix_unaligned_counterexample

/-- **Necessity of `Per.fragFree` in `per_truncated`** (F_unfragmented, the finding of C01p/C05).
`OCTET STRING (SIZE(0, ...))` with 16385 zero octets: all other hypotheses hold, the encoder succeeds
with the 16387 octets `80 c1 00 … 00` (the length 16385 written without fragmentation is the fragment
marker `c1`); the strict prefix of 16386 octets is ACCEPTED -- the decoder reads `c1` as "16384
octets", finds exactly that many and returns them as the value. -/
theorem per_truncated_needs_fragFree :
    Per.cxTy.wf = true ∧ Per.cxTy.defaultsOk = true ∧ hasType Per.cxTy Per.cxVal = true ∧
    Per.cxTy.nsOk = true ∧ Per.fragFree Per.cxTy Per.cxVal = false ∧
    Per.encode Per.cxTy Per.cxVal = .ok Per.cxBytes ∧ 16386 < Per.cxBytes.length ∧
    Per.decode Per.cxTy (Per.cxBytes.take 16386) = .ok (.bytes (List.replicate 16384 0)) :=
  Per.truncated_fails_without_fragFree

/-- non-vacuity of `per_truncated` on the type of the C16 example (OPTIONAL / DEFAULT members,
extension additions, an extensible CHOICE, an extensible SEQUENCE OF; the encoding contains padding
of `align_always` and two open types): all hypotheses hold and the encoding has 13 octets -/
example :
    let t : Ty := .sequenceOf (.sequence
        (.cons "a" .optional (.integer ⟨some 0, some 300, true⟩)
        (.cons "b" (.default (.bool true)) .boolean .nil)) true
        (.cons "c" .optional (.choice (.cons "x" .null (.cons "y" (.octetString ⟨0, none, false⟩) .nil)) true
            (.cons "z" (.charString .ia5 ⟨1, some 4, false⟩) .nil)) .nil)) ⟨0, some 3, true⟩
    let v : Val := .list [.record [("a", .int 70000), ("c", .choice "z" (.str [65, 66]))], .record [("b", .bool false)]]
    t.wf = true ∧ t.defaultsOk = true ∧ hasType t v = true ∧ Per.fragFree t v = true ∧ t.nsOk = true ∧
      (Per.encode t v).toOption = some [90, 3, 1, 17, 112, 1, 5, 128, 3, 64, 65, 66, 32] := by
  refine ⟨by decide +kernel, by decide +kernel, by decide +kernel, by decide +kernel,
    by decide +kernel, by decide +kernel⟩

end Asn1.C16p

#print axioms Asn1.C16p.per_truncated
#print axioms Asn1.C16p.per_truncated_bits
#print axioms Asn1.C16p.per_prefix_deterministic
#print axioms Asn1.C16p.per_truncated_bits_needs_octet_boundary
#print axioms Asn1.C16p.per_prefix_needs_octet_boundary
#print axioms Asn1.C16p.per_truncated_needs_fragFree
