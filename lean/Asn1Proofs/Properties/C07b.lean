import Asn1Model.Extension
import Asn1Model.BerCodec
import Asn1Proofs.Lemmas.ExtLemmas
import Asn1Proofs.Lemmas.ExtBer
/-
  C07 for the BER model — extension additions keep old and new versions of a type interoperable.
  Property theorems only; proofs in Asn1Proofs/Lemmas/ExtBer*.lean.

  `Ext.Extends t1 t2`, `Ext.project t1 t2 v`: Asn1Model/Extension.lean (see C07.lean).

    forward_ber  : a V2 BER encoding, followed by anything, decodes under V1 to the canonical form
                   (`X690.canonV`) of the V1 projection, with exactly the length of the encoding
                   (FRAME: additions V1 does not know are skipped by exactly their length);
    backward_ber : a V1 BER encoding, followed by anything, decodes under V2 to the same (canonical)
                   value, with exactly the length of the encoding.

  Same statements and same side conditions as `C07.forward_der` / `C07.backward_der` (`Ty.wf` and
  `Oer.oerWf` of the V2 type, DEFAULT values in `canonV` normal form in both versions,
  `X690.defaultsOkV`), with the BER encoder and the BER decoder.

  The BER encoder of the model is the DER encoder by definition (`BerCodec.enc := Der.enc`); the BER
  decoder is a different function (indefinite lengths, constructed strings, constructed string tags
  in the `tag_to_member` of a CHOICE).  Its SEQUENCE and CHOICE parts are the shared code of ber.py
  (`Der.gSeq` / `Der.gChoice`, `Der.IsCodec`), so the SEQUENCE / CHOICE cases of the DER proof are
  proved once more with the decoder as a parameter; the leaves follow from the DER statement and the
  two round-trip theorems; SEQUENCE OF uses the BER loop.  One statement about a decoder type and an
  encoder type that agree up to the tails of their extension additions (`Ext.Compat`,
  `Ext.BerX.xtb_all`) gives both directions.
-/
namespace Asn1.C07b
open Asn1 Asn1.Ext

/-- **BER forward compatibility**, recursive decoder in any tagging context: value, exact length of the
encoding, and exactly the octets that follow -/
theorem forward_ber_dec (t1 t2 : Ty) (tg : Option Nat) (v : Val) (bytes rest : Bytes) (fuel : Nat)
    (hx : Extends t1 t2)
    (hwf : t2.wf = true) (henum : Oer.oerWf t2 = true) (hd1 : X690.defaultsOkV t1 = true)
    (hd2 : X690.defaultsOkV t2 = true) (ht : hasType t2 v = true)
    (he : BerCodec.enc t2 tg v = .ok bytes) (hf : bytes.length < fuel) :
    BerCodec.dec t1 tg fuel (bytes ++ rest) =
      .ok (some (X690.canonV t1 (project t1 t2 v), bytes.length, rest)) :=
  BerX.forward_ber_dec t1 t2 tg v bytes rest fuel hx hwf henum hd1 hd2 ht he hf

/-- **BER forward compatibility**, `decode_with_length` of the V1 specification on a V2 encoding
followed by arbitrary octets -/
theorem forward_ber (t1 t2 : Ty) (v : Val) (bytes rest : Bytes)
    (hx : Extends t1 t2)
    (hwf : t2.wf = true) (henum : Oer.oerWf t2 = true) (hd1 : X690.defaultsOkV t1 = true)
    (hd2 : X690.defaultsOkV t2 = true) (ht : hasType t2 v = true)
    (he : BerCodec.encode t2 v = .ok bytes) :
    BerCodec.decodeWithLength t1 (bytes ++ rest) =
      .ok (X690.canonV t1 (project t1 t2 v), bytes.length) :=
  BerX.forward_ber t1 t2 v bytes rest hx hwf henum hd1 hd2 ht he

/-- **BER backward compatibility**, recursive decoder in any tagging context -/
theorem backward_ber_dec (t1 t2 : Ty) (tg : Option Nat) (v : Val) (bytes rest : Bytes) (fuel : Nat)
    (hx : Extends t1 t2)
    (hwf : t2.wf = true) (henum : Oer.oerWf t2 = true) (hd1 : X690.defaultsOkV t1 = true)
    (hd2 : X690.defaultsOkV t2 = true) (ht : hasType t1 v = true)
    (he : BerCodec.enc t1 tg v = .ok bytes) (hf : bytes.length < fuel) :
    BerCodec.dec t2 tg fuel (bytes ++ rest) = .ok (some (X690.canonV t2 v, bytes.length, rest)) :=
  BerX.backward_ber_dec t1 t2 tg v bytes rest fuel hx hwf henum hd1 hd2 ht he hf

/-- **BER backward compatibility**, `decode_with_length` of the V2 specification on a V1 encoding -/
theorem backward_ber (t1 t2 : Ty) (v : Val) (bytes rest : Bytes)
    (hx : Extends t1 t2)
    (hwf : t2.wf = true) (henum : Oer.oerWf t2 = true) (hd1 : X690.defaultsOkV t1 = true)
    (hd2 : X690.defaultsOkV t2 = true) (ht : hasType t1 v = true)
    (he : BerCodec.encode t1 v = .ok bytes) :
    BerCodec.decodeWithLength t2 (bytes ++ rest) = .ok (X690.canonV t2 v, bytes.length) :=
  BerX.backward_ber t1 t2 v bytes rest hx hwf henum hd1 hd2 ht he

/-- BER: the encoding of a V1 value does not change when the type is extended (the BER encoder is the
DER encoder, `C07.der_enc_stable`) -/
theorem ber_enc_stable (t1 t2 : Ty) (tg : Option Nat) (v : Val) (hx : Extends t1 t2)
    (hwf : t2.wf = true) (ht : hasType t1 v = true) : BerCodec.enc t2 tg v = BerCodec.enc t1 tg v :=
  BerX.ber_enc_stable hx hwf tg v ht

/-! ### non-vacuity: a nested extension (an addition whose type is itself extended, inside a
SEQUENCE OF, with a string member so that the BER-only string decoder is on the path) -/

/-- V1: `SEQUENCE OF SEQUENCE { a BOOLEAN, s OCTET STRING, ..., b CHOICE { x NULL, ... } OPTIONAL }` -/
def exT1 : Ty := .sequenceOf (.sequence (.cons "a" .mandatory .boolean
    (.cons "s" .mandatory (.octetString ⟨0, none, false⟩) .nil)) true
  (.cons "b" .optional (.choice (.cons "x" .null .nil) true .nil) .nil)) ⟨0, none, false⟩
/-- V2: `SEQUENCE OF SEQUENCE { a BOOLEAN, s OCTET STRING, ...,
  b CHOICE { x NULL, ..., k1 IA5String } OPTIONAL, n1 INTEGER DEFAULT 7 }` -/
def exT2 : Ty := .sequenceOf (.sequence (.cons "a" .mandatory .boolean
    (.cons "s" .mandatory (.octetString ⟨0, none, false⟩) .nil)) true
  (.cons "b" .optional (.choice (.cons "x" .null .nil) true (.cons "k1" (.charString .ia5 ⟨0, none, false⟩) .nil))
    (.cons "n1" (.default (.int 7)) (.integer ⟨none, none, false⟩) .nil))) ⟨0, none, false⟩
/-- a V2 value using the new alternative and the new addition -/
def exV : Val := .list [.record [("a", .bool true), ("s", .bytes [1, 2]), ("b", .choice "k1" (.str [65])), ("n1", .int 5)],
  .record [("a", .bool false), ("s", .bytes []), ("b", .choice "x" .null)]]
/-- what V1 sees of it -/
def exV' : Val := .list [.record [("a", .bool true), ("s", .bytes [1, 2]), ("b", .choice "" .absent)],
  .record [("a", .bool false), ("s", .bytes []), ("b", .choice "x" .null)]]
/-- a V1 value -/
def exV1 : Val := .list [.record [("a", .bool true), ("s", .bytes [9]), ("b", .choice "x" .null)],
  .record [("a", .bool false), ("s", .bytes [])]]
/-- what V2 sees of it: the DEFAULT of the addition only V2 knows is filled in -/
def exV1' : Val := .list [.record [("a", .bool true), ("s", .bytes [9]), ("b", .choice "x" .null), ("n1", .int 7)],
  .record [("a", .bool false), ("s", .bytes []), ("n1", .int 7)]]
def exBytes : Bytes := [48, 28, 48, 15, 128, 1, 255, 129, 2, 1, 2, 162, 3, 129, 1, 65, 131, 1, 5,
  48, 9, 128, 1, 0, 129, 0, 162, 2, 128, 0]
def exBytes1 : Bytes := [48, 19, 48, 10, 128, 1, 255, 129, 1, 9, 162, 2, 128, 0, 48, 5, 128, 1, 0, 129, 0]

example : extendsB exT1 exT2 = true ∧ extendsB exT2 exT1 = false ∧ project exT1 exT2 exV = exV' ∧
    X690.canonV exT1 exV' = exV' ∧ X690.canonV exT2 exV1 = exV1' := by
  refine ⟨by rfl, by rfl, by rfl, by rfl, by rfl⟩

/-- every hypothesis of `forward_ber` holds for the example, and its conclusion is the evaluated decoding -/
example : BerCodec.decodeWithLength exT1 (exBytes ++ [0, 0]) = .ok (exV', 30) :=
  forward_ber exT1 exT2 exV exBytes [0, 0] ((extendsB_iff _ _).1 (by rfl))
    (by decide +kernel) (by decide +kernel) (by decide +kernel) (by decide +kernel) (by decide +kernel)
    (by rfl)

/-- the same, evaluated in the kernel without the theorem -/
example : BerCodec.encode exT2 exV = .ok exBytes ∧
    BerCodec.decodeWithLength exT1 (exBytes ++ [0, 0]) = .ok (exV', 30) := by
  constructor <;> rfl

/-- backward: the V1 encoding of a V1 value decodes under V2 -/
example : BerCodec.decodeWithLength exT2 (exBytes1 ++ [5]) = .ok (exV1', 21) :=
  backward_ber exT1 exT2 exV1 exBytes1 [5] ((extendsB_iff _ _).1 (by rfl))
    (by decide +kernel) (by decide +kernel) (by decide +kernel) (by decide +kernel) (by decide +kernel)
    (by rfl)

example : BerCodec.encode exT1 exV1 = .ok exBytes1 ∧
    BerCodec.decodeWithLength exT2 (exBytes1 ++ [5]) = .ok (exV1', 21) := by
  constructor <;> rfl

end Asn1.C07b

#print axioms Asn1.C07b.forward_ber
#print axioms Asn1.C07b.backward_ber
#print axioms Asn1.C07b.forward_ber_dec
#print axioms Asn1.C07b.backward_ber_dec
#print axioms Asn1.C07b.ber_enc_stable
