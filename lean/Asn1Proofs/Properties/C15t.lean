import Asn1Proofs.Lemmas.Bridge
/-
  C15 / C03 — TRANSLATOR TIE for the BER framing writers.  `Asn1.Translated.ber_encode_length_definite` and
  `ber_encode_tag` are regenerated from /repo/asn1tools/codecs/ber.py by harness/py2lean.py on every run; these theorems
  state that, for ALL arguments, they are the model functions `Ber.encLength` / `Ber.encTag` about which `probe_complete`,
  `encTag_valid`, `encLength_valid` (C15) and the DER shape theorems (C03) are proved.  A change to the Python text of
  these functions that changes their behaviour breaks these obligations.
-/
namespace Asn1.C15t
open Asn1 Asn1.Translated Asn1.Bridge

/-- `encode_length_definite(n)` is the model's `encLength n` for every length below 256^127 (the range in which X.690
has a definite length at all; beyond it both are invalid, see `length_original_false`) -/
theorem translated_encode_length_definite (n : Nat) (hn : n < 256 ^ 127) :
    ber_encode_length_definite (n : Int) = ofNats (Ber.encLength n) :=
  ber_encode_length_definite_eq n hn

/-- unconditional description of the translated function -/
theorem translated_encode_length_definite_general (n : Nat) :
    ber_encode_length_definite (n : Int)
      = ofNats (if n ≤ 127 then [n] else (128 ||| (natToBytesMin n).length) :: natToBytesMin n) :=
  ber_encode_length_definite_general n

/-- statement refutation: without the bound the equation is false (first octet `0x80 | 128` vs `128 + 128`) -/
theorem length_original_false :
    ber_encode_length_definite ((256 ^ 127 : Nat) : Int) ≠ ofNats (Ber.encLength (256 ^ 127)) :=
  ber_encode_length_definite_eq_original_false

/-- `encode_tag(number, flags)` never raises and is the model's `encTag`, for every tag number and every
class/constructed octet (`flags` with the five low bits clear) -/
theorem translated_encode_tag (n f : Nat) (hf : f % 32 = 0) :
    ber_encode_tag (n : Int) (f : Int) = .ok (ofNats (Ber.encTag n f)) :=
  ber_encode_tag_eq n f hf

/-- non-vacuity: a long-form length and a high tag number, evaluated on the translated code -/
example : ber_encode_length_definite 70000 = [131, 1, 17, 112] := by decide
example : ber_encode_tag 2097152 64 = .ok [95, 129, 128, 128, 0] := by rfl

end Asn1.C15t
