import Asn1Proofs.Lemmas.Bridge
/-
  C10 — TRANSLATOR TIE: `get_length_determinant_length` of /repo/asn1tools/source/c/oer.py, regenerated on every run, is
  the model function `staticLenDetLen` about which `static_ne_runtime_iff` / `static_defect_smallest` (the recorded
  finding C10-lendet-typo) are proved.  Repairing or changing the constant in the source breaks this obligation.
-/
namespace Asn1.C10t
open Asn1 Asn1.Translated Asn1.Bridge

theorem translated_get_length_determinant_length (n : Nat) :
    c_oer_get_length_determinant_length (n : Int) = (CCursorOer.staticLenDetLen n : Int) :=
  c_oer_get_length_determinant_length_eq n

end Asn1.C10t
