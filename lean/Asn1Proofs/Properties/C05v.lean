import Asn1Proofs.Lemmas.Bridge3
/-
  C05 / C01 — TRANSLATOR TIE, where the PER bit buffer meets the octets: `Encoder.as_bytearray` (what `Specification.encode`
  returns) and `Decoder.__init__` (what `Specification.decode` starts from), translated from /repo/asn1tools/codecs/per.py on
  every run.  With C05t / C05u this closes the chain  abstract bits --Encoder methods--> buffer --as_bytearray--> octets
  --Decoder(..)--> reader state --Decoder methods--> abstract bits  for the leaf layer of PER and UPER.
-/
namespace Asn1.C05v
open Asn1 Asn1.Translated Asn1.Bridge

/-- the octets returned are the bits written (flushed chunks included), zero padded to whole octets -/
theorem per_as_bytearray (s : per_EncoderS) (h : EncInv s) :
    per_Encoder_as_bytearray s = .ok (ofNats (packBits (absBits s))) := per_as_bytearray_eq s h

/-- `Decoder(data)` stands at position 0 in front of exactly the bits of `data` -/
theorem per_decoder_init (data : Bytes) (hd : ∀ b ∈ data, b < 256) :
    PDecInv (per_Decoder___init__ (ofNats data)) ∧ pAbs (per_Decoder___init__ (ofNats data)) = ⟨0, bytesToBits data⟩ :=
  Bridge.per_decoder_init data hd

/-- buffer-level round trip -/
theorem per_buffer_roundtrip (s : per_EncoderS) (h : EncInv s) :
    ∃ out, per_Encoder_as_bytearray s = .ok out ∧
      PDecInv (per_Decoder___init__ out) ∧
      pAbs (per_Decoder___init__ out) = ⟨0, Uper.padToByte (absBits s)⟩ := Bridge.per_buffer_roundtrip s h

end Asn1.C05v
