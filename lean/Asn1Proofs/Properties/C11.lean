import Asn1Model.Constraints
import Asn1Model.Typing
import Asn1Proofs.Lemmas.ConstraintsLemmas
/-
  C11 — check_constraints accepts exactly the values the declared constraints admit.

  FINDING.  The equivalence as first stated, for every `t`,

      theorem check_iff_admits (t : Ty) (v : Val) : check t v = none ↔ admits t v = true
      theorem violation_rejected (t : Ty) (v : Val) (c : Ty × Val) (hc : c ∈ components t v)
          (hbad : localOk c.1 c.2 = false ∨ altKnown c.1 c.2 = false) : (check t v).isSome = true

  is FALSE: for a CHOICE whose additions repeat a root alternative name, the checker (`checkAlt`)
  stops at the root alternative, whereas `components` also lists the addition of the same name
  (kernel-checked counterexample below).  Both hold under the named hypothesis
  `t.altsDisjoint = true` (`Asn1Proofs/Lemmas/ConstraintsLemmas.lean`: in every CHOICE nested in `t`,
  no addition repeats a root alternative name), which X.680 requires and `Ty.wf` implies.
  Duplicate SEQUENCE member names are harmless (both sides look the value up by name).
  The direction `admits → accepted` (`admits_not_rejected`), `rejected_path_exact` and
  `extensible_unconstrained` hold for every type, as stated.
-/
namespace Asn1.C11
open Asn1 Asn1.Constraints

/-- counterexample to the unrestricted `check_iff_admits` / `violation_rejected`:
`CHOICE { a INTEGER, ..., a INTEGER (0..1) }` with value `a: 5` is accepted although the component
`(INTEGER (0..1), 5)` of the value violates its constraint. -/
example :
    let t : Ty := .choice (.cons "a" (.integer ⟨none, none, false⟩) .nil) false
                    (.cons "a" (.integer ⟨some 0, some 1, false⟩) .nil)
    let v : Val := .choice "a" (.int 5)
    check t v = none ∧ admits t v = false ∧ t.altsDisjoint = false ∧
      ((Ty.integer ⟨some 0, some 1, false⟩, Val.int 5) ∈ components t v ∧
        localOk (Ty.integer ⟨some 0, some 1, false⟩) (Val.int 5) = false) := by
  refine ⟨by decide +kernel, by decide +kernel, by decide +kernel, ?_, by decide +kernel⟩
  simp [components, componentsAlt]

/-- **iff**: the checker (model of constraints_checker.py) accepts a value exactly when every component
of the value — at any nesting depth, through SEQUENCE members, extension additions, SEQUENCE OF elements
and CHOICE alternatives — lies inside every non-extensible value-range / SIZE / permitted-alphabet
constraint on its own type.  (Extra hypothesis `hd`, see the FINDING above; original statement:
`theorem check_iff_admits (t : Ty) (v : Val) : check t v = none ↔ admits t v = true`.) -/
theorem check_iff_admits (t : Ty) (v : Val) (hd : t.altsDisjoint = true) :
    check t v = none ↔ admits t v = true :=
  check_none_iff_admits t v hd

/-- the same for every type the compiler accepts -/
theorem check_iff_admits_of_wf (t : Ty) (v : Val) (hwf : t.wf = true) :
    check t v = none ↔ admits t v = true :=
  check_iff_admits t v (Ty.altsDisjoint_of_wf t hwf)

/-- a value inside every constraint is never rejected (no hypothesis on the type) -/
theorem admits_not_rejected (t : Ty) (v : Val) (h : admits t v = true) : check t v = none :=
  check_none_of_all t v h

/-- a value outside some constraint never passes.  (Extra hypothesis `hd`, see the FINDING above;
original statement: the same without `hd`.) -/
theorem violation_rejected (t : Ty) (v : Val) (hd : t.altsDisjoint = true) (c : Ty × Val)
    (hc : c ∈ components t v)
    (hbad : localOk c.1 c.2 = false ∨ altKnown c.1 c.2 = false) : (check t v).isSome = true := by
  cases h : check t v with
  | some p => rfl
  | none =>
    have hall := all_of_check_none t v hd h
    have hok : compOk c = true := List.all_eq_true.1 hall c hc
    have hno : compOk c = false := (bad_iff c).1 hbad
    rw [hok] at hno
    cases hno

/-- the same for every type the compiler accepts -/
theorem violation_rejected_of_wf (t : Ty) (v : Val) (hwf : t.wf = true) (c : Ty × Val)
    (hc : c ∈ components t v)
    (hbad : localOk c.1 c.2 = false ∨ altKnown c.1 c.2 = false) : (check t v).isSome = true :=
  violation_rejected t v (Ty.altsDisjoint_of_wf t hwf) c hc hbad

/-- **path**: when the checker rejects, the reported name path leads to a component that really violates
its own constraint (C12: the dotted path is exact). -/
theorem rejected_path_exact (t : Ty) (v : Val) (p : List String) (h : check t v = some p) :
    ∃ c ∈ reach t v p, localOk c.1 c.2 = false ∨ altKnown c.1 c.2 = false :=
  path_check t v p h

/-- extensible constraints are not checked at all (the forms the tool interprets) -/
theorem extensible_unconstrained (lo hi : Option Int) (i : Int) :
    check (.integer ⟨lo, hi, true⟩) (.int i) = none := by
  simp [check, localOk, intOk]

-- non-vacuity: a nested value with a violation deep inside a list inside an addition
example :
    check (.sequence (.cons "a" .mandatory (.integer ⟨some 0, some 10, false⟩) .nil) true
            (.cons "b" .optional (.sequenceOf (.sequence (.cons "c" .mandatory (.octetString ⟨1, some 2, false⟩) .nil) false .nil)
                ⟨0, none, false⟩) .nil))
          (.record [("a", .int 3), ("b", .list [.record [("c", .bytes [1])], .record [("c", .bytes [1, 2, 3])]])])
      = some ["b", "c"] := by decide +kernel

end Asn1.C11
