import Asn1Proofs.Lemmas.PrepEnum
/-
  C13 — "a parsed dictionary may be compiled any number of times, for any sequence of codecs and
  options: every resulting codec object behaves exactly like one compiled from a fresh parse".

  `asn1tools.compile_dict(d, …)` rewrites the dictionary `d` IN PLACE (three times per call) before it
  compiles it; the model of this rewrite is `Asn1.SpecDict.Preprocess.run numeric_enums d`
  (lean/Asn1Model/SpecDict.lean, tied to the real code by tools/compare_prep.py).  A later compile
  sees the rewritten dictionary; it behaves like a compile of a fresh parse iff the rewrite maps the
  rewritten dictionary to what it maps the fresh one to.  This file proves

    * `run_idempotent`  : run n (run n d) = run n d       (same options: any number of compiles)
    * `run_history`     : run n (run b_k (… (run b_1 d))) = run n d
                          (changing `numeric_enums`) outside the named findings, and
    * closed witnesses that the findings are real.
-/
namespace Asn1.C13
open Asn1.SpecDict Asn1.SpecDict.Preprocess

/-! ### per-pass lemmas (one module) -/

/-- Pass 1: after COMPONENTS OF has been expanded in a module, no member list of a type assignment of
the module contains a COMPONENTS OF entry, and the pass is the identity on such a module. -/
theorem components_of_idem (s : Spec) (i : Nat) (mn mn' : String) (m : Module)
    (hi : s[i]? = some (mn', m)) :
    compOfModule i mn m.types.length (compOfModule i mn m.types.length s)
      = compOfModule i mn m.types.length s :=
  compOfModule_of_clean i mn (ModClean_compOfModule i mn hi) _

theorem components_of_clean (s : Spec) (i : Nat) (mn mn' : String) (m : Module)
    (hi : s[i]? = some (mn', m)) : ModClean (compOfModule i mn m.types.length s) i :=
  ModClean_compOfModule i mn hi

/-- Pass 2: EXTENSIBILITY IMPLIED appends a marker only where there is none. -/
theorem ext_implied_idem (s : Spec) (i : Nat) : extModule i (extModule i s) = extModule i s := by
  unfold extModule
  rw [modifyAt_modifyAt]
  refine modifyAt_congr (fun k m _ => ?_)
  rw [mapTypes_mapTypes]
  simp only [Module.mapTypes]
  rw [mapSnd_congr (fun _ d _ => extDesc_idem d)]

/-- Pass 3: automatic tagging is skipped when any member carries a tag … -/
theorem tags_skipped_when_tagged (sk : Skel) (mn : String) (ms : List Item)
    (h : anyTagged ms = true) :
    tagBody sk "AUTOMATIC" mn (.members ms) = .members (tagItems sk "AUTOMATIC" mn none ms) := by
  simp [tagBody, h]

/-- … and after automatic tagging every member carries a tag (the list is unchanged by a second
numbering only because there is nothing to number). -/
theorem tags_all_tagged (sk : Skel) (mt mn : String) (k : Nat) (ms : List Item)
    (h : anyTagged (tagItems sk mt mn (some k) ms) = false) (j : Nat) :
    tagItems sk mt mn (some j) (tagItems sk mt mn (some k) ms) = tagItems sk mt mn (some k) ms :=
  tagItems_some_fix sk mt mn j k ms h

theorem tags_idem (s : Spec) (i : Nat) (mn mt : String) :
    tagsModule i mn mt (tagsModule i mn mt s) = tagsModule i mn mt s := by
  unfold tagsModule
  rw [skel_mapTypes_at (fun d => by simp), modifyAt_modifyAt]
  refine modifyAt_congr (fun k m _ => ?_)
  rw [mapTypes_mapTypes]
  simp only [Module.mapTypes]
  rw [mapSnd_congr (fun _ d _ => tagDesc_idem (skel s) mt mn d)]

/-- Pass 4 on one value: the "already processed" guards make a second conversion a no-op. -/
theorem default_value_idem (n : Bool) (r : Core) (v : DefVal)
    (hr : ∀ vals, r.values = some vals → RefStable vals) :
    convDefault n r (convDefault n r v) = convDefault n r v :=
  convDefault_idem n r v hr

/-! ### the well-formedness under which the rewrite is idempotent -/

/-- In no ENUMERATED of the dictionary is a value reference that is used as enumeration number also
the name of an item with another number (`ENUMERATED { a(b), b(1) }`).  With `numeric_enums=True`
the DEFAULT `a` of such a type becomes `'b'` in the first compile and `1` in the second one. -/
def EnumRefsStable (d : Spec) : Prop :=
  SpecAll (fun a => ∀ vals, a.core.values = some vals → RefStable vals) d

/-- sufficient: no enumeration number is a value reference (all dictionaries produced by the parser
from specifications without `a(valuereference)` items) -/
def NoEnumRefs (d : Spec) : Prop :=
  SpecAll (fun a => ∀ vals, a.core.values = some vals → ∀ s t, enumValueOf? s vals ≠ some (.ref t)) d

theorem EnumRefsStable_of_NoEnumRefs {d : Spec} (h : NoEnumRefs d) : EnumRefsStable d := by
  intro mn m hm k td htd
  refine Desc.All.imp ?_ td (h mn m hm k td htd)
  intro a ha vals hv s t hs
  exact absurd hs (ha vals hv s t)

theorem passInv_refStable (n : Bool) (d : Spec) (h : EnumRefsStable d) :
    PassInv (fun a => ∀ vals, a.core.values = some vals → RefStable vals) (skel d) n n := by
  have hsk : SkelAll (fun c => ∀ vals, c.values = some vals → RefStable vals) (skel d) :=
    SkelAll_of_SpecAll h
  refine ⟨?_, ?_, ?_⟩
  · intro a k mt mn ha; simpa using ha
  · intro a mn ha; simpa using ha
  · intro a mn ha
    refine Absorbs_of_value _ _ _ _ _ (fun v _ => ?_)
    exact convDefault_idem n _ v
      (resolve_all (Pc := fun c => ∀ vals, c.values = some vals → RefStable vals) hsk a.core mn ha)

/-- **C13, same options.**  Rewriting a rewritten dictionary changes nothing: however often a
dictionary is compiled with the same `numeric_enums`, every compile after the first one starts from
the dictionary the first compile produced.  For ALL dictionaries (any modules, imports, COMPONENTS OF
chains — also unresolvable or cyclic ones, where the model drops the entry and Python raises). -/
theorem run_idempotent (n : Bool) (d : Spec) (h : EnumRefsStable d) :
    run n (run n d) = run n d :=
  run_run_of_inv n d h (passInv_refStable n d h)

/-- Without `numeric_enums` no hypothesis is needed at all. -/
theorem run_idempotent_names (d : Spec) : run false (run false d) = run false d := by
  refine run_run_of_inv (P := fun _ => True) false d (SpecAll_true d) ⟨?_, ?_, ?_⟩
  · intros; trivial
  · intros; trivial
  · intro a mn _
    exact Absorbs_of_value _ _ _ _ _ (fun v _ => convDefault_false_idem _ v)

/-! ### changing `numeric_enums` between compiles -/

/-- The hypothesis of the history theorem (its negation is the finding predicate):
no member list of a type assignment has a COMPONENTS OF entry, and every descriptor whose type
resolves to an ENUMERATED has (1) an enumeration whose names and numbers determine each other, none
of them a value reference, and (2) a DEFAULT that is not a Python `bool`. -/
abbrev HistoryOK (d : Spec) : Prop := HistOK d

/-- **C13, changing options.**  Whatever sequence of `numeric_enums` flags a dictionary has been
compiled with before, a compile with flag `n` starts from the dictionary a fresh parse would be
rewritten to — outside the finding predicate `¬ HistoryOK d`. -/
theorem run_history (n : Bool) (hist : List Bool) (d : Spec) (h : HistoryOK d) :
    (hist ++ [n]).foldl (fun d b => run b d) d = run n d := by
  rw [List.foldl_append]
  exact run_history_aux n hist h

/-- two compiles -/
theorem run_run (m n : Bool) (d : Spec) (h : HistoryOK d) : run n (run m d) = run n d :=
  run_absorb m n h

/-- After any compile no member list of a type assignment has a COMPONENTS OF entry left: the first
half of `HistoryOK` holds for every dictionary that has been compiled once, so for later compiles
only the ENUMERATED half is a hypothesis (`run_history` with `d := run m₀ d₀`). -/
theorem clean_after_compile (m : Bool) (d : Spec) : AllClean (run m d) := AllClean_run m d

/-! ### examples and witnesses -/

def fld (name type : String) : Attrs := { type := type, name := some name }

/-- the member (name, tag, default) triples of a type assignment -/
def summary (s : Spec) (mn tn : String) :
    List (Option (Option String × Option Tag × Option DefVal)) :=
  match find? mn s with
  | none => []
  | some m =>
    match find? tn m.types with
    | some (.mk _ (.members ms)) =>
      ms.map fun i => match i with
        | .desc d => some (d.attrs.name, d.attrs.tag, d.attrs.default)
        | _ => none
    | _ => []

/-- the DEFAULT of member `k` of a type assignment -/
def defaultOf (s : Spec) (mn tn : String) (k : Nat) : Option DefVal :=
  match (summary s mn tn)[k]? with
  | some (some (_, _, d)) => d
  | _ => none

/-
  M DEFINITIONS AUTOMATIC TAGS ::= BEGIN
    A ::= SEQUENCE { COMPONENTS OF B, flags BIT STRING { x(0), y(2) } DEFAULT { y },
                     mask BIT STRING DEFAULT '0101'B, ..., extra BOOLEAN DEFAULT TRUE }
    B ::= SEQUENCE { id INTEGER, e ENUMERATED { a(0), b(5) } DEFAULT b, ..., later NULL }
  END
-/
def exB : Desc := .mk { type := "SEQUENCE" } (.members [
  .desc (.mk (fld "id" "INTEGER") .leaf),
  .desc (.mk { fld "e" "ENUMERATED" with
      values := some [.item "a" (.int 0), .item "b" (.int 5)], default := some (.str "b") } .leaf),
  .marker,
  .desc (.mk (fld "later" "NULL") .leaf)])

def exA : Desc := .mk { type := "SEQUENCE" } (.members [
  .compOf "B",
  .desc (.mk { fld "flags" "BIT STRING" with
      namedBits := some [("x", "0"), ("y", "2")], default := some (.names ["y"]) } .leaf),
  .desc (.mk { fld "mask" "BIT STRING" with default := some (.str "0b0101") } .leaf),
  .marker,
  .desc (.mk { fld "extra" "BOOLEAN" with default := some (.str "TRUE") } .leaf)])

def exM : Spec := [("M", { tags := some "AUTOMATIC", types := [("A", exA), ("B", exB)] })]

private def tg (n : Int) : Option Tag := some { number := .int n, kind := some "IMPLICIT" }

/-- what the rewrite does to `A`: COMPONENTS OF expanded up to the marker of `B`, automatic tags
0..4, the three DEFAULT conversions -/
example : summary (run false exM) "M" "A" =
    [some (some "id", tg 0, none), some (some "e", tg 1, some (.str "b")),
     some (some "flags", tg 2, some (.bits [32] 3)), some (some "mask", tg 3, some (.bits [80] 4)),
     none, some (some "extra", tg 4, some (.bool true))] := by decide

example : defaultOf (run true exM) "M" "A" 1 = some (.int 5) := by decide

/-- the hypothesis of `run_idempotent` holds for the example … -/
theorem exM_wf : EnumRefsStable exM := by
  refine EnumRefsStable_of_NoEnumRefs ?_
  intro mn m hm k td htd
  simp only [exM, List.mem_singleton, Prod.mk.injEq] at hm
  obtain ⟨rfl, rfl⟩ := hm
  simp only [List.mem_cons, Prod.mk.injEq, List.not_mem_nil, or_false] at htd
  rcases htd with ⟨rfl, rfl⟩ | ⟨rfl, rfl⟩
  · simp [exA, fld, Desc.All, Body.All, ItemsAll, Item.All, Attrs.core]
  · simp only [exB, fld, Desc.All, Body.All, ItemsAll, Item.All, Attrs.core, and_true, true_and]
    refine ⟨by simp, by simp, ?_, by simp⟩
    intro vals hv
    simp only [Option.some.injEq] at hv
    subst hv
    exact noRef_of_allInt (by decide)

/-- … so the theorem applies (and the equation can also be checked by evaluation) -/
example : run true (run true exM) = run true exM := run_idempotent true exM exM_wf
example : run false (run false exM) = run false exM := by rfl
example : run true (run true exM) = run true exM := by rfl
/-- the rewrite is not the identity on the example -/
example : defaultOf exM "M" "A" 2 ≠ defaultOf (run false exM) "M" "A" 2 := by decide

/-
  H DEFINITIONS AUTOMATIC TAGS ::= BEGIN
    E ::= ENUMERATED { a(0), b(5) }
    S ::= SEQUENCE { m E DEFAULT b, n ENUMERATED { p(1), q(2) } DEFAULT q, o BOOLEAN DEFAULT TRUE }
  END
-/
def exE : Desc :=
  .mk { type := "ENUMERATED", values := some [.item "a" (.int 0), .item "b" (.int 5)] } .leaf

def exS : Desc := .mk { type := "SEQUENCE" } (.members [
  .desc (.mk { fld "m" "E" with default := some (.str "b") } .leaf),
  .desc (.mk { fld "n" "ENUMERATED" with
      values := some [.item "p" (.int 1), .item "q" (.int 2)], default := some (.str "q") } .leaf),
  .desc (.mk { fld "o" "BOOLEAN" with default := some (.str "TRUE") } .leaf)])

def exH : Spec := [("H", { tags := some "AUTOMATIC", types := [("E", exE), ("S", exS)] })]

private theorem notBool_of_str (s : String) :
    ∀ v b, some (DefVal.str s) = some v → v ≠ DefVal.bool b := by
  intro v b hv; cases hv; exact fun h => by cases h

theorem exH_ok : HistoryOK exH := by
  refine ⟨?_, ?_⟩
  · intro mn m hm k td htd
    simp only [exH, List.mem_singleton, Prod.mk.injEq] at hm
    obtain ⟨rfl, rfl⟩ := hm
    simp only [List.mem_cons, Prod.mk.injEq, List.not_mem_nil, or_false] at htd
    rcases htd with ⟨rfl, rfl⟩ | ⟨rfl, rfl⟩ <;> rfl
  · intro mn m hm k td htd
    simp only [exH, List.mem_singleton, Prod.mk.injEq] at hm
    obtain ⟨rfl, rfl⟩ := hm
    simp only [List.mem_cons, Prod.mk.injEq, List.not_mem_nil, or_false] at htd
    rcases htd with ⟨rfl, rfl⟩ | ⟨rfl, rfl⟩
    · -- E itself
      simp only [exE, Desc.All, Body.All, and_true]
      intro _
      refine ⟨?_, fun v b hv => by cases hv⟩
      intro vals hv
      have h2 : some vals = some [.item "a" (.int 0), .item "b" (.int 5)] :=
        hv.symm.trans (by rfl)
      rw [Option.some.inj h2]
      exact GoodEnum_of_proper (by decide)
    · simp only [exS, Desc.All, Body.All, ItemsAll, Item.All, and_true]
      refine ⟨?_, ?_, ?_, ?_⟩
      · intro h; exact absurd h (by decide)
      · -- m E DEFAULT b : resolves to E
        intro _
        refine ⟨?_, notBool_of_str "b"⟩
        intro vals hv
        have h2 : some vals = some [.item "a" (.int 0), .item "b" (.int 5)] :=
          hv.symm.trans (by rfl)
        rw [Option.some.inj h2]
        exact GoodEnum_of_proper (by decide)
      · intro _
        refine ⟨?_, notBool_of_str "q"⟩
        intro vals hv
        have h2 : some vals = some [.item "p" (.int 1), .item "q" (.int 2)] :=
          hv.symm.trans (by rfl)
        rw [Option.some.inj h2]
        exact GoodEnum_of_proper (by decide)
      · intro h; exact absurd h (by decide)

example : run false (run true exH) = run false exH := run_run true false exH exH_ok
example : [true, false, true, true, false].foldl (fun d b => run b d) exH = run false exH :=
  run_history false [true, false, true, true] exH exH_ok
/-- the two flags really give different dictionaries -/
example : defaultOf (run true exH) "H" "S" 0 = some (.int 5)
    ∧ defaultOf (run false exH) "H" "S" 0 = some (.str "b") := by decide

/-! #### the findings are real: closed witnesses -/

/-- FINDING (idempotence): `A ::= SEQUENCE { e ENUMERATED { a(b), b(1) } DEFAULT a }` with the value
reference `b` (what `parse_string` returns for it).  With `numeric_enums=True` the first rewrite
turns the DEFAULT into `'b'` (the name of the value reference, not its value) and the second one
into `1`: the three rewrites inside ONE `compile_dict` call already disagree. -/
def wRef : Spec := [("M", { tags := some "AUTOMATIC", types := [("A",
  .mk { type := "SEQUENCE" } (.members [
    .desc (.mk { fld "e" "ENUMERATED" with
      values := some [.item "a" (.ref "b"), .item "b" (.int 1)],
      default := some (.str "a") } .leaf)]))] })]

theorem idempotence_fails_enum_value_reference : run true (run true wRef) ≠ run true wRef := by
  intro h
  have := congrArg (fun s => defaultOf s "M" "A" 0) h
  revert this
  decide

theorem wRef_not_wf : ¬ EnumRefsStable wRef := fun h =>
  idempotence_fails_enum_value_reference (run_idempotent true wRef h)

/-- FINDING (history, hand-made dictionary; the parser rejects duplicate numbers): two names with
one number.  `numeric_enums=True` then `False` turns DEFAULT `b` into `a`. -/
def wDup : Spec := [("M", { types := [("A",
  .mk { type := "SEQUENCE" } (.members [
    .desc (.mk { fld "e" "ENUMERATED" with
      values := some [.item "a" (.int 1), .item "b" (.int 1)],
      default := some (.str "b") } .leaf)]))] })]

theorem history_fails_duplicate_numbers : run false (run true wDup) ≠ run false wDup := by
  intro h
  have := congrArg (fun s => defaultOf s "M" "A" 0) h
  revert this
  decide

/-- FINDING (history, hand-made dictionary): a Python `bool` as DEFAULT of an ENUMERATED member
(`isinstance(True, int)`): `False` then `True` gives the integer 1, a fresh `True` leaves `True`. -/
def wBool : Spec := [("M", { types := [("A",
  .mk { type := "SEQUENCE" } (.members [
    .desc (.mk { fld "e" "ENUMERATED" with
      values := some [.item "a" (.int 0), .item "b" (.int 1)],
      default := some (.bool true) } .leaf)]))] })]

theorem history_fails_bool_default : run true (run false wBool) ≠ run true wBool := by
  intro h
  have := congrArg (fun s => defaultOf s "M" "A" 0) h
  revert this
  decide

/-- FINDING (history, a dictionary the parser produces and every codec compiles):

      M0 DEFINITIONS AUTOMATIC TAGS ::= BEGIN
        E ::= ENUMERATED { a(0), b(5) }     S ::= SEQUENCE { m E DEFAULT b }            END
      M1 DEFINITIONS AUTOMATIC TAGS ::= BEGIN IMPORTS S FROM M0;
        E ::= ENUMERATED { c(5), d(7), e(8) }     T ::= SEQUENCE { COMPONENTS OF S, x BOOLEAN }  END

  The member copied into `M1.T` keeps the type NAME `E`, which in `M1` is another type.  After
  `numeric_enums=True` the copy carries the integer 5; a later `numeric_enums=False` compile restores
  it from `M1.E` to `c`, whereas a fresh compile keeps `b`.  (Real code: `decode('T', b'\x40')` gives
  `{'m': 'c', …}` after the history and `{'m': 'b', …}` fresh.) -/
def wCapture : Spec :=
  [("M0", { tags := some "AUTOMATIC", types := [
      ("E", .mk { type := "ENUMERATED", values := some [.item "a" (.int 0), .item "b" (.int 5)] }
          .leaf),
      ("S", .mk { type := "SEQUENCE" } (.members [
          .desc (.mk { fld "m" "E" with default := some (.str "b") } .leaf)]))] }),
   ("M1", { tags := some "AUTOMATIC", imports := [("M0", ["S"])], types := [
      ("E", .mk { type := "ENUMERATED",
                  values := some [.item "c" (.int 5), .item "d" (.int 7), .item "e" (.int 8)] }
          .leaf),
      ("T", .mk { type := "SEQUENCE" } (.members [
          .compOf "S", .desc (.mk (fld "x" "BOOLEAN") .leaf)]))] })]

theorem history_fails_components_of :
    defaultOf (run false (run true wCapture)) "M1" "T" 0 = some (.str "c")
    ∧ defaultOf (run false wCapture) "M1" "T" 0 = some (.str "b") := by decide

theorem history_fails_components_of' : run false (run true wCapture) ≠ run false wCapture := by
  intro h
  have := congrArg (fun s => defaultOf s "M1" "T" 0) h
  revert this
  decide

/-- the general statement `∀ d, run n (run m d) = run n d` is therefore false -/
theorem run_history_not_unconditional :
    ¬ ∀ (m n : Bool) (d : Spec), run n (run m d) = run n d :=
  fun h => history_fails_components_of' (h true false wCapture)

end Asn1.C13
