import Asn1Model.TypeCheck
import Asn1Model.Typing
import Asn1Proofs.Lemmas.TypeCheckLemmas
/-
  C12 — ill-typed components are rejected with the exact path; well-typed values are never rejected.
-/
namespace Asn1.C12
open Asn1 Asn1.TypeCheck

/-- **Well-typed values are never rejected by the type check**: every value accepted by `hasType`
(the model's "passes the library's own checks"), embedded the way asn1tools represents values in Python,
passes the type checker — for every type, at every nesting depth. -/
theorem welltyped_ok (t : Ty) (v : Val) (hwf : t.wf = true) (h : hasType t v = true) :
    tcheck t (embed v) = none :=
  tcheck_ok t v hwf h

/-- **The reported path is exact**: when the type checker rejects, the name path it reports leads to a
component whose own Python type / shape is wrong (or whose CHOICE alternative is unknown). -/
theorem rejected_path_exact (t : Ty) (pv : PyVal) (p : List String) (h : tcheck t pv = some p) :
    ∃ c ∈ preach t pv p, shapeOk c.1 c.2 = false :=
  path_tcheck t pv p h

/-- test: a wrong Python type deep inside a list inside a CHOICE is located by member names only -/
theorem test_path_through_list :
    tcheck (.choice (.cons "c" (.sequenceOf (.sequence (.cons "m" .mandatory .boolean .nil) false .nil) ⟨0, none, false⟩) .nil) false .nil)
      (.tuple [.str (strOfName "c"), .list [.dict [("m", .bool true)], .dict [("m", .int 1)]]]) = some ["c", "m"] := by
  decide +kernel

/-- `location_str`: blank names are dropped -/
theorem locationStr_example : locationStr "A" ["b", "", "c"] = "A.b.c" := by decide +kernel

end Asn1.C12
