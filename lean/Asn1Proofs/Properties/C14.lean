import Asn1Model.Comments
/-
  C14 — property theorems about the comment pre-pass (`ignore_comments`).
  Only property statements and their non-vacuity examples live here.
-/
namespace Asn1.C14
open Asn1.Comments

/-- Positions of new-lines: exactly what line/column reporting depends on. -/
def nlSkeleton (s : List Char) : List Bool := s.map (· == '\n')

theorem go_newlines (st : St) (a : Nat) (s o : List Char)
    (h : go st a s = .ok o) : nlSkeleton o = nlSkeleton s := by
  fun_induction go st a s generalizing o <;>
    simp_all [nlSkeleton, Functor.map, Except.map] <;>
    (try (split at h <;> simp_all))
  all_goals (subst h; simp_all)

theorem strip_ok_iff (s o : List Char) : strip s = .ok o ↔ go .normal 0 s = .ok o := by
  unfold strip; split <;> simp_all

/-- The pre-pass never moves, adds or removes a new-line: an offset in the blanked text lies
on the same line and column as in the original text, so a syntax error located by the grammar
in the blanked text is reported with the line of the offending item in the original text. -/
theorem strip_newlines (s o : List Char) (h : strip s = .ok o) : nlSkeleton o = nlSkeleton s :=
  go_newlines _ _ _ _ ((strip_ok_iff s o).1 h)

theorem strip_length (s o : List Char) (h : strip s = .ok o) : o.length = s.length := by
  have := congrArg List.length (strip_newlines s o h)
  simpa [nlSkeleton] using this

theorem go_pointwise (st : St) (a : Nat) (s o : List Char)
    (h : go st a s = .ok o) : ∀ x ∈ List.zip s o, x.2 = x.1 ∨ x.2 = ' ' := by
  fun_induction go st a s generalizing o <;>
    simp_all [Functor.map, Except.map] <;>
    (try (split at h <;> simp_all))
  all_goals (try subst h)
  all_goals (simp only [List.zip_cons_cons, List.mem_cons, Prod.mk.injEq] at *)
  all_goals grind

/-- Every output character is the input character at the same offset, or a blank. -/
theorem strip_pointwise (s o : List Char) (h : strip s = .ok o) :
    ∀ x ∈ List.zip s o, x.2 = x.1 ∨ x.2 = ' ' := go_pointwise _ _ _ _ ((strip_ok_iff s o).1 h)

example : strip "a \"x--y\" -- c\nb".toList = .ok "a \"x--y\"     \nb".toList := by rfl

end Asn1.C14
