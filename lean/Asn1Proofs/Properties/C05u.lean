import Asn1Proofs.Lemmas.Bridge2
/-
  C05 / C16 / C08 — TRANSLATOR TIE for the PER bit reader.  `Asn1.Translated.per_Decoder_*` are regenerated from the Python class
  `per.Decoder` (/repo/asn1tools/codecs/per.py: the input as a str of '0'/'1' characters, a count of remaining bits) by
  harness/py2lean.py on every run.  Under the invariant `PDecInv` (established by `Decoder(data)`, preserved by every method)
  each method refines (`Refines`: same outcome class, new state abstracts to the model's new state, values correspond) the
  reading primitive of the PER code model (`Per.readBit`, `readNat`, `readBits`, `align`, `readLenDet`, `decNsnnwn`,
  `decNsLength`, `decCwn`, `decUnconstrained`) about which `per_refines`, the truncation theorems (C16) and the allocation
  bounds (C08) are stated.  In particular: a read beyond the end of the input is OutOfDataError — never a value — for EVERY
  state and width.  `PDecInv` needs `total_number_of_bits % 8 = 0` (whole octets), see `per_align_always_refines_original_false`.
-/
namespace Asn1.C05u
open Asn1 Asn1.Translated Asn1.Bridge

theorem per_number_of_read_bits (d : per_DecoderS) (h : PDecInv d) :
    per_Decoder_number_of_read_bits d = ((pAbs d).pos : Int) :=
  Bridge.per_number_of_read_bits d h

theorem per_align_always_refines (d : per_DecoderS) (h : PDecInv d) :
    PDecInv (per_Decoder_align_always d) ∧ pAbs (per_Decoder_align_always d) = Per.align (pAbs d) :=
  Bridge.per_align_always_refines d h

theorem per_skip_bits_refines (d : per_DecoderS) (h : PDecInv d) (n : Nat) :
    Refines PDecInv pAbs (fun (_ : Unit) (_ : Bits) => True)
      ((per_Decoder_skip_bits d n).map (fun s => (s, ()))) (Per.readBits n (pAbs d)) :=
  Bridge.per_skip_bits_refines d h n

theorem per_read_bit_refines (d : per_DecoderS) (h : PDecInv d) :
    Refines PDecInv pAbs bitVal (per_Decoder_read_bit d) (Per.readBit (pAbs d)) :=
  Bridge.per_read_bit_refines d h

theorem per_read_non_negative_binary_integer_refines (d : per_DecoderS) (h : PDecInv d) (n : Nat) :
    Refines PDecInv pAbs natVal (per_Decoder_read_non_negative_binary_integer d n) (Per.readNat n (pAbs d)) :=
  Bridge.per_read_non_negative_binary_integer_refines d h n

theorem per_read_bits_refines (d : per_DecoderS) (h : PDecInv d) (n : Nat) :
    Refines PDecInv pAbs (fun a (bits : Bits) => a = ofNats (packBits bits))
      (per_Decoder_read_bits d n) (Per.readBits n (pAbs d)) :=
  Bridge.per_read_bits_refines d h n

theorem per_read_length_determinant_refines (d : per_DecoderS) (h : PDecInv d) :
    Refines PDecInv pAbs natVal (per_Decoder_read_length_determinant d) (Per.readLenDet (pAbs d)) :=
  Bridge.per_read_length_determinant_refines d h

theorem per_read_normally_small_non_negative_whole_number_refines (d : per_DecoderS) (h : PDecInv d) :
    Refines PDecInv pAbs natVal (per_Decoder_read_normally_small_non_negative_whole_number d) (Per.decNsnnwn (pAbs d)) :=
  Bridge.per_read_normally_small_non_negative_whole_number_refines d h

theorem per_read_normally_small_length_refines (d : per_DecoderS) (h : PDecInv d) :
    Refines PDecInv pAbs natVal (per_Decoder_read_normally_small_length d) (Per.decNsLength (pAbs d)) :=
  Bridge.per_read_normally_small_length_refines d h

theorem per_read_constrained_whole_number_refines (d : per_DecoderS) (h : PDecInv d) (lo hi : Int) (nbits : Nat) (hr : lo ≤ hi) :
    Refines PDecInv pAbs (fun a (v : Nat) => a = lo + v)
      (per_Decoder_read_constrained_whole_number d lo hi nbits) (Per.decCwn (hi - lo + 1).toNat nbits (pAbs d)) :=
  Bridge.per_read_constrained_whole_number_refines d h lo hi nbits hr

theorem per_read_unconstrained_whole_number_refines (d : per_DecoderS) (h : PDecInv d) :
    Refines PDecInv pAbs (fun a (i : Int) => a = i)
      (per_Decoder_read_unconstrained_whole_number d) (Per.decUnconstrained (pAbs d)) :=
  Bridge.per_read_unconstrained_whole_number_refines d h

theorem per_align_always_refines_original_false  :
    ¬ (∀ d : per_DecoderS, PDecInv0 d →
        PDecInv0 (per_Decoder_align_always d) ∧ pAbs (per_Decoder_align_always d) = Per.align (pAbs d)) :=
  Bridge.per_align_always_refines_original_false 

end Asn1.C05u
