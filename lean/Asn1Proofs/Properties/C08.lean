import Asn1Proofs.Lemmas.CostOer
/-
  C08 — "for any byte string whatsoever, every decoder returns a value or raises an exception after
  work and memory proportional to the input length (times the declared nesting of the type); it never
  loops forever, never allocates without bound".

  In the models every decoder is a total function: termination is by construction, with every
  data-driven loop of the Python code (`while True`, `for _ in range(length)`) expressed as a
  fuel-indexed combinator whose fuel is computed once from the input length.  What is left to prove is
  that the model is *faithful* there, i.e.

  (1) ALLOCATION: the size of a decoded value (`Val.nodes`: one unit per constructor, record field,
      list element, octet of an OCTET/BIT STRING, character of a string) is at most `K t * (length + 1)`
      with `K t` a computable function of the type only — for DER, BER and UPER, all types, all inputs;
  (2) FUEL SUFFICIENCY: the out-of-fuel branch of every fuel-indexed loop is dead code: the result of
      the decoder is the same for every amount of fuel above the one `decode` supplies, so the loops
      stop because of the data ("every read advances the offset or raises", "declared lengths are
      validated against the remaining data", "every element of a counted loop costs input");
  (3) the genuine DEFECT: OER `SEQUENCE OF` trusts its quantity field; with an element type whose
      encoding is empty, `n` elements are built from `2 + ⌊log₂₅₆ n⌋` octets — no bound of the form
      `K * (length + 1)` exists.

  Lemmas: `Asn1Proofs/Lemmas/Cost*.lean`.
-/
namespace Asn1.C08
open Asn1 Asn1.Cost

/-! ## (1) allocation bounds -/

/-- **DER**: a decoded value has at most `KD t` nodes per input octet (`KD t` = 1 for every leaf type,
`1 + Σ (1 + |DEFAULT| + KD member)` for SEQUENCE, `1 + KD element` for SEQUENCE OF: every element of a
DER SEQUENCE OF costs at least two octets) -/
theorem der_alloc_bound (t : Ty) (bs : Bytes) (v : Val) (h : Der.decode t bs = .ok v) :
    v.nodes ≤ KD t * bs.length := by
  unfold Der.decode Der.decodeWithLength at h
  split at h
  · cases h
  · cases h
  · rename_i w k r hd
    cases h
    have := der_dec_cost t none _ bs w k r hd
    exact bm_mono this.2.2 (Nat.le_refl _) (by omega)

theorem der_alloc_bound' (t : Ty) (bs : Bytes) (v : Val) (h : Der.decode t bs = .ok v) :
    v.nodes ≤ KD t * (bs.length + 1) :=
  bm_mono (der_alloc_bound t bs v h) (Nat.le_refl _) (by omega)

/-- **BER** (indefinite lengths, constructed strings, nested segments): the same constant -/
theorem ber_alloc_bound (t : Ty) (bs : Bytes) (v : Val) (h : BerCodec.decode t bs = .ok v) :
    v.nodes ≤ KD t * bs.length := by
  unfold BerCodec.decode BerCodec.decodeWithLength at h
  split at h
  · cases h
  · cases h
  · rename_i w k r hd
    cases h
    have := ber_dec_cost t none _ bs w k r hd
    exact bm_mono this.2.2 (Nat.le_refl _) (by omega)

theorem ber_alloc_bound' (t : Ty) (bs : Bytes) (v : Val) (h : BerCodec.decode t bs = .ok v) :
    v.nodes ≤ KD t * (bs.length + 1) :=
  bm_mono (ber_alloc_bound t bs v h) (Nat.le_refl _) (by omega)

/-- every DER/BER element decoder advances: a successful `dec` leaves strictly less input, reports a
positive octet count, and its value is paid for by the octets consumed -/
theorem der_dec_advances (t : Ty) (tg : Option Nat) (f : Nat) (bs : Bytes) (v : Val) (k : Nat) (r : Bytes)
    (h : Der.dec t tg f bs = .ok (some (v, k, r))) :
    r.length < bs.length ∧ 1 ≤ k ∧ v.nodes ≤ KD t * (bs.length - r.length) :=
  der_dec_cost t tg f bs v k r h

theorem ber_dec_advances (t : Ty) (tg : Option Nat) (f : Nat) (bs : Bytes) (v : Val) (k : Nat) (r : Bytes)
    (h : BerCodec.dec t tg f bs = .ok (some (v, k, r))) :
    r.length < bs.length ∧ 1 ≤ k ∧ v.nodes ≤ KD t * (bs.length - r.length) :=
  ber_dec_cost t tg f bs v k r h

/-- **UPER**, bit level: the decoder never lengthens the input and allocates at most `KU t` nodes per
bit consumed (+1).  `KU` is 1 for leaf types; a SEQUENCE OF multiplies by `1 + seqOfMax c`, where
`seqOfMax c ≥ 8192` because one length octet `c4` announces 65536 elements, which cost nothing when
the element type is NULL (so `K` is large, but finite and computable) -/
theorem uper_dec_alloc (t : Ty) (f : Nat) (bs : Bits) (v : Val) (r : Bits)
    (h : Uper.dec t f bs = .ok (v, r)) :
    r.length ≤ bs.length ∧ v.nodes ≤ KU t * (bs.length - r.length + 1) :=
  uper_dec_cost t f bs v r h

/-- **UPER**: allocation bound in octets of input -/
theorem uper_alloc_bound (t : Ty) (bs : Bytes) (v : Val) (h : Uper.decode t bs = .ok v) :
    v.nodes ≤ 8 * KU t * (bs.length + 1) :=
  uper_decode_alloc' t bs v h

/-- the sharper form `KU t * (8 * length + 1)` -/
theorem uper_alloc_bound_bits (t : Ty) (bs : Bytes) (v : Val) (h : Uper.decode t bs = .ok v) :
    v.nodes ≤ KU t * (8 * bs.length + 1) :=
  uper_decode_alloc t bs v h

/-! ## (2) fuel sufficiency: the loops stop because of the data -/

/-- **UPER**: `decode` runs `dec` with fuel `8 * length + 2`; any larger fuel gives the same outcome
(value, remaining bits, or error): the out-of-fuel branch of `decChunks` is unreachable -/
theorem uper_fuel_sufficient (t : Ty) (bs : Bytes) (f : Nat) (hf : 8 * bs.length + 2 ≤ f) :
    Uper.dec t f (bytesToBits bs) = Uper.dec t (8 * bs.length + 2) (bytesToBits bs) :=
  uper_decode_fuel t bs f hf

theorem uper_decode_any_fuel (t : Ty) (bs : Bytes) (f : Nat) (hf : 8 * bs.length + 2 ≤ f) :
    (Uper.dec t f (bytesToBits bs)).map (·.1) = Uper.decode t bs := by
  rw [uper_fuel_sufficient t bs f hf]; rfl

/-- the general statement, on any bit string: two amounts of fuel above the number of remaining bits -/
theorem uper_dec_fuel_irrelevant (t : Ty) (f f' : Nat) (bs : Bits)
    (hf : bs.length < f) (hf' : bs.length < f') : Uper.dec t f bs = Uper.dec t f' bs :=
  uper_dec_fuel t f f' bs hf hf'

/-- the chunk loop itself (`read_length_determinant_chunks`): for an item decoder that never
lengthens the input, fuel above the number of remaining bits is never used up, since every chunk
starts with a length determinant of at least 8 bits -/
theorem uper_chunks_fuel_irrelevant {α : Type} (p : Bits → Uper.DecM (α × Bits))
    (hp : ∀ bs a r, p bs = .ok (a, r) → r.length ≤ bs.length) (f f' : Nat) (bs : Bits)
    (hf : bs.length < f) (hf' : bs.length < f') :
    Uper.decChunks p f bs = Uper.decChunks p f' bs :=
  decChunks_fuel_self hp f f' bs hf hf'

/-- **DER**: `decode` runs `dec` with fuel `length + 1` (used by the SEQUENCE OF element loop
`derElems`); any larger fuel gives the same outcome -/
theorem der_fuel_sufficient (t : Ty) (bs : Bytes) (f : Nat) (hf : bs.length + 1 ≤ f) :
    Der.dec t none f bs = Der.dec t none (bs.length + 1) bs :=
  der_dec_fuel t none f (bs.length + 1) bs (by omega) (by omega)

/-- DER: the `while True` loop of `decode_members` runs with fuel `number of members + 1`, fixed by the
type; each repeated pass decodes at least one more member, so additional fuel changes nothing -/
theorem der_members_fuel_sufficient (ms : Members) (i f extra : Nat) (c : Der.Cur) :
    Der.retry (Der.decPass ms i f) (ms.length + 1 + extra) (List.replicate ms.length none) c
      = Der.retry (Der.decPass ms i f) (ms.length + 1) (List.replicate ms.length none) c :=
  der_retry_fuel ms i f extra c

/-- **BER**: the same for the BER decoder (loops `items` for SEQUENCE OF and constructed strings,
recursion `pcDecode` over nested string segments) -/
theorem ber_fuel_sufficient (t : Ty) (bs : Bytes) (f : Nat) (hf : bs.length + 1 ≤ f) :
    BerCodec.dec t none f bs = BerCodec.dec t none (bs.length + 1) bs :=
  ber_dec_fuel t none f (bs.length + 1) bs (by omega) (by omega)

theorem ber_members_fuel_sufficient (ms : Members) (i f extra : Nat) (c : Der.Cur) :
    Der.retry (BerCodec.decPass ms i f) (ms.length + 1 + extra) (List.replicate ms.length none) c
      = Der.retry (BerCodec.decPass ms i f) (ms.length + 1) (List.replicate ms.length none) c :=
  ber_retry_fuel ms i f extra c

/-- the UTF-8 decoder of the models (fuel = number of octets + 1) is never out of fuel either -/
theorem utf8_fuel_sufficient (bs : Bytes) (f : Nat) (hf : bs.length + 1 ≤ f) :
    Uper.utf8Dec f bs = Uper.utf8Dec (bs.length + 1) bs :=
  utf8Dec_fuel f (bs.length + 1) bs (by omega) (by omega)

/-- OER `read_tag` (the only fuel-indexed loop of the OER model) is never out of fuel -/
theorem oer_readTag_fuel_sufficient (bs : Bytes) (f : Nat) (hf : bs.length + 1 ≤ f) :
    Oer.readTagRest f bs = Oer.readTagRest (bs.length + 1) bs :=
  oer_readTagRest_fuel f (bs.length + 1) bs (by omega) (by omega)

/-! ## (3) the defect: OER SEQUENCE OF trusts its quantity field -/

/-- for EVERY `n`: if `q` is the quantity field of `n` (`append_unsigned_integer`), the OER decoder of
`SEQUENCE OF NULL` returns a list of exactly `n` elements having consumed only `q` -/
theorem oer_quantity_unbounded (c : SizeC) (n : Nat) (q rest : Bytes)
    (h : Oer.encUnsigned n = .ok q) :
    Oer.dec (.sequenceOf .null c) (q ++ rest) = .ok (.list (List.replicate n .null), rest) :=
  Cost.oer_quantity_unbounded c n q rest h

/-- `q` exists and is short: for every `n < 256 ^ 127` there is an input of
`1 + ⌈max(bits of n, 1) / 8⌉` genuine octets decoding to a list of `n` elements -/
theorem oer_quantity_any (c : SizeC) (n : Nat) (hn : n < 256 ^ 127) :
    ∃ bs : Bytes, bs.length = 1 + (max (bitLength n) 1 + 7) / 8 ∧ (∀ b ∈ bs, b < 256) ∧
      Oer.decode (.sequenceOf .null c) bs = .ok (.list (List.replicate n .null)) :=
  Cost.oer_quantity_any c n hn

/-- at most five octets for any count below `2 ^ 32` -/
theorem oer_quantity_32 (c : SizeC) (n : Nat) (hn : n < 2 ^ 32) :
    ∃ bs : Bytes, bs.length ≤ 5 ∧ (∀ b ∈ bs, b < 256) ∧
      ∃ vs, Oer.decode (.sequenceOf .null c) bs = .ok (.list vs) ∧ vs.length = n :=
  Cost.oer_quantity_32 c n hn

/-- the recorded input: from the 5 octets `04 ff ff ff ff` the decoder builds `2^32 - 1` elements -/
theorem oer_quantity_04ffffffff (c : SizeC) :
    Oer.decode (.sequenceOf .null c) [0x04, 0xff, 0xff, 0xff, 0xff]
      = .ok (.list (List.replicate 4294967295 .null)) :=
  Cost.oer_quantity_04ffffffff c

/-- `m + 1` octets, `256 ^ m - 1` elements (`m ≤ 127`): exponential, not linear -/
theorem oer_alloc_exponential (c : SizeC) (m : Nat) (hm : m < 128) :
    Oer.decode (.sequenceOf .null c) (m :: List.replicate m 255)
      = .ok (.list (List.replicate (256 ^ m - 1) .null)) :=
  Cost.oer_alloc_exponential c m hm

/-- **no allocation bound for OER**.  (Stated over the model's byte strings, `List Nat`, whose
consumers are total on arbitrary naturals; the witness used for an arbitrary `K` is not made of
octets.  With genuine octets the count is limited by the 127 length-of-length octets of the format,
i.e. by `256 ^ (256 ^ 127)`: see `oer_no_alloc_bound_octets` for the meaningful range.) -/
theorem oer_no_alloc_bound :
    ¬ ∃ K : Nat, ∀ (bs : Bytes) (v : Val),
      Oer.decode (.sequenceOf .null ⟨0, none, false⟩) bs = .ok v → v.nodes ≤ K * (bs.length + 1) :=
  Cost.oer_no_alloc_bound

/-- with genuine octets: no constant below `256 ^ 126` works, the witness has 128 octets -/
theorem oer_no_alloc_bound_octets (K : Nat) (hK : K < 256 ^ 126) :
    ∃ (bs : Bytes) (v : Val), (∀ b ∈ bs, b < 256) ∧ bs.length = 128 ∧
      Oer.decode (.sequenceOf .null ⟨0, none, false⟩) bs = .ok v ∧ K * (bs.length + 1) < v.nodes :=
  Cost.oer_no_alloc_bound_octets K hK

/-! ## (4) non-vacuity: kernel-evaluated examples -/

section examples
private abbrev c0 : SizeC := ⟨0, none, false⟩
private abbrev ic : IntC := ⟨none, none, false⟩

-- UPER: a length determinant announcing 65536 BOOLEANs with no data behind it: out of data at the
-- first element
example : Uper.decode (.sequenceOf .boolean c0) [0xc4] = .error .decodeError := by rfl
-- UPER: 127 octets announced, 2 present
example : Uper.decode (.octetString c0) [0x7f, 1, 2] = .error .decodeError := by rfl
-- UPER: `ff` is not a length determinant
example : Uper.decode (.octetString c0) [0xff] = .error .decodeError := by rfl
-- UPER: an OCTET STRING inside a SEQUENCE, two-octet length 0x3ff, one octet of data
example : Uper.decode (.sequence (.cons "a" .mandatory (.octetString c0) .nil) false .nil) [0x83, 0xff, 0xff]
    = .error .decodeError := by rfl
-- UPER: the bound is not vacuous and `K` has the right order of magnitude: one octet `7f` gives 127
-- NULLs (128 nodes), `c4 00` gives 65536 (65537 nodes); `KU = 8194` nodes per bit
set_option maxRecDepth 10000 in
example : (Uper.decode (.sequenceOf .null c0) [0x7f]).toOption.map Val.nodes = some 128 := by rfl
example : KU (.sequenceOf .null c0) = 8194 := by rfl

-- DER: SEQUENCE OF announcing 2^32 - 1 octets of contents that are not there (`MissingDataError`)
example : Der.decode (.sequenceOf .boolean c0) [0x30, 0x84, 0xff, 0xff, 0xff, 0xff] = .error .decodeError := by rfl
-- DER: OCTET STRING announcing 127 octets, 1 present
example : Der.decode (.octetString c0) [0x04, 0x7f, 1] = .error .decodeError := by rfl
-- DER: the input that made the unrepaired `ArrayType.decode_content` loop forever (element with the
-- wrong tag inside a SEQUENCE OF INTEGER) is a decode error
example : Der.decode (.sequenceOf (.integer ic) c0) [0x30, 3, 1, 1, 0] = .error .decodeError := by rfl
-- DER: indefinite length is refused for SEQUENCE OF
example : Der.decode (.sequenceOf .boolean c0) [0x30, 0x80, 1, 1, 0xff, 0, 0] = .error .decodeError := by rfl
-- DER: three NULL elements in 8 octets: 4 nodes ≤ KD * 8 = 16
example : (Der.decode (.sequenceOf .null c0) [0x30, 6, 5, 0, 5, 0, 5, 0]).toOption.map Val.nodes = some 4 := by rfl
example : KD (.sequenceOf .null c0) = 2 := by rfl

-- BER: indefinite length without end-of-contents octets
example : BerCodec.decode (.sequenceOf .boolean c0) [0x30, 0x80, 1, 1, 0xff] = .error .decodeError := by rfl
example : (BerCodec.decode (.sequenceOf .boolean c0) [0x30, 0x80, 1, 1, 0xff, 0, 0]).toOption.map Val.nodes
    = some 2 := by rfl
-- BER: constructed OCTET STRING segments nested until the data ends
example : BerCodec.decode (.octetString c0) [0x24, 0x80, 0x24, 0x80, 0x24, 0x80] = .error .decodeError := by rfl

-- OER: with an element type that needs data, the huge quantity is caught at the first element ...
example : Oer.decode (.sequenceOf .boolean c0) [4, 0xff, 0xff, 0xff, 0xff] = .error .decodeError := by rfl
-- ... with NULL elements it is not: two octets, 200 elements
set_option maxRecDepth 10000 in
example : (Oer.decode (.sequenceOf .null c0) [1, 200]).toOption.map Val.nodes = some 201 := by rfl
-- OER: a quantity field cut short is a decode error
example : Oer.decode (.sequenceOf .null c0) [0x83, 1] = .error .decodeError := by rfl
example : Oer.encUnsigned 4294967295 = .ok [4, 0xff, 0xff, 0xff, 0xff] := by rfl

end examples

end Asn1.C08
