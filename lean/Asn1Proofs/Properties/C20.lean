import Asn1Proofs.Lemmas.GserParse
import Asn1Proofs.Lemmas.GserTree
import Asn1Proofs.Lemmas.GserUtf8
import Asn1Proofs.Lemmas.GserCanon
/-
  C20 — "GSER output is well-formed value notation that determines the value: for every type and value
  the GSER encoder emits text that an independent RFC 3641 reader parses completely and maps back to the
  same abstract value, in both compact and indented layouts; two different values never produce the same
  text."

  Model (Asn1Model/Gser.lean, validated against codecs/gser.py by tools/compare_gser.py and on every run of
  the check): the WRITER `Gser.toG` (value -> generic tree) + `Gser.render` (tree -> text, both layouts,
  any indent width), `Gser.enc` (the Value text), `Gser.encTop` (`name Name ::= Value`), `Gser.encode`
  (octets); the READER `Gser.parseValue` / `Gser.parseAssignment` (written from the ABNF of RFC 3641,
  "parses completely" = nothing but white space may follow) + the type-directed `Gser.toVal`, together
  `Gser.read` / `Gser.readTop` / `Gser.decode`.

  "The same abstract value" is `Gser.canonG t v`: `v` with the unused bits of BIT STRINGs cleared (they are
  not in the text) and absent DEFAULT components filled in (root members and additions alike).

  Hypotheses (all decidable):
    `t.wf`          the type is one the compiler accepts (distinct member / alternative / item names ...)
    `hasType t v`   the value passes the library's type and constraint checks
    `Gser.idsOk t`  every name in the type is an RFC 3641 identifier (the ASN.1 parser admits no others)
    `Gser.typeNameOk name`  (whole texts only) the type name is a typereference
  Their necessity is shown by the closed witnesses at the end.

  Recorded deviation (finding predicate `Gser.hasChoiceText`): a ChoiceValue is written `id : value`; the
  ABNF has no white space around the colon.  The round trip is proved for the reader that accepts it
  (X.680 value notation); `gser_strict_outside_choice` proves that the strict ABNF reader reads every
  text without a ChoiceValue, `strict_abnf_rejects_choice_text` is the witness.
-/
namespace Asn1.C20
open Asn1 Asn1.Gser

/-! ### tree level -/

/-- the tree the writer builds for a typed value reads back, directed by the type, to the canonical value -/
theorem gser_tree_roundtrip (t : Ty) (v : Val) (g : GVal)
    (hwf : t.wf = true) (hid : idsOk t = true) (ht : hasType t v = true) (he : toG t v = .ok g) :
    toVal t g = some (canonG t v) :=
  (rt_all t v g hwf hid ht he).1

/-- ... and is well formed (words are words, identifiers are identifiers, hexadecimal digits are digits) -/
theorem gser_tree_wf (t : Ty) (v : Val) (g : GVal)
    (hwf : t.wf = true) (hid : idsOk t = true) (ht : hasType t v = true) (he : toG t v = .ok g) :
    wfG g = true :=
  (rt_all t v g hwf hid ht he).2

/-- **the layout of every well-formed tree is parsed completely by the RFC 3641 reader, which gives the tree
back** -- compact (`none`) and indented with any width (`some n`) -/
theorem gser_parse_render (indent : Option Nat) (g : GVal) (hg : wfG g = true) :
    parseValue true (render indent g) = some g :=
  parseValue_render indent g hg

/-- the same for ANY white-space separator and indent width, also after leading white space -/
theorem gser_parse_layout (ind : Nat) (sep lead : List Nat) (g : GVal) (hg : wfG g = true)
    (hs : ∀ c ∈ sep, Json.isWs c = true) (hl : ∀ c ∈ lead, Json.isWs c = true) :
    parseValue true (lead ++ renderV ind sep g) = some g :=
  parseValue_ws_renderV true ind sep g hg (Or.inl rfl) hs lead hl

/-! ### totality -/

/-- **typed values always encode** (tree, Value text, whole text, octets) -/
theorem gser_enc_total (name : String) (t : Ty) (v : Val) (indent : Option Nat)
    (hwf : t.wf = true) (ht : hasType t v = true) :
    (∃ s, enc t v indent = .ok s) ∧ (∃ s, encTop name t v indent = .ok s) ∧
      (∃ bs, encode name t v indent = .ok bs) := by
  obtain ⟨g, hg⟩ := et_all t v hwf ht
  have h1 : enc t v indent = .ok (render indent g) := by simp only [enc, hg]
  have h2 : encTop name t v indent = .ok ((Jer.strCps name).map lowerAscii ++ [32] ++ Jer.strCps name ++ [32] ++
      kAssign ++ [32] ++ lstrip (render indent g)) := by simp only [encTop, h1]
  have h3 : encode name t v indent = .ok (((Jer.strCps name).map lowerAscii ++ [32] ++ Jer.strCps name ++ [32] ++
      kAssign ++ [32] ++ lstrip (render indent g)).flatMap Uper.utf8Enc) := by simp only [encode, h2]
  exact ⟨⟨_, h1⟩, ⟨_, h2⟩, ⟨_, h3⟩⟩

/-! ### round trip -/

/-- **the Value text**: for every well-formed type, typed value and layout, the text the writer emits is
parsed completely by the independent reader and maps back to the canonical value -/
theorem gser_roundtrip (t : Ty) (v : Val) (indent : Option Nat) (s : List Nat)
    (hwf : t.wf = true) (hid : idsOk t = true) (ht : hasType t v = true) (he : enc t v indent = .ok s) :
    read t s = some (canonG t v) := by
  unfold enc at he
  cases hg : toG t v with
  | error e => rw [hg] at he; cases he
  | ok g =>
    rw [hg] at he
    cases he
    obtain ⟨h1, h2⟩ := rt_all t v g hwf hid ht hg
    simp only [Gser.read, parseValue_render indent g h2, h1]

/-- **the whole text** `name Name ::= Value` is read as a value assignment with the two names and the
canonical value -/
theorem gser_roundtrip_top (name : String) (t : Ty) (v : Val) (indent : Option Nat) (s : List Nat)
    (hwf : t.wf = true) (hid : idsOk t = true) (hn : typeNameOk name = true) (ht : hasType t v = true)
    (he : encTop name t v indent = .ok s) :
    readTop t s = some ((Jer.strCps name).map lowerAscii, Jer.strCps name, canonG t v) := by
  unfold encTop enc at he
  cases hg : toG t v with
  | error e => rw [hg] at he; cases he
  | ok g =>
    rw [hg] at he
    cases he
    obtain ⟨h1, h2⟩ := rt_all t v g hwf hid ht hg
    simp only [readTop, parseAssignment_render true _ hn indent g h2 (Or.inl rfl), h1]

/-- **the octets** (`encoded.encode('utf-8')`): decoding them as UTF-8 and reading the text gives the
canonical value -/
theorem gser_roundtrip_octets (name : String) (t : Ty) (v : Val) (indent : Option Nat) (bs : Bytes)
    (hwf : t.wf = true) (hid : idsOk t = true) (hn : typeNameOk name = true) (ht : hasType t v = true)
    (he : encode name t v indent = .ok bs) :
    decode t bs = some ((Jer.strCps name).map lowerAscii, Jer.strCps name, canonG t v) := by
  unfold encode at he
  cases hs : encTop name t v indent with
  | error e => rw [hs] at he; cases he
  | ok s =>
    rw [hs] at he
    cases he
    have hrt := gser_roundtrip_top name t v indent s hwf hid hn ht hs
    -- every code point of the text is a Unicode scalar value
    have hsc : Scalar s := by
      unfold encTop enc at hs
      cases hg : toG t v with
      | error e => rw [hg] at hs; cases hs
      | ok g =>
        rw [hg] at hs
        cases hs
        obtain ⟨_, h2⟩ := rt_all t v g hwf hid ht hg
        have hss := ss_all t v g hwf ht hg
        obtain ⟨_, _, _, _, hall, _⟩ := isTypeRef_parts hn
        have hlow : Json.Ascii ((Jer.strCps name).map lowerAscii) := by
          obtain ⟨_, _, _, _, hall', _⟩ := isIdent_parts (isIdent_lower_of_isTypeRef hn)
          exact ascii_of_wordChars hall'
        rw [lstrip_render indent g h2]
        exact .append (.append (.append (.append (.append (.append (.of_ascii hlow) (.cons (by decide) .nil))
          (.of_ascii (ascii_of_wordChars hall))) (.cons (by decide) .nil))
          (.cons (by decide) (.cons (by decide) (.cons (by decide) .nil)))) (.cons (by decide) .nil))
          (render_scalar indent g h2 hss)
    have hdoc : textCps (s.flatMap Uper.utf8Enc) = some s := by
      unfold textCps
      exact Uper.utf8Dec_flatMap_utf8Enc s hsc _ (Nat.le_refl _)
    simp only [decode, hdoc, hrt]

/-! ### the text determines the value -/

/-- **two values with the same text are the same abstract value** -- even when the two texts were written
with different layouts -/
theorem gser_injective (t : Ty) (v w : Val) (i j : Option Nat) (s : List Nat)
    (hwf : t.wf = true) (hid : idsOk t = true) (hv : hasType t v = true) (hw : hasType t w = true)
    (h1 : enc t v i = .ok s) (h2 : enc t w j = .ok s) :
    canonG t v = canonG t w := by
  have a := gser_roundtrip t v i s hwf hid hv h1
  have b := gser_roundtrip t w j s hwf hid hw h2
  rw [a] at b
  exact Option.some.inj b

/-- contrapositive, as the property states it: different abstract values never produce the same text -/
theorem gser_different_values_different_texts (t : Ty) (v w : Val) (i : Option Nat) (s s' : List Nat)
    (hwf : t.wf = true) (hid : idsOk t = true) (hv : hasType t v = true) (hw : hasType t w = true)
    (hne : canonG t v ≠ canonG t w) (h1 : enc t v i = .ok s) (h2 : enc t w i = .ok s') :
    s ≠ s' := by
  intro e
  subst e
  exact hne (gser_injective t v w i i s hwf hid hv hw h1 h2)

/-- the same for the octets of the whole text -/
theorem gser_injective_octets (name : String) (t : Ty) (v w : Val) (i j : Option Nat) (bs : Bytes)
    (hwf : t.wf = true) (hid : idsOk t = true) (hn : typeNameOk name = true)
    (hv : hasType t v = true) (hw : hasType t w = true)
    (h1 : encode name t v i = .ok bs) (h2 : encode name t w j = .ok bs) :
    canonG t v = canonG t w := by
  have a := gser_roundtrip_octets name t v i bs hwf hid hn hv h1
  have b := gser_roundtrip_octets name t w j bs hwf hid hn hw h2
  rw [a] at b
  simp only [Option.some.injEq, Prod.mk.injEq, true_and] at b
  exact b

/-- **the value read does not depend on the layout** -/
theorem gser_indent_irrelevant (t : Ty) (v : Val) (i j : Option Nat) (s s' : List Nat)
    (hwf : t.wf = true) (hid : idsOk t = true) (ht : hasType t v = true)
    (h1 : enc t v i = .ok s) (h2 : enc t v j = .ok s') :
    read t s = read t s' := by
  rw [gser_roundtrip t v i s hwf hid ht h1, gser_roundtrip t v j s' hwf hid ht h2]

/-! ### the canonical value -/

/-- the canonical value of a canonical value is itself: reading a text and writing the value again gives a
text that reads back to the same value -/
theorem gser_reencode (t : Ty) (v : Val) (i j : Option Nat) (s : List Nat)
    (hwf : t.wf = true) (hid : idsOk t = true) (ht : hasType t v = true) (h1 : enc t v i = .ok s)
    (w : Val) (hr : read t s = some w) (hw : hasType t w = true) (s' : List Nat) (h2 : enc t w j = .ok s') :
    read t s' = some (canonG t w) ∧ w = canonG t v := by
  have a := gser_roundtrip t v i s hwf hid ht h1
  rw [a] at hr
  exact ⟨gser_roundtrip t w j s' hwf hid hw h2, (Option.some.inj hr).symm⟩

/-- `canonG` is `canon` (the value the library's binary decoders return) whenever no extension addition is
declared DEFAULT (`addsPlain`, decidable): the two differ only in that `canon` leaves an absent DEFAULT
addition absent, while a reader of the notation has no reason to treat additions differently (X.680 25.9) -/
theorem canonG_eq_canon (t : Ty) (v : Val) (hp : addsPlain t = true) : canonG t v = canon t v :=
  ce_all t hp v

/-- the round trip stated with `canon` -/
theorem gser_roundtrip_canon (t : Ty) (v : Val) (indent : Option Nat) (s : List Nat)
    (hwf : t.wf = true) (hid : idsOk t = true) (hp : addsPlain t = true) (ht : hasType t v = true)
    (he : enc t v indent = .ok s) :
    read t s = some (canon t v) := by
  rw [← canonG_eq_canon t v hp]
  exact gser_roundtrip t v indent s hwf hid ht he

/-- witness: with a DEFAULT addition the two canonical forms differ (the reader fills the default in) -/
theorem canonG_differs_on_default_addition :
    let t : Ty := .sequence .nil true (.cons "x" (.default (.int 5)) (.integer ⟨none, none, false⟩) .nil)
    addsPlain t = false ∧ (canonG t (.record []) == .record [("x", .int 5)]) = true ∧
      (canon t (.record []) == .record []) = true := by
  refine ⟨by decide, by decide +kernel, by decide +kernel⟩

/-! ### the recorded deviation: white space around the colon of a ChoiceValue -/

/-- outside the finding predicate the strict ABNF reader (no white space around `:`) reads the text too -/
theorem gser_strict_outside_choice (t : Ty) (v : Val) (indent : Option Nat) (g : GVal)
    (hwf : t.wf = true) (hid : idsOk t = true) (ht : hasType t v = true) (hg : toG t v = .ok g)
    (hc : hasChoiceText g = false) :
    parseValue false (render indent g) = some g :=
  parseValue_render_gen false indent g (rt_all t v g hwf hid ht hg).2 (Or.inr hc)

/-- witness of the deviation: the text the writer emits for a CHOICE value, `a : NULL`, is rejected by the
strict ABNF reader, which accepts `a:NULL`; the X.680 reader accepts both -/
theorem strict_abnf_rejects_choice_text :
    enc (.choice (.cons "a" .null .nil) false .nil) (.choice "a" .null) none = .ok [97, 32, 58, 32, 78, 85, 76, 76] ∧
    parseValue false [97, 32, 58, 32, 78, 85, 76, 76] = none ∧
    parseValue false [97, 58, 78, 85, 76, 76] = some (.choice [97] (.word kNULL)) ∧
    parseValue true [97, 32, 58, 32, 78, 85, 76, 76] = some (.choice [97] (.word kNULL)) ∧
    parseValue true [97, 58, 78, 85, 76, 76] = some (.choice [97] (.word kNULL)) := by
  refine ⟨by rfl, by rfl, by rfl, by rfl, by rfl⟩

/-! ### necessity of the hypotheses (closed witnesses) -/

/-- `idsOk` is necessary: an ENUMERATED item named `a b` (not an identifier) is written as `a b`, which is
not a Value -/
theorem ids_necessary :
    let t : Ty := .enumerated [("a b", 0)] none
    t.wf = true ∧ hasType t (.enum "a b") = true ∧ idsOk t = false ∧
      enc t (.enum "a b") none = .ok [97, 32, 98] ∧ read t [97, 32, 98] = none := by
  refine ⟨by decide, by decide, by decide, by rfl, by rfl⟩

/-- `idsOk` is necessary (names that look like other tokens): a member named `TRUE` is not read as a member name -/
theorem ids_necessary_keyword :
    let t : Ty := .sequence (.cons "TRUE" .mandatory .boolean .nil) false .nil
    t.wf = true ∧ hasType t (.record [("TRUE", .bool true)]) = true ∧ idsOk t = false ∧
      (match enc t (.record [("TRUE", .bool true)]) none with
       | .ok s => (read t s).isNone
       | .error _ => false) = true := by
  refine ⟨by decide, by decide, by decide, by rfl⟩

/-- `typeNameOk` is necessary: with the type name `a b` the prefix is not a value assignment -/
theorem type_name_necessary :
    typeNameOk "a b" = false ∧
    (match encTop "a b" .boolean (.bool true) none with
     | .ok s => (readTop .boolean s).isNone
     | .error _ => false) = true := by
  refine ⟨by decide, by rfl⟩

/-- `hasType` is necessary (1): a BIT STRING value with fewer octets than its length says is written with the
bits it has; the text reads back as a shorter BIT STRING -/
theorem typed_necessary_bits :
    let t : Ty := .bitString ⟨0, none, false⟩
    hasType t (.bits [] 5) = false ∧ enc t (.bits [] 5) none = .ok [39, 39, 66] ∧
      (match read t [39, 39, 66] with
       | some w => w == .bits [] 0 && !(w == canonG t (.bits [] 5))
       | none => false) = true := by
  refine ⟨by decide, by rfl, by rfl⟩

/-- `hasType` is necessary (2): a record without a mandatory member is refused (EncodeError) -/
theorem typed_necessary_mandatory :
    let t : Ty := .sequence (.cons "a" .mandatory .boolean .nil) false .nil
    hasType t (.record []) = false ∧ enc t (.record []) none = .error .encodeError := by
  refine ⟨by decide, by rfl⟩

/-! ### non-vacuity -/

/-- the text of an encoder result (`none` = refused), a type with decidable equality -/
def txt (r : Except Uper.Err (List Nat)) : Option (List Nat) :=
  match r with
  | .ok s => some s
  | .error _ => none

def cps (s : String) : List Nat := s.toList.map Char.toNat

/-- a SEQUENCE OF SEQUENCE with OPTIONAL, DEFAULT (root and addition), BIT STRINGs (empty, with unused bits),
an OCTET STRING, an ENUMERATED, a UTF8String with quotes / new-line / NUL / non-ASCII characters and a
CHOICE inside a CHOICE -/
def exT : Ty :=
  .sequenceOf (.sequence
    (.cons "a" .optional (.integer ⟨some 0, some 300, true⟩)
    (.cons "b" (.default (.bool true)) .boolean
    (.cons "c" .mandatory (.bitString ⟨4, some 4, false⟩)
    (.cons "d" .mandatory (.bitString ⟨0, none, false⟩)
    (.cons "s" .mandatory (.charString .utf8 ⟨0, none, false⟩) .nil))))) true
    (.cons "x" (.default (.int 5)) (.integer ⟨none, none, false⟩)
    (.cons "y-z" .optional (.choice (.cons "n" .null (.cons "o" (.octetString ⟨0, none, false⟩) .nil)) true
      (.cons "e" (.enumerated [("r", 0)] (some [("q2", 1)]))
      (.cons "c" (.choice (.cons "l" (.sequenceOf (.sequenceOf .boolean ⟨0, none, false⟩) ⟨0, none, false⟩) .nil) false .nil)
      .nil))) .nil))) ⟨0, some 3, true⟩

def exV : Val :=
  .list [.record [("a", .int 70000), ("c", .bits [0xaf] 4), ("d", .bits [0xff, 0x80] 9),
                  ("s", .str [97, 34, 34, 92, 10, 0, 233, 0x1d11e, 34]), ("y-z", .choice "e" (.enum "q2"))],
         .record [("b", .bool false), ("c", .bits [0x50] 4), ("d", .bits [] 0), ("s", .str []),
                  ("x", .int (-1)), ("y-z", .choice "o" (.bytes []))],
         .record [("c", .bits [0x00] 4), ("d", .bits [0x80] 1), ("s", .str [34]),
                  ("y-z", .choice "c" (.choice "l" (.list [.list [], .list [.bool true, .bool false]])))]]

example : exT.wf = true ∧ hasType exT exV = true ∧ idsOk exT = true ∧ typeNameOk "My-Type2" = true := by
  refine ⟨by decide +kernel, by decide +kernel, by decide +kernel, by decide +kernel⟩

/-- the conclusions of the theorems evaluated on the example, for `indent` None, 0, 1, 4 -/
example : ∀ indent ∈ [none, some 0, some 1, some 4],
    (match enc exT exV indent with
     | .ok s => (match read exT s with | some w => w == canonG exT exV | none => false)
     | .error _ => false) = true := by decide +kernel

example : ∀ indent ∈ [none, some 0, some 2],
    (match encode "My-Type2" exT exV indent with
     | .ok bs => (match decode exT bs with
                  | some (vn, tn, w) => vn == Jer.strCps "my-type2" && tn == Jer.strCps "My-Type2" && w == canonG exT exV
                  | none => false)
     | .error _ => false) = true := by decide +kernel

/-- the canonical value differs from the value: DEFAULTs filled in (`b`, `x`), unused bits cleared (`c` of the
first record: `0xaf` -> `0xa0`) -/
example : canonG exT exV =
  .list [.record [("a", .int 70000), ("b", .bool true), ("c", .bits [0xa0] 4), ("d", .bits [0xff, 0x80] 9),
                  ("s", .str [97, 34, 34, 92, 10, 0, 233, 0x1d11e, 34]), ("x", .int 5), ("y-z", .choice "e" (.enum "q2"))],
         .record [("b", .bool false), ("c", .bits [0x50] 4), ("d", .bits [] 0), ("s", .str []),
                  ("x", .int (-1)), ("y-z", .choice "o" (.bytes []))],
         .record [("b", .bool true), ("c", .bits [0x00] 4), ("d", .bits [0x80] 1), ("s", .str [34]), ("x", .int 5),
                  ("y-z", .choice "c" (.choice "l" (.list [.list [], .list [.bool true, .bool false]])))]] := by
  rfl

/-- the compact text of a small value: `{ s "a""b", o ''H, b ''B, l { { }, { TRUE } }, c x : y : -12 }` -/
example :
    txt (enc (.sequence (.cons "s" .mandatory (.charString .ia5 ⟨0, none, false⟩)
          (.cons "o" .mandatory (.octetString ⟨0, none, false⟩)
          (.cons "b" .mandatory (.bitString ⟨0, none, false⟩)
          (.cons "l" .mandatory (.sequenceOf (.sequenceOf .boolean ⟨0, none, false⟩) ⟨0, none, false⟩)
          (.cons "c" .mandatory (.choice (.cons "x" (.choice (.cons "y" (.integer ⟨none, none, false⟩) .nil) false .nil) .nil) false .nil)
          .nil))))) false .nil)
      (.record [("s", .str [97, 34, 98]), ("o", .bytes []), ("b", .bits [] 0),
                ("l", .list [.list [], .list [.bool true]]), ("c", .choice "x" (.choice "y" (.int (-12))))]) none)
    = some (cps "{ s \"a\"\"b\", o ''H, b ''B, l { { }, { TRUE } }, c x : y : -12 }") := by
  decide +kernel

/-- the indented layout (`indent=2`): new-line + 2 spaces per level -/
example :
    txt (encTop "A" (.sequenceOf (.sequence (.cons "a" .mandatory .boolean .nil) false .nil) ⟨0, none, false⟩)
      (.list [.record [("a", .bool true)], .record [("a", .bool false)]]) (some 2))
    = some (cps "a A ::= {\n  {\n    a TRUE\n  },\n  {\n    a FALSE\n  }\n}") := by
  decide +kernel

/-- near misses are told apart: strings differing by a quote, `''B` / `''H`, bit strings differing in
trailing zero bits, an empty list and a list with an empty list -/
example :
    txt (enc (.charString .ia5 ⟨0, none, false⟩) (.str [97, 34, 98]) none) ≠ txt (enc (.charString .ia5 ⟨0, none, false⟩) (.str [97, 34, 34, 98]) none) ∧
    txt (enc (.bitString ⟨0, none, false⟩) (.bits [0x80] 1) none) ≠ txt (enc (.bitString ⟨0, none, false⟩) (.bits [0x80] 2) none) ∧
    txt (enc (.bitString ⟨0, none, false⟩) (.bits [] 0) none) ≠ txt (enc (.octetString ⟨0, none, false⟩) (.bytes []) none) ∧
    txt (enc (.sequenceOf (.sequenceOf .null ⟨0, none, false⟩) ⟨0, none, false⟩) (.list []) none) ≠
      txt (enc (.sequenceOf (.sequenceOf .null ⟨0, none, false⟩) ⟨0, none, false⟩) (.list [.list []]) none) := by
  refine ⟨by decide +kernel, by decide +kernel, by decide +kernel, by decide +kernel⟩

/-- the reader rejects what is not a Value: text after the value, a leading zero, `-0`, a trailing comma,
lower-case hexadecimal digits, an odd quote, an unterminated string, a bstring with a `2`, an identifier
ending in a hyphen, a missing `}` -/
example :
    parseValue true (cps "1 2") = none ∧ parseValue true ("01"|> cps) = none ∧
    parseValue true ("-0"|> cps) = none ∧ parseValue true ("{ a 1, }"|> cps) = none ∧
    parseValue true ("'ab'H"|> cps) = none ∧ parseValue true ("\"a\"b\""|> cps) = none ∧
    parseValue true ("\"abc"|> cps) = none ∧ parseValue true ("'012'B"|> cps) = none ∧
    parseValue true ("a-"|> cps) = none ∧ parseValue true ("{ a 1"|> cps) = none := by
  refine ⟨by decide +kernel, by decide +kernel, by decide +kernel, by decide +kernel, by decide +kernel,
    by decide +kernel, by decide +kernel, by decide +kernel, by decide +kernel, by decide +kernel⟩

/-- the type-directed step rejects a Value of another type, components out of order, a missing mandatory
component and an unknown component -/
example :
    let t : Ty := .sequence (.cons "a" .mandatory .boolean (.cons "b" .optional (.integer ⟨none, none, false⟩) .nil)) false .nil
    (match read t ("{ a TRUE, b 1 }"|> cps) with
     | some w => w == .record [("a", .bool true), ("b", .int 1)]
     | none => false) = true ∧
    (read t ("{ b 1, a TRUE }"|> cps)).isNone = true ∧
    (read t ("{ b 1 }"|> cps)).isNone = true ∧
    (read t ("{ a TRUE, c 1 }"|> cps)).isNone = true ∧
    (read t ("{ a 1 }"|> cps)).isNone = true ∧
    (read t ("{ TRUE }"|> cps)).isNone = true := by
  refine ⟨by decide +kernel, by decide +kernel, by decide +kernel, by decide +kernel, by decide +kernel, by decide +kernel⟩

end Asn1.C20
