import Asn1Model.BerFraming
/-
  C15 — BER/DER framing helpers agree with the decoder on where a message ends.
  (General theorems `probe_complete` / `probe_prefix` for all identifier and length octets are
  being added; the closed instances below are kernel-evaluated tests of the model, labelled as such.)
-/
namespace Asn1.C15
open Asn1 Asn1.Ber

/-- test: a prefix that cuts the length octets in half is 'not yet known' -/
theorem test_cut_length : fullLength [0x30, 0x82, 0x01] = .unknown := by decide
/-- test: the complete header alone already gives the full length -/
theorem test_header_only : fullLength [0x30, 0x82, 0x01, 0x00] = .known 260 := by decide
/-- test: high tag number (two continuation octets) -/
theorem test_high_tag : fullLength [0x5f, 0x87, 0x68, 0x03, 1] = .known 7 := by decide
/-- test: a prefix that cuts a multi-octet tag is 'not yet known' -/
theorem test_cut_tag : fullLength [0x5f, 0x87] = .unknown := by decide

end Asn1.C15
