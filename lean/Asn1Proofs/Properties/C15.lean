import Asn1Model.BerFraming
import Asn1Proofs.Lemmas.BerFramingLemmas
/-
  C15 — BER/DER framing helpers agree with the decoder on where a message ends.
-/
namespace Asn1.C15
open Asn1 Asn1.Ber

/-- For identifier octets `t`, definite length octets `l` for `n`, and ANY following bytes
(content, partial content, or content plus a tail), the probe answers `|t| + |l| + n`:
every prefix that contains the complete identifier and length octets yields the full message length. -/
theorem probe_complete (t l rest : Bytes) (n : Nat) (ht : validTag t) (hl : validLen l n) :
    fullLength (t ++ l ++ rest) = .known (t.length + l.length + n) := by
  have hne : l ++ rest ≠ [] := by simp [validLen_ne_nil hl]
  rw [List.append_assoc]
  simp only [fullLength, skipTag_complete t (l ++ rest) ht hne, List.drop_left,
    decodeLength_complete l rest n hl]

/-- Every strictly shorter prefix (one that cuts the identifier or length octets) is reported as
'not yet known', never as a wrong number. -/
theorem probe_prefix (t l : Bytes) (n k : Nat) (ht : validTag t) (hl : validLen l n)
    (hk : k < t.length + l.length) :
    fullLength ((t ++ l).take k) = .unknown := by
  rw [List.take_append]
  by_cases hkt : k ≤ t.length
  · have : k - t.length = 0 := by omega
    simp [fullLength, this, skipTag_prefix t k ht]
  · have h1 : t.take k = t := List.take_of_length_le (by omega)
    have hne : l.take (k - t.length) ≠ [] := by
      have := validLen_ne_nil hl
      intro h
      rcases List.take_eq_nil_iff.mp h with h | h
      · omega
      · exact this h
    simp only [fullLength, h1, skipTag_complete t _ ht hne, List.drop_left,
      decodeLength_prefix l n (k - t.length) hl (by omega)]

/-- the encoder's own identifier and length octets are valid in the above sense -/
theorem encTag_valid (number flags : Nat) (hf : flags < 256) (hf' : flags % 32 = 0) :
    validTag (encTag number flags) := by
  unfold encTag
  split
  · exact Or.inl ⟨_, rfl, by omega, by omega⟩
  · refine Or.inr ⟨_, _, _, rfl, by omega, by omega, ?_, ?_⟩
    · intro m hm
      obtain ⟨d, hd, rfl⟩ := List.mem_map.mp hm
      have := base128_lt _ _ d (List.dropLast_subset _ hd)
      omega
    · cases hds : (base128 (bitLength number + 1) number).getLast? with
      | none => simp
      | some d =>
        have := base128_lt _ _ d (List.mem_of_getLast? hds)
        simpa using this

/-- ORIGINAL STATEMENT `∀ n, validLen (encLength n) n` IS FALSE: a long-form length has at most
127 subsequent octets (X.690 8.1.3.5), and for `n ≥ 256 ^ 127` the model (like
`encode_length_definite`) computes a first octet `128 + 128 = 256`, which is not a byte (see the
two counterexample `example`s below).  This is the strongest true variant: the extra hypothesis
`hn : n < 256 ^ 127` is also necessary, `Asn1.Ber.encLength_valid_iff`. -/
theorem encLength_valid (n : Nat) (hn : n < 256 ^ 127) : validLen (encLength n) n :=
  (encLength_valid_iff n).mpr hn

-- counterexample to the unrestricted statement
example : (encLength (256 ^ 127)).head? = some 256 := by decide +kernel
example : ¬ validLen (encLength (256 ^ 127)) (256 ^ 127) :=
  fun h => Nat.lt_irrefl _ ((encLength_valid_iff _).mp h)

example : fullLength [0x30, 0x82, 0x01] = .unknown := by decide
example : fullLength [0x30, 0x82, 0x01, 0x00] = .known 260 := by decide
example : fullLength [0x5f, 0x87, 0x68, 0x03, 1] = .known 7 := by decide

end Asn1.C15
