import Asn1Proofs.Lemmas.DerRoundtrip
import Asn1Proofs.Lemmas.DerCounterexample
import Asn1Proofs.Lemmas.DerCheckTypes
/-
  C01 for BER and DER (and the `decode_with_length` statement of C15) -- binary codecs round-trip.
  Property theorems only; proofs in Asn1Proofs/Lemmas/Der*.lean.

  Canonical value: `Der.canon' = X690.canonV` (Asn1Model/X690Value.lean).  It differs from
  `Typing.canon` (PER / OER) in one place: the BER / DER decoders fill in the DEFAULT value of an
  absent *extension addition* too (`cex_canon_not_enough`).  Hence the DEFAULT hypothesis is
  `X690.defaultsOkV` (DEFAULT values written in `canonV` normal form) rather than `Ty.defaultsOk`.
-/
namespace Asn1.C01b
open Asn1

/-- **DER round trip, all types, all values, arbitrary trailing octets**: `decode_with_length`
returns the canonical value and exactly the length of the encoding. -/
theorem der_roundtrip (t : Ty) (v : Val) (bytes rest : Bytes)
    (hwf : t.wf = true) (henum : Oer.oerWf t = true) (hd : X690.defaultsOkV t = true)
    (ht : hasType t v = true) (he : Der.encode t v = .ok bytes) :
    Der.decodeWithLength t (bytes ++ rest) = .ok (Der.canon' t v, bytes.length) :=
  Der.roundtrip_der t v bytes rest hwf henum hd ht he

/-- **BER round trip** (the BER encoder is the DER encoder; the BER decoder is a different function) -/
theorem ber_roundtrip (t : Ty) (v : Val) (bytes rest : Bytes)
    (hwf : t.wf = true) (henum : Oer.oerWf t = true) (hd : X690.defaultsOkV t = true)
    (ht : hasType t v = true) (he : BerCodec.encode t v = .ok bytes) :
    BerCodec.decodeWithLength t (bytes ++ rest) = .ok (Der.canon' t v, bytes.length) :=
  Der.roundtrip_ber t v bytes rest hwf henum hd ht he

theorem der_roundtrip_decode (t : Ty) (v : Val) (bytes : Bytes)
    (hwf : t.wf = true) (henum : Oer.oerWf t = true) (hd : X690.defaultsOkV t = true)
    (ht : hasType t v = true) (he : Der.encode t v = .ok bytes) :
    Der.decode t bytes = .ok (Der.canon' t v) :=
  Der.roundtrip_der_decode t v bytes hwf henum hd ht he

theorem ber_roundtrip_decode (t : Ty) (v : Val) (bytes : Bytes)
    (hwf : t.wf = true) (henum : Oer.oerWf t = true) (hd : X690.defaultsOkV t = true)
    (ht : hasType t v = true) (he : BerCodec.encode t v = .ok bytes) :
    BerCodec.decode t bytes = .ok (Der.canon' t v) :=
  Der.roundtrip_ber_decode t v bytes hwf henum hd ht he

/-- the same inside any tagging context (member `[i]` / alternative `[i]`), for the recursive decoders -/
theorem der_roundtrip_tagged (t : Ty) (tg : Option Nat) (v : Val) (bytes rest : Bytes) (fuel : Nat)
    (hwf : t.wf = true) (henum : Oer.oerWf t = true) (hd : X690.defaultsOkV t = true)
    (ht : hasType t v = true) (he : Der.enc t tg v = .ok bytes) (hf : bytes.length < fuel) :
    Der.dec t tg fuel (bytes ++ rest) = .ok (some (Der.canon' t v, bytes.length, rest)) :=
  Der.dec_enc_der t tg v bytes rest fuel hwf henum hd ht he hf

/-- well-typed values are accepted by the codec proper (no `EncodeError`, so nothing for
`encode_additions` to swallow) -/
theorem enc_total (t : Ty) (tg : Option Nat) (v : Val) (hwf : t.wf = true) (ht : hasType t v = true) :
    ∃ bytes, Der.enc t tg v = .ok bytes := Der.enc_total t tg v hwf ht

/-- ... and by `encode` (type checker model + codec), for DER and BER -/
theorem encode_total (t : Ty) (v : Val) (hwf : t.wf = true) (ht : hasType t v = true) :
    (∃ bytes, Der.encode t v = .ok bytes) ∧ (∃ bytes, BerCodec.encode t v = .ok bytes) :=
  ⟨Der.encode_total t v hwf ht, Der.encode_total_ber t v hwf ht⟩

/-- necessity of `Oer.oerWf` (ENUMERATED { a(0), ..., b(0) }: b ↦ 0a 01 00 ↦ a) -/
theorem enum_distinct_necessary :
    ¬ (∀ (t : Ty) (v : Val) (bytes rest : Bytes),
        t.wf = true → X690.defaultsOkV t = true → hasType t v = true → Der.encode t v = .ok bytes →
        Der.decodeWithLength t (bytes ++ rest) = .ok (Der.canon' t v, bytes.length)) :=
  Der.roundtrip_without_enum_distinct_false

/-- necessity of `X690.defaultsOkV` over `Ty.defaultsOk` -/
theorem defaultsOkV_necessary :
    ¬ (∀ (t : Ty) (v : Val) (bytes rest : Bytes),
        t.wf = true → Oer.oerWf t = true → t.defaultsOk = true → hasType t v = true →
        Der.encode t v = .ok bytes →
        Der.decodeWithLength t (bytes ++ rest) = .ok (Der.canon' t v, bytes.length)) :=
  Der.roundtrip_with_plain_defaultsOk_false

/-- non-vacuity: OPTIONAL, DEFAULT (root and addition), a CHOICE-typed member (EXPLICIT wrapper), an
extensible CHOICE inside a SEQUENCE OF, a BIT STRING with unused bits -/
example :
    let t : Ty := .sequenceOf (.sequence
        (.cons "a" .optional (.integer ⟨some 0, some 300, true⟩)
        (.cons "b" (.default (.bool true)) .boolean
        (.cons "s" .optional (.bitString ⟨0, none, false⟩) .nil))) true
        (.cons "c" .optional (.choice (.cons "x" .null (.cons "y" (.octetString ⟨0, none, false⟩) .nil)) true
            (.cons "z" (.charString .ia5 ⟨1, some 4, false⟩) .nil))
        (.cons "d" (.default (.int 7)) (.integer ⟨none, none, false⟩) .nil))) ⟨0, some 3, true⟩
    let v : Val := .list [.record [("a", .int 70000), ("s", .bits [0xff] 3), ("c", .choice "z" (.str [65, 66]))],
                          .record [("b", .bool false)]]
    t.wf = true ∧ Oer.oerWf t = true ∧ X690.defaultsOkV t = true ∧ hasType t v = true ∧
      Der.encode t v = .ok [0x30, 0x16, 0x30, 0x0f, 0x80, 3, 1, 0x11, 0x70, 0x82, 2, 5, 0xe0, 0xa3, 4, 0x82, 2, 65, 66,
                            0x30, 3, 0x81, 1, 0] ∧
      Der.canon' t v = .list [.record [("a", .int 70000), ("b", .bool true), ("s", .bits [0xe0] 3),
                                       ("c", .choice "z" (.str [65, 66])), ("d", .int 7)],
                              .record [("b", .bool false), ("d", .int 7)]] := by
  refine ⟨by decide +kernel, by decide +kernel, by decide +kernel, by decide +kernel, by rfl, by rfl⟩

end Asn1.C01b
