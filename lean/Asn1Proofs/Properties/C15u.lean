import Asn1Proofs.Lemmas.Bridge4
/-
  C15 / C16 / C04 — TRANSLATOR TIE for the BER/DER framing READERS.  `Asn1.Translated.ber_skip_tag`, `ber_decode_length`,
  `ber_detect_end_of_contents_tag`, `ber_skip_tag_length_contents` and the length probe `ber_decode_full_length` are regenerated
  from /repo/asn1tools/codecs/ber.py by harness/py2lean.py on every run, with Python's exceptions and their attributes
  (`OutOfByteDataError(offset)`, `MissingDataError(offset, expected_length)`, the `try/except` clauses and the class
  hierarchy read from the source).  The last two theorems are the statement of property C15 — for every valid identifier,
  every definite length form and every continuation — DIRECTLY ABOUT THE TRANSLATED CODE.
-/
namespace Asn1.C15u
open Asn1 Asn1.Translated Asn1.Bridge Asn1.Ber

theorem translated_skip_tag (data : Bytes) (hd : Bridge.allBytes data) :
    match Ber.skipTag data with
    | some o => ber_skip_tag (ofNats data) 0 = .ok (o : Int)
    | none => ∃ k, ber_skip_tag (ofNats data) 0 = .error ⟨"OutOfByteDataError", [k]⟩ := ber_skip_tag_eq data hd

/-- `decode_length`: definite value and header size; OutOfByteDataError when the length octets are cut; DecodeError for the
indefinite form; MissingDataError carrying (offset of the contents, length) when the contents are incomplete -/
theorem translated_decode_length (pre data : Bytes) (hp : Bridge.allBytes pre) (hd : Bridge.allBytes data) :
    match Ber.decodeLength data with
    | .outOfData => ∃ k, ber_decode_length (ofNats (pre ++ data)) pre.length = .error ⟨"OutOfByteDataError", [k]⟩
    | .indefinite => ∃ k, ber_decode_length (ofNats (pre ++ data)) pre.length = .error ⟨"DecodeError", [k]⟩
    | .ok n h =>
        if pre.length + h + n ≤ (pre ++ data).length
        then ber_decode_length (ofNats (pre ++ data)) pre.length = .ok ((n : Int), ((pre.length + h : Nat) : Int))
        else ber_decode_length (ofNats (pre ++ data)) pre.length
               = .error ⟨"MissingDataError", [((pre.length + h : Nat) : Int), (n : Int)]⟩ :=
  ber_decode_length_eq pre data hp hd

theorem translated_decode_full_length (data : Bytes) (hd : Bridge.allBytes data) :
    match Ber.fullLength data with
    | .unknown => ber_decode_full_length (ofNats data) = .ok none
    | .known n => ber_decode_full_length (ofNats data) = .ok (some (n : Int))
    | .indefinite => ∃ k, ber_decode_full_length (ofNats data) = .error ⟨"DecodeError", [k]⟩ :=
  ber_decode_full_length_eq data hd

theorem translated_detect_end_of_contents_tag (pre data : Bytes) (hp : Bridge.allBytes pre) (hd : Bridge.allBytes data) :
    ber_detect_end_of_contents_tag (ofNats (pre ++ data)) pre.length =
      (if data.take 2 = [0, 0] then .ok true
       else if data.length < 2 then .error ⟨"OutOfByteDataError", [(pre.length : Int)]⟩
       else .ok false) := ber_detect_end_of_contents_tag_eq pre data hp hd

/-- **C15 on the code translated from the source**: the probe returns the full message length for every prefix that
contains the complete identifier and length octets, whatever follows -/
theorem probe_complete_translated (t l rest : Bytes) (n : Nat) (ht : validTag t) (hl : validLen l n) (hr : Bridge.allBytes rest)
    (hb : Bridge.allBytes (t ++ l)) :
    ber_decode_full_length (ofNats (t ++ l ++ rest)) = .ok (some ((t.length + l.length + n : Nat) : Int)) :=
  translated_probe_complete t l rest n ht hl hr hb

/-- … and 'not yet known' (`None`) for every shorter prefix — never a wrong number -/
theorem probe_prefix_translated (t l : Bytes) (n k : Nat) (ht : validTag t) (hl : validLen l n) (hb : Bridge.allBytes (t ++ l))
    (hk : k < t.length + l.length) :
    ber_decode_full_length (ofNats ((t ++ l).take k)) = .ok none :=
  translated_probe_prefix t l n k ht hl hb hk

/-- non-vacuity: a high tag number with a two-octet long-form length, evaluated on the translated code -/
example : ber_decode_full_length [0x5f, 0x81, 0x00, 0x82, 0x01, 0x00, 7] = .ok (some 262) := by rfl
example : ber_decode_full_length [0x5f, 0x81, 0x00, 0x82, 0x01] = .ok none := by rfl

end Asn1.C15u
