import Asn1Proofs.Lemmas.CostPerNeg
/-
  C08p — C08 ("decoding arbitrary bytes is bounded") for the ALIGNED PER code model
  `Asn1Model/Per.lean` (`Per.dec`, `Per.decode`), for ALL types of the universe and ALL byte strings
  (no typing hypothesis: the input is arbitrary).

  (1) FUEL SUFFICIENCY holds without any side condition: no reader ever lengthens the remaining input
      (alignment only drops bits; the CHOICE rewind below goes back to a point that still lies behind
      the start of the CHOICE), every fragment of `read_length_determinant_chunks` costs 8 bits, so the
      fuel `8 * length + 2` of `Per.decode` is never exhausted and more fuel changes nothing.

  (2) ALLOCATION.  The size of a decoded value (`Val.nodes`, as in C08) is at most

          KP t * (N + 1) ^ rewinds t * (bits consumed + 1)          (N = bits in front of the decoder)

      with `KP t` and `rewinds t` computable from the type only.  `rewinds t` is the nesting depth of
      REWINDING CHOICEs: extensible CHOICE types with at least one known extension addition, on a path
      the decoder can take.  If `rewinds t = 0` (a decidable condition on the type) this is exactly the
      UPER statement: `K t * (8 * length + 1)` nodes for every input.  Zero-width elements
      (SEQUENCE OF NULL) are bounded by the length determinant, exactly as in UPER.

  (3) THE NEGATIVE RESULT.  Without `rewinds t = 0` the linear bound is FALSE in this model, which
      follows /repo at commit d1be151: `Choice.decode_additions` calls `skip_bits(8 * L - consumed)`;
      when the addition read more than the `L` octets of its open type the count is negative and the
      read position moves BACK, so the same octets are decoded again by what follows.  For
      `SEQUENCE OF CHOICE { a NULL, ..., b OCTET STRING }` an explicit family of `98304 * q + 32769`
      genuine octets decodes to more than `10^9 * q * (q - 1)` nodes: no constant `K` exists.
      (This is the defect recorded for C08 in DESIGN.md; /repo was repaired in commit ace6523 — the
      rewinding branch raises `DecodeError` — and with that branch an error, `rewinds` drops out of the
      proof: `cases h` closes the case in `szp_choice`.)

  Lemmas: `Asn1Proofs/Lemmas/CostPer.lean`, `CostPerTypes.lean`, `CostPerComp.lean`, `CostPerFuel.lean`,
  `CostPerNeg.lean`.
-/
namespace Asn1.C08p
open Asn1 Asn1.CostP

/-! ## (1) fuel sufficiency: the loops stop because of the data -/

/-- **aligned PER**: `decode` runs `dec` with fuel `8 * length + 2`; any larger fuel gives the same
outcome (value, remaining bits, or error): the out-of-fuel branches of `decChunks` and `decChunksBits`
are unreachable.  Every type, every input. -/
theorem per_fuel_sufficient (t : Ty) (bs : Bytes) (f : Nat) (hf : 8 * bs.length + 2 ≤ f) :
    Per.dec t f ⟨0, bytesToBits bs⟩ = Per.dec t (8 * bs.length + 2) ⟨0, bytesToBits bs⟩ :=
  per_decode_fuel t bs f hf

theorem per_decode_any_fuel (t : Ty) (bs : Bytes) (f : Nat) (hf : 8 * bs.length + 2 ≤ f) :
    (Per.dec t f ⟨0, bytesToBits bs⟩).map (·.1) = Per.decode t bs := by
  rw [per_fuel_sufficient t bs f hf]; rfl

/-- the general statement, on any decoder state: two amounts of fuel above the number of remaining
bits -/
theorem per_dec_fuel_irrelevant (t : Ty) (f f' : Nat) (s : Per.St)
    (hf : s.bs.length < f) (hf' : s.bs.length < f') : Per.dec t f s = Per.dec t f' s :=
  per_dec_fuel t f f' s hf hf'

/-- the chunk loop itself (`read_length_determinant_chunks` driving an item decoder): for an item
decoder that never lengthens the input, fuel above the number of remaining bits is never used up -/
theorem per_chunks_fuel_irrelevant {α : Type} (p : Per.St → Uper.DecM (α × Per.St))
    (hp : ∀ s a r, p s = .ok (a, r) → r.bs.length ≤ s.bs.length) (f f' : Nat) (s : Per.St)
    (hf : s.bs.length < f) (hf' : s.bs.length < f') :
    Per.decChunks p f s = Per.decChunks p f' s :=
  decChunks_fuel_self hp f f' s hf hf'

/-- the block-wise chunk loop (OCTET STRING, BIT STRING, UTF8String) -/
theorem per_chunksBits_fuel_irrelevant (u f f' : Nat) (s : Per.St)
    (hf : s.bs.length < f) (hf' : s.bs.length < f') :
    Per.decChunksBits u f s = Per.decChunksBits u f' s :=
  decChunksBits_fuel u f f' s hf hf'

/-! ## (2) allocation bounds -/

/-- **aligned PER**, bit level, every type, every decoder state: the decoder never lengthens the
remaining input, and it allocates at most `KP t * (N + 1) ^ rewinds t` nodes per bit consumed (+1),
`N` = bits in front of the decoder.  `KP` is 1 for leaf types; a SEQUENCE OF multiplies by
`1 + seqOfMaxP c ≥ 8193` (one length octet `c4` announces 65536 elements, which cost nothing when the
element type is NULL). -/
theorem per_dec_alloc (t : Ty) (f : Nat) (s : Per.St) (v : Val) (r : Per.St)
    (h : Per.dec t f s = .ok (v, r)) :
    r.bs.length ≤ s.bs.length ∧
      v.nodes ≤ KP t * (s.bs.length + 1) ^ rewinds t * (s.bs.length - r.bs.length + 1) :=
  per_dec_cost t f s v r h

/-- without a rewinding CHOICE (`rewinds t = 0`, decidable): the statement of `uper_dec_alloc` -/
theorem per_dec_alloc_linear (t : Ty) (hrw : rewinds t = 0) (f : Nat) (s : Per.St) (v : Val)
    (r : Per.St) (h : Per.dec t f s = .ok (v, r)) :
    r.bs.length ≤ s.bs.length ∧ v.nodes ≤ KP t * (s.bs.length - r.bs.length + 1) :=
  per_dec_cost_linear t hrw f s v r h

/-- **aligned PER**: allocation bound in octets of input, types without a rewinding CHOICE -/
theorem per_alloc_bound (t : Ty) (hrw : rewinds t = 0) (bs : Bytes) (v : Val)
    (h : Per.decode t bs = .ok v) : v.nodes ≤ 8 * KP t * (bs.length + 1) :=
  per_decode_alloc' t hrw bs v h

/-- the sharper form `KP t * (8 * length + 1)` -/
theorem per_alloc_bound_bits (t : Ty) (hrw : rewinds t = 0) (bs : Bytes) (v : Val)
    (h : Per.decode t bs = .ok v) : v.nodes ≤ KP t * (8 * bs.length + 1) :=
  per_decode_alloc t hrw bs v h

/-- every type: polynomial of degree `rewinds t + 1` in the length of the input -/
theorem per_alloc_bound_poly (t : Ty) (bs : Bytes) (v : Val) (h : Per.decode t bs = .ok v) :
    v.nodes ≤ KP t * (8 * bs.length + 1) ^ (rewinds t + 1) :=
  per_decode_alloc_poly t bs v h

/-! ## (3) the negative result: a rewinding CHOICE is decoded again and again -/

/-- **no linear allocation bound** for `SEQUENCE OF CHOICE { a NULL, ..., b OCTET STRING }`
(`rewinds = 1`): the statement of `uper_alloc_bound_bits` fails for every constant -/
theorem per_no_alloc_bound :
    ¬ ∃ K : Nat, ∀ (bs : Bytes) (v : Val),
      Per.decode rwList bs = .ok v → v.nodes ≤ K * (8 * bs.length + 1) :=
  CostP.per_no_alloc_bound

/-- the family of inputs: for every `q`, `98304 * q + 32769` genuine octets — `q` fragments
`(c2 80 01)^32767 c2 80 00` of 32768 elements each, then 32769 octets `00` — are accepted and give a
value of at least `1073709056 * q * (q - 1)` nodes: quadratic, so the degree `rewinds t + 1 = 2` of
`per_alloc_bound_poly` is attained -/
theorem per_alloc_quadratic (q : Nat) :
    (rwInput q).length = 98304 * q + 32769 ∧ (∀ b ∈ rwInput q, b < 256) ∧
    ∃ v, Per.decode rwList (rwInput q) = .ok v ∧
      1073709056 * (q * q) ≤ v.nodes + 1073709056 * q :=
  ⟨rwInput_length q, rwInput_octets q, rw_decode_quadratic q⟩

/-- the inductive statement `per_dec_alloc_linear` fails already for ONE rewinding CHOICE: the decoder
of `CHOICE { a NULL, ..., b OCTET STRING }` consumes 24 bits and returns a value as large as the rest
of the message -/
theorem per_dec_no_linear_cost :
    ¬ ∃ K : Nat, ∀ (f : Nat) (s : Per.St) (v : Val) (r : Per.St),
      Per.dec rwChoice f s = .ok (v, r) → v.nodes ≤ K * (s.bs.length - r.bs.length + 1) :=
  CostP.per_dec_no_linear_cost

/-! ## (4) non-vacuity: kernel-evaluated examples -/

section examples
private abbrev c0 : SizeC := ⟨0, none, false⟩

-- a length determinant announcing 65536 BOOLEANs with no data behind it: out of data
example : Per.decode (.sequenceOf .boolean c0) [0xc4] = .error .decodeError := by rfl
-- 127 octets announced, 2 present
example : Per.decode (.octetString c0) [0x7f, 1, 2] = .error .decodeError := by rfl
-- `ff` is not a length determinant
example : Per.decode (.octetString c0) [0xff] = .error .decodeError := by rfl
-- the bound is not vacuous and `K` has the right order of magnitude: one octet `7f` gives 127 NULLs
set_option maxRecDepth 10000 in
example : (Per.decode (.sequenceOf .null c0) [0x7f]).toOption.map Val.nodes = some 128 := by rfl
example : KP (.sequenceOf .null c0) = 8194 := by rfl
example : rewinds (.sequenceOf .null c0) = 0 := by rfl
-- an extensible CHOICE without known additions, an extensible SEQUENCE with additions: no rewind
example : rewinds (.choice (.cons "a" .null .nil) true .nil) = 0 := by rfl
example : rewinds (.sequence (.cons "a" .mandatory (.octetString c0) .nil) true
    (.cons "b" .optional (.octetString c0) .nil)) = 0 := by rfl
-- the type of the negative result
example : rewinds rwList = 1 := by rfl
example : KP rwList = 32773 := by rfl
-- the rewind at work: 8 octets, two elements; the first one (`80 01 03`: addition 0, open type of ONE
-- octet, OCTET STRING of 3) reads `80 00 01`, then the decoder goes back and reads `80 00` again as
-- the second element, whose OCTET STRING `01 55` lies wholly outside its (empty) open type
example : Per.decode rwList [0x02, 0x80, 0x01, 0x03, 0x80, 0x00, 0x01, 0x55]
    = .ok (.list [.choice "b" (.bytes [0x80, 0x00, 0x01]), .choice "b" (.bytes [0x55])]) := by rfl
-- without reading past the open type nothing is read twice
example : Per.decode rwList [0x01, 0x80, 0x02, 0x01, 0x55]
    = .ok (.list [.choice "b" (.bytes [0x55])]) := by rfl

end examples

end Asn1.C08p

#print axioms Asn1.C08p.per_fuel_sufficient
#print axioms Asn1.C08p.per_decode_any_fuel
#print axioms Asn1.C08p.per_dec_fuel_irrelevant
#print axioms Asn1.C08p.per_chunks_fuel_irrelevant
#print axioms Asn1.C08p.per_chunksBits_fuel_irrelevant
#print axioms Asn1.C08p.per_dec_alloc
#print axioms Asn1.C08p.per_dec_alloc_linear
#print axioms Asn1.C08p.per_alloc_bound
#print axioms Asn1.C08p.per_alloc_bound_bits
#print axioms Asn1.C08p.per_alloc_bound_poly
#print axioms Asn1.C08p.per_no_alloc_bound
#print axioms Asn1.C08p.per_alloc_quadratic
#print axioms Asn1.C08p.per_dec_no_linear_cost
