import Asn1Proofs.Lemmas.CostPerFuel
/-
  C08p — C08 ("decoding arbitrary bytes is bounded") for the ALIGNED PER code model
  `Asn1Model/Per.lean` (`Per.dec`, `Per.decode`), for ALL types of the universe and ALL byte strings
  (no typing hypothesis: the input is arbitrary).

  (1) FUEL SUFFICIENCY: no reader ever lengthens the remaining input (every read moves forward,
      alignment only drops bits), every fragment of `read_length_determinant_chunks` costs 8 bits, so
      the fuel `8 * length + 2` of `Per.decode` is never exhausted and more fuel changes nothing.

  (2) ALLOCATION.  The size of a decoded value (`Val.nodes`, as in C08) is at most

          KP t * (bits consumed + 1)

      with `KP t` computable from the type only: `KP t * (8 * length + 1)` nodes for every type and
      every input, exactly the UPER statement.  Zero-width elements (SEQUENCE OF NULL) are bounded by
      the length determinant, exactly as in UPER.

  (3) THE REPAIRED DEFECT.  Up to commit d1be151 of /repo `Choice.decode_additions` called
      `skip_bits(8 * L - consumed)`; when a known extension addition read more than the `L` octets of
      its open type the count was negative and the read position moved BACK, so the same octets were
      decoded again by what followed.  The linear bound (2) was then FALSE for types with such a CHOICE
      (`SEQUENCE OF CHOICE { a NULL, ..., b OCTET STRING }`: quadratic output) and an earlier version of
      this file proved that negative result, and (2) only with a side condition `rewinds t = 0` resp. a
      factor `(N + 1) ^ rewinds t`.  /repo was repaired in commit ace6523 (that branch raises
      `DecodeError`), the model follows it, and (2) now holds without side condition;
      `per_choice_overrun_rejected` keeps the former counterexample as a regression.

  Lemmas: `Asn1Proofs/Lemmas/CostPer.lean`, `CostPerTypes.lean`, `CostPerComp.lean`, `CostPerFuel.lean`.
-/
namespace Asn1.C08p
open Asn1 Asn1.CostP

/-! ## (1) fuel sufficiency: the loops stop because of the data -/

/-- **aligned PER**: `decode` runs `dec` with fuel `8 * length + 2`; any larger fuel gives the same
outcome (value, remaining bits, or error): the out-of-fuel branches of `decChunks` and `decChunksBits`
are unreachable.  Every type, every input. -/
theorem per_fuel_sufficient (t : Ty) (bs : Bytes) (f : Nat) (hf : 8 * bs.length + 2 ≤ f) :
    Per.dec t f ⟨0, bytesToBits bs⟩ = Per.dec t (8 * bs.length + 2) ⟨0, bytesToBits bs⟩ :=
  per_decode_fuel t bs f hf

theorem per_decode_any_fuel (t : Ty) (bs : Bytes) (f : Nat) (hf : 8 * bs.length + 2 ≤ f) :
    (Per.dec t f ⟨0, bytesToBits bs⟩).map (·.1) = Per.decode t bs := by
  rw [per_fuel_sufficient t bs f hf]; rfl

/-- the general statement, on any decoder state: two amounts of fuel above the number of remaining
bits -/
theorem per_dec_fuel_irrelevant (t : Ty) (f f' : Nat) (s : Per.St)
    (hf : s.bs.length < f) (hf' : s.bs.length < f') : Per.dec t f s = Per.dec t f' s :=
  per_dec_fuel t f f' s hf hf'

/-- the chunk loop itself (`read_length_determinant_chunks` driving an item decoder): for an item
decoder that never lengthens the input, fuel above the number of remaining bits is never used up -/
theorem per_chunks_fuel_irrelevant {α : Type} (p : Per.St → Uper.DecM (α × Per.St))
    (hp : ∀ s a r, p s = .ok (a, r) → r.bs.length ≤ s.bs.length) (f f' : Nat) (s : Per.St)
    (hf : s.bs.length < f) (hf' : s.bs.length < f') :
    Per.decChunks p f s = Per.decChunks p f' s :=
  decChunks_fuel_self hp f f' s hf hf'

/-- the block-wise chunk loop (OCTET STRING, BIT STRING, UTF8String) -/
theorem per_chunksBits_fuel_irrelevant (u f f' : Nat) (s : Per.St)
    (hf : s.bs.length < f) (hf' : s.bs.length < f') :
    Per.decChunksBits u f s = Per.decChunksBits u f' s :=
  decChunksBits_fuel u f f' s hf hf'

/-! ## (2) allocation bounds -/

/-- **aligned PER**, bit level, every type, every decoder state: the decoder never lengthens the
remaining input, and it allocates at most `KP t` nodes per bit consumed (+1).  `KP` is 1 for leaf types;
a SEQUENCE OF multiplies by `1 + seqOfMaxP c ≥ 8193` (one length octet `c4` announces 65536 elements,
which cost nothing when the element type is NULL). -/
theorem per_dec_alloc (t : Ty) (f : Nat) (s : Per.St) (v : Val) (r : Per.St)
    (h : Per.dec t f s = .ok (v, r)) :
    r.bs.length ≤ s.bs.length ∧ v.nodes ≤ KP t * (s.bs.length - r.bs.length + 1) :=
  per_dec_cost t f s v r h

/-- **aligned PER**: allocation bound in octets of input, every type, every octet string -/
theorem per_alloc_bound (t : Ty) (bs : Bytes) (v : Val)
    (h : Per.decode t bs = .ok v) : v.nodes ≤ 8 * KP t * (bs.length + 1) :=
  per_decode_alloc' t bs v h

/-- the sharper form `KP t * (8 * length + 1)` -/
theorem per_alloc_bound_bits (t : Ty) (bs : Bytes) (v : Val)
    (h : Per.decode t bs = .ok v) : v.nodes ≤ KP t * (8 * bs.length + 1) :=
  per_decode_alloc t bs v h

/-! ## (3) regression: a CHOICE addition that overruns its open type is rejected -/

/-- `CHOICE { a NULL, ..., b OCTET STRING }` -/
def rwChoice : Ty :=
  .choice (.cons "a" .null .nil) true (.cons "b" (.octetString ⟨0, none, false⟩) .nil)

/-- `SEQUENCE OF CHOICE { a NULL, ..., b OCTET STRING }` -/
def rwList : Ty := .sequenceOf rwChoice ⟨0, none, false⟩

/-- **regression for the defect repaired in commit ace6523 of /repo.**  The smallest inputs on which
`Choice.decode_additions` used to call `skip_bits` with a negative count are now a `DecodeError`:

* `80 00 00` for `CHOICE { a NULL, ..., b OCTET STRING }`: addition 0 in an open type of ZERO octets,
  whose OCTET STRING (a length octet `00`) reads 8 bits.  Before the repair this was accepted and the
  read position moved 8 bits BACKWARDS, to the end of the open type;
* `02 80 01 03 80 00 01 55` for the SEQUENCE OF: two elements; the first one (`80 01 03`: open type of
  ONE octet, OCTET STRING of 3) read `80 00 01`, then the decoder went back and read `80 00` AGAIN as
  the second element: the result was `[b: 80 00 01, b: 55]`, octets decoded twice.

Iterating this gave quadratic output, so that no bound `K * (8 * length + 1)` held for the SEQUENCE OF
(the former theorems `per_no_alloc_bound`, `per_alloc_quadratic`, `per_dec_no_linear_cost` of this file).
The family was: `q` copies of `(c2 80 01)^32767 c2 80 00`, followed by 32769 zero octets --
`98304 * q + 32769` octets.  It is a SEQUENCE OF in `q` fragments (markers `c2`) of 32768 elements
`80 01 c2` / `80 00 c2` each; the OCTET STRING of every element starts on a fragment marker `c2` and
so ran through the whole rest of the message (the markers are `32769 = 3 * 10923` octets apart, every
third octet is `c2`), after which the decoder continued 3 octets behind the start of the element.  The
value had more than `1073709056 * q * (q - 1)` nodes.  With the repair the first element of every
member of the family is rejected like the inputs below, and `per_alloc_bound_bits` holds for
`rwList`. -/
theorem per_choice_overrun_rejected :
    Per.decode rwChoice [0x80, 0x00, 0x00] = .error .decodeError ∧
    Per.decode rwList [0x02, 0x80, 0x01, 0x03, 0x80, 0x00, 0x01, 0x55] = .error .decodeError :=
  ⟨rfl, rfl⟩

/-! ## (4) non-vacuity: kernel-evaluated examples -/

section examples
private abbrev c0 : SizeC := ⟨0, none, false⟩

-- a length determinant announcing 65536 BOOLEANs with no data behind it: out of data
example : Per.decode (.sequenceOf .boolean c0) [0xc4] = .error .decodeError := by rfl
-- 127 octets announced, 2 present
example : Per.decode (.octetString c0) [0x7f, 1, 2] = .error .decodeError := by rfl
-- `ff` is not a length determinant
example : Per.decode (.octetString c0) [0xff] = .error .decodeError := by rfl
-- the bound is not vacuous and `K` has the right order of magnitude: one octet `7f` gives 127 NULLs
set_option maxRecDepth 10000 in
example : (Per.decode (.sequenceOf .null c0) [0x7f]).toOption.map Val.nodes = some 128 := by rfl
example : KP (.sequenceOf .null c0) = 8194 := by rfl
-- the type of the regression: linear bound, like every type
example : KP rwList = 32773 := by rfl
-- an addition that fills its open type exactly (or leaves padding) is accepted as before
example : Per.decode rwList [0x01, 0x80, 0x02, 0x01, 0x55]
    = .ok (.list [.choice "b" (.bytes [0x55])]) := by rfl
example : Per.decode rwList [0x01, 0x80, 0x03, 0x01, 0x55, 0x00]
    = .ok (.list [.choice "b" (.bytes [0x55])]) := by rfl
-- one octet too few in the open type: rejected
example : Per.decode rwList [0x01, 0x80, 0x01, 0x01, 0x55] = .error .decodeError := by rfl

end examples

end Asn1.C08p

#print axioms Asn1.C08p.per_fuel_sufficient
#print axioms Asn1.C08p.per_decode_any_fuel
#print axioms Asn1.C08p.per_dec_fuel_irrelevant
#print axioms Asn1.C08p.per_chunks_fuel_irrelevant
#print axioms Asn1.C08p.per_chunksBits_fuel_irrelevant
#print axioms Asn1.C08p.per_dec_alloc
#print axioms Asn1.C08p.per_alloc_bound
#print axioms Asn1.C08p.per_alloc_bound_bits
#print axioms Asn1.C08p.per_choice_overrun_rejected
