import Asn1Proofs.Lemmas.Bridge3
/-
  C06 / C01 — TRANSLATOR TIE, where the OER buffer meets the octets (`oer.Encoder.as_bytearray`, `oer.Decoder.__init__`).
-/
namespace Asn1.C06v
open Asn1 Asn1.Translated Asn1.Bridge

theorem oer_as_bytearray (s : oer_EncoderS) (h : OEncInv s) (ha : s.number_of_bits % 8 = 0) :
    oer_Encoder_as_bytearray s = .ok (ofNats (packBits (oEncBits s))) := oer_as_bytearray_eq s h ha

theorem oer_decoder_init (data : Bytes) (hd : ∀ b ∈ data, b < 256) :
    ODecInv (oer_Decoder___init__ (ofNats data)) ∧ oAt (oer_Decoder___init__ (ofNats data)) data :=
  Bridge.oer_decoder_init data hd

end Asn1.C06v
