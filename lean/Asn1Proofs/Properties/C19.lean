import Asn1Proofs.Lemmas.PrepPerm2
import Asn1Proofs.Properties.C13
/-
  C19 — "encodings do not depend on how the specification text is organised (reordering
  assignments / modules, type references vs inline copies)".

  What the compilers see of the organisation of the text is the ORDER of the parser dictionary
  (modules in file order, type assignments in text order) — and the dictionary is rewritten in place
  in that order (`Asn1.SpecDict.Preprocess.run`).  This file proves

    * `run_permutation`: reordering the type assignments of a module commutes with the rewrite (the
      result is the same reordering of the results), for every dictionary in which the reordered
      module itself has no COMPONENTS OF entry (other modules may have them, also into the reordered
      module), and
    * `module_order_matters`: a closed witness of the known genuine defect — with COMPONENTS OF
      across modules under AUTOMATIC TAGS the tags depend on the ORDER OF THE MODULES, because the
      members of the imported type have already been tagged when they are copied.
-/
namespace Asn1.C19
open Asn1.SpecDict Asn1.SpecDict.Preprocess Asn1.C13

/-- **C19, order of the type assignments.**  `π` is any reordering of lists given uniformly in the
element type (`NatPerm`: reverse, rotate, swap, reorder by indices …).  Hypotheses: the names of the
type assignments of module `i` are distinct (always true for a Python dictionary), and no member
list of a type assignment of module `i` has a COMPONENTS OF entry. -/
theorem run_permutation (π : NatPerm) (i : Nat) (n : Bool) (d : Spec)
    (hnames : NodupNames d i) (hclean : ModClean d i) :
    run n (permTypes π i d) = permTypes π i (run n d) :=
  run_permTypes π i n hnames hclean

/-- consequence for lookups by name: every type assignment of every module is rewritten to the same
descriptor whatever the order of the assignments in module `i` -/
theorem run_permutation_lookup (π : NatPerm) (i : Nat) (n : Bool) (d : Spec)
    (hnames : NodupNames d i) (hclean : ModClean d i) (f : Nat) (name mod : String) :
    lookupType (run n (permTypes π i d)) f name mod = lookupType (run n d) f name mod := by
  rw [run_permutation π i n d hnames hclean]
  exact lookupType_congr
    (LookupEquiv_permTypes π i (NodupNames_of_skel_eq i (skel_run n d) hnames)) f name mod

/-- reversal is such a reordering (non-vacuity of `NatPerm`) -/
def reversePerm : NatPerm where
  app := List.reverse
  map := fun f l => (List.map_reverse (f := f) (l := l)).symm
  perm := fun l => List.reverse_perm l

/-- the theorem applied: the example module of C13 without its COMPONENTS OF entry, assignments
reversed -/
def exM' : Spec := [("M", { tags := some "AUTOMATIC", types := [("B", exB), ("E", exE)] })]

example : run false (permTypes reversePerm 0 exM') = permTypes reversePerm 0 (run false exM') := by
  refine run_permutation reversePerm 0 false exM' ?_ ?_
  · intro mn ms h
    have : ms.types.map Prod.fst = ["B", "E"] := by
      simp only [exM', skel, List.getElem?_cons_zero, Option.some.injEq, Prod.mk.injEq] at h
      rw [← h.2]; rfl
    rw [this]; decide
  · intro mn m h k td htd
    simp only [exM', List.getElem?_cons_zero, Option.some.injEq, Prod.mk.injEq] at h
    obtain ⟨_, rfl⟩ := h
    simp only [List.mem_cons, Prod.mk.injEq, List.not_mem_nil, or_false] at htd
    rcases htd with ⟨_, rfl⟩ | ⟨_, rfl⟩ <;> rfl

/-! ### the order of the MODULES matters (known genuine defect) -/

/-
  M0 DEFINITIONS AUTOMATIC TAGS ::= BEGIN  S ::= SEQUENCE { a INTEGER, b BOOLEAN }  END
  M1 DEFINITIONS AUTOMATIC TAGS ::= BEGIN  IMPORTS S FROM M0;
       T ::= SEQUENCE { COMPONENTS OF S, c NULL OPTIONAL }                           END
-/
def m0 : String × Module := ("M0", { tags := some "AUTOMATIC", types := [
  ("S", .mk { type := "SEQUENCE" } (.members [
    .desc (.mk (fld "a" "INTEGER") .leaf), .desc (.mk (fld "b" "BOOLEAN") .leaf)]))] })

def m1 : String × Module := ("M1", { tags := some "AUTOMATIC", imports := [("M0", ["S"])], types := [
  ("T", .mk { type := "SEQUENCE" } (.members [
    .compOf "S", .desc (.mk { fld "c" "NULL" with optional := some true } .leaf)]))] })

private def tg (n : Int) : Option Tag := some { number := .int n, kind := some "IMPLICIT" }

/-- `M0` first: its members are tagged before they are copied, the copies carry tags, automatic
tagging of `T` is skipped and `c` stays UNTAGGED; `M1` first: all three members get tags 0, 1, 2.
(Real code: BER of `{a 1, b TRUE, c NULL}` is `30088001018101ff0500` resp. `30088001018101ff8200`.) -/
theorem module_order_matters :
    summary (run false [m0, m1]) "M1" "T"
        = [some (some "a", tg 0, none), some (some "b", tg 1, none), some (some "c", none, none)]
    ∧ summary (run false [m1, m0]) "M1" "T"
        = [some (some "a", tg 0, none), some (some "b", tg 1, none), some (some "c", tg 2, none)] :=
  ⟨by decide, by decide⟩

/-- reordering the MODULES does not commute with the rewrite: the dictionary rewritten in the order
`M1, M0` is not the reordering of the dictionary rewritten in the order `M0, M1` -/
theorem run_not_module_order_invariant :
    run false [m1, m0] ≠ (run false [m0, m1]).reverse := by
  intro h
  have := congrArg (fun s => summary s "M1" "T") h
  revert this
  decide

/-- … although the two dictionaries contain the same modules -/
example : [m1, m0] = [m0, m1].reverse := rfl

end Asn1.C19
