import Asn1Model.Cache
import Asn1Proofs.Lemmas.CacheLemmas
/-
  C17 — the compile cache is transparent.
-/
namespace Asn1.C17
open Asn1 Asn1.Cache Asn1.CacheLemmas

/-- the codec names of `compile_dict` (extracted from the source on every run) are prefix-free, so the
codec can be recovered from the key -/
theorem codec_prefix_free : PrefixFree (fun a => a ∈ codecNames) := by
  apply prefixFree_of_list
  decide

/-- length-prefixed file contents determine the list of files (file boundaries are part of the key) -/
theorem files_injective (fs gs : List (List Nat)) (h : fs.flatMap netstring = gs.flatMap netstring) :
    fs = gs :=
  flatMap_netstring_injective fs gs h

/-- **the key determines the call**: same key ⇒ same codec, same options, same files in the same split -/
theorem key_injective (optsSet : List Nat → Prop) (hpf : PrefixFree optsSet) (c d : Call)
    (hc : CallOk optsSet c) (hd : CallOk optsSet d) (h : key c = key d) : c = d := by
  obtain ⟨cc, co, cf⟩ := c
  obtain ⟨dc, do_, df⟩ := d
  simp only [key, List.append_assoc] at h
  have h1 : cc = dc := codec_prefix_free _ _ _ _ hc.codec_known hd.codec_known h
  subst h1
  have h2 := List.append_cancel_left h
  have h3 : co = do_ := hpf _ _ _ _ hc.opts_ok hd.opts_ok h2
  subst h3
  have h4 := files_injective _ _ (List.append_cancel_left h2)
  subst h4
  rfl

/-- one call on a consistent store returns exactly what an uncached compile returns.
(The original statement also carried `hs : StoreOk fresh s`; it is implied by `hso` and was dropped.) -/
theorem step_transparent {ρ : Type} (fresh : Call → ρ) (optsSet : List Nat → Prop) (hpf : PrefixFree optsSet)
    (s : Store ρ) (hso : ∀ k r, (k, r) ∈ s → ∃ c, k = key c ∧ r = fresh c ∧ CallOk optsSet c)
    (c : Call) (hc : CallOk optsSet c) :
    (step fresh s c).2 = fresh c := by
  unfold step
  split
  · next r hr =>
    obtain ⟨d, hk, hrd, hd⟩ := hso _ _ (find_some_mem hr)
    rw [key_injective optsSet hpf c d hc hd hk]
    exact hrd
  · rfl

/-- ... and keeps the store consistent: every entry is still `(key c', fresh c')` for a well-formed
call `c'`; in particular the new store is `StoreOk` -/
theorem step_preserves {ρ : Type} (fresh : Call → ρ) (optsSet : List Nat → Prop)
    (s : Store ρ) (hso : ∀ k r, (k, r) ∈ s → ∃ c, k = key c ∧ r = fresh c ∧ CallOk optsSet c)
    (c : Call) (hc : CallOk optsSet c) :
    (∀ k r, (k, r) ∈ (step fresh s c).1 → ∃ c', k = key c' ∧ r = fresh c' ∧ CallOk optsSet c') ∧
    StoreOk fresh (step fresh s c).1 := by
  have main : ∀ k r, (k, r) ∈ (step fresh s c).1 → ∃ c', k = key c' ∧ r = fresh c' ∧ CallOk optsSet c' := by
    unfold step
    split
    · exact hso
    · intro k r hkr
      rcases List.mem_cons.mp hkr with h | h
      · cases h
        exact ⟨c, rfl, rfl, hc⟩
      · exact hso k r h
  refine ⟨main, ?_⟩
  intro k r hkr
  obtain ⟨c', h1, h2, _⟩ := main k r hkr
  exact ⟨c', h1, h2⟩

/-- transparency for every history, starting from any consistent store (e.g. a cache directory
filled by earlier runs or by other processes making well-formed calls) -/
theorem run_transparent_from {ρ : Type} (fresh : Call → ρ) (optsSet : List Nat → Prop) (hpf : PrefixFree optsSet)
    (s : Store ρ) (hso : ∀ k r, (k, r) ∈ s → ∃ c, k = key c ∧ r = fresh c ∧ CallOk optsSet c)
    (cs : List Call) (hcs : ∀ c ∈ cs, CallOk optsSet c) :
    (run fresh s cs).2 = cs.map fresh := by
  induction cs generalizing s with
  | nil => rfl
  | cons c cs ih =>
    have hc := hcs c (by simp)
    have ht := step_transparent fresh optsSet hpf s hso c hc
    have hp := (step_preserves fresh optsSet s hso c hc).1
    have := ih (step fresh s c).1 hp (fun d hd => hcs d (by simp [hd]))
    simp only [run, List.map_cons, this, ht]

/-- **transparency for every history**: starting from the empty cache directory, whatever sequence of
calls is made (any codecs, options, file contents, file splits, repetitions), every call returns
what the uncached compile of the same call returns. -/
theorem run_transparent {ρ : Type} (fresh : Call → ρ) (optsSet : List Nat → Prop) (hpf : PrefixFree optsSet)
    (cs : List Call) (hcs : ∀ c ∈ cs, CallOk optsSet c) :
    (run fresh [] cs).2 = cs.map fresh :=
  run_transparent_from fresh optsSet hpf [] (by simp) cs hcs

/-- the defect that was repaired: with the old key (codec ++ concatenated contents) two different
calls collide — a different file split, and different options — so the old cache was not transparent -/
theorem old_key_collides :
    let oldKey : Call → List Nat := fun c => c.codec ++ c.files.flatMap id
    oldKey ⟨[98, 101, 114], [1], [[65, 66], [67]]⟩ = oldKey ⟨[98, 101, 114], [2], [[65], [66, 67]]⟩ := by
  decide

/-- with the repaired key the same two calls are told apart -/
theorem new_key_separates :
    key ⟨[98, 101, 114], [1], [[65, 66], [67]]⟩ ≠ key ⟨[98, 101, 114], [2], [[65], [66, 67]]⟩ := by
  decide

end Asn1.C17
