import Asn1Model.BerCodec
import Asn1Proofs.Lemmas.PrefixBer
/-
  C16 for the BER model — a truncated encoding is a decode error.  Property theorems only; proofs in
  Asn1Proofs/Lemmas/PrefixBer.lean (which reuses Asn1Proofs/Lemmas/PrefixDer*.lean).

  The BER encoder of the model IS the DER encoder (`BerCodec.enc := Der.enc`, `BerCodec.encode` is
  `Der.encode` unfolded): definite lengths, primitive strings.  The BER decoder is a different
  function: it accepts the indefinite length form (`0x80`) on every constructed encoding, the strings
  in constructed form (segments, recursively), and a CHOICE finds a string alternative under its
  primitive AND its constructed identifier octets.  None of this helps a truncated input: every BER
  decoder still matches the identifier octets and then `decode_length` either runs out of length
  octets or finds fewer contents octets than announced (`Der.readLen_short`, which is proved from the
  actual octets `Ber.encLength n ++ contents` and holds whether or not the indefinite form is
  allowed: the encoder never writes `0x80` as first length octet).
-/
namespace Asn1.C16b
open Asn1

/-- **C16, BER.**  Every strict byte prefix of a BER encoding is rejected by the BER decoder with the
library's decode error: it is not decoded to a value, it is not a `TAG_MISMATCH` turned into anything
else, and no foreign exception escapes.  No side condition at all (exactly the hypotheses of
`C16.der_truncated`): any type of the universe, any value the encoder (type checker included)
accepts. -/
theorem ber_truncated (t : Ty) (v : Val) (bytes : Bytes) (k : Nat)
    (he : BerCodec.encode t v = .ok bytes) (hk : k < bytes.length) :
    BerCodec.decode t (bytes.take k) = .error .decodeError :=
  BerCodec.truncated t v bytes k he hk

/-- the encoder is shared: a BER encoding is a DER encoding (definitionally) -/
theorem ber_encode_eq_der (t : Ty) (v : Val) : BerCodec.encode t v = Der.encode t v := rfl

/-- the ingredient that differs from DER, for the record: the BER decoder of a string type entered
through its CONSTRUCTED tag (what `tag_to_member` of a BER CHOICE allows) on a strict prefix of a
definite-length encoding -/
theorem ber_string_truncated (t : Ty) (hs : BerCodec.isString t = true) (tg : Option Nat) (fuel : Nat)
    (constructed : Bool) (q content : Bytes)
    (h : Der.SPre q (Der.tlv (Der.mkTag (Der.univNumber t) constructed tg) content)) :
    BerCodec.dec t tg (fuel + 1) q = .error .decodeError :=
  BerCodec.dec_string_short t hs tg fuel constructed q content h

/-- non-vacuity, on the type of the C16 example (OPTIONAL / DEFAULT members, extension additions, an
extensible CHOICE with string alternatives, a SEQUENCE OF): the encoder accepts the value, the
encoding has 20 octets, and -- evaluated in the kernel, without the theorem -- each of its 20 strict
prefixes is a `decodeError` while the whole encoding decodes -/
example :
    let t : Ty := .sequenceOf (.sequence
        (.cons "a" .optional (.integer ⟨some 0, some 300, true⟩)
        (.cons "b" (.default (.bool true)) .boolean .nil)) true
        (.cons "c" .optional (.choice (.cons "x" .null (.cons "y" (.octetString ⟨0, none, false⟩) .nil)) true
            (.cons "z" (.charString .ia5 ⟨1, some 4, false⟩) .nil)) .nil)) ⟨0, some 3, true⟩
    let v : Val := .list [.record [("a", .int 70000), ("c", .choice "z" (.str [65, 66]))], .record [("b", .bool false)]]
    let bytes : Bytes := [48, 18, 48, 11, 128, 3, 1, 17, 112, 162, 4, 130, 2, 65, 66, 48, 3, 129, 1, 0]
    BerCodec.encode t v = .ok bytes ∧
    ((List.range 20).all fun k =>
      match BerCodec.decode t (bytes.take k) with
      | .error .decodeError => true
      | _ => false) = true ∧
    (BerCodec.decode t bytes).isOk = true := by
  refine ⟨by rfl, by rfl, by rfl⟩

/-- the theorem applied to the bare CHOICE of that example: `82 02 41 42` cut inside the contents of
the IA5String alternative (the hypotheses are discharged by evaluation) -/
example : BerCodec.decode
    (.choice (.cons "x" .null (.cons "y" (.octetString ⟨0, none, false⟩) .nil)) true
      (.cons "z" (.charString .ia5 ⟨1, some 4, false⟩) .nil))
    ([130, 2, 65, 66].take 3) = .error .decodeError :=
  ber_truncated _ (.choice "z" (.str [65, 66])) [130, 2, 65, 66] 3 (by rfl) (by decide)

end Asn1.C16b

#print axioms Asn1.C16b.ber_truncated
#print axioms Asn1.C16b.ber_string_truncated
