import Asn1Proofs.Lemmas.CCursorOerTag
/-
  C10 — the C HELPER LIBRARY of asn1tools' OER C generator
  (`/repo/asn1tools/source/c/oer_functions.py`), modelled statement by statement in
  `Asn1Model/CCursorOer.lean` (tied to the real generated text by `tools/compare_chelpers.py … oer`),
  and the generation-time length helper `get_length_determinant_length` of
  `/repo/asn1tools/source/c/oer.py` (`staticLenDetLen`).

  (a) SAFETY      `enc_safety`, `dec_safety`, `*_init`, `*_latched_frozen`, `readTag_terminates`,
                  `dec_junk_irrelevant`
  (b) SHORT BUFFER `short_buffer`
  (c) FUNCTIONAL  `run_content` (+ `encBytes_*`), `append_length_determinant_content`,
                  `length_determinant_length_correct`, `readLengthDeterminant_readLenDet`,
                  `readLengthDeterminant_unsupported`, `readLengthDeterminant_lenDet`, `read*_of_next`,
                  `roundtrip_*`, `readUint_value`, `readTag_readTag` (`decoder_read_tag` against `Oer.readTag`),
                  `encBytes_i8 … encBytes_i64` (`intToBytesN`), `encBytes_uint`, `encBytes_luint`
  (d) THE DEFECT  `static_defect_smallest`, `static_ne_true_iff`, `static_ne_runtime_iff`,
                  `static_overestimates`, `static_underestimates_beyond_u32`
  (e) non-vacuity `example`s at the end.

  Model level definitions used in the statements (all in `Asn1Proofs/Lemmas/CCursorOer*.lean`):
  `EInv`/`DInv` (cursor invariants), `OEncOp.Pre`/`ODecOp.Pre`/`Junk.Pre` (argument preconditions),
  `OEnc.put` (specification of `encoder_append_bytes`), `chunks`/`encBytes`/`need` (bytes an encoder
  operation appends), `ODec.adv`/`ODec.rd`/`decSpec` (cursor / values of the decoder operations),
  `ODec.next`/`ODec.rest` (input seen through the cursor, as `Bytes` of the Python-codec model).
-/
namespace Asn1.C10
open Asn1 Asn1.CCursor Asn1.CCursorOer

/-! ## (a) SAFETY -/

/-- the invariant of the task statement, for both cursor structs -/
abbrev Inv (bufSize : Nat) (size pos : Int) : Prop :=
  bufSize < 4611686018427387904 ∧
  ((0 ≤ pos ∧ pos ≤ size ∧ size ≤ bufSize) ∨ (size < 0 ∧ pos = size ∧ -4611686018427387904 ≤ pos))

theorem EInv_iff (e : OEnc) : EInv e ↔ Inv e.buf.size e.size e.pos := Iff.rfl
theorem DInv_iff (d : ODec) : DInv d ↔ Inv d.buf.size d.size d.pos := Iff.rfl

/-- `encoder_init` establishes the invariant (size argument = object size < 2^62) -/
theorem enc_init (buf : Mem) (size : UInt64) (h : size.toNat = buf.size)
    (hb : buf.size < 4611686018427387904) :
    ∃ e, OEnc.init buf size = .ok e ∧ EInv e ∧ e.buf = buf ∧ e.size = buf.size ∧ e.pos = 0 :=
  ⟨_, init_eq buf size (by omega), EInv_init buf size h hb, rfl, by simp only; omega, rfl⟩

/-- SAFETY of the encoder helpers: from any state satisfying the invariant, any sequence of helper
calls whose arguments satisfy `Pre` — for ALL argument values and buffer contents — runs without any
`Fault` (no out-of-bounds access, no undefined shift, no signed overflow) and preserves the invariant -/
theorem enc_safety (ops : List OEncOp) (hp : ∀ op ∈ ops, op.Pre) {e : OEnc} (h : EInv e) :
    ∃ e', e.runAll ops = .ok e' ∧ EInv e' :=
  runAll_safe ops h hp

/-- every single encoder helper preserves the invariant and does not fault -/
theorem enc_step_safety {e : OEnc} (h : EInv e) (op : OEncOp) (hp : op.Pre) :
    ∃ e', e.run op = .ok e' ∧ EInv e' :=
  run_safe h op hp

/-- `encoder_get_result` cannot fault -/
theorem enc_getResult (e : OEnc) : e.getResult = .ok e.pos := rfl

/-- the encoder latch is frozen: every helper returns the same struct (buffer untouched) -/
theorem enc_latched_frozen {e : OEnc} (h : EInv e) (hl : e.size < 0) (ops : List OEncOp)
    (hp : ∀ op ∈ ops, op.Pre) : e.runAll ops = .ok e :=
  runAll_latched ops h hl hp

/-- `decoder_init` establishes the invariant -/
theorem dec_init (buf : Mem) (size : UInt64) (h : size.toNat = buf.size)
    (hb : buf.size < 4611686018427387904) :
    ∃ d, ODec.init buf size = .ok d ∧ DInv d ∧ d.buf = buf ∧ d.size = buf.size ∧ d.pos = 0 :=
  ⟨_, dinit_eq buf size (by omega), DInv_init buf size h hb, rfl, by simp only; omega, rfl⟩

/-- SAFETY of the decoder helpers: ON ARBITRARY INPUT BYTES no sequence of decoder helper calls
performs an out-of-bounds access or any other undefined behaviour; the fuel of the
`decoder_read_tag` loop model never runs out; the invariant is preserved -/
theorem dec_safety (ops : List ODecOp) (hp : ∀ op ∈ ops, op.Pre) {d : ODec} (h : DInv d) :
    ∃ vs d', d.runAll ops = .ok (vs, d') ∧ (∀ v ∈ vs, v ≠ .fuelExhausted) ∧ DInv d' :=
  drunAll_safe ops h hp

theorem dec_step_safety {d : ODec} (h : DInv d) (op : ODecOp) (hp : op.Pre) :
    ∃ v d', d.run op = .ok (v, d') ∧ v ≠ .fuelExhausted ∧ DInv d' :=
  drun_safe h op hp

theorem dec_getResult (d : ODec) : d.getResult = .ok d.pos := rfl

/-- the decoder latch is frozen -/
theorem dec_latched_frozen {d : ODec} (h : DInv d) (hl : d.size < 0) (op : ODecOp) (hp : op.Pre) :
    ∃ v, d.run op = .ok (v, d) :=
  drun_latched h hl op hp

/-- TERMINATION of the `do … while` loop of `decoder_read_tag`: the fuel of the model is never
exhausted (the loop ends at the latest when the input runs out, because reads in the error state
return 0) -/
theorem readTag_terminates {d : ODec} (h : DInv d) (j : Junk) (hj : j.Pre) :
    ∃ tag d', d.readTag j = .ok (some tag, d') ∧ DInv d' := by
  have hs := tagSpec_isSome h
  cases hv : (tagSpec d).1 with
  | none => rw [hv] at hs; cases hs
  | some t =>
    refine ⟨t, (tagSpec d).2, ?_, DInv_tagSpec h⟩
    rw [readTag_eq h j hj, ← hv]

/-- an operation with its junk (uninitialised automatic objects) replaced by zeros -/
def eraseJunk : ODecOp → ODecOp
  | .bool _ => .bool {} | .bytes dst n => .bytes dst n
  | .u8 _ => .u8 {} | .u16 _ => .u16 {} | .u32 _ => .u32 {} | .u64 _ => .u64 {}
  | .i8 _ => .i8 {} | .i16 _ => .i16 {} | .i32 _ => .i32 {} | .i64 _ => .i64 {}
  | .uint n _ => .uint n {} | .luint n _ => .luint n {} | .int n _ => .int n {}
  | .f32 _ => .f32 {} | .f64 _ => .f64 {} | .lendet _ => .lendet {} | .tag _ => .tag {}
  | .abort e => .abort e

/-- the results of the decoder helpers do not depend on the content of the uninitialised automatic
objects (`decoder_read_bytes` overwrites the whole destination, with `memset` in the error state) -/
theorem dec_junk_irrelevant {d : ODec} (h : DInv d) (op op' : ODecOp) (hp : op.Pre) (hp' : op'.Pre)
    (he : eraseJunk op = eraseJunk op') : d.run op = d.run op' := by
  rw [drun_eq h op hp, drun_eq h op' hp']
  have e1 : ∀ o : ODecOp, decSpec d o = decSpec d (eraseJunk o) := by intro o; cases o <;> rfl
  rw [e1 op, e1 op', he]

/-! ## (b) SHORT BUFFER -/

/-- a fresh encoder of `buf.size` bytes, any sequence of helper calls without explicit `abort`:
`encoder_get_result` is the sum of the needs if that fits, and `-ENOMEM = -12` otherwise -/
theorem short_buffer (buf : Mem) (size : UInt64) (h : size.toNat = buf.size)
    (hb : buf.size < 4611686018427387904) (ops : List OEncOp)
    (hp : ∀ op ∈ ops, op.Pre ∧ ¬ op.isAbort) :
    ∃ e e', OEnc.init buf size = .ok e ∧ e.runAll ops = .ok e' ∧
      e'.getResult = .ok (if (ops.map need).sum ≤ buf.size then ((ops.map need).sum : Nat) else -12) := by
  obtain ⟨e, he, hi, _, hs, hpos⟩ := enc_init buf size h hb
  obtain ⟨e', hr, hst⟩ := runAll_pos ops hi (by omega) hp
  refine ⟨e, e', he, hr, ?_⟩
  rw [hs, hpos] at hst
  rw [enc_getResult]
  by_cases hfit : (ops.map need).sum ≤ buf.size
  · rw [if_pos (by omega)] at hst
    rw [if_pos hfit, hst.2]; simp
  · rw [if_neg (by omega)] at hst
    rw [if_neg hfit, hst.2]

/-- the needs -/
theorem need_values :
    (∀ b, need (.bool b) = 1) ∧ (∀ src n, need (.bytes src n) = min n.toNat src.size) ∧
    (∀ v, need (.u8 v) = 1) ∧ (∀ v, need (.u16 v) = 2) ∧ (∀ v, need (.u32 v) = 4) ∧ (∀ v, need (.u64 v) = 8) ∧
    (∀ v, need (.i8 v) = 1) ∧ (∀ v, need (.i16 v) = 2) ∧ (∀ v, need (.i32 v) = 4) ∧ (∀ v, need (.i64 v) = 8) ∧
    (∀ v, need (.f32 v) = 4) ∧ (∀ v, need (.f64 v) = 8) ∧
    (∀ v n, need (.uint v n) = if n = 1 then 1 else if n = 2 then 2 else if n = 3 then 3 else 4) ∧
    (∀ v n, need (.int v n) = if n = 1 then 1 else if n = 2 then 2 else if n = 3 then 3 else 4) ∧
    (∀ v n j, n.toNat ≤ 8 → need (.luint v n j) = n.toNat) ∧
    (∀ n, need (.lendet n) = (lengthDeterminantLength n).toNat) := by
  refine ⟨?_, ?_, ?_, ?_, ?_, ?_, ?_, ?_, ?_, ?_, ?_, ?_, ?_, ?_, ?_, ?_⟩
  all_goals intros
  all_goals try (simp [need, chunks, be16, be32, be64]; done)
  · simp only [need, chunks, uintChunks]
    repeat' split
    all_goals simp [be16, be32]
  · simp only [need, chunks, intChunks]
    repeat' split
    all_goals simp [be16, be32]
  · rename_i v n j hn
    simp [need, chunks, luintBytes, OEnc.u64Object]
    omega
  · rename_i n
    rw [need_eq_length]
    exact lenDetBytes_length n

/-! ## (c) FUNCTIONAL -/

/-- `encoder_append_length_determinant(n)` on an encoder with enough room appends exactly the
Python codec's `Oer.lenDet n` (for every `uint32_t n`) and changes nothing else -/
theorem append_length_determinant_content {e : OEnc} (h : EInv e) (h0 : 0 ≤ e.size) (n : UInt32)
    (hfit : e.pos + ((lengthDeterminantLength n).toNat : Nat) ≤ e.size) :
    ∃ e' l, e.appendLengthDeterminant n = .ok e' ∧ Oer.lenDet n.toNat = .ok l ∧
      e'.size = e.size ∧ e'.pos = e.pos + (l.length : Nat) ∧
      e'.buf.toList.take e.pos.toNat = e.buf.toList.take e.pos.toNat ∧
      ((e'.buf.toList.drop e.pos.toNat).take l.length).map UInt8.toNat = l ∧
      e'.buf.toList.drop (e.pos.toNat + l.length) = e.buf.toList.drop (e.pos.toNat + l.length) := by
  have hn : need (.lendet n) = (lengthDeterminantLength n).toNat := need_values.2.2.2.2.2.2.2.2.2.2.2.2.2.2.2 n
  obtain ⟨e', h1, h2, h3, _, h5, h6, h7⟩ :=
    run_content h h0 (.lendet n) trivial (by simp [OEncOp.isAbort]) (by rw [hn]; exact hfit)
  have hl : (encBytes (.lendet n)).length = need (.lendet n) := by
    rw [need_eq_length, encBytes, List.length_map]
  refine ⟨e', encBytes (.lendet n), h1, encBytes_lendet n, h2, ?_, h5, ?_, ?_⟩
  · rw [hl]; exact h3
  · rw [hl]; exact h6
  · rw [hl]; exact h7

/-- the RUN-TIME C function `length_determinant_length` is correct for every `uint32_t` -/
theorem length_determinant_length_correct (n : UInt32) :
    ∃ l, Oer.lenDet n.toNat = .ok l ∧ (lengthDeterminantLength n).toNat = l.length := by
  obtain ⟨l, h1, h2⟩ := lengthDeterminantLength_eq n
  exact ⟨l, h1, h2.symm⟩

/-- the decoder one gets by handing the encoder's buffer to `decoder_init` -/
def decoderOn (e : OEnc) : ODec := { buf := e.buf, size := e.buf.size, pos := 0 }

/-- encode one operation into a fresh buffer, hand the buffer to the decoder: the decoder's input
starts with the bytes of the operation -/
theorem roundtrip_input (buf : Mem) (size : UInt64) (h : size.toNat = buf.size)
    (hb : buf.size < 4611686018427387904) (op : OEncOp) (hp : op.Pre) (hna : ¬ op.isAbort)
    (hfit : need op ≤ buf.size) :
    ∃ e e', OEnc.init buf size = .ok e ∧ e.run op = .ok e' ∧
      DInv (decoderOn e') ∧ 0 ≤ (decoderOn e').size ∧ (decoderOn e').fits (need op) ∧
      (decoderOn e').next (need op) = encBytes op ∧
      (decoderOn e').rest = encBytes op ++ ((decoderOn e').adv (need op)).rest := by
  obtain ⟨e, he, hi, _, hs, hpos⟩ := enc_init buf size h hb
  obtain ⟨e', h1, h2, h3, h4, _, h6, _⟩ :=
    run_content hi (by omega) op hp hna (by rw [hpos, hs]; omega)
  have hbs : e'.buf.size = buf.size := by rw [h4]; rcases hi with ⟨_, _⟩; simp_all
  have hinv : DInv (decoderOn e') := ⟨by simp only [decoderOn]; omega, Or.inl ⟨by simp [decoderOn], by simp [decoderOn], by simp [decoderOn]⟩⟩
  have hf : (decoderOn e').fits (need op) := ⟨by simp [decoderOn], by simp only [decoderOn]; omega⟩
  have hnext : (decoderOn e').next (need op) = encBytes op := by
    rw [hpos] at h6
    simpa [ODec.next, decoderOn] using h6
  refine ⟨e, e', he, h1, hinv, by simp [decoderOn], hf, hnext, ?_⟩
  rw [rest_split hinv hf, hnext]

theorem roundtrip_u8 (buf : Mem) (size : UInt64) (h : size.toNat = buf.size)
    (hb : buf.size < 4611686018427387904) (hfit : 1 ≤ buf.size) (v : UInt8) (j : Junk) (hj : j.Pre) :
    ∃ e e' d', OEnc.init buf size = .ok e ∧ e.appendU8 v = .ok e' ∧ (decoderOn e').readU8 j = .ok (v, d') := by
  obtain ⟨e, e', he, hr, hinv, _, hf, hnext, _⟩ :=
    roundtrip_input buf size h hb (.u8 v) trivial (by simp [OEncOp.isAbort]) (by rw [need_values.2.2.1]; exact hfit)
  rw [need_values.2.2.1] at hf hnext
  exact ⟨e, e', _, he, hr, readU8_of_next hinv j hj hf v (by rw [hnext, encBytes_u8])⟩

theorem roundtrip_u16 (buf : Mem) (size : UInt64) (h : size.toNat = buf.size)
    (hb : buf.size < 4611686018427387904) (hfit : 2 ≤ buf.size) (v : UInt16) (j : Junk) (hj : j.Pre) :
    ∃ e e' d', OEnc.init buf size = .ok e ∧ e.appendU16 v = .ok e' ∧ (decoderOn e').readU16 j = .ok (v, d') := by
  obtain ⟨e, e', he, hr, hinv, _, hf, hnext, _⟩ :=
    roundtrip_input buf size h hb (.u16 v) trivial (by simp [OEncOp.isAbort]) (by rw [need_values.2.2.2.1]; exact hfit)
  rw [need_values.2.2.2.1] at hf hnext
  exact ⟨e, e', _, he, hr, readU16_of_next hinv j hj hf v (by rw [hnext, encBytes_u16])⟩

theorem roundtrip_u32 (buf : Mem) (size : UInt64) (h : size.toNat = buf.size)
    (hb : buf.size < 4611686018427387904) (hfit : 4 ≤ buf.size) (v : UInt32) (j : Junk) (hj : j.Pre) :
    ∃ e e' d', OEnc.init buf size = .ok e ∧ e.appendU32 v = .ok e' ∧ (decoderOn e').readU32 j = .ok (v, d') := by
  obtain ⟨e, e', he, hr, hinv, _, hf, hnext, _⟩ :=
    roundtrip_input buf size h hb (.u32 v) trivial (by simp [OEncOp.isAbort]) (by rw [need_values.2.2.2.2.1]; exact hfit)
  rw [need_values.2.2.2.2.1] at hf hnext
  exact ⟨e, e', _, he, hr, readU32_of_next hinv j hj hf v (by rw [hnext, encBytes_u32])⟩

theorem roundtrip_u64 (buf : Mem) (size : UInt64) (h : size.toNat = buf.size)
    (hb : buf.size < 4611686018427387904) (hfit : 8 ≤ buf.size) (v : UInt64) (j : Junk) (hj : j.Pre) :
    ∃ e e' d', OEnc.init buf size = .ok e ∧ e.appendU64 v = .ok e' ∧ (decoderOn e').readU64 j = .ok (v, d') := by
  obtain ⟨e, e', he, hr, hinv, _, hf, hnext, _⟩ :=
    roundtrip_input buf size h hb (.u64 v) trivial (by simp [OEncOp.isAbort]) (by rw [need_values.2.2.2.2.2.1]; exact hfit)
  rw [need_values.2.2.2.2.2.1] at hf hnext
  exact ⟨e, e', _, he, hr, readU64_of_next hinv j hj hf v (by rw [hnext, encBytes_u64])⟩

/-- signed 32 bit round trip (`(uint32_t)value` on the way in, `(int32_t)` on the way out) -/
theorem roundtrip_i32 (buf : Mem) (size : UInt64) (h : size.toNat = buf.size)
    (hb : buf.size < 4611686018427387904) (hfit : 4 ≤ buf.size) (v : Int32) (j : Junk) (hj : j.Pre) :
    ∃ e e' d', OEnc.init buf size = .ok e ∧ e.appendI32 v = .ok e' ∧ (decoderOn e').readI32 j = .ok (v, d') := by
  obtain ⟨e, e', d', he, hr, hd⟩ := roundtrip_u32 buf size h hb hfit v.toUInt32 j hj
  refine ⟨e, e', d', he, hr, ?_⟩
  simp [ODec.readI32, hd, bind, Except.bind]

/-- length determinant round trip through the C helpers, for every `uint32_t` -/
theorem roundtrip_lendet (buf : Mem) (size : UInt64) (h : size.toNat = buf.size)
    (hb : buf.size < 4611686018427387904) (n : UInt32)
    (hfit : (lengthDeterminantLength n).toNat ≤ buf.size) (j : Junk) (hj : j.Pre) :
    ∃ e e' d', OEnc.init buf size = .ok e ∧ e.appendLengthDeterminant n = .ok e' ∧
      (decoderOn e').readLengthDeterminant j = .ok (n, d') := by
  have hn : need (.lendet n) = (lengthDeterminantLength n).toNat := need_values.2.2.2.2.2.2.2.2.2.2.2.2.2.2.2 n
  obtain ⟨e, e', he, hr, hinv, h0, _, _, hrest⟩ :=
    roundtrip_input buf size h hb (.lendet n) trivial (by simp [OEncOp.isAbort]) (by rw [hn]; exact hfit)
  obtain ⟨d', hd, _⟩ := readLengthDeterminant_lenDet hinv h0 j hj n _ hrest
  exact ⟨e, e', d', he, hr, hd⟩

/-- `decoder_read_uint(k)`, k = 1..4, returns the next `k` octets as a big-endian number -/
theorem readUint_value {d : ODec} (h : DInv d) (j : Junk) (hj : j.Pre) (k : UInt8)
    (hk : 1 ≤ k.toNat ∧ k.toNat ≤ 4) (hf : d.fits k.toNat) :
    ∃ v, d.readUint k j = .ok (v, d.adv k.toNat) ∧ v.toNat = bytesToNat (d.next k.toNat) := by
  rw [readUint_eq h k j hj]
  have hc : k = 1 ∨ k = 2 ∨ k = 3 ∨ k = 4 := by
    rcases uint8_cases_le8 k (by omega) with h | h | h | h | h | h | h | h | h <;> subst h <;> simp at hk ⊢
  rcases hc with rfl | rfl | rfl | rfl
  · exact ⟨_, rfl, by rw [UInt8.toNat_toUInt32]; exact u8_toNat h hf⟩
  · exact ⟨_, rfl, by rw [UInt16.toNat_toUInt32]; exact u16_toNat h hf⟩
  · refine ⟨_, ?_, u24_toNat h hf⟩
    simp only [uintSpec, show ¬ ((3 : UInt8) = 1) by decide, show ¬ ((3 : UInt8) = 2) by decide, if_false, if_true]
    rw [adv_adv (a := 1) (b := 2) hf]
    rfl
  · exact ⟨_, rfl, u32_toNat h hf⟩

theorem roundtrip_i8 (buf : Mem) (size : UInt64) (h : size.toNat = buf.size)
    (hb : buf.size < 4611686018427387904) (hfit : 1 ≤ buf.size) (v : Int8) (j : Junk) (hj : j.Pre) :
    ∃ e e' d', OEnc.init buf size = .ok e ∧ e.appendI8 v = .ok e' ∧ (decoderOn e').readI8 j = .ok (v, d') := by
  obtain ⟨e, e', d', he, hr, hd⟩ := roundtrip_u8 buf size h hb hfit v.toUInt8 j hj
  refine ⟨e, e', d', he, hr, ?_⟩
  simp [ODec.readI8, hd, bind, Except.bind]

theorem roundtrip_i16 (buf : Mem) (size : UInt64) (h : size.toNat = buf.size)
    (hb : buf.size < 4611686018427387904) (hfit : 2 ≤ buf.size) (v : Int16) (j : Junk) (hj : j.Pre) :
    ∃ e e' d', OEnc.init buf size = .ok e ∧ e.appendI16 v = .ok e' ∧ (decoderOn e').readI16 j = .ok (v, d') := by
  obtain ⟨e, e', d', he, hr, hd⟩ := roundtrip_u16 buf size h hb hfit v.toUInt16 j hj
  refine ⟨e, e', d', he, hr, ?_⟩
  simp [ODec.readI16, hd, bind, Except.bind]

theorem roundtrip_i64 (buf : Mem) (size : UInt64) (h : size.toNat = buf.size)
    (hb : buf.size < 4611686018427387904) (hfit : 8 ≤ buf.size) (v : Int64) (j : Junk) (hj : j.Pre) :
    ∃ e e' d', OEnc.init buf size = .ok e ∧ e.appendI64 v = .ok e' ∧ (decoderOn e').readI64 j = .ok (v, d') := by
  obtain ⟨e, e', d', he, hr, hd⟩ := roundtrip_u64 buf size h hb hfit v.toUInt64 j hj
  refine ⟨e, e', d', he, hr, ?_⟩
  simp [ODec.readI64, hd, bind, Except.bind]

/-- `encoder_append_uint(v, k)` then `decoder_read_uint(k)`, k = 1..4: the `k` low-order octets of `v` -/
theorem roundtrip_uint (buf : Mem) (size : UInt64) (h : size.toNat = buf.size)
    (hb : buf.size < 4611686018427387904) (v : UInt32) (k : UInt8) (hk : 1 ≤ k.toNat ∧ k.toNat ≤ 4)
    (hfit : k.toNat ≤ buf.size) (j : Junk) (hj : j.Pre) :
    ∃ e e' w d', OEnc.init buf size = .ok e ∧ e.appendUint v k = .ok e' ∧
      (decoderOn e').readUint k j = .ok (w, d') ∧ w.toNat = v.toNat % 256 ^ k.toNat := by
  have hn : need (.uint v k) = k.toNat := by
    rw [need_values.2.2.2.2.2.2.2.2.2.2.2.2.1]
    rcases uint8_cases_le8 k (by omega) with h | h | h | h | h | h | h | h | h <;> subst h <;> simp at hk ⊢
  obtain ⟨e, e', he, hr, hinv, _, hf, hnext, _⟩ :=
    roundtrip_input buf size h hb (.uint v k) trivial (by simp [OEncOp.isAbort]) (by rw [hn]; exact hfit)
  rw [hn] at hf hnext
  obtain ⟨w, hw, hval⟩ := readUint_value hinv j hj k hk hf
  refine ⟨e, e', w, _, he, hr, hw, ?_⟩
  rw [hval, hnext, encBytes_uint v k hk, bytesToNat_natToBytesN]

/-! ## (d) THE DEFECT: the static length function -/

theorem static_cases (n : Nat) :
    staticLenDetLen n =
      if n < 128 then 1 else if n < 256 then 2 else if n < 65536 then 3 else if n < 1677726 then 4 else 5 :=
  rfl

/-- Python's `get_length_determinant_length` disagrees with the C run-time function
`length_determinant_length` exactly on `[1677726, 16777216)` -/
theorem static_ne_runtime_iff (n : Nat) (h : n < 4294967296) :
    staticLenDetLen n ≠ (lengthDeterminantLength (UInt32.ofNat n)).toNat ↔ 1677726 ≤ n ∧ n < 16777216 := by
  rw [runtime_len_cases n h, static_cases]
  repeat' split
  all_goals omega

/-- ... and hence with the true encoded length of the length determinant -/
theorem static_ne_true_iff (n : Nat) (h : n < 4294967296) :
    staticLenDetLen n ≠ trueLenDetLen n ↔ 1677726 ≤ n ∧ n < 16777216 := by
  rw [trueLenDetLen_eq n h]; exact static_ne_runtime_iff n h

/-- agreement everywhere else -/
theorem static_eq_true (n : Nat) (h : n < 4294967296) (hn : n < 1677726 ∨ 16777216 ≤ n) :
    staticLenDetLen n = trueLenDetLen n := by
  apply Classical.byContradiction
  intro hc
  have := (static_ne_true_iff n h).mp hc
  omega

/-- the smallest witness: for `n = 1677726` the generator computes 5 octets, the encoding
(`83 19 99 9E`) has 4; below it the two agree -/
theorem static_defect_smallest :
    staticLenDetLen 1677726 = 5 ∧ Oer.lenDet 1677726 = .ok [0x83, 0x19, 0x99, 0x9e] ∧
    trueLenDetLen 1677726 = 4 ∧ (lengthDeterminantLength 1677726).toNat = 4 ∧
    ∀ m, m < 1677726 → staticLenDetLen m = trueLenDetLen m := by
  refine ⟨rfl, ?_, ?_, by decide, ?_⟩
  · rw [lenDet_long (k := 2) (by omega) (by decide) (by decide) (by omega)]
    simp [natToBytesN]
  · rw [trueLenDetLen_eq _ (by omega)]; decide
  · intro m hm
    exact static_eq_true m (by omega) (Or.inl hm)

theorem static_defect_exists : ∃ n, staticLenDetLen n ≠ trueLenDetLen n :=
  ⟨1677726, by rw [static_defect_smallest.1, static_defect_smallest.2.2.1]; decide⟩

/-- within `uint32_t` the static value is an over-estimate by at most one -/
theorem static_overestimates (n : Nat) (h : n < 4294967296) :
    trueLenDetLen n ≤ staticLenDetLen n ∧ staticLenDetLen n ≤ trueLenDetLen n + 1 := by
  rw [trueLenDetLen_eq n h, runtime_len_cases n h, static_cases]
  repeat' split
  all_goals omega

/-- beyond `uint32_t` (Python integers are unbounded) it UNDER-estimates: 5 instead of 6 at `2^32` -/
theorem static_underestimates_beyond_u32 :
    staticLenDetLen 4294967296 = 5 ∧ trueLenDetLen 4294967296 = 6 := by
  refine ⟨rfl, ?_⟩
  unfold trueLenDetLen
  rw [lenDet_long (k := 4) (by omega) (by decide) (by decide) (by omega)]
  simp

/-! ## unspecified evaluation order in `decoder_read_length_determinant` -/

/-- Case 3 of `decoder_read_length_determinant` evaluates two reads as operands of one `|`; the C
standard leaves their order unspecified and the two orders give different values: on the input
`83 01 02 03` left-to-right (gcc, clang) yields `0x010203`, right-to-left `0x030102` -/
theorem lenDet_evaluation_order_matters :
    ∃ d : ODec, DInv d ∧
      (d.readLengthDeterminant).map (·.1) = .ok 0x010203 ∧
      (d.readLengthDeterminantRL).map (·.1) = .ok 0x030102 :=
  ⟨{ buf := #[0x83, 1, 2, 3], size := 4, pos := 0 },
   ⟨by decide, Or.inl ⟨by decide, by decide, by decide⟩⟩, by rfl, by rfl⟩

/-! ## (e) non-vacuity: concrete runs of the model -/

/-- run encoder operations on a fresh `size` byte buffer filled with 0x55 -/
def runE (size : Nat) (ops : List OEncOp) : C (List UInt8 × Int) := do
  let e ← OEnc.init (Array.replicate size 0x55) (UInt64.ofNat size)
  let e ← e.runAll ops
  let r ← e.getResult
  .ok (e.buf.toList, r)

/-- run decoder operations on the given input -/
def runD (input : List UInt8) (ops : List ODecOp) : C (List Int × Int) := do
  let d ← ODec.init input.toArray (UInt64.ofNat input.length)
  let (vs, d) ← d.runAll ops
  let r ← d.getResult
  .ok (vs.map (fun v => match v with | .int v => v | _ => -1), r)

example : runE 4 [.lendet 300] = .ok ([0x82, 0x01, 0x2c, 0x55], 3) := by rfl
example : runE 2 [.lendet 300] = .ok ([0x82, 0x55], -12) := by rfl
example : runE 4 [.lendet 1677726] = .ok ([0x83, 0x19, 0x99, 0x9e], 4) := by rfl
example : runE 8 [.u8 1, .i16 (-2), .uint 0x112233 3, .bool true] =
    .ok ([1, 0xff, 0xfe, 0x11, 0x22, 0x33, 0xff, 0x55], 7) := by rfl
example : runE 8 [.luint 0x0102030405 5 (Array.replicate 8 0xcc)] = .ok ([1, 2, 3, 4, 5, 0x55, 0x55, 0x55], 5) := by rfl
/-- `number_of_bytes = 9` in `encoder_append_long_uint` is a stack buffer overflow -/
example : runE 16 [.luint 1 9 (Array.replicate 8 0)] = .error .outOfBounds := by rfl
/-- a source object shorter than the claimed size is read out of bounds -/
example : runE 4 [.bytes #[1] 3] = .error .outOfBounds := by rfl
/-- `(ssize_t)size = -1` passes the check of `encoder_alloc` -/
example : runE 4 [.bytes #[1] 18446744073709551615] = .error .outOfBounds := by rfl
example : runE 4 [.u8 1, .bytes #[1, 2] 9223372036854775807] = .error .signedOverflow := by rfl
example : runE 4 [.abort (-9223372036854775808)] = .error .signedOverflow := by rfl

example : runD [0x82, 0x01, 0x2c, 7] [.lendet {}, .u8 {}] = .ok ([300, 7], 4) := by rfl
example : runD [0x83, 0x19, 0x99, 0x9e] [.lendet {}] = .ok ([1677726], 4) := by rfl
/-- length of length 0 / 5: `0xffffffff`, one octet consumed, no error latched
(the Python codec returns 0 for `80`) -/
example : runD [0x80, 1] [.lendet {}] = .ok ([4294967295], 1) := by rfl
example : Oer.readLenDet [0x80, 1] = .ok (0, [1]) := by rfl
example : runD [0x85, 1, 2, 3, 4, 5] [.lendet {}] = .ok ([4294967295], 1) := by rfl
/-- out of data: value 0, `-EOUTOFDATA` latched, later reads return 0 -/
example : runD [0x82, 0x01] [.lendet {}, .u32 {}] = .ok ([0, 0], -500) := by rfl
/-- long tag: `0x7f 0x81 0x05` -/
example : runD [0x7f, 0x81, 0x05, 9] [.tag {}, .u8 {}] = .ok ([0x7f8105, 9], 4) := by rfl
/-- the tag loop on input that ends inside a long tag terminates with the latch set -/
example : runD [0x3f, 0x81, 0x82] [.tag {}] = .ok ([0x3f818200], -500) := by rfl
example : runD [1, 2, 3] [.int 3 {}, .int 7 {}] = .ok ([0x010203, 2147483647], 3) := by rfl
example : runD [0xff, 0xfe, 0xfd] [.int 3 {}] = .ok ([-259], 3) := by rfl
/-- error state: `memset(buf_p, 0, size)` on a destination shorter than `size` -/
example : (do let d ← ODec.init #[1] 1; let (_, d) ← d.run (.bytes #[0] 3); d.getResult) = .error .outOfBounds := by rfl

/-! ## axioms -/
#print axioms enc_init
#print axioms enc_safety
#print axioms enc_step_safety
#print axioms enc_latched_frozen
#print axioms dec_init
#print axioms dec_safety
#print axioms dec_step_safety
#print axioms dec_latched_frozen
#print axioms readTag_terminates
#print axioms dec_junk_irrelevant
#print axioms run_eq
#print axioms drun_eq
#print axioms short_buffer
#print axioms need_values
#print axioms run_content
#print axioms append_length_determinant_content
#print axioms length_determinant_length_correct
#print axioms readLengthDeterminant_readLenDet
#print axioms readLengthDeterminant_unsupported
#print axioms readLengthDeterminant_lenDet
#print axioms readTag_readTag
#print axioms encBytes_lendet
#print axioms encBytes_u8
#print axioms encBytes_u16
#print axioms encBytes_u32
#print axioms encBytes_u64
#print axioms encBytes_i8
#print axioms encBytes_i16
#print axioms encBytes_i32
#print axioms encBytes_i64
#print axioms encBytes_uint
#print axioms encBytes_luint
#print axioms encBytes_bool
#print axioms readU8_of_next
#print axioms readU16_of_next
#print axioms readU32_of_next
#print axioms readU64_of_next
#print axioms u24_toNat
#print axioms roundtrip_input
#print axioms roundtrip_u8
#print axioms roundtrip_u16
#print axioms roundtrip_u32
#print axioms roundtrip_u64
#print axioms roundtrip_i32
#print axioms roundtrip_lendet
#print axioms roundtrip_i8
#print axioms roundtrip_i16
#print axioms roundtrip_i64
#print axioms readUint_value
#print axioms roundtrip_uint
#print axioms static_ne_runtime_iff
#print axioms static_ne_true_iff
#print axioms static_eq_true
#print axioms static_defect_smallest
#print axioms static_defect_exists
#print axioms static_overestimates
#print axioms static_underestimates_beyond_u32
#print axioms lenDet_evaluation_order_matters

end Asn1.C10
