import Asn1Proofs.Lemmas.Bridge
/-
  C09 — TRANSLATOR TIE: the generation-time predicate `does_bits_match_range` of /repo/asn1tools/source/c/uper.py.
-/
namespace Asn1.C09t
open Asn1 Asn1.Translated Asn1.Bridge

theorem translated_does_bits_match_range (nb : Nat) (lo hi : Int) :
    c_uper_does_bits_match_range (nb : Int) lo hi = decide ((2 : Int) ^ nb = hi - lo + 1) :=
  c_uper_does_bits_match_range_eq nb lo hi

end Asn1.C09t
