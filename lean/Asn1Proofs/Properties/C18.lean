import Asn1Model.Sched
import Asn1Model.Uper
import Asn1Model.Oer
import Asn1Proofs.Lemmas.SchedLemmas
/-
  C18 — a compiled specification is stateless across calls and threads.
-/
namespace Asn1.C18
open Asn1 Asn1.Sched

/-- **non-interference for every schedule**: if no micro-step of any call writes the shared state, then
after ANY interleaving in which every call runs to completion, the shared state is unchanged and each
call's local result is exactly the result of that call made alone on the initial shared state. -/
theorem noninterference {σ ℓ : Type} (s : σ) (calls : List (Call σ ℓ)) (sched : List Nat)
    (hro : ∀ c ∈ calls, ReadOnly c)
    (hdone : Done (runSched s (calls.map start) sched).2) :
    (runSched s (calls.map start) sched).1 = s ∧
    (runSched s (calls.map start) sched).2.map (·.loc) = calls.map (fun c => (solo s c).2) := by
  obtain ⟨hs, hrel⟩ := runSched_preserves hro sched (allRel_start s calls)
  exact ⟨hs, allRel_done hrel hdone⟩

/-- the frame hypothesis is necessary: one writing micro-step is enough for a later call on another
thread to observe a different result than it would alone -/
theorem interference_witness :
    let w : Call Nat Nat := ⟨0, [fun _ l => (1, l)]⟩          -- writes the shared state
    let r : Call Nat Nat := ⟨0, [fun s _ => (s, s)]⟩          -- reads it
    ((runSched 0 [start w, start r] [0, 1]).2.map (·.loc)) ≠ [w, r].map (fun c => (solo 0 c).2) := by
  decide

/-- in the codec models the compiled type is an argument that is never returned: an encode followed by
a decode of something else leaves every later call's result unchanged (statelessness is structural) -/
theorem model_calls_pure (t : Ty) (v w : Val) (bs : Bytes) :
    let r1 := Uper.encode t v
    let _ := Uper.decode t bs
    let _ := Oer.encode t w
    Uper.encode t v = r1 := by
  intros; rfl

end Asn1.C18
