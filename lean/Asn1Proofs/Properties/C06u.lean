import Asn1Proofs.Lemmas.Bridge2
/-
  C06 / C16 — TRANSLATOR TIE for the OER octet writer and reader.  `Asn1.Translated.oer_Encoder_*` / `oer_Decoder_*` are
  regenerated from the Python classes `oer.Encoder` / `oer.Decoder` (/repo/asn1tools/codecs/oer.py: one big integer and a bit
  count) by harness/py2lean.py on every run.  The theorems relate every method, for ALL states and arguments, to the
  primitives of the OER code model (`Oer.lenDet`, `encSigned`, `encUnsigned`, `readByte`, `readBytes`, `readLenDet`,
  `decSigned`, `decUnsigned`, `readTag`) about which `oer_refines` / `decoder_exact` (C06) and `oer_truncated` (C16) are stated.
-/
namespace Asn1.C06u
open Asn1 Asn1.Translated Asn1.Bridge
open Asn1.Uper (Err)

theorem oer_read_bit_bits (d : oer_DecoderS) (h : ODecInv d) :
    match oBits d with
    | [] => oer_Decoder_read_bit d = .error "OutOfDataError"
    | b :: r => ∃ d', oer_Decoder_read_bit d = .ok (d', if b then 1 else 0) ∧ ODecInv d' ∧ oBits d' = r :=
  Bridge.oer_read_bit_bits d h

theorem oer_peek_bit_bits (d : oer_DecoderS) (h : ODecInv d) :
    match oBits d with
    | [] => oer_Decoder_peek_bit d = .error "OutOfDataError"
    | b :: _ => oer_Decoder_peek_bit d = .ok (if b then 1 else 0) :=
  Bridge.oer_peek_bit_bits d h

theorem oer_skip_bits_bits (d : oer_DecoderS) (h : ODecInv d) (n : Nat) :
    if n ≤ (oBits d).length then ∃ d', oer_Decoder_skip_bits d n = .ok d' ∧ ODecInv d' ∧ oBits d' = (oBits d).drop n
    else oer_Decoder_skip_bits d n = .error "OutOfDataError" :=
  Bridge.oer_skip_bits_bits d h n

theorem oer_read_byte_refines (d : oer_DecoderS) (h : ODecInv d) (bs : Bytes) (ha : oAt d bs) :
    ORefines natVal (oer_Decoder_read_byte d) (Oer.readByte bs) :=
  Bridge.oer_read_byte_refines d h bs ha

theorem oer_read_bytes_refines (d : oer_DecoderS) (h : ODecInv d) (bs : Bytes) (ha : oAt d bs) (n : Nat) :
    ORefines bytesVal (oer_Decoder_read_bytes d n) (Oer.readBytes n bs) :=
  Bridge.oer_read_bytes_refines d h bs ha n

theorem oer_read_length_determinant_refines (d : oer_DecoderS) (h : ODecInv d) (bs : Bytes) (ha : oAt d bs) :
    ORefines natVal (oer_Decoder_read_length_determinant d) (Oer.readLenDet bs) :=
  Bridge.oer_read_length_determinant_refines d h bs ha

theorem oer_read_integer_refines (d : oer_DecoderS) (h : ODecInv d) (bs : Bytes) (ha : oAt d bs) :
    ORefines (fun a (i : Int) => a = i) (oer_Decoder_read_integer d) (Oer.decSigned bs) :=
  Bridge.oer_read_integer_refines d h bs ha

theorem oer_read_unsigned_integer_refines (d : oer_DecoderS) (h : ODecInv d) (bs : Bytes) (ha : oAt d bs) :
    ORefines natVal (oer_Decoder_read_unsigned_integer d) (Oer.decUnsigned bs) :=
  Bridge.oer_read_unsigned_integer_refines d h bs ha

theorem oer_read_tag_refines (d : oer_DecoderS) (h : ODecInv d) (bs : Bytes) (ha : oAt d bs) :
    ORefines bytesVal (oer_Decoder_read_tag d) (Oer.readTag bs) :=
  Bridge.oer_read_tag_refines d h bs ha

theorem oer_append_non_negative_binary_integer_refines (s : oer_EncoderS) (h : OEncInv s) (v n : Nat) (hv : v < 2 ^ n) :
    OEncInv (oer_Encoder_append_non_negative_binary_integer s v n) ∧
    oEncBits (oer_Encoder_append_non_negative_binary_integer s v n) = oEncBits s ++ natToBits n v :=
  Bridge.oer_append_non_negative_binary_integer_refines s h v n hv

theorem oer_append_bit_refines (s : oer_EncoderS) (h : OEncInv s) (b : Bool) :
    OEncInv (oer_Encoder_append_bit s (if b then 1 else 0)) ∧
    oEncBits (oer_Encoder_append_bit s (if b then 1 else 0)) = oEncBits s ++ [b] :=
  Bridge.oer_append_bit_refines s h b

theorem oer_append_u8_refines (s : oer_EncoderS) (h : OEncInv s) (v : Nat) (hv : v < 256) :
    OEncInv (oer_Encoder_append_u8 s v) ∧ oEncBits (oer_Encoder_append_u8 s v) = oEncBits s ++ natToBits 8 v :=
  Bridge.oer_append_u8_refines s h v hv

theorem oer_append_bits_refines (s : oer_EncoderS) (h : OEncInv s) (data : Bytes) (hd : ∀ b ∈ data, b < 256)
    (n : Nat) (hn : n ≤ 8 * data.length) :
    OEncInv (oer_Encoder_append_bits s (ofNats data) n) ∧
    oEncBits (oer_Encoder_append_bits s (ofNats data) n) = oEncBits s ++ (bytesToBits data).take n :=
  Bridge.oer_append_bits_refines s h data hd n hn

theorem oer_append_bytes_refines (s : oer_EncoderS) (h : OEncInv s) (data : Bytes) (hd : ∀ b ∈ data, b < 256) :
    OEncInv (oer_Encoder_append_bytes s (ofNats data)) ∧
    oEncBits (oer_Encoder_append_bytes s (ofNats data)) = oEncBits s ++ bytesToBits data :=
  Bridge.oer_append_bytes_refines s h data hd

theorem oer_align_refines (s : oer_EncoderS) (h : OEncInv s) :
    OEncInv (oer_Encoder_align s) ∧ oEncBits (oer_Encoder_align s) = oEncBits s ++ Per.alignBits (oEncBits s).length :=
  Bridge.oer_align_refines s h

theorem oer_number_of_bytes_eq (s : oer_EncoderS) (h : OEncInv s) :
    oer_Encoder_number_of_bytes s = ((((oEncBits s).length + 7) / 8 : Nat) : Int) :=
  Bridge.oer_number_of_bytes_eq s h

theorem oer_iadd_refines (s o : oer_EncoderS) (h : OEncInv s) (ho : OEncInv o) :
    OEncInv (oer_Encoder___iadd__ s o) ∧ oEncBits (oer_Encoder___iadd__ s o) = oEncBits s ++ oEncBits o :=
  Bridge.oer_iadd_refines s o h ho

theorem oer_append_length_determinant_cases (s : oer_EncoderS) (h : OEncInv s) (n : Nat) :
    (∃ s' bs, oer_Encoder_append_length_determinant s n = .ok s' ∧ Oer.lenDet n = .ok bs ∧
      OEncInv s' ∧ oEncBits s' = oEncBits s ++ bytesToBits bs) ∨
    (oer_Encoder_append_length_determinant s n = .error "EncodeError" ∧ Oer.lenDet n = .error .encodeError) :=
  Bridge.oer_append_length_determinant_cases s h n

theorem oer_append_integer_refines (s : oer_EncoderS) (h : OEncInv s) (i : Int) :
    OEncRefines s (oer_Encoder_append_integer s i) (Oer.encSigned i) :=
  Bridge.oer_append_integer_refines s h i

theorem oer_append_unsigned_integer_refines (s : oer_EncoderS) (h : OEncInv s) (n : Nat) :
    OEncRefines s (oer_Encoder_append_unsigned_integer s n) (Oer.encUnsigned n) :=
  Bridge.oer_append_unsigned_integer_refines s h n

end Asn1.C06u
