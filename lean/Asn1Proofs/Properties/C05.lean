import Asn1Model.X691
import Asn1Model.Per
import Asn1Proofs.Lemmas.X691Refine
import Asn1Proofs.Lemmas.X691PerRefine
import Asn1Proofs.Lemmas.X691Total
import Asn1Proofs.Lemmas.X691Sort
import Asn1Proofs.Lemmas.X691Annex
import Asn1Proofs.Lemmas.X691Witness
import Asn1Proofs.Lemmas.X691WitnessBig
/-
  C05 — the PER encoders emit the bit string X.691 prescribes.

  `X691.enc` / `X691.encode` (Asn1Model/X691.lean) is the specification S written from the
  standard; `Uper.enc` / `Per.enc` are the models M of what asn1tools computes.  This file holds
  the property theorems only:
    (a) M = S for the UNALIGNED and the ALIGNED variant, all types and values, outside the named
        deviations;
    (b) the declarative readings of the primitives of S;
    (c) the worked examples of X.691 Annex A;
    (d) one witness per deviation name.
-/
namespace Asn1.C05
open Asn1 Asn1.X691

/-! ## (a) refinement -/

/-- **UNALIGNED PER emits the bit string X.691 prescribes** (bit level, every type and value of
the universe, by structural induction): outside the deviation predicates, whenever the
specification defines an encoding of `v : t` — at any position `pos` of an enclosing encoding —
the code emits exactly that bit string. -/
theorem uper_refines (t : Ty) (v : Val) (pos : Nat) (bits : Bits)
    (hd : X691.devs false t v = []) (h : X691.enc false t pos v = .ok bits) :
    Uper.enc t v = .ok bits :=
  X691.uper_refines_bits t v pos bits hd h

/-- the same for complete encodings (octets), with the deviation list of the driver -/
theorem uper_refines_encode (t : Ty) (v : Val) (bytes : Bytes)
    (hd : X691.deviations false t v = []) (h : X691.encode false t v = .ok bytes) :
    Uper.encode t v = .ok bytes :=
  X691.uper_refines_encode t v bytes hd h

/-- **ALIGNED PER emits the bit string X.691 prescribes** (bit level, every type and value, every
position `pos` in the enclosing complete encoding — alignment padding depends on it): outside the
deviation predicates of the aligned variant the code emits exactly the bits of the standard. -/
theorem per_refines (t : Ty) (v : Val) (pos : Nat) (bits : Bits)
    (hd : X691.devs true t v = []) (h : X691.enc true t pos v = .ok bits) :
    Per.enc t pos v = .ok bits :=
  X691.per_refines_bits t v pos bits hd h

/-- the specification is defined on every value the library's own checkers accept, in both
variants (so the theorems above are not vacuous).  `Ty.optOk`: every SEQUENCE has fewer than 64K
OPTIONAL / DEFAULT root components (the one scope limit of S, X.691 18.3). -/
theorem spec_total (aligned : Bool) (t : Ty) (v : Val) (pos : Nat)
    (hwf : t.wf = true) (hopt : t.optOk = true) (ht : hasType t v = true) :
    ∃ bits, X691.enc aligned t pos v = .ok bits :=
  X691.enc_total aligned t v pos hwf hopt ht

/-- ... hence, as an equation between the two encoders: for a well-formed type, a well-typed value
and no deviation, code and standard agree -/
theorem uper_refines_eq (t : Ty) (v : Val) (pos : Nat)
    (hwf : t.wf = true) (hopt : t.optOk = true) (ht : hasType t v = true)
    (hd : X691.devs false t v = []) :
    Uper.enc t v = X691.enc false t pos v := by
  obtain ⟨bits, h⟩ := X691.enc_total false t v pos hwf hopt ht
  rw [h]
  exact X691.uper_refines_bits t v pos bits hd h

theorem per_refines_eq (t : Ty) (v : Val) (pos : Nat)
    (hwf : t.wf = true) (hopt : t.optOk = true) (ht : hasType t v = true)
    (hd : X691.devs true t v = []) :
    Per.enc t pos v = X691.enc true t pos v := by
  obtain ⟨bits, h⟩ := X691.enc_total true t v pos hwf hopt ht
  rw [h]
  exact X691.per_refines_bits t v pos bits hd h

/-- non-vacuity: the Annex A.4 value (extensible SEQUENCE and CHOICE, extension additions,
OPTIONAL components, constrained INTEGER, fixed-size NumericString) satisfies every hypothesis -/
example :
    X691.Annex.a4Ty.wf = true ∧ X691.Annex.a4Ty.optOk = true ∧
    hasType X691.Annex.a4Ty X691.Annex.a4Val = true ∧
    X691.devs false X691.Annex.a4Ty X691.Annex.a4Val = [] ∧
    X691.devs true X691.Annex.a4Ty X691.Annex.a4Val = [] := by
  decide +kernel

/-! ## (b) declarative primitives -/

/-- 10.5.6 / 10.5.7.1: `w` bits can represent `range` values iff `w ≥ bitLength (range - 1)` -/
theorem cwn_width_minimal (range w : Nat) : range ≤ 2 ^ w ↔ bitLength (range - 1) ≤ w :=
  X691.cwn_width_minimal range w

/-- the width used by S is the least one -/
theorem cwn_width_least (range : Nat) :
    range ≤ 2 ^ X691.minBits range ∧ ∀ w, range ≤ 2 ^ w → X691.minBits range ≤ w :=
  X691.minBits_spec range

/-- 10.3.6 (semi-constrained whole numbers, normally small numbers ≥ 64, the indefinite length
case): the octet count used by S is the least positive one that holds the number -/
theorem semi_constrained_octets_minimal (n : Nat) :
    1 ≤ X691.minOctets n ∧ n < 256 ^ X691.minOctets n ∧
      ∀ k, 1 ≤ k → n < 256 ^ k → X691.minOctets n ≤ k :=
  X691.minOctets_spec n

/-- 10.4.6 (unconstrained whole numbers): the octet count used by S is the least positive one whose
2's complement range contains the number -/
theorem unconstrained_octets_minimal (i : Int) :
    1 ≤ X691.minOctets2c i ∧ X691.fits2c (X691.minOctets2c i) i = true ∧
      ∀ k, 1 ≤ k → X691.fits2c k i = true → X691.minOctets2c i ≤ k :=
  X691.minOctets2c_spec i

/-- 10.9.3.6 – 10.9.3.8: the three forms of a length determinant, and the number of items it
announces: `0nnnnnnn`; `10nnnnnn nnnnnnnn`; `11mmmmmm` with the largest `m ≤ 4` of 16K blocks -/
theorem length_determinant_form (n : Nat) :
    (n ≤ 127 → X691.lengthOctets n = (false :: natToBits 7 n, n)) ∧
    (127 < n → n < 16384 → X691.lengthOctets n = (true :: false :: natToBits 14 n, n)) ∧
    (16384 ≤ n → ∃ m, 1 ≤ m ∧ m ≤ 4 ∧ m * 16384 ≤ n ∧ (m = 4 ∨ n < (m + 1) * 16384) ∧
        X691.lengthOctets n = (true :: true :: natToBits 6 m, m * 16384)) :=
  X691.lengthOctets_form n

/-- the octets of a length determinant are those the code writes (the code differs in WHERE it
fragments, not in the form of a determinant) -/
theorem length_determinant_octets (n : Nat) : X691.lengthOctets n = Uper.lenDet n :=
  X691.lengthOctets_eq n

/-- 13.1: the enumeration root used for the index is the declared list "sorted into ascending
order by enumeration value": a permutation of the items, ascending -/
theorem enum_root_sorted (root : List (String × Int)) :
    (X691.sortAsc root).Perm root ∧ (X691.sortAsc root).Pairwise (fun a b => a.2 ≤ b.2) :=
  ⟨X691.sortAsc_perm root, X691.sortAsc_sorted root⟩

/-! ## (c) X.691 Annex A -/

section annex
open X691.Annex

/-- A.1.4: the UNALIGNED PER representation of the personnel record -/
theorem annex_a1_unaligned : X691.encode false a1Ty a1Val = .ok a1Unaligned := by decide +kernel

/-- A.1.3: the ALIGNED PER representation of the personnel record -/
theorem annex_a1_aligned : X691.encode true a1Ty a1Val = .ok a1Aligned := by decide +kernel

/-- A.4.4 -/
theorem annex_a4_unaligned : X691.encode false a4Ty a4Val = .ok a4Unaligned := by decide +kernel

/-- A.4.3 -/
theorem annex_a4_aligned : X691.encode true a4Ty a4Val = .ok a4Aligned := by decide +kernel

/-- the examples run into no deviation, and the code models agree on them -/
theorem annex_no_deviation :
    X691.deviations false a1Ty a1Val = [] ∧ X691.deviations true a1Ty a1Val = [] ∧
    X691.deviations false a4Ty a4Val = [] ∧ X691.deviations true a4Ty a4Val = [] := by
  decide +kernel

theorem annex_code_models :
    Uper.encode a1Ty a1Val = .ok a1Unaligned ∧ Per.encode a1Ty a1Val = .ok a1Aligned ∧
    Uper.encode a4Ty a4Val = .ok a4Unaligned ∧ Per.encode a4Ty a4Val = .ok a4Aligned := by
  decide +kernel

end annex

/-! ## (d) witnesses: one concrete (type, value) per deviation name -/

section witnesses
open X691.Witness

/-- `INTEGER (3..MAX)`, value 3: code `01 03` (2's complement of the value), standard `01 00`
(offset from the lower bound, 12.2.3 / 10.7) -/
theorem witness_semi_constrained_integer :
    Uper.encode (.integer ⟨some 3, none, false⟩) (.int 3) = .ok [1, 3] ∧
    X691.encode false (.integer ⟨some 3, none, false⟩) (.int 3) = .ok [1, 0] ∧
    Per.encode (.integer ⟨some 3, none, false⟩) (.int 3) = .ok [1, 3] ∧
    X691.encode true (.integer ⟨some 3, none, false⟩) (.int 3) = .ok [1, 0] ∧
    X691.deviations false (.integer ⟨some 3, none, false⟩) (.int 3) = ["semi-constrained-integer"] := by
  decide +kernel

/-- `OCTET STRING (SIZE(0..10, ...))` with 16384 octets `data`: the code writes the fragment
marker `c1` and the octets and stops; the standard requires a further length determinant (here the
zero octet of 10.9.3.8.3) after the 16K fragment -/
theorem witness_unfragmented_length (data : Bytes) (hb : ∀ b ∈ data, b < 256)
    (hlen : data.length = 16384) :
    ∃ m, Uper.enc (.octetString ⟨0, some 10, true⟩) (.bytes data) = .ok m ∧
      X691.enc false (.octetString ⟨0, some 10, true⟩) 0 (.bytes data) = .ok (m ++ natToBits 8 0) ∧
      "unfragmented-length" ∈ X691.devs false (.octetString ⟨0, some 10, true⟩) (.bytes data) :=
  X691.witness_unfragmented data hb hlen

/-- `BIT STRING (SIZE(0..10, ...))` with 16 bits: `NotImplementedError`; standard `88 00 84 00` -/
theorem witness_size_extension_unimplemented :
    Uper.encode (.bitString ⟨0, some 10, true⟩) (.bits [1, 8] 16) = .error .notImplemented ∧
    X691.encode false (.bitString ⟨0, some 10, true⟩) (.bits [1, 8] 16) = .ok [0x88, 0x00, 0x84, 0x00] ∧
    X691.deviations false (.bitString ⟨0, some 10, true⟩) (.bits [1, 8] 16)
      = ["size-extension-unimplemented"] := by
  decide +kernel

/-- `INTEGER (0..MAX, ...)`, value 5: `TypeError`; standard `00 82 80` (bit 0, then the
semi-constrained whole number `01 05`) -/
theorem witness_ext_open_bound :
    Uper.encode (.integer ⟨some 0, none, true⟩) (.int 5) = .error .foreign ∧
    X691.encode false (.integer ⟨some 0, none, true⟩) (.int 5) = .ok [0x00, 0x82, 0x80] ∧
    Per.encode (.integer ⟨some 0, none, true⟩) (.int 5) = .error .foreign ∧
    X691.encode true (.integer ⟨some 0, none, true⟩) (.int 5) = .ok [0x00, 0x01, 0x05] ∧
    X691.deviations false (.integer ⟨some 0, none, true⟩) (.int 5) = ["ext-open-bound"] := by
  decide +kernel

/-- an outermost NULL: the code returns no octet, 10.1.3 requires one zero octet; and an
extension addition of type NULL: the code writes the open type as length 0 (`c0 40 00`), the
standard as length 1 and a zero octet (`c0 40 40 00`) -/
theorem witness_empty_complete_encoding :
    Uper.encode .null .null = .ok [] ∧ X691.encode false .null .null = .ok [0] ∧
    X691.deviations false .null .null = ["empty-complete-encoding"] ∧
    (let t : Ty := .sequence (.cons "r" .mandatory .boolean .nil) true (.cons "x" .optional .null .nil)
     let v : Val := .record [("r", .bool true), ("x", .null)]
     Uper.encode t v = .ok [0xc0, 0x40, 0x00] ∧ X691.encode false t v = .ok [0xc0, 0x40, 0x40, 0x00] ∧
     Per.encode t v = .ok [0xc0, 0x40, 0x00] ∧ X691.encode true t v = .ok [0xc0, 0x40, 0x01, 0x00] ∧
     X691.deviations false t v = ["empty-complete-encoding"]) := by
  decide +kernel

/-- a SEQUENCE with 128 extension additions, the first one present: `NotImplementedError`;
standard: `1 1 1 10000000 10000000` (extension bit, `r`, normally small length > 64 as an
unconstrained length) and the 128-bit bitmap ... -/
theorem witness_normally_small_length_unsupported :
    let v : Val := .record [("r", .bool true), ("x0", .bool true)]
    Uper.encode seq128 v = .error .notImplemented ∧
    (X691.encode false seq128 v).toOption.map (·.take 4) = some [0xf0, 0x10, 0x10, 0x00] ∧
    X691.deviations false seq128 v = ["normally-small-length-unsupported"] := by
  decide +kernel

/-- additions `a BOOLEAN, b BOOLEAN OPTIONAL` with `b` present and the mandatory `a` absent: not
a value of the type (the standard prescribes nothing, S rejects); the code silently drops `b` -/
theorem witness_addition_error_swallowed :
    let t : Ty := .sequence (.cons "r" .mandatory .boolean .nil) true
      (.cons "a" .mandatory .boolean (.cons "b" .optional .boolean .nil))
    let v : Val := .record [("r", .bool true), ("b", .bool true)]
    Uper.encode t v = .ok [0x40] ∧ X691.encode false t v = .error .encodeError ∧
    X691.deviations false t v = ["addition-error-swallowed"] := by
  decide +kernel

/-- ALIGNED, ENUMERATED with 257 root items, item `e239`: the code writes the index in 9 bits
(`77 80`), 10.5.7.3 requires two octets (`00 ef`) -/
theorem witness_aligned_enum_index :
    Per.encode enum257 (.enum "e239") = .ok [0x77, 0x80] ∧
    X691.encode true enum257 (.enum "e239") = .ok [0x00, 0xef] ∧
    X691.deviations true enum257 (.enum "e239") = ["aligned-enum-index"] := by
  decide +kernel

/-- ALIGNED, 65th addition of an extensible ENUMERATED: 10.6.2 = bit 1, then (octet-aligned) length
`01` and the octet `40`; the code does not align: `c0 50 00` instead of `c0 01 40` -/
theorem witness_aligned_normally_small_unaligned :
    Per.encode enumExt65 (.enum "x64") = .ok [0xc0, 0x50, 0x00] ∧
    X691.encode true enumExt65 (.enum "x64") = .ok [0xc0, 0x01, 0x40] ∧
    X691.deviations true enumExt65 (.enum "x64") = ["aligned-normally-small-unaligned"] := by
  decide +kernel

/-- ALIGNED, `NumericString (SIZE(0..2))` value "0": `aub * b = 8 < 16`, so 27.5.7 does not align
the characters (`44` = length 01, character 0001); the code aligns (`40 10`) -/
theorem witness_aligned_string_alignment :
    let t : Ty := .charString .numeric ⟨0, some 2, false⟩
    Per.encode t (.str [48]) = .ok [0x40, 0x10] ∧ X691.encode true t (.str [48]) = .ok [0x44] ∧
    X691.deviations true t (.str [48]) = ["aligned-string-alignment"] := by
  decide +kernel

/-- ALIGNED, an empty `IA5String (SIZE(0..2))` between two BOOLEANs: `aub * b = 16`, 27.5.7 makes
the (empty) field of characters octet-aligned; read literally that inserts padding (`80 80`), the
code inserts none (`90`).  The reading of the standard is uncertain here. -/
theorem witness_aligned_empty_string_alignment :
    let t : Ty := .sequence (.cons "p" .mandatory .boolean (.cons "x" .mandatory
      (.charString .ia5 ⟨0, some 2, false⟩) (.cons "q" .mandatory .boolean .nil))) false .nil
    let v : Val := .record [("p", .bool true), ("x", .str []), ("q", .bool true)]
    Per.encode t v = .ok [0x90] ∧ X691.encode true t v = .ok [0x80, 0x80] ∧
    X691.deviations true t v = ["aligned-empty-string-alignment"] := by
  decide +kernel

/-- ALIGNED, `INTEGER (0..2^1032 - 1)`, value 0 (10.5.7.4, 12.2.6 a): the length `1` of the value
is a constrained whole number in `1..129`, 8 bits; the code writes it in two aligned octets -/
theorem witness_aligned_length_of_length :
    let t : Ty := .integer ⟨some 0, some ((2 ^ 1032 : Nat) - 1 : Int), false⟩
    Per.encode t (.int 0) = .ok [0, 0, 0] ∧ X691.encode true t (.int 0) = .ok [0, 0] ∧
    X691.deviations true t (.int 0) = ["aligned-length-of-length"] := by
  decide +kernel

/-- ALIGNED, `SEQUENCE OF CHOICE { a BOOLEAN, b NULL }` with 16384 + k components: after the
first fragment of 16384 components (here an odd number of bits) the next length determinant is
octet-aligned by 10.9.3.5; the code writes it without padding -/
theorem witness_aligned_fragment_length_unaligned :
    Per.enc X691.FragWitness.t 0 (.list X691.FragWitness.vs) =
      .ok (natToBits 8 0xc1 ++ X691.FragWitness.body ++ natToBits 8 1 ++ [true]) ∧
    X691.enc true X691.FragWitness.t 0 (.list X691.FragWitness.vs) =
      .ok (natToBits 8 0xc1 ++ X691.FragWitness.body ++ List.replicate 7 false ++
            natToBits 8 1 ++ [true]) ∧
    "aligned-fragment-length-unaligned" ∈
      X691.devs true X691.FragWitness.t (.list X691.FragWitness.vs) :=
  X691.witness_aligned_fragment

end witnesses

end Asn1.C05
