import Asn1Proofs.Lemmas.X690Refines
import Asn1Proofs.Lemmas.X690Canonical
import Asn1Proofs.Lemmas.X690Shape
/-
  C03 -- the DER output is the unique X.690 distinguished encoding.
  Property theorems only; proofs in Asn1Proofs/Lemmas/X690*.lean.

  S-level: `X690.derEncode` (Asn1Model/X690.lean), written clause by clause from X.690 8 / 10 / 11.
  M-level: `Der.encode` (Asn1Model/Der.lean), the model of asn1tools' der.py.
  Abstract values: `Der.canon' = X690.canonV` (Asn1Model/X690Value.lean).
-/
namespace Asn1.C03
open Asn1

/-- **the code computes the distinguished encoding** on every value of the type, outside the one
named deviation `default-valued-component-not-elided` (`X690.elisionOk`: X.690 11.5 is about the
*value* being equal to the DEFAULT, the code compares the Python objects, and never elides a NULL) -/
theorem der_refines (t : Ty) (v : Val)
    (hwf : t.wf = true) (ht : hasType t v = true) (hdev : X690.deviations t v = []) :
    Der.encode t v = X690.derEncode t v :=
  X690.der_refines t v hwf ht hdev

/-- the same in every tagging context (member `[i]`, alternative `[i]`) -/
theorem der_refines_tagged (t : Ty) (tg : Option Nat) (v : Val)
    (hwf : t.wf = true) (ht : hasType t v = true) (hdev : X690.elisionOk t v = true) :
    Der.enc t tg v = X690.encV t tg v :=
  X690.enc_refines t tg v hwf ht hdev

/-- **canonicity**: equal abstract values, identical octets (the values need not be well typed) -/
theorem der_canonical (t : Ty) (v₁ v₂ : Val)
    (hwf : t.wf = true) (hd : X690.defaultsOkV t = true) (h : Der.canon' t v₁ = Der.canon' t v₂) :
    X690.derEncode t v₁ = X690.derEncode t v₂ :=
  X690.der_canonical t v₁ v₂ hwf hd h

/-- ... hence for the code too, outside the deviation -/
theorem der_code_canonical (t : Ty) (v₁ v₂ : Val)
    (hwf : t.wf = true) (hd : X690.defaultsOkV t = true)
    (ht₁ : hasType t v₁ = true) (ht₂ : hasType t v₂ = true)
    (hdev₁ : X690.deviations t v₁ = []) (hdev₂ : X690.deviations t v₂ = [])
    (h : Der.canon' t v₁ = Der.canon' t v₂) :
    Der.encode t v₁ = Der.encode t v₂ := by
  rw [der_refines t v₁ hwf ht₁ hdev₁, der_refines t v₂ hwf ht₂ hdev₂]
  exact der_canonical t v₁ v₂ hwf hd h

/-- **shape**: every output of the code's encoder (any tagging context) is a single TLV with valid
identifier octets and minimal definite length octets (no valid length octets made of bytes are
shorter), and the framing probe `decode_full_length` (C15) measures it exactly.  `hlen`: lengths
of 256^127 octets and more have no definite length octets at all (C15 `encLength_valid`). -/
theorem der_tlv_shape (t : Ty) (tg : Option Nat) (v : Val) (bytes : Bytes)
    (h : Der.enc t tg v = .ok bytes) (hlen : bytes.length < 256 ^ 127) : X690.SingleTLV bytes :=
  X690.enc_tlv_shape t tg v bytes h hlen

theorem spec_tlv_shape (t : Ty) (v : Val) (bytes : Bytes)
    (h : X690.derEncode t v = .ok bytes) (hlen : bytes.length < 256 ^ 127) : X690.SingleTLV bytes :=
  X690.encV_tlv_shape t none v bytes h hlen

/-- `MinimalLen` needs the competing length octets to be bytes: in the model octets are naturals -/
theorem minimal_len_needs_bytes :
    ¬ (∀ l', Ber.validLen l' 256 → (Ber.encLength 256).length ≤ l'.length) :=
  X690.minimalLen_unrestricted_false

/-! ### the named deviation is real (model level; confirmed on /repo, see the report) -/

/-- a NULL component with a DEFAULT is never elided by the code (`Null.is_default` is `False`) -/
theorem witness_null_default_not_elided :
    let t : Ty := .sequence (.cons "n" (.default .null) .null .nil) false .nil
    Der.encode t (.record [("n", .null)]) = .ok [0x30, 2, 0x80, 0] ∧
    X690.derEncode t (.record [("n", .null)]) = .ok [0x30, 0] ∧
    X690.deviations t (.record [("n", .null)]) = ["default-valued-component-not-elided"] := by
  refine ⟨by rfl, by rfl, by rfl⟩

/-- a component that *denotes* its DEFAULT value without being written like it is not elided -/
theorem witness_structured_default_not_elided :
    let inner : Ty := .sequence (.cons "a" (.default (.bool false)) .boolean .nil) false .nil
    let t : Ty := .sequence (.cons "y" (.default (.record [("a", .bool false)])) inner .nil) false .nil
    Der.encode t (.record [("y", .record [])]) = .ok [0x30, 2, 0xa0, 0] ∧
    X690.derEncode t (.record [("y", .record [])]) = .ok [0x30, 0] ∧
    X690.deviations t (.record [("y", .record [])]) = ["default-valued-component-not-elided"] := by
  refine ⟨by rfl, by rfl, by rfl⟩

/-! ### concrete vectors from /repo/tests/test_der.py (the S-level encoder reproduces them) -/

section vectors
private abbrev int : Ty := .integer ⟨none, none, false⟩
example : X690.derEncode int (.int 32768) = .ok [0x02, 0x03, 0x00, 0x80, 0x00] := by rfl
example : X690.derEncode int (.int 32767) = .ok [0x02, 0x02, 0x7f, 0xff] := by rfl
example : X690.derEncode int (.int 256) = .ok [0x02, 0x02, 0x01, 0x00] := by rfl
example : X690.derEncode int (.int 255) = .ok [0x02, 0x02, 0x00, 0xff] := by rfl
example : X690.derEncode int (.int 128) = .ok [0x02, 0x02, 0x00, 0x80] := by rfl
example : X690.derEncode int (.int 127) = .ok [0x02, 0x01, 0x7f] := by rfl
example : X690.derEncode int (.int 0) = .ok [0x02, 0x01, 0x00] := by rfl
example : X690.derEncode int (.int (-1)) = .ok [0x02, 0x01, 0xff] := by rfl
example : X690.derEncode int (.int (-128)) = .ok [0x02, 0x01, 0x80] := by rfl
example : X690.derEncode int (.int (-129)) = .ok [0x02, 0x02, 0xff, 0x7f] := by rfl
example : X690.derEncode int (.int (-256)) = .ok [0x02, 0x02, 0xff, 0x00] := by rfl
example : X690.derEncode int (.int (-32768)) = .ok [0x02, 0x02, 0x80, 0x00] := by rfl
example : X690.derEncode int (.int (-32769)) = .ok [0x02, 0x03, 0xff, 0x7f, 0xff] := by rfl
-- test_bit_string
private abbrev bits : Ty := .bitString ⟨0, none, false⟩
example : X690.derEncode bits (.bits [] 0) = .ok [0x03, 0x01, 0x00] := by rfl
example : X690.derEncode bits (.bits [0x40] 4) = .ok [0x03, 0x02, 0x04, 0x40] := by rfl
example : X690.derEncode bits (.bits [0x80] 1) = .ok [0x03, 0x02, 0x07, 0x80] := by rfl
example : X690.derEncode bits (.bits [0x00, 0x00] 9) = .ok [0x03, 0x03, 0x07, 0x00, 0x00] := by rfl
-- ('A', (b'\xff', 1), b'\x03\x02\x07\x80'): unused bits are cleared (11.2.1)
example : X690.derEncode bits (.bits [0xff] 1) = .ok [0x03, 0x02, 0x07, 0x80] := by rfl
-- SEQUENCE { a BIT STRING DEFAULT '010'B, b ... , c ... }: DEFAULT-valued components are left out
private abbrev seqBits : Ty := .sequence
  (.cons "a" (.default (.bits [0x60] 3)) bits (.cons "b" (.default (.bits [0x60] 3)) bits
  (.cons "c" (.default (.bits [0x60] 3)) bits .nil))) false .nil
example : X690.derEncode seqBits (.record [("a", .bits [0x40] 2), ("b", .bits [0x40] 2), ("c", .bits [0x40] 2)])
    = .ok [0x30, 0x0c, 0x80, 0x02, 0x06, 0x40, 0x81, 0x02, 0x06, 0x40, 0x82, 0x02, 0x06, 0x40] := by rfl
example : X690.derEncode seqBits (.record [("a", .bits [0x60] 3), ("b", .bits [0x60] 3), ("c", .bits [0x60] 3)])
    = .ok [0x30, 0x00] := by rfl
-- test_octet_string
private abbrev seqOcts : Ty := .sequence
  (.cons "a" (.default (.bytes [0x00, 0x60])) (.octetString ⟨0, none, false⟩)
  (.cons "b" (.default (.bytes [0x00, 0x06, 0x00])) (.octetString ⟨0, none, false⟩) .nil)) false .nil
example : X690.derEncode seqOcts (.record [("a", .bytes [0x00, 0x60]), ("b", .bytes [0x00, 0x06, 0x00])]) = .ok [0x30, 0x00] := by rfl
example : X690.derEncode seqOcts (.record [("a", .bytes [0xcc]), ("b", .bytes [0xdd])])
    = .ok [0x30, 0x06, 0x80, 0x01, 0xcc, 0x81, 0x01, 0xdd] := by rfl
-- test_utf8_string
example : X690.derEncode (.charString .utf8 ⟨0, none, false⟩) (.str [0x62, 0x61, 0x72]) = .ok [0x0c, 0x03, 0x62, 0x61, 0x72] := by rfl
example : X690.derEncode (.charString .utf8 ⟨0, none, false⟩) (.str [0x61, 0x1010, 0x63])
    = .ok [0x0c, 0x05, 0x61, 0xe1, 0x80, 0x90, 0x63] := by rfl
-- test_all_types
example : X690.derEncode .boolean (.bool true) = .ok [0x01, 0x01, 0xff] := by rfl
example : X690.derEncode .boolean (.bool false) = .ok [0x01, 0x01, 0x00] := by rfl
example : X690.derEncode (.octetString ⟨0, none, false⟩) (.bytes [0x00]) = .ok [0x04, 0x01, 0x00] := by rfl
set_option maxRecDepth 8000 in
example : X690.derEncode (.octetString ⟨0, none, false⟩) (.bytes (List.replicate 127 0x55))
    = .ok ([0x04, 0x7f] ++ List.replicate 127 0x55) := by rfl
set_option maxRecDepth 8000 in
example : X690.derEncode (.octetString ⟨0, none, false⟩) (.bytes (List.replicate 128 0xaa))
    = .ok ([0x04, 0x81, 0x80] ++ List.replicate 128 0xaa) := by rfl
example : X690.derEncode .null .null = .ok [0x05, 0x00] := by rfl
example : X690.derEncode (.enumerated [("one", 1)] none) (.enum "one") = .ok [0x0a, 0x01, 0x01] := by rfl
example : X690.derEncode (.sequence .nil false .nil) (.record []) = .ok [0x30, 0x00] := by rfl
example : X690.derEncode (.charString .numeric ⟨0, none, false⟩) (.str [0x31, 0x32, 0x33]) = .ok [0x12, 0x03, 0x31, 0x32, 0x33] := by rfl
example : X690.derEncode (.charString .printable ⟨0, none, false⟩) (.str [0x66, 0x6f, 0x6f]) = .ok [0x13, 0x03, 0x66, 0x6f, 0x6f] := by rfl
example : X690.derEncode (.charString .ia5 ⟨0, none, false⟩) (.str [0x62, 0x61, 0x72]) = .ok [0x16, 0x03, 0x62, 0x61, 0x72] := by rfl
example : X690.derEncode (.charString .visible ⟨0, none, false⟩) (.str [0x62, 0x61, 0x72]) = .ok [0x1a, 0x03, 0x62, 0x61, 0x72] := by rfl
-- and the code model gives the same octets on each of them (instances of `der_refines`)
example : Der.encode int (.int (-32769)) = X690.derEncode int (.int (-32769)) := by rfl
example : Der.encode seqBits (.record [("a", .bits [0x40] 2), ("b", .bits [0x40] 2), ("c", .bits [0x40] 2)])
    = X690.derEncode seqBits (.record [("a", .bits [0x40] 2), ("b", .bits [0x40] 2), ("c", .bits [0x40] 2)]) := by rfl
end vectors

end Asn1.C03
