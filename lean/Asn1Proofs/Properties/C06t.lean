import Asn1Proofs.Lemmas.Bridge
/-
  C06 — TRANSLATOR TIE: `oer.encode_tag` (CHOICE tag octets), regenerated from /repo/asn1tools/codecs/oer.py on every
  run, is the model function `Oer.encTag` of `oer_refines` for every tag number and class.
-/
namespace Asn1.C06t
open Asn1 Asn1.Translated Asn1.Bridge

theorem translated_encode_tag (n f : Nat) (hf : f % 64 = 0) :
    oer_encode_tag (n : Int) (f : Int) = .ok (ofNats (Oer.encTag n f)) := oer_encode_tag_eq n f hf

example : oer_encode_tag 63 128 = .ok [191, 63] := by rfl

end Asn1.C06t
