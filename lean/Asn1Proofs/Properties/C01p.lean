import Asn1Model.Typing
import Asn1Model.Per
import Asn1Proofs.Lemmas.PerRoundtrip
import Asn1Proofs.Lemmas.PerCounterexample
/-
  C01p — the ALIGNED PER codec round-trips.  Property theorems only.
  (The proofs are in Asn1Proofs/Lemmas/Per*.lean; `Per.fragFree` is defined in
  Asn1Proofs/Lemmas/PerDefs.lean, `Ty.nsOk` in Asn1Proofs/Lemmas/UperDefs.lean.)
-/
namespace Asn1.C01p
open Asn1

/-- **Aligned PER round-trip, all types, all values, all start positions.**  For every well-formed
type `t` of the model universe (any nesting, any constraint shape, OPTIONAL/DEFAULT, extension
additions, extensible CHOICE/ENUMERATED), every value the checkers accept, every number `pos` of
bits already written to the encoder and every continuation `rest` of the bit stream: the decoder,
started at position `pos` on the encoder's output followed by `rest`, returns the canonical abstract
value, leaves exactly `rest`, and reports the position behind the encoding.  In particular every
alignment the decoder performs (`Decoder.align_always`) is matched by padding of the encoder.
Hypotheses that are finding predicates (the theorem is *partial* outside them):
`Per.fragFree` = F_unfragmented for aligned PER (a length ≥ 16384 written without fragmentation and
used by the decoder: unconstrained INTEGER octet count, extensible OCTET STRING / SEQUENCE OF outside
the root, open type of a CHOICE addition; NOT the open type of a SEQUENCE addition, whose length the
decoder ignores) and `nsOk` (an index of an ENUMERATED/CHOICE addition that needs ≥ 16384 octets,
i.e. more than 2^131064 additions).  No further hypothesis is needed. -/
theorem per_roundtrip_partial (t : Ty) (v : Val) (pos : Nat) (bits rest : Bits) (fuel : Nat)
    (hwf : t.wf = true) (hd : t.defaultsOk = true) (ht : hasType t v = true)
    (hf : Per.fragFree t v = true) (hns : t.nsOk = true)
    (he : Per.enc t pos v = .ok bits)
    (hfuel : bits.length + rest.length + 2 ≤ fuel) :
    Per.dec t fuel ⟨pos, bits ++ rest⟩ = .ok (canon t v, ⟨pos + bits.length, rest⟩) :=
  Per.roundtrip_partial t v pos bits rest fuel hwf hd ht hf hns he hfuel

/-- the same with the decoder at any position `pos'` that agrees with the encoder's position modulo 8
(the situation inside an open type: the encoder fills a fresh buffer, the decoder reads it at an octet
boundary of the message) -/
theorem per_roundtrip_mod8 (t : Ty) (v : Val) (pos pos' : Nat) (bits rest : Bits) (fuel : Nat)
    (hwf : t.wf = true) (hd : t.defaultsOk = true) (ht : hasType t v = true)
    (hf : Per.fragFree t v = true) (hns : t.nsOk = true) (hp : pos' % 8 = pos % 8)
    (he : Per.enc t pos v = .ok bits)
    (hfuel : bits.length + rest.length + 2 ≤ fuel) :
    Per.dec t fuel ⟨pos', bits ++ rest⟩ = .ok (canon t v, ⟨pos' + bits.length, rest⟩) :=
  Per.roundtrip_mod8 t v pos pos' bits rest fuel hwf hd ht hf hns hp he hfuel

/-- every value accepted by the checkers is accepted by the aligned PER encoder, at every position -/
theorem per_enc_total (t : Ty) (v : Val) (pos : Nat)
    (hwf : t.wf = true) (ht : hasType t v = true) :
    ∃ bits, Per.enc t pos v = .ok bits := Per.enc_total t v pos hwf ht

/-- **Top level.**  `Specification.decode(name, Specification.encode(name, value))` returns the
canonical value: the type checker pass of `encode` lets every well-typed value through, and the zero
bits that fill the last octet (`packBits`) are left over by the decoder. -/
theorem per_decode_encode (t : Ty) (v : Val) (bytes : Bytes)
    (hwf : t.wf = true) (hd : t.defaultsOk = true) (ht : hasType t v = true)
    (hf : Per.fragFree t v = true) (hns : t.nsOk = true) (he : Per.encode t v = .ok bytes) :
    Per.decode t bytes = .ok (canon t v) :=
  Per.decode_encode t v bytes hwf hd ht hf hns he

/-- top level, with totality of `encode` -/
theorem per_encode_decode (t : Ty) (v : Val)
    (hwf : t.wf = true) (hd : t.defaultsOk = true) (ht : hasType t v = true)
    (hf : Per.fragFree t v = true) (hns : t.nsOk = true) :
    ∃ bytes, Per.encode t v = .ok bytes ∧ Per.decode t bytes = .ok (canon t v) :=
  Per.encode_decode t v hwf hd ht hf hns

/-- **`fragFree` is necessary** (finding C01-per-unfragmented-length in aligned PER):
`OCTET STRING (SIZE(0, ...))` (`Per.cxTy`) with 16385 zero octets (`Per.cxVal`) satisfies every other
hypothesis of `per_roundtrip_partial` and is encoded (`Per.cxBits` = extension bit, padding, the
fragment marker `c1`, all 16385 octets), but for no continuation and no fuel does the decoder return
the value and the continuation: it stops after 16384 octets. -/
theorem per_roundtrip_fails_without_fragFree :
    Per.cxTy.wf = true ∧ Per.cxTy.defaultsOk = true ∧ hasType Per.cxTy Per.cxVal = true ∧
    Per.cxTy.nsOk = true ∧ Per.fragFree Per.cxTy Per.cxVal = false ∧
    Per.enc Per.cxTy 0 Per.cxVal = .ok Per.cxBits ∧
    ∀ (rest : Bits) (fuel : Nat),
      Per.dec Per.cxTy fuel ⟨0, Per.cxBits ++ rest⟩ ≠
        .ok (canon Per.cxTy Per.cxVal, ⟨0 + Per.cxBits.length, rest⟩) :=
  Per.roundtrip_fails_without_fragFree

/-- non-vacuity: a SEQUENCE OF SEQUENCE with OPTIONAL, DEFAULT, an extensible INTEGER outside its root,
an IA5String and an unbounded OCTET STRING (both aligned), two extension additions (an extensible CHOICE
taken in its addition, and an INTEGER in the "indefinite length case") satisfies every hypothesis of
`per_roundtrip_partial` / `per_decode_encode`; the encoding is the 27 octets shown -/
example :
    let t : Ty := .sequenceOf (.sequence
        (.cons "a" .optional (.integer ⟨some 0, some 300, true⟩)
        (.cons "b" (.default (.bool true)) .boolean
        (.cons "s" .optional (.charString .ia5 ⟨0, some 10, false⟩)
        (.cons "o" .optional (.octetString ⟨0, none, false⟩) .nil)))) true
        (.cons "c" .optional (.choice (.cons "x" .null (.cons "y" (.octetString ⟨0, none, false⟩) .nil)) true
            (.cons "z" (.charString .ia5 ⟨1, some 4, false⟩) .nil))
        (.cons "d" .optional (.integer ⟨some 0, some 100000, false⟩) .nil))) ⟨0, some 3, true⟩
    let v : Val := .list [
      .record [("a", .int 70000), ("s", .str [72, 105]), ("c", .choice "z" (.str [65, 66])), ("d", .int 99999)],
      .record [("b", .bool false), ("o", .bytes [1, 2, 3])]]
    t.wf = true ∧ t.defaultsOk = true ∧ hasType t v = true ∧ Per.fragFree t v = true ∧ t.nsOk = true ∧
      (Per.encode t v).toOption = some [90, 128, 3, 1, 17, 112, 32, 72, 105, 3, 128, 5, 128, 3, 64, 65,
        66, 4, 128, 1, 134, 159, 40, 3, 1, 2, 3] := by
  refine ⟨by decide +kernel, by decide +kernel, by decide +kernel, by decide +kernel, by decide +kernel,
    by decide +kernel⟩

end Asn1.C01p

#print axioms Asn1.C01p.per_roundtrip_partial
#print axioms Asn1.C01p.per_roundtrip_mod8
#print axioms Asn1.C01p.per_enc_total
#print axioms Asn1.C01p.per_decode_encode
#print axioms Asn1.C01p.per_encode_decode
#print axioms Asn1.C01p.per_roundtrip_fails_without_fragFree
