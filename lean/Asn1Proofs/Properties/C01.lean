import Asn1Model.Typing
import Asn1Model.OerTyping
import Asn1Proofs.Lemmas.UperRoundtrip
import Asn1Proofs.Lemmas.UperCounterexample
import Asn1Proofs.Lemmas.OerRoundtrip
import Asn1Proofs.Lemmas.OerCounterexample
/-
  C01 — binary codecs round-trip.  Property theorems only.
  (The general round-trip theorems over the whole `Ty` universe are in
  Asn1Proofs/Lemmas/*Roundtrip.lean and are re-exported here when present.)
-/
namespace Asn1.C01
open Asn1

/-- witness of finding C01-oer-fixed-utf8: `UTF8String (SIZE(2))` with a two-octet character -/
theorem witness_oer_fixed_utf8 :
    Oer.enc (.charString .utf8 ⟨2, some 2, false⟩) (.str [229, 228]) = .ok [195, 165, 195, 164] ∧
    Oer.dec (.charString .utf8 ⟨2, some 2, false⟩) [195, 165, 195, 164] = .ok (.str [229], [195, 164]) := by
  constructor <;> rfl

/-- witness of finding C01-per-unfragmented-length at the smallest size: an extensible OCTET STRING of
16384 octets outside its root is written with the fragment marker `c1` and *all* octets after it. -/
theorem witness_uper_unfragmented_marker : (Uper.lenDet 16384).1 = natToBits 8 0xc1 := by rfl

/-- the model reproduces the code's refusal of an extensible constraint with an open bound -/
theorem witness_uper_ext_open_range :
    Uper.enc (.integer ⟨some 0, none, true⟩) (.int 5) = .error .foreign := by rfl

/-- **UPER round-trip, all types, all values.**  For every well-formed type `t` of the model universe
(any nesting, any constraint shape, OPTIONAL/DEFAULT, extension additions, extensible CHOICE/ENUMERATED),
every value the checkers accept and every continuation `rest` of the bit stream, decoding the encoder's
output returns the canonical abstract value and leaves exactly `rest`.
Hypotheses that are finding predicates (the theorem is *partial* outside them):
`fragFree` = F_unfragmented (lengths ≥ 16384 written without fragmentation) and `nsOk` (an index of
an ENUMERATED/CHOICE addition that needs ≥ 16384 octets, i.e. more than 2^131064 additions). -/
theorem uper_roundtrip_partial (t : Ty) (v : Val) (bits rest : Bits) (fuel : Nat)
    (hwf : t.wf = true) (hd : t.defaultsOk = true) (ht : hasType t v = true)
    (hf : Uper.fragFree t v = true) (hns : t.nsOk = true) (he : Uper.enc t v = .ok bits)
    (hfuel : bits.length + rest.length + 2 ≤ fuel) :
    Uper.dec t fuel (bits ++ rest) = .ok (canon t v, rest) :=
  Uper.roundtrip_partial t v bits rest fuel hwf hd hns ht hf he hfuel

/-- every value accepted by the checkers is accepted by the UPER encoder -/
theorem uper_enc_total (t : Ty) (v : Val)
    (hwf : t.wf = true) (hd : t.defaultsOk = true) (ht : hasType t v = true) :
    ∃ bits, Uper.enc t v = .ok bits := Uper.enc_total t v hwf hd ht

/-- non-vacuity: a SEQUENCE with OPTIONAL, DEFAULT, an extension addition and an extensible CHOICE inside
a SEQUENCE OF satisfies every hypothesis of `uper_roundtrip_partial` -/
example :
    let t : Ty := .sequenceOf (.sequence
        (.cons "a" .optional (.integer ⟨some 0, some 300, true⟩)
        (.cons "b" (.default (.bool true)) .boolean .nil)) true
        (.cons "c" .optional (.choice (.cons "x" .null (.cons "y" (.octetString ⟨0, none, false⟩) .nil)) true
            (.cons "z" (.charString .ia5 ⟨1, some 4, false⟩) .nil)) .nil)) ⟨0, some 3, true⟩
    let v : Val := .list [.record [("a", .int 70000), ("c", .choice "z" (.str [65, 66]))], .record [("b", .bool false)]]
    t.wf = true ∧ t.defaultsOk = true ∧ hasType t v = true ∧ Uper.fragFree t v = true ∧ t.nsOk = true ∧
      (Uper.enc t v).isOk = true := by
  refine ⟨by decide +kernel, by decide +kernel, by decide +kernel, by decide +kernel, by decide +kernel, by decide +kernel⟩

/-- **OER round-trip, all types, all values** (same universe as `uper_roundtrip_partial`).
Hypotheses that are finding predicates: `utf8Ok` = F_oer_fixed_utf8 (UTF8String under a fixed SIZE is
written as n octets) and `noSwallow` = no EncodeError is swallowed inside an extension addition
(`except EncodeError: pass`, here reachable only through a length that needs more than 127 length octets). -/
theorem oer_roundtrip_partial (t : Ty) (v : Val) (bytes rest : Bytes)
    (hwf : t.wf = true) (hwf' : Oer.oerWf t = true) (hd : t.defaultsOk = true)
    (ht : hasType t v = true) (hu : Oer.utf8Ok t v = true) (hns : Oer.noSwallow t v = true)
    (he : Oer.enc t v = .ok bytes) :
    Oer.dec t (bytes ++ rest) = .ok (canon t v, rest) :=
  Oer.roundtrip_partial t v bytes rest hwf hwf' hd ht hu hns he

/-- every value accepted by the checkers is accepted by the OER encoder, unless a length needs more
than 127 length octets (then the library's EncodeError) -/
theorem oer_enc_total (t : Ty) (v : Val)
    (hwf : t.wf = true) (hd : t.defaultsOk = true) (ht : hasType t v = true) :
    (∃ bytes, Oer.enc t v = .ok bytes) ∨ Oer.enc t v = .error .encodeError :=
  Oer.enc_total t v hwf hd ht

end Asn1.C01
