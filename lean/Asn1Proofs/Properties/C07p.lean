import Asn1Model.Extension
import Asn1Model.Per
import Asn1Proofs.Lemmas.ExtLemmas
import Asn1Proofs.Lemmas.ExtPer
import Asn1Proofs.Lemmas.ExtPerCounterexample
/-
  C07p — extension additions keep old and new versions of a type interoperable: ALIGNED PER.
  Property theorems (the UPER / OER / DER ones are in `C07.lean`).

  `Ext.Extends t1 t2` (Asn1Model/Extension.lean): version 2 differs from version 1 only by extension
  additions after an extension marker (new SEQUENCE additions, CHOICE alternatives, ENUMERATED items,
  at any nesting depth).  `Ext.project t1 t2 v`: the version-1 view of a version-2 value.
  The code model is `Per.enc t pos v` (bits appended to an encoder that holds `pos` bits) and
  `Per.dec t fuel ⟨pos, bits⟩` (decoder state: bits consumed so far, remaining bits).

    forward_per  : a V2 encoding written at position `pos`, followed by anything, decodes under V1 to the
                   canonical form of the V1 projection, leaves exactly what follows and stands at the
                   position behind the encoding (FRAME: additions / alternatives V1 does not know are
                   skipped by exactly their open type length behind the octet alignment);
    backward_per : a V1 encoding, followed by anything, decodes under V2 to the same (canonical) value.

  The side conditions are those of the aligned PER round trip (`C01p`: `Per.fragFree`, `Ty.nsOk`) for the
  ENCODER's type and the value, `defaultsOk` in both versions, and ONE MORE in the forward direction:

    `Per.skipFree t1 t2 v` (decidable, `ExtPerBase.lean`): every SEQUENCE addition of `v` that V1 does
    not know has an open type shorter than 16384 octets.

  It is necessary (`forward_per_needs_skipFree`, `forward_per_wrong_value`): the aligned PER encoder
  writes the open type length of an addition without fragmentation (`c1` + all the octets); a decoder
  that KNOWS the addition ignores that length (so `Per.fragFree` and the round trip do not need it, and
  V2 decodes its own encoding), a decoder that does NOT know it skips by it and stops early.  This is a
  genuine interoperability defect of asn1tools' aligned PER, confirmed on the real code: with
  `I ::= SEQUENCE { a BOOLEAN, ..., b OCTET STRING OPTIONAL }`, `O ::= SEQUENCE { i I, z BOOLEAN }`
  and 16384 octets in `b`, V1 decodes `z = FALSE` from an encoding of `z = TRUE`.
  In the backward direction the condition is always true (`skipFree_backward`).

  All the proofs go through one statement about a decoder type and an encoder type that agree up to the
  tails of their extension additions (`Ext.Compat`, `Ext.PerX.xt_all`), proved for every decoder position
  that agrees with the encoder position modulo 8 (`forward_per_mod8`): open types are written into a
  fresh buffer and read at an octet boundary.
-/
namespace Asn1.C07p
open Asn1 Asn1.Ext

/-! ### aligned PER -/

/-- **Aligned PER forward compatibility.** -/
theorem forward_per (t1 t2 : Ty) (v : Val) (pos : Nat) (bits rest : Bits) (fuel : Nat)
    (hx : Extends t1 t2)
    (hwf : t2.wf = true) (hd1 : t1.defaultsOk = true) (hd2 : t2.defaultsOk = true)
    (hns : t2.nsOk = true) (ht : hasType t2 v = true) (hf : Per.fragFree t2 v = true)
    (hs : Per.skipFree t1 t2 v = true)
    (he : Per.enc t2 pos v = .ok bits) (hfuel : bits.length + rest.length + 2 ≤ fuel) :
    Per.dec t1 fuel ⟨pos, bits ++ rest⟩ =
      .ok (canon t1 (project t1 t2 v), ⟨pos + bits.length, rest⟩) :=
  PerX.forward_mod8 t1 t2 v pos pos bits rest fuel hx hwf hd1 hd2 hns ht hf hs rfl he hfuel

/-- **Aligned PER backward compatibility.** -/
theorem backward_per (t1 t2 : Ty) (v : Val) (pos : Nat) (bits rest : Bits) (fuel : Nat)
    (hx : Extends t1 t2)
    (hwf : t2.wf = true) (hd1 : t1.defaultsOk = true) (hd2 : t2.defaultsOk = true)
    (hns : t2.nsOk = true) (ht : hasType t1 v = true) (hf : Per.fragFree t1 v = true)
    (he : Per.enc t1 pos v = .ok bits) (hfuel : bits.length + rest.length + 2 ≤ fuel) :
    Per.dec t2 fuel ⟨pos, bits ++ rest⟩ = .ok (canon t2 v, ⟨pos + bits.length, rest⟩) :=
  PerX.backward_mod8 t1 t2 v pos pos bits rest fuel hx hwf hd1 hd2 hns ht hf rfl he hfuel

/-- forward, general form: the decoder may run at any position that agrees with the encoder's modulo 8
(an encoding produced in a fresh buffer and embedded at an octet boundary, as open types are) -/
theorem forward_per_mod8 (t1 t2 : Ty) (v : Val) (pos pos' : Nat) (bits rest : Bits) (fuel : Nat)
    (hx : Extends t1 t2)
    (hwf : t2.wf = true) (hd1 : t1.defaultsOk = true) (hd2 : t2.defaultsOk = true)
    (hns : t2.nsOk = true) (ht : hasType t2 v = true) (hf : Per.fragFree t2 v = true)
    (hs : Per.skipFree t1 t2 v = true) (hp : pos' % 8 = pos % 8)
    (he : Per.enc t2 pos v = .ok bits) (hfuel : bits.length + rest.length + 2 ≤ fuel) :
    Per.dec t1 fuel ⟨pos', bits ++ rest⟩ =
      .ok (canon t1 (project t1 t2 v), ⟨pos' + bits.length, rest⟩) :=
  PerX.forward_mod8 t1 t2 v pos pos' bits rest fuel hx hwf hd1 hd2 hns ht hf hs hp he hfuel

/-- backward, general form -/
theorem backward_per_mod8 (t1 t2 : Ty) (v : Val) (pos pos' : Nat) (bits rest : Bits) (fuel : Nat)
    (hx : Extends t1 t2)
    (hwf : t2.wf = true) (hd1 : t1.defaultsOk = true) (hd2 : t2.defaultsOk = true)
    (hns : t2.nsOk = true) (ht : hasType t1 v = true) (hf : Per.fragFree t1 v = true)
    (hp : pos' % 8 = pos % 8)
    (he : Per.enc t1 pos v = .ok bits) (hfuel : bits.length + rest.length + 2 ≤ fuel) :
    Per.dec t2 fuel ⟨pos', bits ++ rest⟩ = .ok (canon t2 v, ⟨pos' + bits.length, rest⟩) :=
  PerX.backward_mod8 t1 t2 v pos pos' bits rest fuel hx hwf hd1 hd2 hns ht hf hp he hfuel

/-- **Aligned PER forward compatibility**, `Specification.encode` of V2 / `Specification.decode` of V1 -/
theorem forward_per_top (t1 t2 : Ty) (v : Val) (bytes : Bytes) (hx : Extends t1 t2)
    (hwf : t2.wf = true) (hd1 : t1.defaultsOk = true) (hd2 : t2.defaultsOk = true)
    (hns : t2.nsOk = true) (ht : hasType t2 v = true) (hf : Per.fragFree t2 v = true)
    (hs : Per.skipFree t1 t2 v = true) (he : Per.encode t2 v = .ok bytes) :
    Per.decode t1 bytes = .ok (canon t1 (project t1 t2 v)) :=
  PerX.forward_top t1 t2 v bytes hx hwf hd1 hd2 hns ht hf hs he

/-- **Aligned PER backward compatibility**, `Specification.encode` of V1 / `Specification.decode` of V2 -/
theorem backward_per_top (t1 t2 : Ty) (v : Val) (bytes : Bytes) (hx : Extends t1 t2)
    (hwf : t2.wf = true) (hd1 : t1.defaultsOk = true) (hd2 : t2.defaultsOk = true)
    (hns : t2.nsOk = true) (ht : hasType t1 v = true) (hf : Per.fragFree t1 v = true)
    (he : Per.encode t1 v = .ok bytes) :
    Per.decode t2 bytes = .ok (canon t2 v) :=
  PerX.backward_top t1 t2 v bytes hx hwf hd1 hd2 hns ht hf he

/-- the extra side condition of the forward direction is vacuous in the backward direction: a decoder
of the newer version knows every addition the older encoder can send -/
theorem skipFree_backward (t1 t2 : Ty) (v : Val) (hx : Extends t1 t2) : Per.skipFree t2 t1 v = true :=
  PerX.skipFree_rev hx v

/-! ### `Per.skipFree` is necessary: an aligned PER interoperability defect

    V1:  O ::= SEQUENCE { i SEQUENCE { a BOOLEAN, ... },                          z BOOLEAN }
    V2:  O ::= SEQUENCE { i SEQUENCE { a BOOLEAN, ..., b OCTET STRING OPTIONAL }, z BOOLEAN }
    v  = { i { a TRUE, b '00'H * 16384 }, z TRUE }          (`PerCx.cxT1`, `cxT2`, `cxV`)

The encoding of `b` is 16386 octets (`c1`, the 16384 octets, `00`); its open type length is written as
the single octet `c1` in front of all 16386 octets.  V1 skips 16384 octets and reads `z` from the next
bit, a bit of the last octet of `b`. -/

/-- every hypothesis of `forward_per` except `Per.skipFree` holds at position 0, the encoder succeeds, and
for every continuation and every amount of fuel the V1 decoder returns `z = FALSE`, stands 16 bits
before the end of the encoding and leaves 15 bits of the addition and the bit of `z` unread -/
theorem forward_per_needs_skipFree :
    Extends PerCx.cxT1 PerCx.cxT2 ∧ PerCx.cxT2.wf = true ∧ PerCx.cxT1.defaultsOk = true ∧
    PerCx.cxT2.defaultsOk = true ∧ PerCx.cxT2.nsOk = true ∧ hasType PerCx.cxT2 PerCx.cxV = true ∧
    Per.fragFree PerCx.cxT2 PerCx.cxV = true ∧
    Per.skipFree PerCx.cxT1 PerCx.cxT2 PerCx.cxV = false ∧
    Per.enc PerCx.cxT2 0 PerCx.cxV = .ok PerCx.cxBits ∧ PerCx.cxBits.length = 131113 ∧
    canon PerCx.cxT1 (project PerCx.cxT1 PerCx.cxT2 PerCx.cxV) =
      .record [("i", .record [("a", .bool true)]), ("z", .bool true)] ∧
    (∀ (rest : Bits) (fuel : Nat), Per.dec PerCx.cxT1 fuel ⟨0, PerCx.cxBits ++ rest⟩ =
      .ok (.record [("i", .record [("a", .bool true)]), ("z", .bool false)],
        ⟨131097, PerCx.z15 ++ true :: rest⟩)) ∧
    (∀ (rest : Bits) (fuel : Nat), Per.dec PerCx.cxT1 fuel ⟨0, PerCx.cxBits ++ rest⟩ ≠
      .ok (canon PerCx.cxT1 (project PerCx.cxT1 PerCx.cxT2 PerCx.cxV),
        ⟨0 + PerCx.cxBits.length, rest⟩)) :=
  ⟨PerCx.cx_extends, PerCx.cx_wf, PerCx.cx_defaultsOk1, PerCx.cx_defaultsOk2, PerCx.cx_nsOk,
    PerCx.cx_hasType, PerCx.cx_fragFree, PerCx.cx_not_skipFree, PerCx.cx_enc, PerCx.cxBits_length,
    PerCx.cx_expected, PerCx.cx_dec, PerCx.cx_forward_fails⟩

/-- the same at the level of `Specification.encode` / `Specification.decode`: V2 decodes its own
encoding to the value, V1 decodes it without any error to a WRONG value (`z = FALSE`) -/
theorem forward_per_wrong_value :
    Per.encode PerCx.cxT2 PerCx.cxV = .ok (packBits PerCx.cxBits) ∧
    Per.decode PerCx.cxT2 (packBits PerCx.cxBits) = .ok PerCx.cxV ∧
    Per.decode PerCx.cxT1 (packBits PerCx.cxBits) =
      .ok (.record [("i", .record [("a", .bool true)]), ("z", .bool false)]) ∧
    canon PerCx.cxT1 (project PerCx.cxT1 PerCx.cxT2 PerCx.cxV) =
      .record [("i", .record [("a", .bool true)]), ("z", .bool true)] :=
  ⟨PerCx.cx_encode, PerCx.cx_decode_v2, PerCx.cx_decode_v1, PerCx.cx_expected⟩

/-! ### non-vacuity: a nested extension (an addition whose type is itself extended, inside a SEQUENCE OF) -/

/-- V1: `SEQUENCE OF SEQUENCE { a BOOLEAN, ..., b CHOICE { x NULL, ... } OPTIONAL }` -/
def exT1 : Ty := .sequenceOf (.sequence (.cons "a" .mandatory .boolean .nil) true
  (.cons "b" .optional (.choice (.cons "x" .null .nil) true .nil) .nil)) ⟨0, none, false⟩
/-- V2: `SEQUENCE OF SEQUENCE { a BOOLEAN, ..., b CHOICE { x NULL, ..., k1 BOOLEAN } OPTIONAL, n1 INTEGER OPTIONAL }` -/
def exT2 : Ty := .sequenceOf (.sequence (.cons "a" .mandatory .boolean .nil) true
  (.cons "b" .optional (.choice (.cons "x" .null .nil) true (.cons "k1" .boolean .nil))
    (.cons "n1" .optional (.integer ⟨none, none, false⟩) .nil))) ⟨0, none, false⟩
/-- a V2 value using the new alternative and the new addition -/
def exV : Val := .list [.record [("a", .bool true), ("b", .choice "k1" (.bool false)), ("n1", .int 5)],
  .record [("a", .bool false), ("b", .choice "x" .null)]]
/-- what V1 sees of it -/
def exV' : Val := .list [.record [("a", .bool true), ("b", .choice "" .absent)],
  .record [("a", .bool false), ("b", .choice "x" .null)]]
/-- a V1 value -/
def exV1 : Val := .list [.record [("a", .bool true), ("b", .choice "x" .null)], .record [("a", .bool false)]]
/-- the V2 encoding of `exV` written at position 3 (5 padding bits first) -/
def exBits : Bits := [false, false, false, false, false, false, false, false, false, false, false, true, false, true, true, false,
  false, false, false, false, false, true, true, true, false, false, false, false, false, false, false, false, false,
  false, false, true, true, true, false, false, false, false, false, false, false, false, false, false, false, false,
  false, false, true, false, false, false, false, false, false, false, false, false, false, false, false, false, false,
  true, false, false, false, false, false, false, false, false, true, false, false, false, false, false, true, false,
  true, true, false, false, false, false, false, false, false, true, true, false, false, false, false, false, false,
  false, false, false, false, false, false, false, true, false, false, false, false, false, false, false, false]
/-- the V1 encoding of `exV1` written at position 3 -/
def exBits1 : Bits := [false, false, false, false, false, false, false, false, false, false, false, true, false, true, true, false,
  false, false, false, false, false, false, true, false, false, false, false, false, false, false, false, false, false,
  false, false, false, true, false, false, false, false, false, false, false, false, false, false]

example : extendsB exT1 exT2 = true ∧ extendsB exT2 exT1 = false ∧ project exT1 exT2 exV = exV' := by
  refine ⟨by rfl, by rfl, by rfl⟩

set_option maxRecDepth 100000 in
/-- every hypothesis of `forward_per` holds for the example, and its conclusion is the evaluated decoding -/
example : Per.dec exT1 200 ⟨3, exBits ++ [true, false, true]⟩ = .ok (exV', ⟨120, [true, false, true]⟩) :=
  forward_per exT1 exT2 exV 3 exBits [true, false, true] 200 ((extendsB_iff _ _).1 (by rfl))
    (by decide +kernel) (by decide +kernel) (by decide +kernel) (by decide +kernel) (by decide +kernel)
    (by decide +kernel) (by decide +kernel) (by rfl) (by decide +kernel)

set_option maxRecDepth 100000 in
/-- the same, evaluated in the kernel without the theorem -/
example : Per.enc exT2 3 exV = .ok exBits ∧
    Per.dec exT1 200 ⟨3, exBits ++ [true, false, true]⟩ = .ok (exV', ⟨120, [true, false, true]⟩) := by
  constructor <;> rfl

set_option maxRecDepth 100000 in
/-- backward: the V1 encoding of a V1 value decodes under V2 -/
example : Per.dec exT2 200 ⟨3, exBits1 ++ [true]⟩ = .ok (exV1, ⟨50, [true]⟩) :=
  backward_per exT1 exT2 exV1 3 exBits1 [true] 200 ((extendsB_iff _ _).1 (by rfl))
    (by decide +kernel) (by decide +kernel) (by decide +kernel) (by decide +kernel) (by decide +kernel)
    (by decide +kernel) (by rfl) (by decide +kernel)

set_option maxRecDepth 100000 in
/-- the top level: octets of `Specification.encode` under V2, `Specification.decode` under V1 -/
example : Per.decode exT1 [2, 192, 224, 3, 128, 1, 0, 2, 1, 5, 128, 192, 1, 0] = .ok exV' :=
  forward_per_top exT1 exT2 exV _ ((extendsB_iff _ _).1 (by rfl))
    (by decide +kernel) (by decide +kernel) (by decide +kernel) (by decide +kernel) (by decide +kernel)
    (by decide +kernel) (by decide +kernel) (by rfl)

set_option maxRecDepth 100000 in
example : Per.decode exT2 [2, 192, 64, 1, 0, 0] = .ok exV1 :=
  backward_per_top exT1 exT2 exV1 _ ((extendsB_iff _ _).1 (by rfl))
    (by decide +kernel) (by decide +kernel) (by decide +kernel) (by decide +kernel) (by decide +kernel)
    (by decide +kernel) (by rfl)

end Asn1.C07p

#print axioms Asn1.C07p.forward_per
#print axioms Asn1.C07p.backward_per
#print axioms Asn1.C07p.forward_per_mod8
#print axioms Asn1.C07p.backward_per_mod8
#print axioms Asn1.C07p.forward_per_top
#print axioms Asn1.C07p.backward_per_top
#print axioms Asn1.C07p.skipFree_backward
#print axioms Asn1.C07p.forward_per_needs_skipFree
#print axioms Asn1.C07p.forward_per_wrong_value
