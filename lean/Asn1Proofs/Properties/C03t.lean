import Asn1Proofs.Properties.C15t
/-
  C03 — TRANSLATOR TIE (shared with C15): the identifier and length octets of every DER TLV are written by
  `ber.encode_tag` / `ber.encode_length_definite`; their translations from the current source equal the model functions
  used by `der_tlv_shape` / `der_refines`.
-/
namespace Asn1.C03t
open Asn1 Asn1.Translated Asn1.Bridge

theorem translated_encode_length_definite (n : Nat) (hn : n < 256 ^ 127) :
    ber_encode_length_definite (n : Int) = ofNats (Ber.encLength n) := C15t.translated_encode_length_definite n hn

theorem translated_encode_tag (n f : Nat) (hf : f % 32 = 0) :
    ber_encode_tag (n : Int) (f : Int) = .ok (ofNats (Ber.encTag n f)) := C15t.translated_encode_tag n f hf

end Asn1.C03t
