import Asn1Model.X696
import Asn1Proofs.Lemmas.X696Refine
import Asn1Proofs.Lemmas.X696Decoder
import Asn1Proofs.Lemmas.X696Decl
/-
  C06 — the OER encoder emits exactly the octets Basic OER (Rec. ITU-T X.696) prescribes, and the
  decoder accepts exactly those octets.

  `X696.enc` (Asn1Model/X696.lean) is a specification-level encoder written from the standard;
  `Oer.enc` / `Oer.dec` (Asn1Model/Oer.lean) model what asn1tools computes.  `X696.deviations t v` lists
  the *named kinds* of deviation of the code from the standard that apply to `(t, v)`:

    fixed-utf8, addition-error-swallowed, addition-default-encoded, default-unclean-bits-encoded,
    enum-oversize                                   (documentation: Asn1Model/X696.lean)

  * `oer_refines`: outside the deviations, for every type and value, the code model computes the
    standard's octets (or both refuse);
  * `decoder_exact`: outside the deviations the decoder model, given the standard's octets followed by
    anything, returns the value and exactly the rest;
  * the primitives mean what the standard says (fixed-width table, least number of octets, length
    determinant);
  * the worked examples of the repository;
  * one closed witness per deviation name.
-/
namespace Asn1.C06
open Asn1
open Asn1.Uper (Err)

/-! ### (a) the code computes the specification -/

/-- **Outside the named deviations the OER encoder emits exactly the standard's octets** — for all
types (every constructor of `Ty`, at every nesting depth) and all well-typed values; when the standard
has no encoding (a length that needs more than 127 length octets) the code refuses as well. -/
theorem oer_refines (t : Ty) (v : Val)
    (hdev : X696.deviations t v = []) (hwf : t.wf = true) (ht : hasType t v = true) :
    Oer.enc t v = X696.enc t v :=
  X696.ref_all t v hwf ht (X696.eraseDups_eq_nil _ hdev)

/-! ### (b) the decoder accepts exactly those octets -/

/-- **The decoder returns the value from the standard's octets**: whatever follows them is left
untouched (so the decoder consumes exactly those octets). -/
theorem decoder_exact (t : Ty) (v : Val) (bytes rest : Bytes)
    (hdev : X696.deviations t v = []) (hwf : t.wf = true) (hwf' : Oer.oerWf t = true)
    (hd : t.defaultsOk = true) (ht : hasType t v = true) (he : X696.enc t v = .ok bytes) :
    Oer.dec t (bytes ++ rest) = .ok (canon t v, rest) := by
  have hdevs := X696.eraseDups_eq_nil _ hdev
  obtain ⟨hu, hns⟩ := X696.ns_all t v hwf ht hdevs
  have hm : Oer.enc t v = .ok bytes := by rw [oer_refines t v hdev hwf ht, he]
  exact Oer.roundtrip_partial t v bytes rest hwf hwf' hd ht hu hns hm

/-- every well-typed value has an encoding under the standard unless a length needs more than 127
length octets (X.696 8.6.5) -/
theorem spec_total (t : Ty) (v : Val)
    (hdev : X696.deviations t v = []) (hwf : t.wf = true) (hd : t.defaultsOk = true)
    (ht : hasType t v = true) :
    (∃ bytes, X696.enc t v = .ok bytes) ∨ X696.enc t v = .error .encodeError := by
  rw [← oer_refines t v hdev hwf ht]
  exact Oer.enc_total t v hwf hd ht

/-! ### (c) the primitives, declaratively -/

/-- **fixed-width table (unsigned)**: the width is the least of 1, 2, 4, 8 octets holding the range -/
theorem fixed_width_unsigned {c : IntC} {k : Nat} (h : X696.intForm c = .fixedUnsigned k) :
    c.ext = false ∧ ∃ lb ub, c.lo = some lb ∧ c.hi = some ub ∧ 0 ≤ lb ∧ k ∈ X696.widths ∧
      ub < (256 : Int) ^ k ∧ ∀ k' ∈ X696.widths, ub < (256 : Int) ^ k' → k ≤ k' :=
  X696.fixedUnsigned_least h

/-- **fixed-width table (signed)** -/
theorem fixed_width_signed {c : IntC} {k : Nat} (h : X696.intForm c = .fixedSigned k) :
    c.ext = false ∧ ∃ lb ub, c.lo = some lb ∧ c.hi = some ub ∧ lb < 0 ∧ k ∈ X696.widths ∧
      (-(2 : Int) ^ (8 * k - 1) ≤ lb ∧ ub < (2 : Int) ^ (8 * k - 1)) ∧
      ∀ k' ∈ X696.widths, (-(2 : Int) ^ (8 * k' - 1) ≤ lb ∧ ub < (2 : Int) ^ (8 * k' - 1)) → k ≤ k' :=
  X696.fixedSigned_least h

/-- **fixed-width table (completeness)**: every non-extensible range that fits 8 octets is fixed-size;
extensible constraints never are -/
theorem fixed_width_complete {lb ub : Int} (hfit : (0 ≤ lb ∧ ub < (256 : Int) ^ 8) ∨
      (lb < 0 ∧ -(2 : Int) ^ 63 ≤ lb ∧ ub < (2 : Int) ^ 63)) :
    ∃ k ∈ X696.widths, X696.intForm ⟨some lb, some ub, false⟩ = .fixedUnsigned k ∨
                       X696.intForm ⟨some lb, some ub, false⟩ = .fixedSigned k :=
  X696.fixed_of_fits hfit

theorem extensible_is_variable_signed (lo hi : Option Int) :
    X696.intForm ⟨lo, hi, true⟩ = .varSigned := rfl

/-- **least number of octets** of the variable-size unsigned form, which denotes the value -/
theorem unsigned_minimal (n : Nat) :
    1 ≤ X696.unsignedOctets n ∧ n < 256 ^ X696.unsignedOctets n ∧
    (∀ k, 1 ≤ k → n < 256 ^ k → X696.unsignedOctets n ≤ k) ∧
    bytesToNat (natToBytesN (X696.unsignedOctets n) n) = n :=
  ⟨X696.unsignedOctets_pos n, X696.unsignedOctets_fits n, fun k => X696.unsignedOctets_least n k,
   X696.unsigned_value n⟩

/-- **least number of octets** of the variable-size two's complement form, which denotes the value -/
theorem signed_minimal (i : Int) :
    1 ≤ X696.signedOctets i ∧
    (-((2 ^ (8 * X696.signedOctets i - 1) : Nat) : Int) ≤ i ∧ i < ((2 ^ (8 * X696.signedOctets i - 1) : Nat) : Int)) ∧
    (∀ k, 1 ≤ k → -((2 ^ (8 * k - 1) : Nat) : Int) ≤ i → i < ((2 ^ (8 * k - 1) : Nat) : Int) →
      X696.signedOctets i ≤ k) ∧
    bytesToInt (intToBytesN (X696.signedOctets i) i) = i :=
  ⟨X696.signedOctets_pos i, X696.signedOctets_fits i, fun k => X696.signedOctets_least i k,
   X696.signed_value i⟩

/-- **length determinant**: short form below 128 -/
theorem length_short {n : Nat} (h : n < 128) : X696.lengthDet n = .ok [n] := X696.lengthDet_short h

/-- **length determinant**: long form with the least number of length octets from 128 on -/
theorem length_long_minimal {n : Nat} {bs : Bytes} (h : 128 ≤ n) (he : X696.lengthDet n = .ok bs) :
    ∃ k ds, bs = (128 + k) :: ds ∧ ds.length = k ∧ 1 ≤ k ∧ k ≤ 127 ∧ bytesToNat ds = n ∧
      ∀ k', n < 256 ^ k' → k ≤ k' :=
  X696.lengthDet_long h he

theorem length_exists_iff (n : Nat) : (∃ bs, X696.lengthDet n = .ok bs) ↔ n < 256 ^ 127 :=
  X696.lengthDet_exists_iff n

/-! ### (d) worked examples (tests/files/overview_of_oer.asn, tests/test_oer.py) -/

/-- `A ::= SEQUENCE { a1 INTEGER (0..100), a2 INTEGER (-290..399), a3 INTEGER (0..60000) OPTIONAL,
a4 INTEGER (-5000000..5000000), a5 INTEGER (1000..MAX), a6 INTEGER (-1..MAX), a7 INTEGER OPTIONAL }` -/
theorem overview_A : X696.encode X696.exA X696.exAval =
    .ok [0xc0, 0x04, 0x00, 0x04, 0x00, 0x04, 0x00, 0x00, 0x00, 0x04, 0x02, 0x04, 0x00, 0x01, 0x04, 0x01, 0x04] := by
  rfl

/-- `B ::= SEQUENCE { b1 IA5String (SIZE (0..10)), b2 IA5String (SIZE (3)), b3 IA5String,
b4 OCTET STRING, b5 BIT STRING (SIZE (4)), b6 BIT STRING }` -/
theorem overview_B : X696.encode X696.exB X696.exBval =
    .ok [0x03, 0x41, 0x42, 0x43, 0x41, 0x42, 0x43, 0x03, 0x41, 0x42, 0x43, 0x04, 0x01, 0x02, 0x03, 0x04,
         0x50, 0x02, 0x04, 0x50] := by
  rfl

/-- `C ::= CHOICE { c1 BOOLEAN, c2 SEQUENCE OF ENUMERATED { a, b, c, d, e } }`, `c2 : { b, c, d, e }` -/
theorem overview_C : X696.encode X696.exC X696.exCval = .ok [0x81, 0x01, 0x04, 0x01, 0x02, 0x03, 0x04] := by
  rfl

/-- the code model produces the same octets on the three examples (instances of `oer_refines`) -/
theorem overview_model_agrees :
    Oer.enc X696.exA X696.exAval = X696.enc X696.exA X696.exAval ∧
    Oer.enc X696.exB X696.exBval = X696.enc X696.exB X696.exBval ∧
    Oer.enc X696.exC X696.exCval = X696.enc X696.exC X696.exCval :=
  ⟨oer_refines _ _ (by decide +kernel) (by decide +kernel) (by decide +kernel),
   oer_refines _ _ (by decide +kernel) (by decide +kernel) (by decide +kernel),
   oer_refines _ _ (by decide +kernel) (by decide +kernel) (by decide +kernel)⟩

private def vis : Ty := .charString .visible ⟨0, none, false⟩
private def nameTy : Ty := .sequence
  (.cons "givenName" .mandatory vis (.cons "initial" .mandatory vis (.cons "familyName" .mandatory vis .nil)))
  false .nil

/-- X.691 Annex A.1 `PersonnelRecord` (tests/files/x691_a1.asn).  The type is a SET; OER encodes a SET as
a SEQUENCE whose components are put in canonical tag order (X.696 18: name [APPLICATION 1], number
[APPLICATION 2], title [0], dateOfHire [1], nameOfSpouse [2], children [3]), which is the order written
here — the ordering itself is outside the `Ty` universe. -/
def personnelRecord : Ty := .sequence
  (.cons "name" .mandatory nameTy
  (.cons "number" .mandatory (.integer ⟨none, none, false⟩)
  (.cons "title" .mandatory vis
  (.cons "dateOfHire" .mandatory vis
  (.cons "nameOfSpouse" .mandatory nameTy
  (.cons "children" (.default (.list []))
    (.sequenceOf (.sequence (.cons "name" .mandatory nameTy (.cons "dateOfBirth" .mandatory vis .nil)) false .nil)
      ⟨0, none, false⟩) .nil)))))) false .nil

def personnelValue : Val :=
  .record [("name", .record [("givenName", .str [74, 111, 104, 110]), ("initial", .str [80]), ("familyName", .str [83, 109, 105, 116, 104])]), ("number", .int 51), ("title", .str [68, 105, 114, 101, 99, 116, 111, 114]), ("dateOfHire", .str [49, 57, 55, 49, 48, 57, 49, 55]),
    ("nameOfSpouse", .record [("givenName", .str [77, 97, 114, 121]), ("initial", .str [84]), ("familyName", .str [83, 109, 105, 116, 104])]),
    ("children", .list [
      .record [("name", .record [("givenName", .str [82, 97, 108, 112, 104]), ("initial", .str [84]), ("familyName", .str [83, 109, 105, 116, 104])]), ("dateOfBirth", .str [49, 57, 53, 55, 49, 49, 49, 49])],
      .record [("name", .record [("givenName", .str [83, 117, 115, 97, 110]), ("initial", .str [66]), ("familyName", .str [74, 111, 110, 101, 115])]), ("dateOfBirth", .str [49, 57, 53, 57, 48, 55, 49, 55])]])]

/-- `test_oer.py::test_x691_a1` -/
theorem x691_a1 : X696.encode personnelRecord personnelValue = .ok
    [0x80, 0x04, 0x4a, 0x6f, 0x68, 0x6e, 0x01, 0x50, 0x05, 0x53, 0x6d, 0x69, 0x74, 0x68, 0x01, 0x33,
     0x08, 0x44, 0x69, 0x72, 0x65, 0x63, 0x74, 0x6f, 0x72, 0x08, 0x31, 0x39, 0x37, 0x31, 0x30, 0x39,
     0x31, 0x37, 0x04, 0x4d, 0x61, 0x72, 0x79, 0x01, 0x54, 0x05, 0x53, 0x6d, 0x69, 0x74, 0x68, 0x01,
     0x02, 0x05, 0x52, 0x61, 0x6c, 0x70, 0x68, 0x01, 0x54, 0x05, 0x53, 0x6d, 0x69, 0x74, 0x68, 0x08,
     0x31, 0x39, 0x35, 0x37, 0x31, 0x31, 0x31, 0x31, 0x05, 0x53, 0x75, 0x73, 0x61, 0x6e, 0x01, 0x42,
     0x05, 0x4a, 0x6f, 0x6e, 0x65, 0x73, 0x08, 0x31, 0x39, 0x35, 0x39, 0x30, 0x37, 0x31, 0x37] := by
  rfl

/-- more vectors from tests/test_oer.py checked against the specification:
`INTEGER (0..MAX)` 128 ↦ `01 80` (unsigned), unconstrained 128 ↦ `02 00 80`, enumeration values 127, 128, -1,
an extensible SEQUENCE with one of two additions present. -/
example : X696.encode (.integer ⟨some 0, none, false⟩) (.int 128) = .ok [0x01, 0x80] := by rfl
example : X696.encode (.integer ⟨none, none, false⟩) (.int 128) = .ok [0x02, 0x00, 0x80] := by rfl
example : X696.encode (.integer ⟨some 0, some 10, true⟩) (.int (-1)) = .ok [0x01, 0xff] := by rfl
example : X696.encode (.enumerated [("a", 127), ("b", 128), ("c", -1)] none) (.enum "a") = .ok [0x7f] := by rfl
example : X696.encode (.enumerated [("a", 127), ("b", 128), ("c", -1)] none) (.enum "b") = .ok [0x82, 0x00, 0x80] := by rfl
example : X696.encode (.enumerated [("a", 127), ("b", 128), ("c", -1)] none) (.enum "c") = .ok [0x81, 0xff] := by rfl
example : X696.encode (.charString .utf8 ⟨2, some 2, false⟩) (.str [229, 228]) = .ok [0x04, 0xc3, 0xa5, 0xc3, 0xa4] := by rfl
example : X696.encode
    (.sequence (.cons "a" .mandatory .boolean .nil) true
      (.cons "b" .optional .null (.cons "c" .optional (.integer ⟨some 0, some 255, false⟩) .nil)))
    (.record [("a", .bool true), ("c", .int 7)]) = .ok [0x80, 0xff, 0x02, 0x06, 0x40, 0x01, 0x07] := by rfl

/-! ### (e) one witness per deviation name -/

def tUtf8 : Ty := .charString .utf8 ⟨2, some 2, false⟩

/-- `fixed-utf8`: `UTF8String (SIZE(2))`, "ab": code `61 62`, standard `02 61 62` -/
theorem witness_fixed_utf8 :
    X696.deviations tUtf8 (.str [97, 98]) = ["fixed-utf8"] ∧
    Oer.enc tUtf8 (.str [97, 98]) = .ok [0x61, 0x62] ∧
    X696.enc tUtf8 (.str [97, 98]) = .ok [0x02, 0x61, 0x62] ∧
    Oer.enc tUtf8 (.str [97, 98]) ≠ X696.enc tUtf8 (.str [97, 98]) :=
  ⟨by decide +kernel, rfl, rfl, by
    have h1 : Oer.enc tUtf8 (.str [97, 98]) = .ok [0x61, 0x62] := rfl
    have h2 : X696.enc tUtf8 (.str [97, 98]) = .ok [0x02, 0x61, 0x62] := rfl
    rw [h1, h2]; intro h; cases h⟩

def tSwallow : Ty := .sequence (.cons "a" .mandatory .boolean .nil) true
  (.cons "m0" .optional .boolean (.cons "m1" .mandatory .boolean
    (.cons "m2" .optional (.integer ⟨some 0, some 255, false⟩) .nil)))
def vSwallow : Val := .record [("a", .bool true), ("m0", .bool true)]

/-- `addition-error-swallowed`: `SEQUENCE { a BOOLEAN, ..., m0 BOOLEAN OPTIONAL, m1 BOOLEAN,
m2 INTEGER (0..255) OPTIONAL }`, `{a TRUE, m0 TRUE}` (a value of the version that ends with `m0`): the code
writes the presence bitmap `010` (addition `m1`), the standard `100` -/
theorem witness_addition_error_swallowed :
    X696.deviations tSwallow vSwallow = ["addition-error-swallowed"] ∧
    Oer.enc tSwallow vSwallow = .ok [0x80, 0xff, 0x02, 0x05, 0x40, 0x01, 0xff] ∧
    X696.enc tSwallow vSwallow = .ok [0x80, 0xff, 0x02, 0x05, 0x80, 0x01, 0xff] ∧
    Oer.enc tSwallow vSwallow ≠ X696.enc tSwallow vSwallow :=
  ⟨by decide +kernel, rfl, rfl, by
    have h1 : Oer.enc tSwallow vSwallow = .ok [0x80, 0xff, 0x02, 0x05, 0x40, 0x01, 0xff] := rfl
    have h2 : X696.enc tSwallow vSwallow = .ok [0x80, 0xff, 0x02, 0x05, 0x80, 0x01, 0xff] := rfl
    rw [h1, h2]; intro h; cases h⟩

def tAddDefault : Ty := .sequence (.cons "a" .mandatory .boolean .nil) true
  (.cons "b" (.default (.int 5)) (.integer ⟨none, none, false⟩) .nil)
def vAddDefault : Val := .record [("a", .bool true), ("b", .int 5)]

/-- `addition-default-encoded`: `SEQUENCE { a BOOLEAN, ..., b INTEGER DEFAULT 5 }`, `{a TRUE, b 5}`: the code
sends the addition, the canonical encoding omits it (both are valid Basic-OER) -/
theorem witness_addition_default_encoded :
    X696.deviations tAddDefault vAddDefault = ["addition-default-encoded"] ∧
    Oer.enc tAddDefault vAddDefault = .ok [0x80, 0xff, 0x02, 0x07, 0x80, 0x02, 0x01, 0x05] ∧
    X696.enc tAddDefault vAddDefault = .ok [0x00, 0xff] ∧
    Oer.enc tAddDefault vAddDefault ≠ X696.enc tAddDefault vAddDefault :=
  ⟨by decide +kernel, rfl, rfl, by
    have h1 : Oer.enc tAddDefault vAddDefault = .ok [0x80, 0xff, 0x02, 0x07, 0x80, 0x02, 0x01, 0x05] := rfl
    have h2 : X696.enc tAddDefault vAddDefault = .ok [0x00, 0xff] := rfl
    rw [h1, h2]; intro h; cases h⟩

def isEncodeError : Except Err Bytes → Bool
  | .error .encodeError => true
  | _ => false

set_option exponentiation.threshold 2000 in
def tEnumBig : Ty := .enumerated [("a", 2 ^ 1016)] none

set_option exponentiation.threshold 2000 in
/-- `enum-oversize`: an enumeration value that needs 128 octets has no long form (the count field has
seven bits); the code emits octets nevertheless -/
theorem witness_enum_oversize :
    X696.deviations tEnumBig (.enum "a") = ["enum-oversize"] ∧
    X696.enc tEnumBig (.enum "a") = .error .encodeError ∧
    (∃ bs, Oer.enc tEnumBig (.enum "a") = .ok bs) ∧
    Oer.enc tEnumBig (.enum "a") ≠ X696.enc tEnumBig (.enum "a") := by
  have hk : isEncodeError (X696.enc tEnumBig (.enum "a")) = true := by decide +kernel
  have h2 : X696.enc tEnumBig (.enum "a") = .error .encodeError := by
    cases h : X696.enc tEnumBig (.enum "a") with
    | ok bs => rw [h] at hk; cases hk
    | error e => rw [h] at hk; cases e <;> first | rfl | cases hk
  have hb : (Oer.enc tEnumBig (.enum "a")).toBool = true := by decide +kernel
  have h1 : ∃ bs, Oer.enc tEnumBig (.enum "a") = .ok bs := by
    cases h : Oer.enc tEnumBig (.enum "a") with
    | ok bs => exact ⟨bs, rfl⟩
    | error e => rw [h] at hb; cases hb
  refine ⟨by decide +kernel, h2, h1, ?_⟩
  obtain ⟨bs, h1⟩ := h1
  rw [h1, h2]; intro h; cases h

def tUnclean : Ty := .sequence (.cons "d" (.default (.bits [0xa0] 3)) (.bitString ⟨0, none, false⟩) .nil) false .nil
def vUnclean : Val := .record [("d", .bits [0xbf] 3)]

/-- `default-unclean-bits-encoded` is a deviation of the *real code only*: `d BIT STRING DEFAULT '101'B`
with the Python value `(b'\xbf', 3)`.  The real encoder answers `10 02 05 a0` (verified by
tools/compare_spec_oer.py), the frozen model `Oer.lean` — which compares cleaned bit strings — answers
the standard's `00`.  So no witness against the *model* exists; this theorem records that the model agrees
with the standard on the real code's witness. -/
theorem unclean_default_model_agrees :
    X696.deviations tUnclean vUnclean = ["default-unclean-bits-encoded"] ∧
    Oer.enc tUnclean vUnclean = .ok [0x00] ∧ X696.enc tUnclean vUnclean = .ok [0x00] :=
  ⟨by decide +kernel, rfl, rfl⟩

/-- every name `deviations` can produce is documented, and the list is complete for the witnesses above -/
theorem deviation_names : X696.deviationNames =
    ["fixed-utf8", "addition-error-swallowed", "addition-default-encoded", "default-unclean-bits-encoded",
     "enum-oversize"] := rfl

end Asn1.C06

#print axioms Asn1.C06.oer_refines
#print axioms Asn1.C06.decoder_exact
#print axioms Asn1.C06.spec_total
#print axioms Asn1.C06.fixed_width_unsigned
#print axioms Asn1.C06.fixed_width_signed
#print axioms Asn1.C06.fixed_width_complete
#print axioms Asn1.C06.unsigned_minimal
#print axioms Asn1.C06.signed_minimal
#print axioms Asn1.C06.length_long_minimal
#print axioms Asn1.C06.length_exists_iff
#print axioms Asn1.C06.x691_a1
#print axioms Asn1.C06.overview_model_agrees
#print axioms Asn1.C06.witness_fixed_utf8
#print axioms Asn1.C06.witness_addition_error_swallowed
#print axioms Asn1.C06.witness_addition_default_encoded
#print axioms Asn1.C06.witness_enum_oversize
#print axioms Asn1.C06.unclean_default_model_agrees
