import Asn1Proofs.Lemmas.PrepSpec
/-
  C19e — the meaning of EXTENSIBILITY IMPLIED for the dictionary rewrite
  (`Compiler.pre_process_extensibility_implied`, model: `Asn1.SpecDict.extDesc`, run for the
  modules whose header carries the flag by `Asn1.SpecDict.Preprocess.run`).

  X.680 clause 13.4: in a module with EXTENSIBILITY IMPLIED every SEQUENCE, SET and CHOICE (and
  ENUMERATED, not a member list and not touched by the pass) of the module that has no extension
  marker is treated as if it had one at its end.  For the rewrite this means: after `run`, in every
  module whose header says EXTENSIBILITY IMPLIED, EVERY member list at ANY depth of EVERY type
  assignment — members of members, members inside `[[ ]]` groups, and the element type of a
  SEQUENCE OF / SET OF written in place — carries an extension marker.

    * `Desc.Marked`                : the predicate "every member list at any depth has a marker"
    * `extDesc_marked`             : the pass establishes it, for all descriptors
    * `marked_iff_extDesc_eq`      : … and `Marked` is exactly "fixed point of the pass"
    * `tagDesc_marked`, `defDesc_marked`, `locDesc_marked` : the later passes keep it
    * `run_extensibility_implied`  : the statement for the whole rewrite, without any hypothesis on
                                     the dictionary (modules are addressed by position, so even
                                     two modules with one name cannot disturb each other)
    * closed examples (`SEQUENCE OF CHOICE { item OCTET STRING }`), with and without the flag
-/
namespace Asn1.SpecDict

/-! ### "every member list at any depth has an extension marker" -/

mutual
  /-- every SEQUENCE / SET / CHOICE member list inside the descriptor (the descriptor's own, those
  of its members at any depth, of the members of its `[[ ]]` groups, of its SEQUENCE OF / SET OF
  element) contains the extension marker -/
  def Desc.Marked : Desc → Prop
    | .mk _ b => Body.Marked b
  termination_by structural d => d
  def Body.Marked : Body → Prop
    | .leaf => True
    | .members ms => hasMarker ms = true ∧ ItemsMarked ms
    | .element e => Desc.Marked e
  termination_by structural b => b
  def ItemsMarked : List Item → Prop
    | [] => True
    | i :: t => Item.Marked i ∧ ItemsMarked t
  termination_by structural l => l
  def Item.Marked : Item → Prop
    | .marker => True
    | .compOf _ => True
    | .group g => DescsMarked g
    | .desc d => Desc.Marked d
  termination_by structural i => i
  def DescsMarked : List Desc → Prop
    | [] => True
    | d :: t => Desc.Marked d ∧ DescsMarked t
  termination_by structural l => l
end

theorem ItemsMarked_append {l₁ l₂ : List Item} :
    ItemsMarked (l₁ ++ l₂) ↔ ItemsMarked l₁ ∧ ItemsMarked l₂ := by
  induction l₁ with
  | nil => simp [ItemsMarked]
  | cons i t ih => simp [ItemsMarked, ih, and_assoc]

theorem ItemsMarked_addMarker {l : List Item} (h : ItemsMarked l) : ItemsMarked (addMarker l) := by
  unfold addMarker; split
  · exact h
  · exact ItemsMarked_append.2 ⟨h, by simp [ItemsMarked, Item.Marked]⟩

/-- `ItemsMarked` as a statement about the entries -/
theorem ItemsMarked_iff_forall {l : List Item} : ItemsMarked l ↔ ∀ i ∈ l, Item.Marked i := by
  induction l with
  | nil => simp [ItemsMarked]
  | cons i t ih => simp [ItemsMarked, ih]

theorem DescsMarked_iff_forall {l : List Desc} : DescsMarked l ↔ ∀ d ∈ l, Desc.Marked d := by
  induction l with
  | nil => simp [DescsMarked]
  | cons d t ih => simp [DescsMarked, ih]

/-! ### the EXTENSIBILITY IMPLIED pass establishes it -/

mutual
  theorem extDesc_marked' (d : Desc) : (extDesc d).Marked := by
    cases d with
    | mk a b => simp only [extDesc, Desc.Marked]; exact extBody_marked b
  theorem extBody_marked (b : Body) : (extBody b).Marked := by
    cases b with
    | leaf => simp [extBody, Body.Marked]
    | members ms =>
      simp only [extBody, Body.Marked]
      exact ⟨hasMarker_addMarker _, ItemsMarked_addMarker (extItems_marked ms)⟩
    | element e => simp only [extBody, Body.Marked]; exact extDesc_marked' e
  theorem extItems_marked (l : List Item) : ItemsMarked (extItems l) := by
    cases l with
    | nil => simp [extItems, ItemsMarked]
    | cons i t =>
      simp only [extItems, ItemsMarked]
      exact ⟨extItem_marked i, extItems_marked t⟩
  theorem extItem_marked (i : Item) : (extItem i).Marked := by
    cases i with
    | marker => simp [extItem, Item.Marked]
    | compOf r => simp [extItem, Item.Marked]
    | group g => simp only [extItem, Item.Marked]; exact extDescs_marked g
    | desc d => simp only [extItem, Item.Marked]; exact extDesc_marked' d
  theorem extDescs_marked (l : List Desc) : DescsMarked (extDescs l) := by
    cases l with
    | nil => simp [extDescs, DescsMarked]
    | cons d t =>
      simp only [extDescs, DescsMarked]
      exact ⟨extDesc_marked' d, extDescs_marked t⟩
end

/-! ### `Marked` descriptors are exactly the fixed points of the pass -/

mutual
  theorem extDesc_of_marked (d : Desc) (h : d.Marked) : extDesc d = d := by
    cases d with
    | mk a b => simp only [Desc.Marked] at h; simp only [extDesc]; rw [extBody_of_marked b h]
  theorem extBody_of_marked (b : Body) (h : b.Marked) : extBody b = b := by
    cases b with
    | leaf => simp [extBody]
    | members ms =>
      simp only [Body.Marked] at h
      simp only [extBody]
      rw [extItems_of_marked ms h.2, addMarker_of_hasMarker h.1]
    | element e => simp only [Body.Marked] at h; simp only [extBody]; rw [extDesc_of_marked e h]
  theorem extItems_of_marked (l : List Item) (h : ItemsMarked l) : extItems l = l := by
    cases l with
    | nil => simp [extItems]
    | cons i t =>
      simp only [ItemsMarked] at h
      simp only [extItems]
      rw [extItem_of_marked i h.1, extItems_of_marked t h.2]
  theorem extItem_of_marked (i : Item) (h : i.Marked) : extItem i = i := by
    cases i with
    | marker => simp [extItem]
    | compOf r => simp [extItem]
    | group g => simp only [Item.Marked] at h; simp only [extItem]; rw [extDescs_of_marked g h]
    | desc d => simp only [Item.Marked] at h; simp only [extItem]; rw [extDesc_of_marked d h]
  theorem extDescs_of_marked (l : List Desc) (h : DescsMarked l) : extDescs l = l := by
    cases l with
    | nil => simp [extDescs]
    | cons d t =>
      simp only [DescsMarked] at h
      simp only [extDescs]
      rw [extDesc_of_marked d h.1, extDescs_of_marked t h.2]
end

/-! ### the tag pass keeps it -/

section
variable (sk : Skel) (mt mn : String)

mutual
  theorem tagDesc_marked' (k : Option Nat) (d : Desc) (h : d.Marked) :
      (tagDesc sk mt mn k d).Marked := by
    cases d with
    | mk a b => simp only [tagDesc, Desc.Marked] at h ⊢; exact tagBody_marked b h
  theorem tagBody_marked (b : Body) (h : b.Marked) : (tagBody sk mt mn b).Marked := by
    cases b with
    | leaf => simp [tagBody, Body.Marked]
    | members ms =>
      simp only [tagBody, Body.Marked] at h ⊢
      exact ⟨by rw [hasMarker_tagItems]; exact h.1, tagItems_marked _ ms h.2⟩
    | element e => simp only [tagBody, Body.Marked] at h ⊢; exact tagDesc_marked' none e h
  theorem tagItems_marked (k : Option Nat) (l : List Item) (h : ItemsMarked l) :
      ItemsMarked (tagItems sk mt mn k l) := by
    cases l with
    | nil => simp [tagItems, ItemsMarked]
    | cons i t =>
      simp only [ItemsMarked] at h
      cases i with
      | marker =>
        simp only [tagItems, ItemsMarked, Item.Marked, true_and]; exact tagItems_marked k t h.2
      | compOf r =>
        simp only [tagItems, ItemsMarked, Item.Marked, true_and]; exact tagItems_marked k t h.2
      | group g =>
        simp only [tagItems, ItemsMarked, Item.Marked] at h ⊢
        exact ⟨tagDescs_marked k g h.1, tagItems_marked _ t h.2⟩
      | desc d =>
        simp only [tagItems, ItemsMarked, Item.Marked] at h ⊢
        exact ⟨tagDesc_marked' k d h.1, tagItems_marked _ t h.2⟩
  theorem tagDescs_marked (k : Option Nat) (l : List Desc) (h : DescsMarked l) :
      DescsMarked (tagDescs sk mt mn k l) := by
    cases l with
    | nil => simp [tagDescs, DescsMarked]
    | cons d t =>
      simp only [tagDescs, DescsMarked] at h ⊢
      exact ⟨tagDesc_marked' k d h.1, tagDescs_marked _ t h.2⟩
end

end

/-! ### the DEFAULT pass keeps it -/

section
variable (sk : Skel) (n : Bool) (mn : String)

mutual
  theorem defDesc_marked' (c : Bool) (d : Desc) (h : d.Marked) :
      (defDesc sk n mn c d).Marked := by
    cases d with
    | mk a b => simp only [defDesc, Desc.Marked] at h ⊢; exact defBody_marked _ b h
  theorem defBody_marked (c : Bool) (b : Body) (h : b.Marked) :
      (defBody sk n mn c b).Marked := by
    cases b with
    | leaf => simp [defBody, Body.Marked]
    | members ms =>
      simp only [defBody, Body.Marked] at h ⊢
      exact ⟨by rw [hasMarker_defItems]; exact h.1, defItems_marked c ms h.2⟩
    | element e => simp only [defBody, Body.Marked] at h ⊢; exact defDesc_marked' false e h
  theorem defItems_marked (c : Bool) (l : List Item) (h : ItemsMarked l) :
      ItemsMarked (defItems sk n mn c l) := by
    cases l with
    | nil => simp [defItems, ItemsMarked]
    | cons i t =>
      simp only [defItems, ItemsMarked] at h ⊢
      exact ⟨defItem_marked c i h.1, defItems_marked c t h.2⟩
  theorem defItem_marked (c : Bool) (i : Item) (h : i.Marked) :
      (defItem sk n mn c i).Marked := by
    cases i with
    | marker => simp [defItem, Item.Marked]
    | compOf r => simp [defItem, Item.Marked]
    | group g => simp only [defItem, Item.Marked] at h ⊢; exact defDescs_marked c g h
    | desc d => simp only [defItem, Item.Marked] at h ⊢; exact defDesc_marked' c d h
  theorem defDescs_marked (c : Bool) (l : List Desc) (h : DescsMarked l) :
      DescsMarked (defDescs sk n mn c l) := by
    cases l with
    | nil => simp [defDescs, DescsMarked]
    | cons d t =>
      simp only [defDescs, DescsMarked] at h ⊢
      exact ⟨defDesc_marked' c d h.1, defDescs_marked c t h.2⟩
end

end

end Asn1.SpecDict

namespace Asn1.C19e
open Asn1.SpecDict Asn1.SpecDict.Preprocess

/-! ### the pass on one descriptor -/

/-- **The EXTENSIBILITY IMPLIED pass, any descriptor**: after the pass every member list at any
depth (members, `[[ ]]` groups, SEQUENCE OF / SET OF elements) carries an extension marker. -/
theorem extDesc_marked (d : Desc) : (extDesc d).Marked := extDesc_marked' d

/-- `Marked` is precisely "the pass has nothing left to do". -/
theorem marked_iff_extDesc_eq (d : Desc) : d.Marked ↔ extDesc d = d :=
  ⟨extDesc_of_marked d, fun h => h ▸ extDesc_marked d⟩

/-- the tag pass (any skeleton, tag default, module name, automatic tag number) keeps the markers -/
theorem tagDesc_marked (sk : Skel) (mt mn : String) (k : Option Nat) (d : Desc) (h : d.Marked) :
    (tagDesc sk mt mn k d).Marked := tagDesc_marked' sk mt mn k d h

/-- the DEFAULT pass (any skeleton, `numeric_enums`, module name, conversion flag) keeps the
markers -/
theorem defDesc_marked (sk : Skel) (n : Bool) (mn : String) (c : Bool) (d : Desc) (h : d.Marked) :
    (defDesc sk n mn c d).Marked := defDesc_marked' sk n mn c d h

/-- the three passes on one type assignment of a module with EXTENSIBILITY IMPLIED -/
theorem locDesc_marked (sk : Skel) (n : Bool) (mn mt : String) (d : Desc) :
    (locDesc sk n mn mt true d).Marked := by
  unfold locDesc
  exact defDesc_marked _ _ _ _ _ (tagDesc_marked _ _ _ _ _ (by simpa using extDesc_marked d))

/-! ### the whole rewrite -/

/-- the property of module position `j` of a dictionary: if the header has the flag, every type
assignment is `Marked` -/
def ModMarked (s : Spec) (j : Nat) : Prop :=
  ∀ mn m, s[j]? = some (mn, m) → m.extImplied = true → ∀ p ∈ m.types, p.2.Marked

/-- the step for module `i` establishes the property at position `i` … -/
theorem ModMarked_procModule_self (n : Bool) (s : Spec) (i : Nat) :
    ModMarked (procModule n s i) i := by
  cases hi : s[i]? with
  | none =>
    rw [procModule_of_none n hi]
    intro mn m hm; rw [hi] at hm; cases hm
  | some q =>
    obtain ⟨mn, m⟩ := q
    obtain ⟨m1, hm1, hskm⟩ := header_of_skel_eq (skel_compOfModule i mn m.types.length s) hi
    obtain ⟨_, he, _⟩ := Module.skel_fields hskm
    intro mn' m' hm' hx p hp
    rw [procModule_eq n hi, getElem?_modifyAt_eq, hm1] at hm'
    simp only [Option.map_some, Option.some.injEq, Prod.mk.injEq] at hm'
    obtain ⟨_, rfl⟩ := hm'
    have hx' : m.extImplied = true := by
      rw [← he]; simpa [Module.mapTypes] using hx
    obtain ⟨k, d⟩ := p
    simp only [Module.mapTypes] at hp
    obtain ⟨d0, _, rfl⟩ := mem_mapSnd hp
    rw [hx']
    exact locDesc_marked _ _ _ _ d0

/-- … and the step for another module does not touch it -/
theorem ModMarked_procModule_ne (n : Bool) {s : Spec} {i j : Nat} (hji : j ≠ i)
    (h : ModMarked s j) : ModMarked (procModule n s i) j := by
  intro mn m hm
  rw [getElem?_procModule_ne n s hji] at hm
  exact h mn m hm

/-- **C19e, the whole rewrite.**  After `Compiler.pre_process`, in every module whose header says
EXTENSIBILITY IMPLIED, every SEQUENCE / SET / CHOICE member list at any depth of every type
assignment (through members, `[[ ]]` groups, and the element types of SEQUENCE OF / SET OF written
in place) carries an extension marker.  No hypothesis on the dictionary `d` is needed: neither
well-formedness of references, nor distinct module names, nor absence of COMPONENTS OF. -/
theorem run_extensibility_implied (n : Bool) (d : Spec) (i : Nat) (mn : String) (m : Module)
    (h : (run n d)[i]? = some (mn, m)) (hx : m.extImplied = true) :
    ∀ p ∈ m.types, p.2.Marked := by
  have key := foldl_range_inv (procModule n) (fun _ => True) (fun s j => ModMarked s j) d.length
    (fun _ _ _ => trivial)
    (fun s k _ _ => ModMarked_procModule_self n s k)
    (fun s k j hjk _ hq => ModMarked_procModule_ne n hjk hq)
    d trivial d.length (Nat.le_refl _)
  have hi : i < d.length := by
    have := (List.getElem?_eq_some_iff.1 h).1
    rwa [run_length] at this
  exact key.2 i hi mn m h hx

/-- the same, the module looked up by membership instead of position -/
theorem run_extensibility_implied_mem (n : Bool) (d : Spec) (mn : String) (m : Module)
    (h : (mn, m) ∈ run n d) (hx : m.extImplied = true) : ∀ p ∈ m.types, p.2.Marked := by
  obtain ⟨i, hi⟩ := List.getElem?_of_mem h
  exact run_extensibility_implied n d i mn m hi hx

/-- the header flag read BEFORE the rewrite decides (the rewrite does not change headers) -/
theorem run_extensibility_implied_of_source (n : Bool) (d : Spec) (i : Nat) (mn : String)
    (m : Module) (h : d[i]? = some (mn, m)) (hx : m.extImplied = true) :
    ∃ m', (run n d)[i]? = some (mn, m') ∧ m'.extImplied = true ∧ ∀ p ∈ m'.types, p.2.Marked := by
  obtain ⟨m', hm', hsk⟩ := header_of_skel_eq (skel_run n d) h
  have hx' : m'.extImplied = true := by rw [(Module.skel_fields hsk).2.1]; exact hx
  exact ⟨m', hm', hx', run_extensibility_implied n d i mn m' hm' hx'⟩

/-! ### closed examples -/

/-- the member-list of the element type of a SEQUENCE OF / SET OF written in place -/
def elementMembers : Desc → Option (List Item)
  | .mk _ (.element (.mk _ (.members ms))) => some ms
  | _ => none

/-- the type assignment `tn` of the first module named `mn` -/
def typeOf (s : Spec) (mn tn : String) : Option Desc :=
  match find? mn s with
  | none => none
  | some m => find? tn m.types

/-- which entries of the element's member list are extension markers -/
def elementMarkers (s : Spec) (mn tn : String) : Option (List Bool) :=
  match typeOf s mn tn with
  | none => none
  | some d => (elementMembers d).map (fun ms => ms.map Item.isMarker)

/-- `A ::= SEQUENCE OF CHOICE { item OCTET STRING }`, the CHOICE written in place, no marker -/
def exA : Desc :=
  .mk { type := "SEQUENCE OF" } (.element (.mk { type := "CHOICE" } (.members [
    .desc (.mk { type := "OCTET STRING", name := some "item" } .leaf)])))

/-- `M DEFINITIONS EXTENSIBILITY IMPLIED ::= BEGIN A ::= SEQUENCE OF CHOICE { item OCTET STRING } END` -/
def exImplied : Spec := [("M", { extImplied := true, types := [("A", exA)] })]

/-- the same module without EXTENSIBILITY IMPLIED -/
def exPlain : Spec := [("M", { extImplied := false, types := [("A", exA)] })]

/-- before the rewrite: one member, no marker -/
example : elementMarkers exImplied "M" "A" = some [false] := by decide

/-- after the rewrite the CHOICE inside the SEQUENCE OF has the member and then the marker -/
theorem exImplied_marker : elementMarkers (run false exImplied) "M" "A" = some [false, true] := by
  decide

/-- … the member list ends with `.marker` -/
theorem exImplied_last :
    (((typeOf (run false exImplied) "M" "A").bind elementMembers).bind List.getLast?).map
      Item.isMarker = some true := by
  decide

/-- … and `numeric_enums` makes no difference -/
example : elementMarkers (run true exImplied) "M" "A" = some [false, true] := by decide

/-- without the header flag the member list is left without marker -/
theorem exPlain_no_marker : elementMarkers (run false exPlain) "M" "A" = some [false] := by
  decide

/-- the general theorem applied to the closed example (position 0) -/
example : ∀ m, (run false exImplied)[0]? = some ("M", m) → ∀ p ∈ m.types, p.2.Marked := by
  intro m hm
  refine run_extensibility_implied false exImplied 0 "M" m hm ?_
  obtain ⟨m', hm', hx, _⟩ :=
    run_extensibility_implied_of_source false exImplied 0 "M" _ rfl rfl
  rw [hm] at hm'
  simp only [Option.some.injEq, Prod.mk.injEq, true_and] at hm'
  rw [hm']; exact hx

/-- the predicate is not trivially true: the source descriptor is not `Marked`, the module without
the flag is not `Marked` after the rewrite either -/
theorem exA_not_marked : ¬ exA.Marked := by
  simp [exA, Desc.Marked, Body.Marked, hasMarker]

/-- the rewrite leaves the module without the flag as it is (nothing to tag, no DEFAULT) -/
theorem exPlain_unchanged : run false exPlain = exPlain := by rfl

theorem exPlain_not_marked :
    ¬ ∀ mn m, (run false exPlain)[0]? = some (mn, m) → ∀ p ∈ m.types, p.2.Marked := by
  rw [exPlain_unchanged]
  intro h
  exact exA_not_marked
    (h "M" { extImplied := false, types := [("A", exA)] } rfl ("A", exA) (List.mem_singleton.2 rfl))

/-
  Two modules with one name (impossible for a Python dictionary, possible for the association list
  `Spec`): the rewrite addresses modules by POSITION, so the theorem needs no "distinct module
  names" hypothesis.  Both copies are rewritten, each according to its own header.
-/
def exDup : Spec :=
  [("M", { extImplied := true, types := [("A", exA)] }),
   ("M", { extImplied := false, types := [("A", exA)] }),
   ("M", { extImplied := true, types := [("A", exA)] })]

def markersAt (s : Spec) (i : Nat) : Option (List Bool) :=
  match s[i]? with
  | none => none
  | some (_, m) =>
    match m.types with
    | [(_, d)] => (elementMembers d).map (fun ms => ms.map Item.isMarker)
    | _ => none

theorem exDup_markers :
    markersAt (run false exDup) 0 = some [false, true]
    ∧ markersAt (run false exDup) 1 = some [false]
    ∧ markersAt (run false exDup) 2 = some [false, true] := by
  decide

/-
  COMPONENTS OF from a module WITHOUT the flag into a module WITH the flag: the copied members are
  part of the type assignment of the flagged module and get their markers too (pass 1 runs before
  pass 2 in the same module).

    N DEFINITIONS ::= BEGIN  S ::= SEQUENCE { c CHOICE { x NULL } }  END
    M DEFINITIONS EXTENSIBILITY IMPLIED ::= BEGIN IMPORTS S FROM N;
        T ::= SEQUENCE { COMPONENTS OF S }  END
-/
def exCompOf : Spec :=
  [("N", { types := [("S", .mk { type := "SEQUENCE" } (.members [
      .desc (.mk { type := "CHOICE", name := some "c" } (.members [
        .desc (.mk { type := "NULL", name := some "x" } .leaf)]))]))] }),
   ("M", { extImplied := true, imports := [("N", ["S"])], types := [
      ("T", .mk { type := "SEQUENCE" } (.members [.compOf "S"]))] })]

/-- the marker flags of the member list of a type and of the member list of its first member -/
def outerInner : Option Desc → Option (List Bool × List Bool)
  | some (.mk _ (.members (.desc (.mk a (.members inner)) :: rest))) =>
    some ((Item.desc (.mk a (.members inner)) :: rest).map Item.isMarker, inner.map Item.isMarker)
  | _ => none

theorem exCompOf_markers :
    outerInner (typeOf (run false exCompOf) "M" "T") = some ([false, true], [false, true])
    ∧ outerInner (typeOf (run false exCompOf) "N" "S") = some ([false], [false]) := by
  decide

end Asn1.C19e

#print axioms Asn1.C19e.extDesc_marked
#print axioms Asn1.C19e.marked_iff_extDesc_eq
#print axioms Asn1.C19e.tagDesc_marked
#print axioms Asn1.C19e.defDesc_marked
#print axioms Asn1.C19e.locDesc_marked
#print axioms Asn1.C19e.run_extensibility_implied
#print axioms Asn1.C19e.run_extensibility_implied_mem
#print axioms Asn1.C19e.run_extensibility_implied_of_source
#print axioms Asn1.C19e.exImplied_marker
#print axioms Asn1.C19e.exImplied_last
#print axioms Asn1.C19e.exPlain_no_marker
#print axioms Asn1.C19e.exPlain_not_marked
#print axioms Asn1.C19e.exDup_markers
#print axioms Asn1.C19e.exCompOf_markers
