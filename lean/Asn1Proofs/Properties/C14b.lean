import Asn1Proofs.Lemmas.C14More
/-
  C14 — further property theorems (proofs in Lemmas/C14More.lean), restated here so that the
  audit lists them with the other property theorems.
-/
namespace Asn1.C14b
open Asn1.Comments

/-- Text inside a character string literal is copied verbatim and never opens a comment. -/
theorem str_verbatim (a : Nat) (rest body : List Char) (hb : '"' ∉ body) :
    go .str a (body ++ '"' :: rest) = (fun o => body ++ '"' :: o) <$> go .normal a rest :=
  Asn1.C14.str_verbatim a rest body hb

/-- The pre-pass is idempotent: blanked text contains no comment any more. -/
theorem strip_idem (s o : List Char) (h : strip s = .ok o) : strip o = .ok o :=
  Asn1.C14.strip_idem s o h

/-- A text without any comment opener and without quotes is returned unchanged. -/
theorem strip_no_comment (s : List Char)
    (h1 : ∀ pre post, s ≠ pre ++ '-' :: '-' :: post)
    (h2 : ∀ pre post, s ≠ pre ++ '/' :: '*' :: post)
    (h3 : '"' ∉ s) : strip s = .ok s :=
  Asn1.C14.strip_no_comment s h1 h2 h3

end Asn1.C14b
