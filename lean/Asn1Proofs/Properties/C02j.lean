import Asn1Proofs.Lemmas.JerRoundtrip
import Asn1Proofs.Lemmas.JsonAscii
import Asn1Proofs.Lemmas.JerCanon
/-
  C02 (JER half) — "for every type and constraint-satisfying value the JER encoding is a valid JSON
  document and decoding it yields the same abstract value, with and without indentation".

  Model: Asn1Model/Json.lean (RFC 8259 reader `Json.parse`, `json.dumps` writer `Json.render`) and
  Asn1Model/Jer.lean (`Jer.toJson` / `Jer.ofJson` / `Jer.encode` / `Jer.decode`), validated against the
  real codec by tools/compare_jer.py.

  "The same abstract value" is `Jer.canonJ t v`: `v` with absent DEFAULT members filled in (root members
  and extension additions alike; everything else, including the unused bits of a BIT STRING, unchanged).
-/
namespace Asn1.C02j
open Asn1 Asn1.Jer Asn1.Json

/-- **tree level**: the JSON tree the encoder builds for a well-typed value decodes to the canonical
form of the value.  Side conditions: the type is well formed (distinct member / alternative names) and
the value is accepted by the type and constraint checkers. -/
theorem jer_tree_roundtrip (t : Ty) (v : Val) (j : JsonV)
    (hwf : t.wf = true) (ht : hasType t v = true) (he : Jer.toJson t v = .ok j) :
    Jer.ofJson t j = .ok (Jer.canonJ t v) :=
  (Jer.rt_all t v j hwf ht he).1

/-- the tree is well formed: every string and member name is a list of Unicode scalar values and there
is no number with a fraction or exponent -/
theorem jer_tree_wf (t : Ty) (v : Val) (j : JsonV)
    (hwf : t.wf = true) (ht : hasType t v = true) (he : Jer.toJson t v = .ok j) :
    Json.wfV j = true :=
  (Jer.rt_all t v j hwf ht he).2

/-- every value the checkers accept is accepted by the JER encoder -/
theorem jer_enc_total (t : Ty) (v : Val) (hwf : t.wf = true) (ht : hasType t v = true) :
    ∃ j, Jer.toJson t v = .ok j :=
  Jer.et_all t v hwf ht

/-- **the writer emits a valid JSON document and the independent RFC 8259 reader gives back the tree**,
for `indent = None` (`none`) and every integer indent (`some n`), for every well-formed tree. -/
theorem json_parse_render (indent : Option Nat) (j : JsonV) (hj : Json.wfV j = true) :
    Json.parse (Json.render indent j) = some j :=
  Json.parse_render indent j hj

/-- `ensure_ascii`: the document consists of ASCII characters only, for every tree -/
theorem json_render_ascii (indent : Option Nat) (j : JsonV) : ∀ c ∈ Json.render indent j, c < 128 :=
  Json.render_ascii indent j

/-- the UTF-8 form of an ASCII text is the text itself -/
theorem utf8_of_ascii (cps : List Nat) (h : ∀ c ∈ cps, c < 128) : cps.flatMap Uper.utf8Enc = cps := by
  induction cps with
  | nil => rfl
  | cons c r ih =>
    have hc := h c (List.mem_cons_self ..)
    have : Uper.utf8Enc c = [c] := by unfold Uper.utf8Enc; rw [if_pos (by omega)]
    rw [List.flatMap_cons, this, ih (fun x hx => h x (List.mem_cons_of_mem _ hx))]
    rfl

/-- **document level** (the property): for every well-formed type, every value the checkers accept and
every indentation, the encoder produces octets that are (the UTF-8 form of) a valid JSON document, and
decoding them yields the canonical form of the value. -/
theorem jer_roundtrip (t : Ty) (v : Val) (indent : Option Nat)
    (hwf : t.wf = true) (ht : hasType t v = true) :
    ∃ doc, Jer.encode t v indent = .ok doc ∧ Jer.isJson doc = true ∧
      Jer.decode t doc = .ok (Jer.canonJ t v) := by
  obtain ⟨j, hj⟩ := jer_enc_total t v hwf ht
  have hrt := jer_tree_roundtrip t v j hwf ht hj
  have hw := jer_tree_wf t v j hwf ht hj
  have hasc := json_render_ascii indent j
  have hdoc : Jer.docCps ((Json.render indent j).flatMap Uper.utf8Enc) = some (Json.render indent j) := by
    unfold Jer.docCps
    exact Uper.utf8Dec_flatMap_utf8Enc _ (fun cp hcp => by have := hasc cp hcp; omega) _ (Nat.le_refl _)
  refine ⟨(Json.render indent j).flatMap Uper.utf8Enc, by simp only [Jer.encode, hj], ?_, ?_⟩
  · simp only [Jer.isJson, hdoc, json_parse_render indent j hw, Option.isSome_some]
  · simp only [Jer.decode, hdoc, json_parse_render indent j hw, hrt]

/-- the canonical form is the value itself when no DEFAULT member is left out (`Jer.explicitDefaults`,
decidable) -/
theorem canonJ_of_explicit (t : Ty) (v : Val)
    (hwf : t.wf = true) (ht : hasType t v = true) (hx : Jer.explicitDefaults t v = true) :
    Jer.canonJ t v = v :=
  Jer.id_all t v hwf ht hx

/-- **document level, literally "the same abstract value"**: when every DEFAULT member is present in the
value, decoding the document gives exactly the value, for every indentation. -/
theorem jer_roundtrip_exact (t : Ty) (v : Val) (indent : Option Nat)
    (hwf : t.wf = true) (ht : hasType t v = true) (hx : Jer.explicitDefaults t v = true) :
    ∃ doc, Jer.encode t v indent = .ok doc ∧ Jer.isJson doc = true ∧ Jer.decode t doc = .ok v := by
  obtain ⟨doc, h1, h2, h3⟩ := jer_roundtrip t v indent hwf ht
  exact ⟨doc, h1, h2, by rw [h3, canonJ_of_explicit t v hwf ht hx]⟩

/-- the octets of the document are the code points of the rendered text (no octet ≥ 128) -/
theorem jer_encode_ascii (t : Ty) (v : Val) (indent : Option Nat) (doc : Bytes)
    (he : Jer.encode t v indent = .ok doc) : ∀ b ∈ doc, b < 128 := by
  unfold Jer.encode at he
  cases hj : Jer.toJson t v with
  | error e => rw [hj] at he; cases he
  | ok j =>
    rw [hj] at he
    cases he
    rw [utf8_of_ascii _ (json_render_ascii indent j)]
    exact json_render_ascii indent j

/-! ### non-vacuity and witnesses -/

/-- a SEQUENCE with OPTIONAL, DEFAULT (root and addition), both BIT STRING forms, an OCTET STRING, an
ENUMERATED, a UTF8String and an extensible CHOICE inside a SEQUENCE OF -/
def exT : Ty :=
  .sequenceOf (.sequence
    (.cons "a" .optional (.integer ⟨some 0, some 300, true⟩)
    (.cons "b" (.default (.bool true)) .boolean
    (.cons "c" .mandatory (.bitString ⟨4, some 4, false⟩)
    (.cons "d" .mandatory (.bitString ⟨0, none, false⟩)
    (.cons "s" .mandatory (.charString .utf8 ⟨0, none, false⟩) .nil))))) true
    (.cons "x" (.default (.int 5)) (.integer ⟨none, none, false⟩)
    (.cons "y" .optional (.choice (.cons "n" .null (.cons "o" (.octetString ⟨0, none, false⟩) .nil)) true
      (.cons "e" (.enumerated [("r", 0)] (some [("q", 1)])) .nil)) .nil))) ⟨0, some 3, true⟩

def exV : Val :=
  .list [.record [("a", .int 70000), ("c", .bits [0xa0] 4), ("d", .bits [0xff, 0x80] 9),
                  ("s", .str [97, 34, 92, 10, 233, 0x1d11e]), ("y", .choice "e" (.enum "q"))],
         .record [("b", .bool false), ("c", .bits [0x50] 4), ("d", .bits [] 0), ("s", .str []),
                  ("x", .int (-1)), ("y", .choice "o" (.bytes [0xde, 0xad]))]]

example : exT.wf = true ∧ hasType exT exV = true := by
  refine ⟨by decide +kernel, by decide +kernel⟩

/-- the compact document: `[{"a":70000,"c":"A0","d":{"value":"FF80","length":9},"s":"a\"\\\né𝄞","y":{"e":"q"}},{...}]` -/
example : (Jer.encode exT exV none).toOption.map (·.length) = some 180 := by decide +kernel

example : ∀ indent ∈ [none, some 0, some 1, some 4],
    (match Jer.encode exT exV indent with
     | .ok doc => Jer.isJson doc && (match Jer.decode exT doc with | .ok w => w == Jer.canonJ exT exV | .error _ => false)
     | .error _ => false) = true := by decide +kernel

/-- the canonical form differs from the value only by the filled-in DEFAULTs (`b` in the first record,
`x` in the first record) -/
example : Jer.canonJ exT exV =
  .list [.record [("a", .int 70000), ("b", .bool true), ("c", .bits [0xa0] 4), ("d", .bits [0xff, 0x80] 9),
                  ("s", .str [97, 34, 92, 10, 233, 0x1d11e]), ("x", .int 5), ("y", .choice "e" (.enum "q"))],
         .record [("b", .bool false), ("c", .bits [0x50] 4), ("d", .bits [] 0), ("s", .str []),
                  ("x", .int (-1)), ("y", .choice "o" (.bytes [0xde, 0xad]))]] := by rfl

/-- `exV` leaves DEFAULT members out, its second element does not -/
example : Jer.explicitDefaults exT exV = false ∧
    Jer.explicitDefaults exT (.list [.record [("b", .bool false), ("c", .bits [0x50] 4), ("d", .bits [] 0),
      ("s", .str []), ("x", .int (-1)), ("y", .choice "o" (.bytes [0xde, 0xad]))]]) = true := by
  constructor <;> decide +kernel

/-- indentation: `json.dumps(..., indent=1)` of a CHOICE in a SEQUENCE OF -/
example : Jer.encode (.sequenceOf (.choice (.cons "n" .null .nil) false .nil) ⟨0, none, false⟩)
    (.list [.choice "n" .null]) (some 1)
    = .ok [91, 10, 32, 123, 10, 32, 32, 34, 110, 34, 58, 32, 110, 117, 108, 108, 10, 32, 125, 10, 93] := by rfl

/-- the reader rejects what is not JSON: a leading zero, a trailing comma, a lone surrogate escape, a raw
control character, text after the value, `NaN` -/
example : Json.parse [48, 49] = none ∧ Json.parse [91, 49, 44, 93] = none ∧
    Json.parse [34, 92, 117, 100, 56, 48, 48, 34] = none ∧ Json.parse [34, 9, 34] = none ∧
    Json.parse [49, 32, 50] = none ∧ Json.parse [78, 97, 78] = none := by
  refine ⟨by rfl, by rfl, by rfl, by rfl, by rfl, by rfl⟩

/-- deviation witness (decoder): a document without the mandatory members decodes without an error -/
example : Jer.ofJson (.sequence (.cons "a" .mandatory .boolean .nil) false .nil) (.obj []) = .ok (.record []) := by rfl

/-- deviation witness (decoder): the pass-through types return any JSON value (`"yes"` for a BOOLEAN) -/
example : Jer.ofJson .boolean (.str [121, 101, 115]) = .ok (.str [121, 101, 115]) := by rfl

/-- deviation witness (BIT STRING `SIZE(5, ...)`, a 7-bit value, which `hasType` excludes): the length is
not written and the decoder returns the declared size -/
example : Jer.toJson (.bitString ⟨5, some 5, true⟩) (.bits [0xfe] 7) = .ok (.str [70, 69]) ∧
    Jer.ofJson (.bitString ⟨5, some 5, true⟩) (.str [70, 69]) = .ok (.bits [0xfe] 5) := by
  constructor <;> rfl

end Asn1.C02j
