import Asn1Model.TypeCheck
import Asn1Model.Typing
import Asn1Proofs.Lemmas.UperMembers
/-
  Lemmas for C12 (Asn1Proofs/Properties/C12.lean): the type-checker model `tcheck` against the typing
  predicate `hasType` (well-typed values are accepted) and the path calculus `preach` (the reported
  path leads to a component whose own shape is wrong).
-/
namespace Asn1
namespace TypeCheck

/-! ### names as code-point lists -/

theorem strOfName_inj {a b : String} (h : strOfName a = strOfName b) : a = b := by
  unfold strOfName at h
  exact String.toList_inj.1 ((List.map_inj_right (fun _ _ h => Char.toNat_inj.1 h)).1 h)

theorem strOfName_beq (a b : String) : (strOfName a == strOfName b) = (a == b) := by
  by_cases h : a = b
  · subst h; simp
  · have : strOfName a ≠ strOfName b := fun e => h (strOfName_inj e)
    rw [beq_eq_false_iff_ne.2 h, beq_eq_false_iff_ne.2 this]

/-! ### the (type, value) shapes on which `tcheck` recurses -/

def composite : Ty → PyVal → Bool
  | .sequence _ _ _, .dict _ => true
  | .sequenceOf _ _, .list _ => true
  | .choice _ _ _, .tuple [.str _, _] => true
  | _, _ => false

theorem tcheck_leaf (t : Ty) (v : PyVal) (h : composite t v = false) :
    tcheck t v = if shapeOk t v then none else some [] := by
  revert h
  fun_cases composite t v
  · simp
  · simp
  · simp
  · next h1 h2 h3 =>
    intro _
    exact tcheck.eq_4 t v h1 h2 h3

theorem preach_leaf_nil (t : Ty) (v : PyVal) (h : composite t v = false) :
    preach t v [] = [(t, v)] := by
  revert h
  fun_cases composite t v
  · simp [preach]
  · simp
  · simp [preach]
  · next h1 h2 h3 =>
    intro _
    unfold preach
    split
    · exact (h2 _ _ _ rfl rfl).elim
    · rename_i hh; cases hh
    · rename_i hh; cases hh
    · rfl
    · rename_i hh _ _; exact (hh rfl).elim

theorem composite_sequence {root : Members} {e : Bool} {adds : Members} {v : PyVal}
    (h : composite (.sequence root e adds) v = true) : ∃ kvs, v = .dict kvs := by
  cases v <;> simp [composite] at h
  exact ⟨_, rfl⟩

theorem composite_sequenceOf {el : Ty} {c : SizeC} {v : PyVal}
    (h : composite (.sequenceOf el c) v = true) : ∃ xs, v = .list xs := by
  cases v <;> simp [composite] at h
  exact ⟨_, rfl⟩

theorem composite_choice {root : Alts} {e : Bool} {adds : Alts} {v : PyVal}
    (h : composite (.choice root e adds) v = true) : ∃ n x, v = .tuple [.str n, x] := by
  unfold composite at h
  split at h
  · rename_i hh; cases hh
  · rename_i hh; cases hh
  · exact ⟨_, _, rfl⟩
  · cases h

/-! ### `firstSome`, `lookup`, `embed` -/

theorem firstSome_eq_none_iff {α β : Type} (f : α → Option β) (l : List α) :
    firstSome f l = none ↔ ∀ x ∈ l, f x = none := by
  induction l with
  | nil => simp [firstSome]
  | cons x r ih =>
    simp only [firstSome]
    split <;> simp_all

theorem firstSome_eq_some {α β : Type} (f : α → Option β) (l : List α) (y : β)
    (h : firstSome f l = some y) : ∃ x ∈ l, f x = some y := by
  induction l with
  | nil => simp [firstSome] at h
  | cons x r ih =>
    simp only [firstSome] at h
    split at h
    · next z hz => exact ⟨x, by simp, by simpa [hz] using h⟩
    · obtain ⟨x', hx', hfx⟩ := ih h
      exact ⟨x', by simp [hx'], hfx⟩

theorem lookup_embedFields (name : String) (fs : List (String × Val)) :
    lookup name (embed.embedFields fs) = (lookup name fs).map embed := by
  induction fs with
  | nil => rfl
  | cons x r ih =>
    obtain ⟨n, v⟩ := x
    simp only [embed.embedFields, lookup]
    split
    · rfl
    · exact ih

theorem mem_embedList (x : PyVal) (vs : List Val) (h : x ∈ embed.embedList vs) :
    ∃ v ∈ vs, x = embed v := by
  induction vs with
  | nil => simp [embed.embedList] at h
  | cons v r ih =>
    simp only [embed.embedList, List.mem_cons] at h
    rcases h with h | h
    · exact ⟨v, by simp, h⟩
    · obtain ⟨w, hw, e⟩ := ih h
      exact ⟨w, by simp [hw], e⟩

/-! ### alternatives -/

theorem mem_names_of_hasAlt (n : String) (v : Val) :
    (as : Alts) → hasAlt as n v = true → n ∈ as.names
  | .nil, h => by simp [hasAlt] at h
  | .cons m t rest, h => by
    simp only [hasAlt] at h
    by_cases hm : m = n
    · simp [Alts.names, hm]
    · have hb : (m == n) = false := by simpa using hm
      simp only [hb, Bool.false_eq_true, if_false] at h
      simp [Alts.names, mem_names_of_hasAlt n v rest h]

theorem tcheckAlt_none_of_not_mem (n : String) (x : PyVal) :
    (as : Alts) → n ∉ as.names → tcheckAlt as (strOfName n) x = none
  | .nil, _ => by simp [tcheckAlt]
  | .cons m t rest, h => by
    simp only [Alts.names, List.mem_cons, not_or] at h
    have hb : (m == n) = false := by simpa using fun e : m = n => h.1 e.symm
    simp only [tcheckAlt, strOfName_beq, hb, Bool.false_eq_true, if_false]
    exact tcheckAlt_none_of_not_mem n x rest h.2

theorem any_false_of_tcheckAlt_none (n : List Nat) (x : PyVal) :
    (as : Alts) → tcheckAlt as n x = none → as.names.any (fun m => strOfName m == n) = false
  | .nil, _ => by simp [Alts.names]
  | .cons m t rest, h => by
    simp only [tcheckAlt] at h
    by_cases hm : (strOfName m == n) = true
    · simp [hm] at h
    · simp only [hm] at h
      simp only [Alts.names, List.any_cons, Bool.or_eq_false_iff]
      exact ⟨by simpa using hm, any_false_of_tcheckAlt_none n x rest h⟩

/-! ### A. well-typed values are accepted -/

theorem tcheck_ok_leaf (t : Ty) (pv : PyVal) (hc : composite t pv = false)
    (hs : shapeOk t pv = true) : tcheck t pv = none := by
  rw [tcheck_leaf t pv hc, hs]; rfl

mutual
  theorem tcheck_ok (t : Ty) (v : Val) (hwf : t.wf = true) (h : hasType t v = true) :
      tcheck t (embed v) = none := by
    cases t with
    | sequence root ext adds =>
      cases v with
      | record fs =>
        simp only [Ty.wf, Bool.and_eq_true, decide_eq_true_eq] at hwf
        obtain ⟨h1, h2⟩ := membersOk_of_hasType root adds ext fs hwf.1.1.2 h
        simp only [embed, tcheck]
        rw [tcheckMembers_ok root fs hwf.1.1.1.1 h1, tcheckMembers_ok adds fs hwf.1.1.1.2 h2]
      | _ => simp [hasType] at h
    | sequenceOf e c =>
      cases v with
      | list vs =>
        simp only [Ty.wf, Bool.and_eq_true] at hwf
        simp only [hasType, Bool.and_eq_true, List.all_eq_true] at h
        simp only [embed, tcheck]
        rw [firstSome_eq_none_iff]
        intro x hx
        obtain ⟨w, hw, rfl⟩ := mem_embedList x vs hx
        exact tcheck_ok e w hwf.1 (h.1 w hw)
      | _ => simp [hasType] at h
    | choice root ext adds =>
      cases v with
      | choice n w =>
        simp only [Ty.wf, Bool.and_eq_true, decide_eq_true_eq] at hwf
        have hnd := hwf.1.2
        rw [List.nodup_append] at hnd
        simp only [hasType, Bool.or_eq_true] at h
        simp only [embed, tcheck]
        rcases h with h | h
        · rw [tcheckAlt_ok root n w hwf.1.1.1.1 h]
        · have hin := mem_names_of_hasAlt n w adds h
          have hout : n ∉ root.names := fun hr => hnd.2.2 n hr n hin rfl
          rw [tcheckAlt_none_of_not_mem n (embed w) root hout, tcheckAlt_ok adds n w hwf.1.1.1.2 h]
      | _ => simp [hasType] at h
    | boolean => cases v <;> simp [hasType] at h <;> exact tcheck_ok_leaf _ _ rfl rfl
    | null => cases v <;> simp [hasType] at h <;> exact tcheck_ok_leaf _ _ rfl rfl
    | integer c => cases v <;> simp [hasType] at h <;> exact tcheck_ok_leaf _ _ rfl rfl
    | enumerated r e => cases v <;> simp [hasType] at h <;> exact tcheck_ok_leaf _ _ rfl rfl
    | octetString c => cases v <;> simp [hasType] at h <;> exact tcheck_ok_leaf _ _ rfl rfl
    | charString k c => cases v <;> simp [hasType] at h <;> exact tcheck_ok_leaf _ _ rfl rfl
    | bitString c =>
      cases v with
      | bits d n =>
        simp only [hasType, Bool.and_eq_true, decide_eq_true_eq] at h
        refine tcheck_ok_leaf _ _ rfl ?_
        simp only [embed, shapeOk, decide_eq_true_eq]
        omega
      | _ => simp [hasType] at h
  theorem tcheckMembers_ok (ms : Members) (fs : List (String × Val)) (hwf : ms.wf = true)
      (h : membersOk ms fs = true) : tcheckMembers ms (embed.embedFields fs) = none := by
    cases ms with
    | nil => simp [tcheckMembers]
    | cons name p t rest =>
      simp only [Members.wf, Bool.and_eq_true] at hwf
      simp only [membersOk, Bool.and_eq_true] at h
      simp only [tcheckMembers, lookup_embedFields]
      cases hl : lookup name fs with
      | none => simpa using tcheckMembers_ok rest fs hwf.2 h.2
      | some x =>
        have hx : hasType t x = true := by simpa [hl] using h.1
        simp only [Option.map_some, tcheck_ok t x hwf.1 hx]
        exact tcheckMembers_ok rest fs hwf.2 h.2
  theorem tcheckAlt_ok (as : Alts) (n : String) (v : Val) (hwf : as.wf = true)
      (h : hasAlt as n v = true) : tcheckAlt as (strOfName n) (embed v) = some none := by
    cases as with
    | nil => simp [hasAlt] at h
    | cons m t rest =>
      simp only [Alts.wf, Bool.and_eq_true] at hwf
      simp only [hasAlt] at h
      simp only [tcheckAlt, strOfName_beq]
      by_cases hm : (m == n) = true
      · simp only [hm, if_true] at h ⊢
        simp [tcheck_ok t v hwf.1 h]
      · simp only [hm] at h ⊢
        exact tcheckAlt_ok rest n v hwf.2 h
end

/-! ### B. the reported path leads to a component of the wrong shape -/

theorem path_leaf (t : Ty) (v : PyVal) (p : List String) (hc : composite t v = false)
    (h : tcheck t v = some p) : ∃ c ∈ preach t v p, shapeOk c.1 c.2 = false := by
  rw [tcheck_leaf t v hc] at h
  cases hl : shapeOk t v
  · simp only [hl, Bool.false_eq_true, if_false, Option.some.injEq] at h
    subst h
    rw [preach_leaf_nil t v hc]
    exact ⟨(t, v), by simp, hl⟩
  · simp [hl] at h

mutual
  theorem path_tcheck (t : Ty) (v : PyVal) (p : List String) (h : tcheck t v = some p) :
      ∃ c ∈ preach t v p, shapeOk c.1 c.2 = false := by
    cases t with
    | sequence root e adds =>
      cases hc : composite (.sequence root e adds) v with
      | false => exact path_leaf _ _ _ hc h
      | true =>
        obtain ⟨fs, rfl⟩ := composite_sequence hc
        simp only [tcheck] at h
        have key : ∃ name p', p = name :: p' ∧
            ((∃ c ∈ preachMembers root fs name p', shapeOk c.1 c.2 = false) ∨
             (∃ c ∈ preachMembers adds fs name p', shapeOk c.1 c.2 = false)) := by
          cases hr : tcheckMembers root fs with
          | some q =>
            simp only [hr, Option.some.injEq] at h
            subst h
            obtain ⟨name, p', hp, hc⟩ := path_members root fs q hr
            exact ⟨name, p', hp, Or.inl hc⟩
          | none =>
            simp only [hr] at h
            obtain ⟨name, p', hp, hc⟩ := path_members adds fs p h
            exact ⟨name, p', hp, Or.inr hc⟩
        obtain ⟨name, p', rfl, hc⟩ := key
        simp only [preach, List.mem_append]
        rcases hc with ⟨c, hc, hb⟩ | ⟨c, hc, hb⟩
        · exact ⟨c, Or.inl hc, hb⟩
        · exact ⟨c, Or.inr hc, hb⟩
    | sequenceOf e c =>
      cases hc : composite (.sequenceOf e c) v with
      | false => exact path_leaf _ _ _ hc h
      | true =>
        obtain ⟨xs, rfl⟩ := composite_sequenceOf hc
        simp only [tcheck] at h
        obtain ⟨x, hx, hcx⟩ := firstSome_eq_some _ _ _ h
        obtain ⟨c', hc', hb⟩ := path_tcheck e x p hcx
        refine ⟨c', ?_, hb⟩
        simp only [preach, List.mem_append, List.mem_flatMap]
        exact Or.inr ⟨x, hx, hc'⟩
    | choice root ext adds =>
      cases hc : composite (.choice root ext adds) v with
      | false => exact path_leaf _ _ _ hc h
      | true =>
        obtain ⟨n, x, rfl⟩ := composite_choice hc
        simp only [tcheck] at h
        cases hr : tcheckAlt root n x with
        | some r =>
          simp only [hr] at h
          subst h
          obtain ⟨m, p', rfl, hm, c, hc, hb⟩ := path_alt root n x p hr
          exact ⟨c, by simp [preach, hm, hc], hb⟩
        | none =>
          simp only [hr] at h
          cases ha : tcheckAlt adds n x with
          | some r =>
            simp only [ha] at h
            subst h
            obtain ⟨m, p', rfl, hm, c, hc, hb⟩ := path_alt adds n x p ha
            exact ⟨c, by simp [preach, hm, hc], hb⟩
          | none =>
            simp only [ha, Option.some.injEq] at h
            subst h
            refine ⟨(.choice root ext adds, .tuple [.str n, x]), by simp [preach], ?_⟩
            simp only [shapeOk, List.any_append, any_false_of_tcheckAlt_none n x root hr,
              any_false_of_tcheckAlt_none n x adds ha, Bool.or_self]
    | _ => exact path_leaf _ _ _ (by cases v <;> rfl) h
  theorem path_members (ms : Members) (fs : List (String × PyVal)) (p : List String)
      (h : tcheckMembers ms fs = some p) :
      ∃ name p', p = name :: p' ∧ ∃ c ∈ preachMembers ms fs name p', shapeOk c.1 c.2 = false := by
    cases ms with
    | nil => simp [tcheckMembers] at h
    | cons m pr t rest =>
      simp only [tcheckMembers] at h
      have tail : tcheckMembers rest fs = some p →
          ∃ name p', p = name :: p' ∧
            ∃ c ∈ preachMembers (.cons m pr t rest) fs name p', shapeOk c.1 c.2 = false := by
        intro h'
        obtain ⟨name, p', hp, c, hc, hb⟩ := path_members rest fs p h'
        exact ⟨name, p', hp, c, by simp [preachMembers, hc], hb⟩
      cases hl : lookup m fs with
      | none =>
        simp only [hl] at h
        exact tail h
      | some x =>
        simp only [hl] at h
        cases hc : tcheck t x with
        | none =>
          simp only [hc] at h
          exact tail h
        | some q =>
          simp only [hc, Option.some.injEq] at h
          subst h
          obtain ⟨c, hcr, hb⟩ := path_tcheck t x q hc
          exact ⟨m, q, rfl, c, by simp [preachMembers, hl, hcr], hb⟩
  theorem path_alt (as : Alts) (n : List Nat) (v : PyVal) (p : List String)
      (h : tcheckAlt as n v = some (some p)) :
      ∃ m p', p = m :: p' ∧ (strOfName m == n) = true ∧
        ∃ c ∈ preachAlt as n v p', shapeOk c.1 c.2 = false := by
    cases as with
    | nil => simp [tcheckAlt] at h
    | cons m t rest =>
      simp only [tcheckAlt] at h
      by_cases hm : (strOfName m == n) = true
      · simp only [hm, if_true, Option.some.injEq] at h
        cases hc : tcheck t v with
        | none => simp [hc] at h
        | some q =>
          simp only [hc, Option.map_some, Option.some.injEq] at h
          subst h
          obtain ⟨c, hcr, hb⟩ := path_tcheck t v q hc
          exact ⟨m, q, rfl, hm, c, by simp [preachAlt, hm, hcr], hb⟩
      · simp only [hm] at h
        obtain ⟨m', p', hp, hm', c, hc, hb⟩ := path_alt rest n v p h
        exact ⟨m', p', hp, hm', c, by simp [preachAlt, hm, hc], hb⟩
end

end TypeCheck
end Asn1
