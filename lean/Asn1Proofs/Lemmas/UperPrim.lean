import Asn1Model.Typing
/-
  Primitive lemmas for the UPER round-trip proof: bit vectors, readers, length determinants.
-/
set_option linter.unusedSimpArgs false
namespace Asn1

/-! ### natToBits / bitsToNat -/

@[simp] theorem natToBits_length (w n : Nat) : (natToBits w n).length = w := by
  induction w generalizing n with
  | zero => rfl
  | succ w ih => simp [natToBits, ih]

theorem bitsToNat_nil : bitsToNat [] = 0 := rfl

theorem foldl_bits_acc (bs : Bits) (a : Nat) :
    bs.foldl (fun acc b => 2 * acc + (if b then 1 else 0)) a
      = a * 2 ^ bs.length + bs.foldl (fun acc b => 2 * acc + (if b then 1 else 0)) 0 := by
  induction bs generalizing a with
  | nil => simp
  | cons b r ih =>
    simp only [List.foldl_cons, List.length_cons]
    rw [ih (2 * a + _), ih (2 * 0 + _)]
    rw [Nat.pow_succ]
    simp only [Nat.mul_zero, Nat.zero_add, Nat.add_mul]
    rw [Nat.mul_comm 2 a, Nat.mul_assoc, Nat.mul_comm 2 (2 ^ r.length)]
    omega

theorem bitsToNat_append (a b : Bits) :
    bitsToNat (a ++ b) = bitsToNat a * 2 ^ b.length + bitsToNat b := by
  unfold bitsToNat
  rw [List.foldl_append, foldl_bits_acc]

theorem bitsToNat_single (b : Bool) : bitsToNat [b] = if b then 1 else 0 := by
  cases b <;> rfl

theorem bitsToNat_natToBits (w n : Nat) : bitsToNat (natToBits w n) = n % 2 ^ w := by
  induction w generalizing n with
  | zero => simp [natToBits, bitsToNat, Nat.mod_one]
  | succ w ih =>
    rw [natToBits, bitsToNat_append, ih, bitsToNat_single]
    simp only [List.length_singleton, Nat.pow_one]
    have h2 : n % 2 ^ (w + 1) = 2 * (n / 2 % 2 ^ w) + n % 2 := by
      rw [Nat.pow_succ, Nat.mul_comm (2 ^ w) 2, Nat.mod_mul]
      omega
    rw [h2]
    have : n % 2 = 0 ∨ n % 2 = 1 := by omega
    rcases this with h | h <;> simp [h] <;> omega

theorem bitsToNat_natToBits_of_lt {w n : Nat} (h : n < 2 ^ w) : bitsToNat (natToBits w n) = n := by
  rw [bitsToNat_natToBits, Nat.mod_eq_of_lt h]

theorem bitsToNat_cons (b : Bool) (r : Bits) :
    bitsToNat (b :: r) = (if b then 1 else 0) * 2 ^ r.length + bitsToNat r := by
  have := bitsToNat_append [b] r
  rw [bitsToNat_single] at this
  simpa using this

theorem bitsToNat_lt (bs : Bits) : bitsToNat bs < 2 ^ bs.length := by
  induction bs with
  | nil => simp [bitsToNat]
  | cons b r ih =>
    rw [bitsToNat_cons]
    simp only [List.length_cons, Nat.pow_succ]
    cases b <;> simp <;> omega

/-- the top bit of a `w+1`-bit number below `2^w` is clear -/
theorem natToBits_succ_of_lt {w n : Nat} (h : n < 2 ^ w) :
    natToBits (w + 1) n = false :: natToBits w n := by
  induction w generalizing n with
  | zero =>
    have : n = 0 := by simpa using h
    subst this; rfl
  | succ w ih =>
    rw [natToBits, ih (by rw [Nat.pow_succ] at h; omega)]
    rfl

theorem natToBits_succ_of_ge {w n : Nat} (h : 2 ^ w ≤ n) (h2 : n < 2 ^ (w + 1)) :
    natToBits (w + 1) n = true :: natToBits w (n - 2 ^ w) := by
  induction w generalizing n with
  | zero =>
    have : n = 1 := by simp at h h2; omega
    subst this; rfl
  | succ w ih =>
    have hp : 2 ^ (w + 1) = 2 * 2 ^ w := by rw [Nat.pow_succ]; omega
    have hp2 : 2 ^ (w + 1 + 1) = 2 * 2 ^ (w + 1) := by rw [Nat.pow_succ]; omega
    rw [natToBits, ih (n := n / 2) (by omega) (by omega)]
    show _ = true :: (natToBits w ((n - 2 ^ (w + 1)) / 2) ++ [(n - 2 ^ (w + 1)) % 2 == 1])
    have e1 : (n - 2 ^ (w + 1)) / 2 = n / 2 - 2 ^ w := by omega
    have e2 : (n - 2 ^ (w + 1)) % 2 = n % 2 := by omega
    rw [e1, e2]; rfl

theorem natToBits_add (w1 w2 n : Nat) :
    natToBits (w1 + w2) n = natToBits w1 (n / 2 ^ w2) ++ natToBits w2 n := by
  induction w2 generalizing n with
  | zero => simp [natToBits]
  | succ w2 ih =>
    rw [← Nat.add_assoc, natToBits, ih, natToBits, List.append_assoc]
    rw [Nat.div_div_eq_div_mul, Nat.pow_succ, Nat.mul_comm 2]

theorem natToBits_mod (w n : Nat) : natToBits w (n % 2 ^ w) = natToBits w n := by
  induction w generalizing n with
  | zero => rfl
  | succ w ih =>
    rw [natToBits, natToBits]
    have h1 : n % 2 ^ (w + 1) / 2 = n / 2 % 2 ^ w := by
      rw [Nat.pow_succ, Nat.mul_comm, Nat.mod_mul_right_div_self]
    have h2 : n % 2 ^ (w + 1) % 2 = n % 2 := by
      rw [Nat.pow_succ, Nat.mul_comm, Nat.mod_mul_right_mod]
    rw [h1, h2, ih]

/-! ### bitLength -/

theorem lt_two_pow_bitLength (n : Nat) : n < 2 ^ bitLength n := by
  unfold bitLength
  split
  · subst_vars; simp
  · exact Nat.lt_log2_self

theorem lt_two_pow_bitLength_of_le {m n : Nat} (h : m ≤ n) : m < 2 ^ bitLength n :=
  Nat.lt_of_le_of_lt h (lt_two_pow_bitLength n)

theorem bitLength_le_of_lt_pow {n w : Nat} (h : n < 2 ^ w) : bitLength n ≤ w := by
  unfold bitLength
  split
  · omega
  · rename_i hn
    have := (Nat.log2_lt hn).2 h
    omega

theorem two_pow_le_of_bitLength {n : Nat} (hn : n ≠ 0) : 2 ^ (bitLength n - 1) ≤ n := by
  unfold bitLength
  simp only [hn, if_false, Nat.add_sub_cancel]
  exact Nat.log2_self_le hn

namespace Uper

/-! ### readers -/

theorem splitAux_append (a b acc : Bits) :
    splitAux a.length (a ++ b) acc = some (acc.reverse ++ a, b) := by
  induction a generalizing acc with
  | nil => simp [splitAux]
  | cons x r ih =>
    simp only [List.length_cons, List.cons_append, splitAux]
    rw [ih]; simp

theorem splitExact_append {n : Nat} (a b : Bits) (h : a.length = n) :
    splitExact n (a ++ b) = some (a, b) := by
  subst h; unfold splitExact; rw [splitAux_append]; simp

theorem readBits_append {n : Nat} (a b : Bits) (h : a.length = n) :
    readBits n (a ++ b) = .ok (a, b) := by
  unfold readBits; rw [splitExact_append a b h]

theorem readBits_zero (b : Bits) : readBits 0 b = .ok ([], b) := rfl

theorem readNat_append {n : Nat} (a b : Bits) (h : a.length = n) :
    readNat n (a ++ b) = .ok (bitsToNat a, b) := by
  unfold readNat; rw [splitExact_append a b h]

theorem readNat_natToBits {w n : Nat} (rest : Bits) (h : n < 2 ^ w) :
    readNat w (natToBits w n ++ rest) = .ok (n, rest) := by
  rw [readNat_append _ _ (natToBits_length w n), bitsToNat_natToBits_of_lt h]

theorem readBit_cons (b : Bool) (r : Bits) : readBit (b :: r) = .ok (b, r) := rfl

/-! ### length determinant -/

theorem lenDet_snd_of_lt {n : Nat} (h : n < 16384) : (lenDet n).2 = n := by
  unfold lenDet; split
  · rfl
  · simp [h]

theorem lenDet_snd_le (n : Nat) : (lenDet n).2 ≤ n := by
  unfold lenDet; repeat' split
  all_goals simp only; omega

theorem lenDet_length_ge (n : Nat) : 8 ≤ (lenDet n).1.length := by
  unfold lenDet; repeat' split
  all_goals simp

theorem readLenDet_lenDet (n : Nat) (rest : Bits) :
    readLenDet ((lenDet n).1 ++ rest) = .ok ((lenDet n).2, rest) := by
  unfold lenDet
  split
  · rename_i h
    simp only [readLenDet, bind, Except.bind]
    rw [readNat_natToBits rest (by omega)]
    simp [h]
  split
  · rename_i h1 h
    have hs : natToBits 16 (0x8000 + n) = natToBits 8 (128 + n / 256) ++ natToBits 8 (n % 256) := by
      rw [natToBits_add 8 8, ← natToBits_mod 8 (0x8000 + n)]
      congr 2 <;> omega
    simp only [readLenDet, bind, Except.bind]
    rw [hs, List.append_assoc, readNat_natToBits _ (by omega)]
    have h2 : ¬ (128 + n / 256 < 128) := by omega
    have h3 : 128 + n / 256 < 192 := by omega
    simp only [h2, h3, if_true, if_false]
    rw [readNat_natToBits _ (by omega)]
    simp only [Except.ok.injEq, Prod.mk.injEq, and_true]
    omega
  have key : ∀ v k, 192 < v → v < 256 →
      (if v = 0xc1 then (.ok (16384, rest) : DecM (Nat × Bits))
       else if v = 0xc2 then .ok (32768, rest) else if v = 0xc3 then .ok (49152, rest)
       else if v = 0xc4 then .ok (65536, rest) else .error .decodeError) = .ok (k, rest) →
      readLenDet (natToBits 8 v ++ rest) = .ok (k, rest) := by
    intro v k h1 h2 h3
    simp only [readLenDet, bind, Except.bind]
    rw [readNat_natToBits rest (by omega)]
    have h4 : ¬ v < 128 := by omega
    have h5 : ¬ v < 192 := by omega
    simp only [h4, h5, if_false]
    exact h3
  repeat' split
  all_goals exact key _ _ (by omega) (by omega) (by simp)

end Uper

end Asn1
