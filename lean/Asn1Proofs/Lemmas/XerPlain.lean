import Asn1Proofs.Lemmas.XerRoundtrip
import Asn1Proofs.Lemmas.XmlParse
/-
  The element tree the XER encoder builds is `XmlT.plain` (ASCII names, character data XML can
  carry, text or children), provided the identifiers of the type are XML names and the character
  strings of the value consist of XML-legal characters other than CR.  Together with
  `Xml.parse_renderDoc` and `Xer.rt_all` this gives the document-level round trip.
-/
set_option linter.unusedSimpArgs false

namespace Asn1.Xer
open Asn1.Xml Asn1.X690

def PL (t : Ty) : Prop :=
  ∀ (inList : Bool) (nm : String) (v : Val) (x : XmlT),
    namesOk t = true → nameOk nm = true → textOk t v = true → enc t inList nm v = .ok x →
    x.plain = true

theorem textChar_of_range (c : Nat) (h : 32 ≤ c ∧ c < 128) : isTextChar c = true := by
  simp only [isTextChar, isChar, Bool.and_eq_true, Bool.or_eq_true, decide_eq_true_eq, beq_iff_eq,
    bne_iff_ne]
  omega

theorem plain_leaf (nm : String) (text : List Nat) (hn : nameOk nm = true)
    (ht : text.all isTextChar = true) : (leaf nm text).plain = true := by
  simp only [leaf, XmlT.plain, plainList, Bool.and_eq_true, Bool.or_eq_true, List.isEmpty_nil]
  exact ⟨⟨⟨hn, ht⟩, Or.inr trivial⟩, trivial⟩

theorem plain_node (nm : String) (kids : List XmlT) (hn : nameOk nm = true)
    (hk : plainList kids = true) : (XmlT.elem nm [] kids).plain = true := by
  simp only [XmlT.plain, Bool.and_eq_true, Bool.or_eq_true, List.isEmpty_nil, List.all_nil]
  exact ⟨⟨⟨hn, trivial⟩, Or.inl trivial⟩, hk⟩

theorem plainList_append (a b : List XmlT) (ha : plainList a = true) (hb : plainList b = true) :
    plainList (a ++ b) = true := by
  induction a with
  | nil => exact hb
  | cons x r ih =>
    simp only [plainList, Bool.and_eq_true, List.cons_append] at ha ⊢
    exact ⟨ha.1, ih ha.2⟩

theorem nameOk_typeName (t : Ty) : nameOk (typeName t) = true := by
  cases t with
  | charString k c => cases k <;> simp only [typeName] <;> decide
  | _ => simp only [typeName] <;> decide

/-! ### leaves -/

theorem intText_chars (i : Int) (t : List Nat) (h : intText i = .ok t) :
    t.all isTextChar = true := by
  unfold intText at h
  simp only [] at h
  split at h
  · cases h
  · cases h
    have hd := natToDec_digits i.natAbs
    have hall : (natToDec i.natAbs).all isTextChar = true := by
      simp only [List.all_eq_true] at hd ⊢
      intro c hc
      have := hd c hc
      simp only [isDigit, Bool.and_eq_true, decide_eq_true_eq] at this
      exact textChar_of_range c (by omega)
    split
    · simp only [List.all_cons, hall, Bool.and_true]
      exact textChar_of_range 45 (by omega)
    · exact hall

theorem hexText_chars (bs : Bytes) : (hexText bs).all isTextChar = true := by
  have hd : ∀ n, n < 16 → isTextChar (hexDigitU n) = true := by
    intro n hn
    apply textChar_of_range
    unfold hexDigitU
    split <;> omega
  induction bs with
  | nil => rfl
  | cons b r ih =>
    simp only [hexText, List.flatMap_cons, List.all_append, List.all_cons, List.all_nil, Bool.and_true,
      Bool.and_eq_true] at ih ⊢
    exact ⟨⟨hd _ (Nat.mod_lt _ (by omega)), hd _ (by omega)⟩, ih⟩

theorem bitText_chars (bs : Bits) : (bitText bs).all isTextChar = true := by
  simp only [bitText, List.all_map, List.all_eq_true]
  intro b _
  cases b <;> decide

theorem pl_boolean : PL .boolean := by
  intro inList nm v x hno hnm ht h
  cases v <;> simp only [enc] at h <;> try cases h
  case bool b =>
    have hitem : (leaf (if b = true then "true" else "false") []).plain = true := by
      cases b <;> decide
    cases inList
    · simp only [Bool.false_eq_true, if_false] at h
      cases h
      exact plain_node nm _ hnm (by simp only [plainList, hitem, Bool.and_true])
    · simp only [if_true] at h
      cases h
      exact hitem

theorem pl_null : PL .null := by
  intro inList nm v x hno hnm ht h
  simp only [enc] at h
  cases h
  exact plain_leaf nm [] hnm rfl

theorem pl_integer (c : IntC) : PL (.integer c) := by
  intro inList nm v x hno hnm ht h
  cases v <;> simp only [enc] at h <;> try cases h
  case int i =>
    cases hit : intText i with
    | error e => rw [hit] at h; cases h
    | ok t =>
      rw [hit] at h
      cases h
      exact plain_leaf nm t hnm (intText_chars i t hit)

theorem pl_enumerated (root : List (String × Int)) (ext : Option (List (String × Int))) :
    PL (.enumerated root ext) := by
  intro inList nm v x hno hnm ht h
  cases v <;> simp only [enc] at h <;> try cases h
  case «enum» n =>
    split at h
    · rename_i hc
      have hn : nameOk n = true := by
        simp only [namesOk, List.all_eq_true] at hno
        exact hno n (by simpa using hc)
      have hitem : (leaf n []).plain = true := plain_leaf n [] hn rfl
      cases inList
      · simp only [Bool.false_eq_true, if_false] at h
        cases h
        exact plain_node nm _ hnm (by simp only [plainList, hitem, Bool.and_true])
      · simp only [if_true] at h
        cases h
        exact hitem
    · cases h

theorem pl_octetString (c : SizeC) : PL (.octetString c) := by
  intro inList nm v x hno hnm ht h
  cases v <;> simp only [enc] at h <;> try cases h
  case bytes bs => exact plain_leaf nm _ hnm (hexText_chars bs)

theorem pl_bitString (c : SizeC) : PL (.bitString c) := by
  intro inList nm v x hno hnm ht h
  cases v <;> simp only [enc] at h <;> try cases h
  case bits data n =>
    split at h
    · cases h
    · cases h
      exact plain_leaf nm _ hnm (bitText_chars _)

theorem pl_charString (k : StrKind) (c : SizeC) : PL (.charString k c) := by
  intro inList nm v x hno hnm ht h
  cases v <;> simp only [enc] at h <;> try cases h
  case str cps =>
    simp only [textOk] at ht
    exact plain_leaf nm cps hnm ht

/-! ### constructed types -/

theorem pl_members (ms : Members) (hall : Members.AllO PL ms) (fs : List (String × Val))
    (hno : namesOkMembers ms = true) (ht : textOkMembers ms fs = true) (xs : List XmlT)
    (h : encMembers ms fs = .ok xs) : plainList xs = true := by
  induction ms using Members.ind generalizing xs with
  | nil => simp only [encMembers] at h; cases h; rfl
  | cons name p t rest ih =>
    simp only [namesOkMembers, Bool.and_eq_true] at hno
    simp only [textOkMembers, Bool.and_eq_true] at ht
    simp only [encMembers] at h
    cases hl : lookup name fs with
    | some v =>
      rw [hl] at h ht
      simp only [] at h
      cases hx : enc t false name v with
      | error e => rw [hx] at h; cases h
      | ok x =>
        rw [hx] at h
        simp only [] at h
        cases hr : encMembers rest fs with
        | error e => rw [hr] at h; cases h
        | ok r =>
          rw [hr] at h
          cases h
          simp only [plainList, Bool.and_eq_true]
          exact ⟨hall.1 false name v x hno.1.2 hno.1.1 ht.1 hx, ih hall.2 hno.2 ht.2 r hr⟩
    | none =>
      rw [hl] at h
      cases p with
      | mandatory => cases h
      | optional => exact ih hall.2 hno.2 ht.2 xs h
      | «default» d => exact ih hall.2 hno.2 ht.2 xs h

theorem pl_sequence (root : Members) (ext : Bool) (adds : Members)
    (ihr : Members.AllO PL root) (iha : Members.AllO PL adds) : PL (.sequence root ext adds) := by
  intro inList nm v x hno hnm ht h
  cases v <;> simp only [enc] at h <;> try cases h
  case record fs =>
    simp only [namesOk, Bool.and_eq_true] at hno
    simp only [textOk, Bool.and_eq_true] at ht
    cases ha : encMembers root fs with
    | error e => rw [ha] at h; cases h
    | ok a =>
      rw [ha] at h
      simp only [] at h
      cases hb : encMembers adds fs with
      | error e => rw [hb] at h; cases h
      | ok b =>
        rw [hb] at h
        cases h
        exact plain_node nm _ hnm (plainList_append a b (pl_members root ihr fs hno.1 ht.1 a ha)
          (pl_members adds iha fs hno.2 ht.2 b hb))

theorem pl_list (e : Ty) (ih : PL e) (hno : namesOk e = true) (vs : List Val)
    (ht : ∀ v ∈ vs, textOk e v = true) (xs : List XmlT)
    (h : vs.mapM (enc e true (typeName e)) = .ok xs) : plainList xs = true := by
  induction vs generalizing xs with
  | nil => simp [pure, Except.pure] at h; cases h; rfl
  | cons v r ihr =>
    rw [List.mapM_cons] at h
    cases hx : enc e true (typeName e) v with
    | error err => rw [hx] at h; simp [bind, Except.bind] at h
    | ok x =>
      cases hr : r.mapM (enc e true (typeName e)) with
      | error err => rw [hx, hr] at h; simp [bind, Except.bind] at h
      | ok rs =>
        rw [hx, hr] at h
        simp [bind, Except.bind, pure, Except.pure] at h
        cases h
        simp only [plainList, Bool.and_eq_true]
        exact ⟨ih true (typeName e) v x hno (nameOk_typeName e) (ht v (List.mem_cons_self ..)) hx,
          ihr (fun w hw => ht w (List.mem_cons_of_mem _ hw)) rs hr⟩

theorem pl_sequenceOf (e : Ty) (c : SizeC) (ih : PL e) : PL (.sequenceOf e c) := by
  intro inList nm v x hno hnm ht h
  cases v <;> simp only [enc] at h <;> try cases h
  case list vs =>
    simp only [namesOk] at hno
    simp only [textOk, List.all_eq_true] at ht
    cases hm : vs.mapM (enc e true (typeName e)) with
    | error err => rw [hm] at h; cases h
    | ok xs =>
      rw [hm] at h
      cases h
      exact plain_node nm xs hnm (pl_list e ih hno vs ht xs hm)

theorem pl_alts (as : Alts) (hall : Alts.AllO PL as) (hno : namesOkAlts as = true) (n : String)
    (v : Val) (ht : textOkAlt as n v = true) (x : XmlT) (h : encAlt as n v = some (.ok x)) :
    x.plain = true := by
  induction as using Alts.ind with
  | nil => simp [encAlt] at h
  | cons m t rest ih =>
    simp only [namesOkAlts, Bool.and_eq_true] at hno
    simp only [encAlt] at h
    simp only [textOkAlt] at ht
    by_cases hm : (m == n) = true
    · rw [if_pos hm] at h ht
      simp only [Option.some.injEq] at h
      exact hall.1 false m v x hno.1.2 hno.1.1 ht h
    · rw [if_neg hm] at h ht
      exact ih hall.2 hno.2 ht h

theorem pl_choice (root : Alts) (ext : Bool) (adds : Alts)
    (ihr : Alts.AllO PL root) (iha : Alts.AllO PL adds) : PL (.choice root ext adds) := by
  intro inList nm v x hno hnm ht h
  cases v <;> simp only [enc] at h <;> try cases h
  case choice n v =>
    simp only [namesOk, Bool.and_eq_true] at hno
    simp only [textOk, Bool.and_eq_true] at ht
    have fin : ∀ y : XmlT, y.plain = true →
        (if inList = true then (Except.ok y : EncM XmlT) else .ok (.elem nm [] [y])) = .ok x →
        x.plain = true := by
      intro y hy hx
      cases inList
      · simp only [Bool.false_eq_true, if_false] at hx
        cases hx
        exact plain_node nm _ hnm (by simp only [plainList, hy, Bool.and_true])
      · simp only [if_true] at hx
        cases hx
        exact hy
    cases hr : encAlt root n v with
    | some r =>
      rw [hr] at h
      cases r with
      | error e => cases h
      | ok y => exact fin y (pl_alts root ihr hno.1 n v ht.1 y hr) h
    | none =>
      rw [hr] at h
      simp only [] at h
      cases ha : encAlt adds n v with
      | some r =>
        rw [ha] at h
        cases r with
        | error e => cases h
        | ok y => exact fin y (pl_alts adds iha hno.2 n v ht.2 y ha) h
      | none => rw [ha] at h; cases h

theorem pl_all (t : Ty) : PL t :=
  Ty.rec (motive_1 := PL) (motive_2 := Members.AllO PL) (motive_3 := Alts.AllO PL)
    pl_boolean pl_null pl_integer pl_enumerated pl_octetString pl_bitString pl_charString
    (fun root ext adds ihr iha => pl_sequence root ext adds ihr iha)
    (fun e c ih => pl_sequenceOf e c ih)
    (fun root ext adds ihr iha => pl_choice root ext adds ihr iha)
    trivial (fun _ _ _ _ iht ihr => ⟨iht, ihr⟩)
    trivial (fun _ _ _ iht ihr => ⟨iht, ihr⟩) t

/-! ### documents -/

theorem utf8Dec_ascii (l : List Nat) (h : ∀ c ∈ l, c < 128) (fuel : Nat) (hf : l.length + 1 ≤ fuel) :
    Uper.utf8Dec fuel l = some l := by
  induction l generalizing fuel with
  | nil =>
    match fuel, hf with
    | fuel + 1, _ => simp only [Uper.utf8Dec]
  | cons c r ih =>
    match fuel, hf with
    | fuel + 1, hf =>
      have hc := h c (List.mem_cons_self ..)
      unfold Uper.utf8Dec
      rw [if_pos (by omega), ih (fun d hd => h d (List.mem_cons_of_mem _ hd)) fuel
        (by simp only [List.length_cons] at hf; omega)]
      rfl

/-- reading a written document gives the tree back -/
theorem parseDoc_renderDoc (ind : Option Nat) (x : XmlT) (hp : x.plain = true) :
    parseDoc (renderDoc ind x) = .ok x := by
  unfold parseDoc
  rw [utf8Dec_ascii _ (fun c hc => (outOk_renderDoc ind x hp c hc).2) _ (Nat.le_refl _)]
  exact parse_renderDoc ind x hp

end Asn1.Xer
