import Asn1Proofs.Lemmas.X691Leaf
/-
  The UNALIGNED specification encoder against the code model `Uper.enc`: SEQUENCE, SEQUENCE OF,
  CHOICE and the induction over all types.
-/
set_option linter.unusedSimpArgs false
namespace Asn1.X691
open Asn1.Uper (lenDet encChunks encChunked padToByte)

/-! ### SEQUENCE: preamble and root components -/

theorem encPreamble_eq (root : Members) (fs : List (String × Val)) :
    Uper.encPreamble root fs = .ok (preamble root fs) := by
  induction root using Members.ind with
  | nil => rw [Uper.encPreamble.eq_def, preamble.eq_def]
  | cons name p t rest ih =>
    rw [Uper.encPreamble.eq_def, preamble.eq_def]
    simp only [ih]
    cases p with
    | mandatory => rfl
    | optional => rfl
    | default d =>
      simp only
      cases lookup name fs <;> rfl

/-- one root component -/
theorem here_ref (name : String) (p : Presence) (t : Ty) (fs : List (String × Val)) (pos : Nat)
    (a : Bits) (ht : REF t)
    (hd1 : (match (generalizing := false) lookup name fs with
      | some v =>
        (match (generalizing := false) p with
         | .default d => if isDefault t v d then [] else devs false t v
         | _ => devs false t v)
      | none => []) = [])
    (ha : (match (generalizing := false) lookup name fs with
          | some v =>
            match (generalizing := false) p with
            | .default d => if isDefault t v d then (.ok [] : EncM Bits) else enc false t pos v
            | _ => enc false t pos v
          | none =>
            match (generalizing := false) p with
            | .mandatory => invalid
            | _ => .ok []) = .ok a) :
    (match (generalizing := false) lookup name fs with
      | some v =>
        match (generalizing := false) p with
        | .default d => if (!(isDefault t v d) || false) = true then Uper.enc t v else .ok []
        | _ => Uper.enc t v
      | none =>
        match (generalizing := false) p with
        | .mandatory => (.error .encodeError : EncM Bits)
        | _ => .ok []) = .ok a := by
  cases hl : lookup name fs with
  | none =>
    rw [hl] at ha
    cases p <;> simp only [invalid] at ha ⊢ <;> first | exact ha | cases ha
  | some v =>
    rw [hl] at ha hd1
    cases p with
    | mandatory => exact ht v pos a hd1 ha
    | optional => exact ht v pos a hd1 ha
    | default d =>
      simp only at ha hd1 ⊢
      cases hdef : isDefault t v d with
      | true =>
        rw [hdef] at ha
        simpa using ha
      | false =>
        rw [hdef] at ha hd1
        simp only [Bool.false_eq_true, if_false] at ha hd1
        simp only [Bool.not_false, Bool.or_false, if_true]
        exact ht v pos a hd1 ha

theorem encRoot_ref (ms : Members) (hall : ms.All REF) :
    ∀ (fs : List (String × Val)) (pos : Nat) (bits : Bits),
      devsRoot false ms fs = [] → encRoot false ms fs pos = .ok bits →
      Uper.encMembers ms fs false = .ok bits := by
  induction ms using Members.ind with
  | nil =>
    intro fs pos bits _ h
    rw [encRoot.eq_def] at h
    rw [Uper.encMembers.eq_def]; exact h
  | cons name p t rest ih =>
    intro fs pos bits hd h
    obtain ⟨ht, hrest⟩ := hall
    rw [devsRoot.eq_def] at hd
    simp only at hd
    obtain ⟨hd1, hd2⟩ := List.append_eq_nil_iff.mp hd
    rw [encRoot.eq_def] at h
    rw [Uper.encMembers.eq_def]
    simp only at h ⊢
    have hhere := fun a => here_ref name p t fs pos a ht hd1
    split at h
    · cases h
    · rename_i a ha
      split at h
      · cases h
      · rename_i b hb
        cases h
        have e1 := hhere a ha
        rw [ih hrest fs _ b hd2 hb]
        split
        · rename_i a' b' heq1 heq2
          have := heq1.symm.trans e1
          cases this; cases heq2; rfl
        · rename_i e heq
          have := heq.symm.trans e1
          cases this
        · rename_i e hne heq
          cases hne

/-! ### SEQUENCE: extension additions -/

theorem eq_replicate_of_any_false (bs : Bits) (h : bs.any id = false) :
    bs = List.replicate bs.length false := by
  induction bs with
  | nil => rfl
  | cons b r ih =>
    simp only [List.any_cons, id, Bool.or_eq_false_iff] at h
    rw [List.length_cons, List.replicate_succ, ← ih h.2, h.1]

theorem encAdds_ref (ms : Members) (hall : ms.All REF) :
    ∀ (fs : List (String × Val)) (bitmap : Bits) (encs : List Bits),
      devsAdds false ms fs = [] → encAdds false ms fs = .ok (bitmap, encs) →
      ∃ present, Uper.encAdditions ms fs = (present, encs) ∧
        bitmap = present ++ List.replicate (ms.length - present.length) false ∧
        present.length ≤ ms.length ∧ bitmap.length = ms.length ∧
        (bitmap.any id = false ↔ encs = []) ∧
        (∀ e ∈ encs, e.isEmpty = false ∧ (complete e).length < 16384) := by
  induction ms using Members.ind with
  | nil =>
    intro fs bitmap encs _ h
    rw [encAdds.eq_def] at h
    cases h
    exact ⟨[], by rw [Uper.encAdditions.eq_def], rfl, Nat.le_refl _, rfl, by simp, by simp⟩
  | cons name p t rest ih =>
    intro fs bitmap encs hd h
    obtain ⟨ht, hrest⟩ := hall
    rw [devsAdds.eq_def] at hd
    simp only at hd
    obtain ⟨hd1, hd2⟩ := List.append_eq_nil_iff.mp hd
    rw [encAdds.eq_def] at h
    simp only at h
    cases hr : encAdds false rest fs with
    | error e => rw [hr] at h; cases h
    | ok pr =>
      obtain ⟨bm, es⟩ := pr
      rw [hr] at h
      simp only at h
      obtain ⟨present, hp1, hp2, hp3, hp4, hp5, hp6⟩ := ih hrest fs bm es hd2 hr
      rw [Uper.encAdditions.eq_def]
      simp only [Members.length]
      cases hl : lookup name fs with
      | some v =>
        rw [hl] at h hd1
        simp only at h hd1
        obtain ⟨hdv, hdo⟩ := List.append_eq_nil_iff.mp hd1
        cases he : enc false t 0 v with
        | error e => rw [he] at h; cases h
        | ok e =>
          rw [he] at h hdo
          cases h
          have hM := ht v 0 e hdv he
          simp only [hM, hp1, Option.isSome_some, or_true, if_true]
          unfold devsOpen at hdo
          simp only at hdo
          obtain ⟨ho1, ho2⟩ := List.append_eq_nil_iff.mp hdo
          have hne : e.isEmpty = false := by
            cases hh : e.isEmpty with
            | false => rfl
            | true => simp [hh] at ho1
          have hsm : (complete e).length < 16384 := by
            by_cases hh : (complete e).length ≥ 16384
            · simp [hh] at ho2
            · omega
          refine ⟨true :: present, rfl, ?_, by simp; omega, by simp [hp4], by simp, ?_⟩
          · rw [hp2]; simp
          · intro x hx
            rcases List.mem_cons.mp hx with hx | hx
            · subst hx; exact ⟨hne, hsm⟩
            · exact hp6 x hx
      | none =>
        rw [hl] at h
        simp only at h
        cases p with
        | mandatory =>
          simp only at h ⊢
          by_cases hany : bm.any id = true
          · rw [if_pos hany] at h; cases h
          · rw [if_neg hany] at h
            cases h
            have hany' : bm.any id = false := by simpa using hany
            have hes : encs = [] := hp5.mp hany'
            subst hes
            refine ⟨[], rfl, ?_, by simp, by simp [hp4], by simp [hany'], by simp⟩
            have := eq_replicate_of_any_false bm hany'
            rw [hp4] at this
            rw [this]
            simp [List.replicate_succ]
        | optional =>
          simp only at h ⊢
          cases h
          simp only [hp1, List.length_nil, Nat.lt_irrefl, Option.isSome_none, Bool.false_eq_true,
            or_self, if_false, gt_iff_lt]
          refine ⟨false :: present, rfl, ?_, by simp; omega, by simp [hp4], by simpa using hp5, hp6⟩
          rw [hp2]; simp
        | default d =>
          simp only at h ⊢
          cases h
          simp only [hp1, List.length_nil, Nat.lt_irrefl, Option.isSome_none, Bool.false_eq_true,
            or_self, if_false, gt_iff_lt]
          refine ⟨false :: present, rfl, ?_, by simp; omega, by simp [hp4], by simpa using hp5, hp6⟩
          rw [hp2]; simp

theorem openTypes_false (pos : Nat) (encs : List Bits)
    (h : ∀ e ∈ encs, e.isEmpty = false ∧ (complete e).length < 16384) :
    openTypes false pos encs =
      encs.flatMap (fun e => let p := padToByte e; (lenDet (p.length / 8)).1 ++ p) := by
  induction encs generalizing pos with
  | nil => rfl
  | cons e r ih =>
    rw [openTypes, List.flatMap_cons]
    simp only
    obtain ⟨h1, h2⟩ := h e (by simp)
    rw [openType_false _ _ h1 h2, ih _ (fun x hx => h x (by simp [hx]))]

theorem nsLength_false (pos : Nat) (bitmap : Bits) (h1 : 1 ≤ bitmap.length) (h2 : bitmap.length ≤ 127) :
    ∃ nl, Uper.encNsLength bitmap.length = .ok nl ∧ nsLength false pos bitmap = nl ++ bitmap := by
  unfold Uper.encNsLength nsLength
  by_cases h64 : bitmap.length ≤ 64
  · refine ⟨natToBits 7 (bitmap.length - 1), by rw [if_pos h64], ?_⟩
    simp only [h1, h64, and_self, if_true]
    rw [natToBits_succ_of_lt (w := 6) (by omega)]
  · refine ⟨natToBits 9 (0x100 + bitmap.length), by rw [if_neg h64, if_pos h2], ?_⟩
    simp only [h64, and_false, if_false]
    rw [genLen_false, encChunked_small _ (by simp; omega), flatten_map_singleton]
    simp only [List.length_map]
    have hl : (lenDet bitmap.length).1 = natToBits 8 bitmap.length := by
      unfold lenDet; rw [if_pos (by omega)]
    rw [hl, natToBits_succ_of_ge (w := 8) (by omega) (by omega)]
    have : 256 + bitmap.length - 2 ^ 8 = bitmap.length := by omega
    rw [this]
    rfl

theorem ref_sequence (root : Members) (extensible : Bool) (adds : Members)
    (hr : root.All REF) (ha : adds.All REF) : REF (.sequence root extensible adds) := by
  intro v pos bits hd h
  cases v <;> simp only [enc, invalid] at h <;> try (cases h)
  rename_i fs
  rw [devs] at hd
  simp only [List.append_eq_nil_iff] at hd
  obtain ⟨⟨_, hdr⟩, hda⟩ := hd
  split at h
  · cases h
  cases hb : encRoot false root fs
      (pos + (if extensible = true then 1 else 0) + (preamble root fs).length) with
  | error e => rw [hb] at h; cases h
  | ok body =>
    rw [hb] at h
    simp only at h
    have hM := encRoot_ref root hr fs _ body hdr hb
    simp only [Uper.enc]
    rw [encPreamble_eq, hM]
    simp only
    cases extensible with
    | false =>
      simp only [Bool.false_eq_true, if_false] at h ⊢
      exact h
    | true =>
      simp only [if_true] at h hda ⊢
      obtain ⟨hda1, hda2⟩ := List.append_eq_nil_iff.mp hda
      cases hadds : encAdds false adds fs with
      | error e => rw [hadds] at h; cases h
      | ok pr =>
        obtain ⟨bitmap, encs⟩ := pr
        rw [hadds] at h hda1
        simp only at h hda1
        obtain ⟨present, hp1, hp2, hp3, hp4, hp5, hp6⟩ := encAdds_ref adds ha fs bitmap encs hda2 hadds
        cases adds with
        | nil =>
          rw [encAdds.eq_def] at hadds
          cases hadds
          simp only [List.any_nil, Bool.false_eq_true, if_false] at h
          simpa using h
        | cons name p t rest =>
          simp only
          rw [hp1]
          simp only
          cases hany : bitmap.any id with
          | false =>
            rw [hany] at h
            simp only [Bool.false_eq_true, if_false] at h
            have := hp5.mp hany
            subst this
            simpa using h
          | true =>
            rw [hany] at h hda1
            simp only [if_true] at h hda1
            have hne : encs ≠ [] := by
              intro he
              have := hp5.mpr he
              rw [hany] at this; cases this
            have hemp : encs.isEmpty = false := by
              cases encs with
              | nil => exact absurd rfl hne
              | cons _ _ => rfl
            rw [hemp]
            simp only [Bool.false_eq_true, if_false]
            have hlen127 : (Members.cons name p t rest).length ≤ 127 := by
              by_cases hh : (Members.cons name p t rest).length > 127
              · simp [hh] at hda1
              · omega
            have hlen1 : 1 ≤ bitmap.length := by
              rw [hp4]; simp [Members.length]
            obtain ⟨nl, hnl1, hnl2⟩ := nsLength_false
              (pos + 1 + (preamble root fs).length + body.length) bitmap hlen1 (by rw [hp4]; exact hlen127)
            rw [hp4] at hnl1
            rw [hnl1]
            simp only
            rw [hnl2, openTypes_false _ _ hp6] at h
            rw [← hp2, ← h]
            simp

/-! ### SEQUENCE OF -/

theorem ref_sequenceOf (e : Ty) (c : SizeC) (ih : REF e) : REF (.sequenceOf e c) := by
  intro v pos bits hd h
  cases v <;> simp only [enc, invalid] at h <;> try (cases h)
  rename_i vs
  rw [devs] at hd
  simp only [List.append_eq_nil_iff] at hd
  obtain ⟨⟨hds, _⟩, hdv⟩ := hd
  have hdv' : ∀ v ∈ vs, devs false e v = [] := by
    intro v hv
    have := List.flatMap_eq_nil_iff.mp hdv v hv
    exact this
  have hfg : ∀ v ∈ vs, ∀ p b, enc false e p v = .ok b → Uper.enc e v = .ok b :=
    fun v hv p b hb => ih v p b (hdv' v hv) hb
  obtain ⟨items, hitems, hcase⟩ := extSizedM_false (enc false e) (Uper.enc e) c false false vs hfg pos bits h
  simp only [Uper.enc]
  rw [hitems]
  simp only
  have hlen : items.length = vs.length := mapM_length' _ _ _ hitems
  have hdvs := devsSize_nil _ _ _ hds
  by_cases hext : c.ext = true
  · obtain ⟨hhi, hout⟩ := hdvs hext
    rw [if_neg (by simp [hhi])]
    rcases hcase with ⟨_, hin, hb⟩ | ⟨hin, hb⟩
    · obtain ⟨_, hlt⟩ := hout hin
      rw [if_pos ⟨hext, by simp [hin]⟩, hb, encChunked_small _ (by rw [hlen]; exact hlt), hlen]
      simp
    · rw [if_neg (by simp [hin])]
      rw [hb]
      exact mShape c items vs.length _ _ hlen rfl
  · rcases hcase with ⟨he, _, _⟩ | ⟨hin, hb⟩
    · exact absurd he hext
    · rw [if_neg (by simp [hext]), if_neg (by simp [hext])]
      rw [hb]
      exact mShape c items vs.length _ _ hlen rfl

/-! ### CHOICE -/

theorem encAlt_none (alts : Alts) (name : String) (v : Val) (i : Nat)
    (h : indexOfName name alts.names = none) : Uper.encAlt alts name v i = none := by
  induction alts using Alts.ind generalizing i with
  | nil => rw [Uper.encAlt.eq_def]
  | cons n t rest ih =>
    rw [Alts.names, indexOfName] at h
    rw [Uper.encAlt.eq_def]
    simp only
    by_cases hn : (n == name) = true
    · rw [if_pos hn] at h; cases h
    · rw [if_neg hn] at h ⊢
      cases hi : indexOfName name rest.names with
      | none => exact ih _ hi
      | some j => rw [hi] at h; cases h

theorem encAlt_ref (alts : Alts) (hall : alts.All REF) (name : String) (v : Val) (pos : Nat)
    (body : Bits) (isOpen : Bool) (hpos : isOpen = true → pos = 0) :
    ∀ (i idx : Nat), indexOfName name alts.names = some idx →
      encAlt false alts name pos v = some (.ok body) →
      devsAlt false alts name v isOpen = [] →
      Uper.encAlt alts name v i = some (i + idx, .ok body) ∧
        (isOpen = true → body.isEmpty = false ∧ (complete body).length < 16384) := by
  induction alts using Alts.ind with
  | nil =>
    intro i idx h
    rw [Alts.names, indexOfName] at h; cases h
  | cons n t rest ih =>
    intro i idx hidx henc hd
    obtain ⟨ht, hrest⟩ := hall
    rw [Alts.names, indexOfName] at hidx
    rw [encAlt.eq_def] at henc
    rw [devsAlt.eq_def] at hd
    rw [Uper.encAlt.eq_def]
    simp only at henc hd ⊢
    by_cases hn : (n == name) = true
    · rw [if_pos hn] at hidx henc hd ⊢
      cases hidx
      obtain ⟨hd1, hd2⟩ := List.append_eq_nil_iff.mp hd
      have he : enc false t pos v = .ok body := by
        simpa using henc
      rw [ht v pos body hd1 he]
      refine ⟨rfl, ?_⟩
      intro ho
      -- for an open type the contents are encoded from position 0; in the UNALIGNED variant the
      -- encoding does not depend on the position
      rw [if_pos ho] at hd2
      have hp := hpos ho
      subst hp
      rw [he] at hd2
      unfold devsOpen at hd2
      simp only at hd2
      obtain ⟨ho1, ho2⟩ := List.append_eq_nil_iff.mp hd2
      constructor
      · cases hh : body.isEmpty with
        | false => rfl
        | true => simp [hh] at ho1
      · by_cases hh : (complete body).length ≥ 16384
        · simp [hh] at ho2
        · omega
    · rw [if_neg hn] at hidx henc hd ⊢
      cases hi : indexOfName name rest.names with
      | none => rw [hi] at hidx; cases hidx
      | some j =>
        rw [hi] at hidx
        cases hidx
        obtain ⟨h1, h2⟩ := ih hrest (i + 1) j hi henc hd
        refine ⟨?_, h2⟩
        rw [h1]
        have : i + 1 + j = i + (j + 1) := by omega
        rw [this]

theorem ref_choice (root : Alts) (extensible : Bool) (adds : Alts)
    (hr : root.All REF) (ha : adds.All REF) : REF (.choice root extensible adds) := by
  intro v pos bits hd h
  cases v <;> simp only [enc, invalid] at h <;> try (cases h)
  rename_i name v
  simp only [devs] at hd
  simp only [Uper.enc]
  cases hidx : indexOfName name root.names with
  | some idx =>
    rw [hidx] at h hd
    simp only at h hd
    split at h
    · rename_i body heq
      obtain ⟨hM, _⟩ := encAlt_ref root hr name v _ body false (by simp) 0 idx hidx heq hd
      rw [hM]
      simp only [Nat.zero_add]
      rw [cwn_false] at h
      by_cases hlen : root.length > 1
      · rw [if_pos hlen]; exact h
      · rw [if_neg hlen]
        have h0 : root.length - 1 = 0 := by omega
        rw [h0] at h
        exact h
    · cases h
    · cases h
  | none =>
    rw [hidx] at h hd
    simp only at h hd
    rw [encAlt_none root name v 0 hidx]
    simp only
    cases extensible with
    | false => simp at h
    | true =>
      simp only [if_true] at h hd ⊢
      cases hj : indexOfName name adds.names with
      | none => rw [hj] at h; cases h
      | some j =>
        rw [hj] at h hd
        simp only at h hd
        obtain ⟨hd1, hd2⟩ := List.append_eq_nil_iff.mp hd
        split at h
        · rename_i body heq
          obtain ⟨hM, hopen⟩ := encAlt_ref adds ha name v 0 body true (by simp) 0 j hj heq hd2
          obtain ⟨hne, hsm⟩ := hopen rfl
          rw [hM]
          simp only [Nat.zero_add]
          rw [nsnnwn_false, openType_false _ _ hne hsm] at h
          · rw [← h]; simp
          · intro h64
            unfold devsNsnnwn at hd1
            by_cases hk : minOctets j ≥ 16384
            · simp [h64, hk] at hd1
            · omega
        · cases h
        · cases h

/-! ### all types -/

theorem ref_all (t : Ty) : REF t :=
  Ty.rec (motive_1 := REF) (motive_2 := Members.All REF) (motive_3 := Alts.All REF)
    ref_boolean ref_null ref_integer ref_enumerated ref_octetString ref_bitString ref_charString
    (fun root ext adds ihr iha => ref_sequence root ext adds ihr iha)
    (fun e c ih => ref_sequenceOf e c ih)
    (fun root ext adds ihr iha => ref_choice root ext adds ihr iha)
    trivial (fun _ _ _ _ iht ihr => ⟨iht, ihr⟩)
    trivial (fun _ _ _ iht ihr => ⟨iht, ihr⟩) t

/-- **UNALIGNED PER: the code emits the bit string X.691 prescribes**, for every type and value of
the universe, outside the named deviation predicates: if `devs false t v` is empty and the
specification defines an encoding of `v : t` (at any position `pos`), `Uper.enc` returns exactly
that bit string. -/
theorem uper_refines_bits (t : Ty) (v : Val) (pos : Nat) (bits : Bits)
    (hd : devs false t v = []) (h : enc false t pos v = .ok bits) : Uper.enc t v = .ok bits :=
  ref_all t v pos bits hd h

theorem eraseDups_eq_nil {α : Type} [BEq α] (l : List α) (h : l.eraseDups = []) : l = [] := by
  cases l with
  | nil => rfl
  | cons a r => rw [List.eraseDups_cons] at h; cases h

/-- complete encodings: with an empty deviation list the octets of the code are those of the
standard -/
theorem uper_refines_encode (t : Ty) (v : Val) (bytes : Bytes)
    (hd : deviations false t v = []) (h : encode false t v = .ok bytes) :
    Uper.encode t v = .ok bytes := by
  unfold deviations at hd
  obtain ⟨hd1, hd2⟩ := List.append_eq_nil_iff.mp (eraseDups_eq_nil _ hd)
  unfold encode at h
  cases he : enc false t 0 v with
  | error e => rw [he] at h; cases h
  | ok bits =>
    rw [he] at h hd2
    simp only at h hd2
    cases h
    have hM := uper_refines_bits t v 0 bits hd1 he
    unfold Uper.encode
    rw [hM]
    cases hb : bits.isEmpty with
    | true => simp [hb] at hd2
    | false =>
      unfold complete
      simp only [hb, Bool.false_eq_true, if_false]
      rfl

end Asn1.X691

#print axioms Asn1.X691.uper_refines_bits
#print axioms Asn1.X691.uper_refines_encode
