import Asn1Proofs.Lemmas.Bridge2
/-
  BRIDGE, part 3: where the bit buffers meet the octets.  `Encoder.as_bytearray` (what `Specification.encode` returns) and
  `Decoder.__init__` (what `Specification.decode` starts from), translated from /repo's source on every run.

  The five theorems `per_as_bytearray_eq`, `per_decoder_init`, `oer_as_bytearray_eq`, `oer_decoder_init`,
  `per_buffer_roundtrip` are proved with the statements they were given.  Helpers: `abStep` / `abTail` (the loop body and
  the part of `per.Encoder.as_bytearray` behind the loop, `per_as_bytearray_unfold` is `rfl`), `abFold` (the loop),
  `abTail_eq` (padding + the `hex(x)[4:]` sentinel idiom, on top of `PyStrLemmas.unhexAfter4_sentinel`),
  `binAfter10_sentinel` (the `bin(x)[10:]` sentinel idiom), `packBits_formula` / `bytesToBits_packBits`.
-/
namespace Asn1.Bridge
open Asn1 Asn1.Translated
open Asn1.Uper (Err)

/-! ### octets of a bit string -/

theorem ofNats_inj {a b : List Nat} (h : ofNats a = ofNats b) : a = b := by
  induction a generalizing b with
  | nil => cases b with
    | nil => rfl
    | cons y t => simp [ofNats] at h
  | cons x r ih =>
    cases b with
    | nil => simp [ofNats] at h
    | cons y t =>
      simp only [ofNats_cons, List.cons.injEq] at h
      rw [ih h.2, Int.ofNat_inj.1 h.1]

theorem packBits_natToBits (k x : Nat) : packBits (natToBits (8 * k) x) = natToBytesN k x := by
  rw [← bytesToBits_natToBytesN, packBits_bytesToBits _ (natToBytesN_lt k x)]

theorem natToBits_pad (w p x : Nat) :
    natToBits (w + p) (x * 2 ^ p) = natToBits w x ++ List.replicate p false := by
  have := natToBits_shift_add w p x 0 (Nat.two_pow_pos p)
  rw [Nat.add_zero, natToBits_zero] at this
  exact this

theorem packBits_natToBits_pad (w p k x : Nat) (hp : p = (8 - w % 8) % 8) (hk : 8 * k = w + p) :
    packBits (natToBits w x) = natToBytesN k (x * 2 ^ p) := by
  have h1 := packBits_pad (natToBits w x)
  rw [natToBits_length, ← hp, ← natToBits_pad, ← hk, packBits_natToBits] at h1
  exact h1.symm

theorem bor_mul (a v n : Nat) (hv : v < 2 ^ n) :
    Py.bor ((a : Int) * 2 ^ n) (v : Int) = ((a * 2 ^ n + v : Nat) : Int) := by
  rw [show (a : Int) * 2 ^ n = ((a * 2 ^ n : Nat) : Int) by rw [Int.natCast_mul, cast_two_pow],
    Py.bor_natCast, Py.mul_pow_or _ hv]

theorem sentinel_bor (k x : Nat) (hx : x < 2 ^ (8 * k)) :
    Py.bor (x : Int) ((128 : Int) * 2 ^ (8 * k)) = ((128 * 256 ^ k + x : Nat) : Int) := by
  rw [show (128 : Int) * 2 ^ (8 * k) = ((128 * 2 ^ (8 * k) : Nat) : Int) by
    rw [Int.natCast_mul, cast_two_pow]; rfl]
  rw [Py.bor_natCast, Nat.or_comm, Py.mul_pow_or _ hx, pow256]

/-! ### `per.Encoder.as_bytearray` -/

/-- the loop body of `as_bytearray` -/
def abStep (acc : Int × Int) (c : Int × Int) : Except String (Int × Int) := do
  let value ← Py.shlE acc.1 c.2
  pure (Py.bor value c.1, acc.2 + c.2)

/-- `as_bytearray` behind the loop (the text of the translation) -/
def abTail (value number_of_bits : Int) : Except String (List Int) := do
  if decide (number_of_bits = (0 : Int)) then
    (do
      pure ([] : List Int))
  else
    (do
      let number_of_alignment_bits := ((8 : Int) - (Py.fmod number_of_bits (8 : Int)))
      let (value, number_of_bits) ← (if decide (number_of_alignment_bits ≠ (8 : Int)) then
          (do
            let value := (← Py.shlE value number_of_alignment_bits)
            let number_of_bits := (number_of_bits + number_of_alignment_bits)
            pure (value, number_of_bits))
        else
          (do
            pure (value, number_of_bits)))
      let value := (Py.bor value (← Py.shlE (128 : Int) number_of_bits))
      let value := value
      pure (← Py.unhexAfter4 value))

theorem per_as_bytearray_unfold (s : per_EncoderS) :
    per_Encoder_as_bytearray s = (do
      let r ← List.foldlM abStep ((0 : Int), (0 : Int)) s.chunks
      let value ← Py.shlE r.1 s.number_of_bits
      abTail (Py.bor value s.value) (r.2 + s.number_of_bits)) := rfl


theorem abFold (cs : List (Int × Int)) :
    (∀ c ∈ cs, 0 ≤ c.2 ∧ 0 ≤ c.1 ∧ c.1 < 2 ^ c.2.toNat) → ∀ (V N : Nat), V < 2 ^ N →
    ∃ V' N' : Nat, List.foldlM abStep ((V : Int), (N : Int)) cs = .ok ((V' : Int), (N' : Int)) ∧ V' < 2 ^ N' ∧
      natToBits N' V' = natToBits N V ++ cs.flatMap (fun c => natToBits c.2.toNat c.1.toNat) := by
  induction cs with
  | nil => intro _ V N h; exact ⟨V, N, rfl, h, by simp⟩
  | cons c r ih =>
    intro hc V N hlt
    obtain ⟨c1, c2, c3⟩ := hc c (by simp)
    obtain ⟨cv, cn⟩ := c
    simp only at c1 c2 c3
    obtain ⟨n, rfl⟩ := Int.eq_ofNat_of_zero_le c1
    obtain ⟨v, rfl⟩ := Int.eq_ofNat_of_zero_le c2
    rw [Int.toNat_natCast, ← cast_two_pow] at c3
    have hv : v < 2 ^ n := Int.ofNat_lt.1 c3
    obtain ⟨V', N', e, hlt', hb⟩ :=
      ih (fun x hx => hc x (by simp [hx])) (V * 2 ^ n + v) (N + n) (shift_add_lt hlt hv)
    refine ⟨V', N', ?_, hlt', ?_⟩
    · have st : abStep ((V : Int), (N : Int)) ((v : Int), (n : Int))
          = .ok (((V * 2 ^ n + v : Nat) : Int), ((N + n : Nat) : Int)) := by
        unfold abStep
        simp only [shlE_natCast, bind, Except.bind, pure, Except.pure, bor_mul V v n hv, Int.natCast_add]
      rw [List.foldlM_cons, st]
      exact e
    · rw [hb, natToBits_shift_add _ _ _ _ hv, List.flatMap_cons, Int.toNat_natCast, Int.toNat_natCast,
        List.append_assoc]

theorem abTail_eq (W M : Nat) (h : W < 2 ^ M) : abTail W M = .ok (ofNats (packBits (natToBits M W))) := by
  unfold abTail
  by_cases h0 : M = 0
  · subst h0; rfl
  · rw [decide_eq_false (by omega : ¬ ((M : Int) = 0))]
    simp only [Bool.false_eq_true, if_false, Py.fmod8]
    by_cases h8 : M % 8 = 0
    · obtain ⟨k, rfl⟩ : ∃ k, M = 8 * k := ⟨M / 8, by omega⟩
      rw [decide_eq_false (by omega)]
      simp only [Bool.false_eq_true, if_false, shlE_natCast, bind, Except.bind, pure, Except.pure]
      rw [sentinel_bor k W h, unhexAfter4_sentinel k W (by rw [pow256]; exact h), packBits_natToBits]
    · rw [decide_eq_true (by omega)]
      obtain ⟨k, hk⟩ : ∃ k, 8 * k = M + (8 - M % 8) := ⟨M / 8 + 1, by omega⟩
      have e1 : (8 : Int) - ((M % 8 : Nat) : Int) = ((8 - M % 8 : Nat) : Int) := by omega
      have e2 : (M : Int) + ((8 - M % 8 : Nat) : Int) = ((8 * k : Nat) : Int) := by omega
      have hlt : W * 2 ^ (8 - M % 8) < 2 ^ (8 * k) := by
        have := shift_add_lt h (Nat.two_pow_pos (8 - M % 8))
        rw [← hk] at this; omega
      simp only [if_true, e1, e2, shlE_natCast, bind, Except.bind, pure, Except.pure]
      rw [show (W : Int) * 2 ^ (8 - M % 8) = ((W * 2 ^ (8 - M % 8) : Nat) : Int) by
        rw [Int.natCast_mul, cast_two_pow]]
      rw [sentinel_bor k _ hlt, unhexAfter4_sentinel k _ (by rw [pow256]; exact hlt),
        packBits_natToBits_pad M (8 - M % 8) k W (by omega) hk]

/-- `per.Encoder.as_bytearray`: the bits written so far (flushed chunks included), zero padded to whole octets -/
theorem per_as_bytearray_eq (s : per_EncoderS) (h : EncInv s) :
    per_Encoder_as_bytearray s = .ok (ofNats (packBits (absBits s))) := by
  obtain ⟨nb, val, hnb, hval, hlt⟩ := h.view
  obtain ⟨V, N, hf, hVN, hbits⟩ := abFold s.chunks h.ch 0 0 (by decide)
  have hW := shift_add_lt hVN hlt
  have hab : absBits s = natToBits (N + nb) (V * 2 ^ nb + val) := by
    unfold absBits
    rw [natToBits_shift_add _ _ _ _ hlt, hbits, hnb, hval, Int.toNat_natCast, Int.toNat_natCast]
    rfl
  rw [per_as_bytearray_unfold]
  have hf' : List.foldlM abStep ((0 : Int), (0 : Int)) s.chunks = .ok ((V : Int), (N : Int)) := hf
  rw [hf', hnb, hval]
  simp only [shlE_natCast, bind, Except.bind, bor_mul V val nb hlt]
  rw [show (N : Int) + (nb : Int) = ((N + nb : Nat) : Int) by omega, abTail_eq _ _ hW, hab]

/-- `oer.Encoder.as_bytearray` at an octet boundary (the OER codec only ever asks there) -/
theorem oer_as_bytearray_eq (s : oer_EncoderS) (h : OEncInv s) (ha : s.number_of_bits % 8 = 0) :
    oer_Encoder_as_bytearray s = .ok (ofNats (packBits (oEncBits s))) := by
  obtain ⟨nb, val, hnb, hval, hlt⟩ := h.view
  unfold oer_Encoder_as_bytearray oEncBits
  rw [hnb] at ha
  rw [hnb, hval, Int.toNat_natCast, Int.toNat_natCast]
  by_cases h0 : nb = 0
  · subst h0; rfl
  · obtain ⟨k, rfl⟩ : ∃ k, nb = 8 * k := ⟨nb / 8, by omega⟩
    rw [decide_eq_false (by omega)]
    simp only [Bool.false_eq_true, if_false, shlE_natCast, bind, Except.bind, pure, Except.pure]
    rw [sentinel_bor k val hlt, unhexAfter4_sentinel k val (by rw [pow256]; exact hlt), packBits_natToBits]


/-! ### `bin(x)[10:]` behind a 0x80 sentinel octet -/

def charOfBit (b : Bool) : Char := if b then '1' else '0'

theorem charOfBit_bin (b : Bool) : charOfBit b = '0' ∨ charOfBit b = '1' := by cases b <;> simp [charOfBit]

theorem charOfBit_beq (b : Bool) : (charOfBit b == '1') = b := by cases b <;> rfl

theorem binDigitsAux_sentinel (w : Nat) : ∀ (x fuel : Nat) (acc : List Char), x < 2 ^ w → w + 8 ≤ fuel →
    Py.binDigitsAux fuel (128 * 2 ^ w + x) acc =
      '1' :: '0' :: '0' :: '0' :: '0' :: '0' :: '0' :: '0' :: ((natToBits w x).map charOfBit ++ acc) := by
  induction w with
  | zero =>
    intro x fuel acc hx hf
    have : x = 0 := by simpa using hx
    subst this
    obtain ⟨f, rfl⟩ : ∃ f, fuel = f + 8 := ⟨fuel - 8, by omega⟩
    rfl
  | succ w ih =>
    intro x fuel acc hx hf
    obtain ⟨f, rfl⟩ : ∃ f, fuel = f + 1 := ⟨fuel - 1, by omega⟩
    have hpos : 0 < 2 ^ w := Nat.two_pow_pos w
    rw [Nat.pow_succ] at hx
    generalize hN : 128 * 2 ^ (w + 1) + x = N
    have hn : N = (128 * 2 ^ w + x / 2) * 2 + x % 2 := by
      rw [← hN, Nat.pow_succ]; omega
    have c1 : ¬ N < 2 := by omega
    have e1 : N / 2 = 128 * 2 ^ w + x / 2 := by omega
    have e2 : N % 2 = x % 2 := by omega
    rw [Py.binDigitsAux]
    simp only [if_neg c1, e1, e2]
    rw [ih (x / 2) f _ (by omega) (by omega), natToBits, List.map_append]
    have : (if x % 2 = 1 then '1' else '0') = charOfBit (x % 2 == 1) := by
      unfold charOfBit
      by_cases hx2 : x % 2 = 1 <;> simp [hx2]
    rw [this]
    simp

theorem binAfter10_sentinel (w x : Nat) (hx : x < 2 ^ w) :
    Py.binAfter10 ((128 * 2 ^ w + x : Nat) : Int) = (natToBits w x).map charOfBit := by
  unfold Py.binAfter10 Py.binDigits
  have hk : w < 2 ^ w := Nat.lt_two_pow_self
  rw [Int.toNat_natCast, binDigitsAux_sentinel w x _ [] hx (by omega)]
  simp

/-- `per.Decoder(data)`: position 0 in front of exactly the bits of `data` -/
theorem per_decoder_init (data : Bytes) (hd : ∀ b ∈ data, b < 256) :
    PDecInv (per_Decoder___init__ (ofNats data)) ∧ pAbs (per_Decoder___init__ (ofNats data)) = ⟨0, bytesToBits data⟩ := by
  unfold per_Decoder___init__
  simp only [Py.len_eq, ofNats_length]
  by_cases h0 : data.length = 0
  · have : data = [] := List.eq_nil_of_length_eq_zero h0
    subst this
    exact ⟨⟨by decide, by decide, by decide, (by intro c hc; cases hc), by decide⟩, rfl⟩
  · rw [decide_eq_true (by omega : ((data.length : Nat) : Int) > 0)]
    simp only [if_true]
    have hB := bytesToNat_lt data hd
    have e : Py.bor (Py.bytesToInt (ofNats data)) (Py.shl 128 (8 * (data.length : Int)))
        = ((128 * 2 ^ (8 * data.length) + bytesToNat data : Nat) : Int) := by
      rw [bytesToInt_ofNats, show (8 : Int) * (data.length : Int) = ((8 * data.length : Nat) : Int) by omega,
        show (128 : Int) = ((128 : Nat) : Int) from rfl, Py.shl_natCast, Py.bor_natCast, Nat.or_comm,
        Py.mul_pow_or _ hB]
    rw [e, binAfter10_sentinel _ _ hB, ← bytesToBits_eq data hd,
      show (8 : Int) * (data.length : Int) = ((8 * data.length : Nat) : Int) by omega]
    have hlen : ((bytesToBits data).map charOfBit).length = 8 * data.length := by
      rw [List.length_map, bytesToBits_length]
    have hbin : ∀ c ∈ (bytesToBits data).map charOfBit, c = '0' ∨ c = '1' := by
      intro c hc
      obtain ⟨b, _, rfl⟩ := List.mem_map.1 hc
      exact charOfBit_bin b
    refine ⟨pdec_inv_mk _ _ _ (Nat.le_refl _) hlen hbin (by omega), ?_⟩
    rw [pAbs_mk _ _ _ (Nat.le_refl _), Nat.sub_self, List.drop_zero, List.map_map]
    congr 1
    conv => rhs; rw [← List.map_id (bytesToBits data)]
    apply List.map_congr_left
    intro b _
    exact charOfBit_beq b

/-- `oer.Decoder(data)` stands in front of the octets `data` -/
theorem oer_decoder_init (data : Bytes) (hd : ∀ b ∈ data, b < 256) :
    ODecInv (oer_Decoder___init__ (ofNats data)) ∧ oAt (oer_Decoder___init__ (ofNats data)) data := by
  unfold oer_Decoder___init__
  simp only [Py.len_eq, ofNats_length]
  rw [show (8 : Int) * (data.length : Int) = ((8 * data.length : Nat) : Int) by omega]
  by_cases h0 : data.length = 0
  · have : data = [] := List.eq_nil_of_length_eq_zero h0
    subst this
    exact ⟨⟨by decide, by decide, by decide⟩, hd, rfl⟩
  · rw [decide_eq_true (by omega : ((data.length : Nat) : Int) > 0)]
    simp only [if_true, bytesToInt_ofNats]
    refine ⟨odec_inv_mk _ _ _ (Int.le_refl _), hd, ?_⟩
    rw [oBits_mk, bytesToBits_eq data hd]


/-! ### round trip at the buffer level -/

theorem packBits_formula (bs : Bits) :
    ∃ k, 8 * k = (Uper.padToByte bs).length ∧ packBits bs = natToBytesN k (bitsToNat (Uper.padToByte bs)) := by
  unfold Uper.padToByte
  have hk : 8 * ((bs.length + (8 - bs.length % 8) % 8) / 8) = bs.length + (8 - bs.length % 8) % 8 := by omega
  refine ⟨(bs.length + (8 - bs.length % 8) % 8) / 8, ?_, ofNats_inj (packBits_eq bs _ _ rfl hk)⟩
  rw [List.length_append, List.length_replicate]; exact hk

theorem packBits_lt (bs : Bits) : ∀ b ∈ packBits bs, b < 256 := by
  obtain ⟨k, _, e⟩ := packBits_formula bs
  rw [e]; exact natToBytesN_lt _ _

theorem bytesToBits_packBits (bs : Bits) : bytesToBits (packBits bs) = Uper.padToByte bs := by
  obtain ⟨k, hk, e⟩ := packBits_formula bs
  rw [e, bytesToBits_natToBytesN, hk, natToBits_bitsToNat]

/-- buffer-level round trip: what a PER decoder is initialised with, when given the octets a PER encoder returns, is the
encoder's bit string padded to whole octets -/
theorem per_buffer_roundtrip (s : per_EncoderS) (h : EncInv s) :
    ∃ out, per_Encoder_as_bytearray s = .ok out ∧
      PDecInv (per_Decoder___init__ out) ∧
      pAbs (per_Decoder___init__ out) = ⟨0, Uper.padToByte (absBits s)⟩ := by
  have ⟨i1, i2⟩ := per_decoder_init (packBits (absBits s)) (packBits_lt _)
  rw [bytesToBits_packBits] at i2
  exact ⟨_, per_as_bytearray_eq s h, i1, i2⟩

/-- the same for OER (octet-aligned encoders) -/
theorem oer_buffer_roundtrip (s : oer_EncoderS) (h : OEncInv s) (ha : s.number_of_bits % 8 = 0) :
    ∃ out, oer_Encoder_as_bytearray s = .ok out ∧
      ODecInv (oer_Decoder___init__ out) ∧ oAt (oer_Decoder___init__ out) (packBits (oEncBits s)) := by
  have ⟨i1, i2⟩ := oer_decoder_init (packBits (oEncBits s)) (packBits_lt _)
  exact ⟨_, oer_as_bytearray_eq s h ha, i1, i2⟩

end Asn1.Bridge
