import Asn1Model.Typing
/-
  Bit / byte arithmetic lemmas used by the OER round-trip proof
  (natToBits, bitsToNat, bitLength, natToBytesN, bytesToNat, packBits, two's complement).
-/
namespace Asn1

/-! ### natToBits / bitsToNat -/

@[simp] theorem natToBits_length (w n : Nat) : (natToBits w n).length = w := by
  induction w generalizing n with
  | zero => rfl
  | succ w ih => simp [natToBits, ih]

theorem foldl_bits_acc_oer (bs : Bits) (a : Nat) :
    bs.foldl (fun acc b => 2 * acc + (if b then 1 else 0)) a
      = a * 2 ^ bs.length + bs.foldl (fun acc b => 2 * acc + (if b then 1 else 0)) 0 := by
  induction bs generalizing a with
  | nil => simp
  | cons b r ih =>
    simp only [List.foldl_cons, List.length_cons]
    rw [ih (2 * a + _), ih (2 * 0 + _)]
    rw [Nat.pow_succ]
    simp only [Nat.mul_zero, Nat.zero_add, Nat.add_mul]
    rw [Nat.mul_comm 2 a, Nat.mul_assoc, Nat.mul_comm 2 (2 ^ r.length)]
    omega

theorem bitsToNat_append_oer (a b : Bits) :
    bitsToNat (a ++ b) = bitsToNat a * 2 ^ b.length + bitsToNat b := by
  unfold bitsToNat
  rw [List.foldl_append, foldl_bits_acc_oer]

theorem bitsToNat_single_oer (b : Bool) : bitsToNat [b] = if b then 1 else 0 := by
  cases b <;> rfl

theorem bitsToNat_natToBits_oer (w n : Nat) : bitsToNat (natToBits w n) = n % 2 ^ w := by
  induction w generalizing n with
  | zero => simp [natToBits, bitsToNat, Nat.mod_one]
  | succ w ih =>
    rw [natToBits, bitsToNat_append_oer, ih, bitsToNat_single_oer]
    simp only [List.length_singleton, Nat.pow_one]
    have h2 : n % 2 ^ (w + 1) = 2 * (n / 2 % 2 ^ w) + n % 2 := by
      rw [Nat.pow_succ, Nat.mul_comm (2 ^ w) 2, Nat.mod_mul]
      omega
    rw [h2]
    have : n % 2 = 0 ∨ n % 2 = 1 := by omega
    rcases this with h | h <;> simp [h] <;> omega

theorem bitsToNat_natToBits_of_lt_oer {w n : Nat} (h : n < 2 ^ w) : bitsToNat (natToBits w n) = n := by
  rw [bitsToNat_natToBits_oer, Nat.mod_eq_of_lt h]

theorem bitsToNat_cons_oer (b : Bool) (r : Bits) :
    bitsToNat (b :: r) = (if b then 1 else 0) * 2 ^ r.length + bitsToNat r := by
  have := bitsToNat_append_oer [b] r
  rw [bitsToNat_single_oer] at this
  simpa using this

theorem bitsToNat_lt_oer (bs : Bits) : bitsToNat bs < 2 ^ bs.length := by
  induction bs with
  | nil => simp [bitsToNat]
  | cons b r ih =>
    rw [bitsToNat_cons_oer]
    simp only [List.length_cons, Nat.pow_succ]
    cases b <;> simp <;> omega

theorem natToBits_add_oer (w1 w2 n : Nat) :
    natToBits (w1 + w2) n = natToBits w1 (n / 2 ^ w2) ++ natToBits w2 n := by
  induction w2 generalizing n with
  | zero => simp [natToBits]
  | succ w2 ih =>
    rw [← Nat.add_assoc, natToBits, ih, natToBits, List.append_assoc]
    rw [Nat.div_div_eq_div_mul, Nat.pow_succ, Nat.mul_comm 2]

theorem natToBits_mod_oer (w n : Nat) : natToBits w (n % 2 ^ w) = natToBits w n := by
  induction w generalizing n with
  | zero => rfl
  | succ w ih =>
    rw [natToBits, natToBits]
    have h1 : n % 2 ^ (w + 1) / 2 = n / 2 % 2 ^ w := by
      rw [Nat.pow_succ, Nat.mul_comm, Nat.mod_mul_right_div_self]
    have h2 : n % 2 ^ (w + 1) % 2 = n % 2 := by
      rw [Nat.pow_succ, Nat.mul_comm, Nat.mod_mul_right_mod]
    rw [h1, h2, ih]

/-- a bit group is recovered from its number -/
theorem natToBits_bitsToNat (bs : Bits) : natToBits bs.length (bitsToNat bs) = bs := by
  induction bs with
  | nil => rfl
  | cons b r ih =>
    have hlt := bitsToNat_lt_oer r
    rw [bitsToNat_cons_oer, List.length_cons, Nat.add_comm r.length 1, natToBits_add_oer]
    have h1 : ((if b = true then 1 else 0) * 2 ^ r.length + bitsToNat r) / 2 ^ r.length
        = (if b = true then 1 else 0) := by
      rw [Nat.add_comm, Nat.add_mul_div_right _ _ (Nat.two_pow_pos _), Nat.div_eq_of_lt hlt]
      simp
    have h2 : natToBits r.length ((if b = true then 1 else 0) * 2 ^ r.length + bitsToNat r)
        = natToBits r.length (bitsToNat r) := by
      rw [← natToBits_mod_oer, Nat.add_comm, Nat.add_mul_mod_self_right, Nat.mod_eq_of_lt hlt]
    rw [h1, h2, ih]
    cases b <;> rfl

/-! ### bitLength -/

theorem lt_two_pow_bitLength_oer (n : Nat) : n < 2 ^ bitLength n := by
  unfold bitLength
  split
  · subst_vars; simp
  · exact Nat.lt_log2_self

theorem bitLength_le_of_lt_pow_oer {n w : Nat} (h : n < 2 ^ w) : bitLength n ≤ w := by
  unfold bitLength
  split
  · omega
  · rename_i hn
    have := (Nat.log2_lt hn).2 h
    omega

theorem two_pow_le_of_bitLength_oer {n : Nat} (hn : n ≠ 0) : 2 ^ (bitLength n - 1) ≤ n := by
  unfold bitLength
  simp only [hn, if_false, Nat.add_sub_cancel]
  exact Nat.log2_self_le hn

/-! ### natToBytesN / bytesToNat -/

theorem pow256_oer (k : Nat) : 256 ^ k = 2 ^ (8 * k) := by
  rw [Nat.pow_mul]

@[simp] theorem natToBytesN_length (k n : Nat) : (natToBytesN k n).length = k := by
  induction k generalizing n with
  | zero => rfl
  | succ k ih => simp [natToBytesN, ih]

theorem natToBytesN_lt (k n : Nat) : ∀ b ∈ natToBytesN k n, b < 256 := by
  induction k generalizing n with
  | zero => intro b hb; simp [natToBytesN] at hb
  | succ k ih =>
    intro b hb
    simp only [natToBytesN, List.mem_append, List.mem_singleton] at hb
    rcases hb with hb | hb
    · exact ih _ b hb
    · omega

theorem foldl_bytes_acc (bs : Bytes) (a : Nat) :
    bs.foldl (fun acc b => 256 * acc + b) a
      = a * 256 ^ bs.length + bs.foldl (fun acc b => 256 * acc + b) 0 := by
  induction bs generalizing a with
  | nil => simp
  | cons b r ih =>
    simp only [List.foldl_cons, List.length_cons]
    rw [ih (256 * a + _), ih (256 * 0 + _)]
    rw [Nat.pow_succ]
    simp only [Nat.mul_zero, Nat.zero_add, Nat.add_mul]
    rw [Nat.mul_comm 256 a, Nat.mul_assoc, Nat.mul_comm 256 (256 ^ r.length)]
    omega

theorem bytesToNat_append (a b : Bytes) :
    bytesToNat (a ++ b) = bytesToNat a * 256 ^ b.length + bytesToNat b := by
  unfold bytesToNat
  rw [List.foldl_append, foldl_bytes_acc]

theorem bytesToNat_single (b : Nat) : bytesToNat [b] = b := by
  simp [bytesToNat]

theorem bytesToNat_natToBytesN (k n : Nat) : bytesToNat (natToBytesN k n) = n % 256 ^ k := by
  induction k generalizing n with
  | zero => simp [natToBytesN, bytesToNat, Nat.mod_one]
  | succ k ih =>
    rw [natToBytesN, bytesToNat_append, ih, bytesToNat_single]
    simp only [List.length_singleton, Nat.pow_one]
    rw [Nat.pow_succ, Nat.mul_comm (256 ^ k) 256, Nat.mod_mul]
    omega

theorem bytesToNat_natToBytesN_of_lt {k n : Nat} (h : n < 256 ^ k) :
    bytesToNat (natToBytesN k n) = n := by
  rw [bytesToNat_natToBytesN, Nat.mod_eq_of_lt h]

theorem lt_pow_byteLength (n : Nat) : n < 256 ^ byteLength n := by
  rw [pow256_oer]
  exact Nat.lt_of_lt_of_le (lt_two_pow_bitLength_oer n)
    (Nat.pow_le_pow_right (by omega) (by unfold byteLength; omega))

theorem bytesToNat_natToBytesMin (n : Nat) : bytesToNat (natToBytesMin n) = n :=
  bytesToNat_natToBytesN_of_lt (lt_pow_byteLength n)

/-! ### bytesToBits / packBits -/

theorem bytesToBits_append_oer (a b : Bytes) : bytesToBits (a ++ b) = bytesToBits a ++ bytesToBits b := by
  simp [bytesToBits]

theorem bytesToBits_cons (b : Nat) (r : Bytes) : bytesToBits (b :: r) = natToBits 8 b ++ bytesToBits r := rfl

@[simp] theorem bytesToBits_length (bs : Bytes) : (bytesToBits bs).length = 8 * bs.length := by
  induction bs with
  | nil => rfl
  | cons b r ih =>
    rw [bytesToBits_cons]
    simp [ih]; omega

theorem bitsToBytes_length (fuel : Nat) (bs : Bits) (hf : bs.length + 1 ≤ fuel) :
    (bitsToBytes fuel bs).length = (bs.length + 7) / 8 := by
  induction fuel generalizing bs with
  | zero => omega
  | succ fuel ih =>
    rw [bitsToBytes]
    cases bs with
    | nil => rfl
    | cons b r =>
      simp only [List.isEmpty_cons, Bool.false_eq_true, if_false, List.length_cons]
      rw [ih _ (by simp only [List.length_drop, List.length_cons] at hf ⊢; omega)]
      simp only [List.length_drop, List.length_cons]
      omega

theorem packBits_length (bs : Bits) : (packBits bs).length = (bs.length + 7) / 8 :=
  bitsToBytes_length _ _ (Nat.le_refl _)

/-- unpacking a packed bit list gives the bits back, followed by the padding -/
theorem bytesToBits_bitsToBytes (fuel : Nat) (bs : Bits) (hf : bs.length + 1 ≤ fuel) :
    ∃ pad, bytesToBits (bitsToBytes fuel bs) = bs ++ pad := by
  induction fuel generalizing bs with
  | zero => omega
  | succ fuel ih =>
    rw [bitsToBytes]
    cases hbs : bs with
    | nil => exact ⟨[], rfl⟩
    | cons b r =>
      rw [← hbs]
      have hne : bs.isEmpty = false := by rw [hbs]; rfl
      rw [hne]
      simp only [Bool.false_eq_true, if_false]
      rw [bytesToBits_cons]
      have hlen : bs.length ≥ 1 := by rw [hbs]; simp
      obtain ⟨pad, hpad⟩ := ih (bs.drop 8) (by simp only [List.length_drop]; omega)
      rw [hpad]
      have h8 : (List.take 8 bs ++ List.replicate (8 - (List.take 8 bs).length) false).length = 8 := by
        simp only [List.length_append, List.length_take, List.length_replicate]; omega
      have := natToBits_bitsToNat (List.take 8 bs ++ List.replicate (8 - (List.take 8 bs).length) false)
      rw [h8] at this
      rw [this]
      by_cases h : 8 ≤ bs.length
      · refine ⟨pad, ?_⟩
        have : 8 - (List.take 8 bs).length = 0 := by simp only [List.length_take]; omega
        rw [this]
        simp only [List.replicate_zero, List.append_nil]
        rw [← List.append_assoc, List.take_append_drop]
      · have hd : bs.drop 8 = [] := List.drop_of_length_le (by omega)
        have ht : bs.take 8 = bs := List.take_of_length_le (by omega)
        rw [hd, ht]
        exact ⟨List.replicate (8 - bs.length) false ++ pad, by simp⟩

theorem take_bytesToBits_packBits (bs : Bits) : (bytesToBits (packBits bs)).take bs.length = bs := by
  obtain ⟨pad, h⟩ := bytesToBits_bitsToBytes (bs.length + 1) bs (Nat.le_refl _)
  unfold packBits
  rw [h, List.take_left']
  rfl

theorem take_bytesToBits_packBits' (bs : Bits) (n : Nat) (h : bs.length = n) :
    (bytesToBits (packBits bs)).take n = bs := by
  subst h; exact take_bytesToBits_packBits bs

theorem cleanBits_length (data : Bytes) (n : Nat) (h : n ≤ 8 * data.length) :
    (cleanBits data n).length = (n + 7) / 8 := by
  unfold cleanBits
  rw [packBits_length, List.length_take, bytesToBits_length, Nat.min_eq_left h]

/-! ### two's complement -/

/-- `i` fits in `intByteLength i` octets of two's complement -/
theorem intByteLength_bounds_oer (i : Int) :
    -((2 ^ (8 * intByteLength i - 1) : Nat) : Int) ≤ i ∧ i < ((2 ^ (8 * intByteLength i - 1) : Nat) : Int) := by
  unfold intByteLength
  split
  · rename_i h
    have h1 := lt_two_pow_bitLength_oer i.toNat
    have h2 : 2 ^ bitLength i.toNat ≤ 2 ^ (8 * (bitLength i.toNat / 8 + 1) - 1) :=
      Nat.pow_le_pow_right (by omega) (by omega)
    omega
  · rename_i h
    have h1 := lt_two_pow_bitLength_oer (-i - 1).toNat
    have h2 : 2 ^ bitLength (-i - 1).toNat ≤ 2 ^ (8 * (bitLength (-i - 1).toNat / 8 + 1) - 1) :=
      Nat.pow_le_pow_right (by omega) (by omega)
    omega

theorem intByteLength_pos_oer (i : Int) : 1 ≤ intByteLength i := by
  unfold intByteLength; split <;> omega

/-- two's complement round trip in `k ≥ 1` octets -/
theorem bytesToInt_intToBytesN (k : Nat) (i : Int) (hk : 1 ≤ k)
    (hlo : -((2 ^ (8 * k - 1) : Nat) : Int) ≤ i) (hhi : i < ((2 ^ (8 * k - 1) : Nat) : Int)) :
    bytesToInt (intToBytesN k i) = i := by
  have hQ : (2 : Nat) ^ (8 * k) = 2 * 2 ^ (8 * k - 1) := by
    have : 8 * k = (8 * k - 1) + 1 := by omega
    rw [this, Nat.pow_succ]; simp; omega
  generalize hq : (2 : Nat) ^ (8 * k - 1) = Q at *
  have hm : ((i % ((256 ^ k : Nat) : Int)).toNat : Int) = if 0 ≤ i then i else i + 2 * Q := by
    rw [pow256_oer, hQ]
    split
    · rename_i h0
      rw [Int.emod_eq_of_lt h0 (by omega)]; omega
    · rename_i h0
      have : i % ((2 * Q : Nat) : Int) = i + 2 * Q := by
        rw [← Int.add_emod_right, Int.emod_eq_of_lt (by omega) (by omega)]; simp
      rw [this]; omega
  unfold bytesToInt intToBytesN
  generalize (i % ((256 ^ k : Nat) : Int)).toNat = m at *
  have hmlt : m < 2 ^ (8 * k) := by rw [hQ]; split at hm <;> omega
  simp only [natToBytesN_length]
  rw [bytesToNat_natToBytesN_of_lt (by rw [pow256_oer]; exact hmlt)]
  have hk0 : 8 * k ≠ 0 := by omega
  simp only [hq, hQ]
  split at hm
  · have : ¬ (8 * k ≠ 0 ∧ m ≥ Q) := by omega
    rw [if_neg this]; omega
  · have : (8 * k ≠ 0 ∧ m ≥ Q) := ⟨hk0, by omega⟩
    rw [if_pos this]; omega

theorem bytesToInt_intToBytesMin (i : Int) : bytesToInt (intToBytesN (intByteLength i) i) = i :=
  bytesToInt_intToBytesN _ i (intByteLength_pos_oer i) (intByteLength_bounds_oer i).1 (intByteLength_bounds_oer i).2

/-- unsigned fixed width -/
theorem bytesToNat_intToBytesN (k : Nat) (i : Int) (h0 : 0 ≤ i) (h1 : i < ((256 ^ k : Nat) : Int)) :
    ((bytesToNat (intToBytesN k i) : Nat) : Int) = i := by
  unfold intToBytesN
  rw [Int.emod_eq_of_lt h0 h1]
  rw [bytesToNat_natToBytesN_of_lt (by omega)]
  omega

@[simp] theorem intToBytesN_length (k : Nat) (i : Int) : (intToBytesN k i).length = k := by
  simp [intToBytesN]

end Asn1
