import Asn1Model.BerFraming
/-
  Auxiliary lemmas for C15 (BER tag / length framing helpers).
-/
namespace Asn1.Ber

/-! ### `skipTagRest` / `skipTag` -/

theorem skipTagRest_mid (mid : Bytes) (last : Nat) (x : Bytes)
    (hm : ∀ m ∈ mid, 128 ≤ m ∧ m < 256) (hl : last < 128) :
    skipTagRest (mid ++ last :: x) = some (mid.length + 1) := by
  induction mid with
  | nil =>
    have : ¬ last % 256 ≥ 128 := by omega
    simp [skipTagRest, this]
  | cons m mid ih =>
    have h1 := hm m (by simp)
    have : m % 256 ≥ 128 := by omega
    have ih' := ih (fun m' h' => hm m' (by simp [h']))
    simp [skipTagRest, this, ih']

theorem skipTagRest_all_cont (mid : Bytes) (hm : ∀ m ∈ mid, 128 ≤ m ∧ m < 256) :
    skipTagRest mid = none := by
  induction mid with
  | nil => simp [skipTagRest]
  | cons m mid ih =>
    have h1 := hm m (by simp)
    have : m % 256 ≥ 128 := by omega
    have ih' := ih (fun m' h' => hm m' (by simp [h']))
    simp [skipTagRest, this, ih']

theorem validLen_ne_nil {l : Bytes} {n : Nat} (hl : validLen l n) : l ≠ [] := by
  rcases hl with ⟨h, _⟩ | ⟨k, ds, h, _⟩ <;> simp [h]

/-- complete identifier octets followed by at least one more octet: the length field starts
right after them -/
theorem skipTag_complete (t x : Bytes) (ht : validTag t) (hx : x ≠ []) :
    skipTag (t ++ x) = some t.length := by
  have hxl : 0 < x.length := List.length_pos_iff.mpr hx
  rcases ht with ⟨b, rfl, _, hb⟩ | ⟨b, mid, last, rfl, _, hb, hm, hl⟩
  · simp only [skipTag, List.cons_append, List.nil_append, hb, if_false, List.length_cons,
      List.length_nil]
    have : ¬ (1 ≥ x.length + 1) := by omega
    simp [this]
  · have h := skipTagRest_mid mid last x hm hl
    simp only [skipTag, List.cons_append, List.append_assoc, List.nil_append, hb, if_true, h,
      Option.map_some, List.length_cons, List.length_append, List.length_nil]
    have : ¬ (mid.length + 1 + 1 ≥ mid.length + (x.length + 1) + 1) := by omega
    simp [this]

/-- identifier octets alone, or any prefix of them, never let `skip_tag` succeed -/
theorem skipTag_prefix (t : Bytes) (k : Nat) (ht : validTag t) :
    skipTag (t.take k) = none := by
  rcases ht with ⟨b, rfl, _, hb⟩ | ⟨b, mid, last, rfl, _, hb, hm, hl⟩
  · cases k with
    | zero => simp [skipTag]
    | succ k => simp [skipTag, hb]
  · cases k with
    | zero => simp [skipTag]
    | succ k =>
      simp only [List.take_succ_cons, skipTag, hb, if_true]
      by_cases hk : k ≤ mid.length
      · have h1 : (mid ++ [last]).take k = mid.take k := by
          rw [List.take_append_of_le_length hk]
        have h2 : skipTagRest (mid.take k) = none :=
          skipTagRest_all_cont _ (fun m h' => hm m (List.mem_of_mem_take h'))
        simp [h1, h2]
      · have h1 : (mid ++ [last]).take k = mid ++ [last] := by
          apply List.take_of_length_le; simp; omega
        have h2 := skipTagRest_mid mid last [] hm hl
        simp [h1, h2]

/-! ### `decodeLength` -/

theorem decodeLength_complete (l rest : Bytes) (n : Nat) (hl : validLen l n) :
    decodeLength (l ++ rest) = .ok n l.length := by
  rcases hl with ⟨rfl, hn⟩ | ⟨k, ds, rfl, hk1, hk2, hlen, hv⟩
  · have : n % 256 < 128 := by omega
    simp [decodeLength, this]
  · have e : (128 + k) % 256 = 128 + k := by omega
    have h1 : ¬ (128 + k < 128) := by omega
    have h2 : ¬ (128 + k = 128) := by omega
    have h3 : ¬ ((ds ++ rest).length < k) := by simp; omega
    have h4 : 128 + k - 128 = k := by omega
    have h5 : (ds ++ rest).take k = ds := by
      rw [← hlen]; simp
    simp only [decodeLength, List.cons_append, e, h1, h2, h3, if_false, h4, h5, hv,
      List.length_cons, hlen]

/-- a non-empty strict prefix of the length octets: out of data -/
theorem decodeLength_prefix (l : Bytes) (n j : Nat) (hl : validLen l n) (hj : j < l.length) :
    decodeLength (l.take j) = .outOfData := by
  rcases hl with ⟨rfl, hn⟩ | ⟨k, ds, rfl, hk1, hk2, hlen, hv⟩
  · have : j = 0 := by simpa using hj
    subst this; simp [decodeLength]
  · cases j with
    | zero => simp [decodeLength]
    | succ j =>
      have e : (128 + k) % 256 = 128 + k := by omega
      have h1 : ¬ (128 + k < 128) := by omega
      have h2 : ¬ (128 + k = 128) := by omega
      have h3 : (ds.take j).length < 128 + k - 128 := by
        simp at hj ⊢; omega
      simp only [List.take_succ_cons, decodeLength, e, h1, h2, h3, if_false, if_true]

/-! ### encoder side -/

theorem base128_lt (fuel n : Nat) : ∀ d ∈ base128 fuel n, d < 128 := by
  induction fuel generalizing n with
  | zero => simp [base128]
  | succ fuel ih =>
    intro d hd
    unfold base128 at hd
    split at hd
    · simp at hd; omega
    · rcases List.mem_append.mp hd with h | h
      · exact ih _ d h
      · simp at h; omega

theorem bytesToNat_append_singleton (bs : Bytes) (b : Nat) :
    bytesToNat (bs ++ [b]) = 256 * bytesToNat bs + b := by
  simp [bytesToNat, List.foldl_append]

theorem bytesToNat_natToBytesN (k n : Nat) : bytesToNat (natToBytesN k n) = n % 256 ^ k := by
  induction k generalizing n with
  | zero => simp [natToBytesN, bytesToNat, Nat.mod_one]
  | succ k ih =>
    rw [natToBytesN, bytesToNat_append_singleton, ih, Nat.pow_succ, Nat.mul_comm (256 ^ k) 256,
      Nat.mod_mul]
    omega

theorem natToBytesN_length (k n : Nat) : (natToBytesN k n).length = k := by
  induction k generalizing n with
  | zero => simp [natToBytesN]
  | succ k ih => simp [natToBytesN, ih]

theorem lt_two_pow_bitLength (n : Nat) : n < 2 ^ bitLength n := by
  unfold bitLength
  split
  · subst_vars; simp
  · exact Nat.lt_log2_self

theorem lt_pow_byteLength (n : Nat) : n < 256 ^ byteLength n := by
  have h := lt_two_pow_bitLength n
  have e : (256 : Nat) ^ byteLength n = 2 ^ (8 * byteLength n) := by
    rw [Nat.pow_mul]
  rw [e]
  refine Nat.lt_of_lt_of_le h (Nat.pow_le_pow_right (by decide) ?_)
  unfold byteLength; omega

theorem bytesToNat_natToBytesMin (n : Nat) : bytesToNat (natToBytesMin n) = n := by
  rw [natToBytesMin, bytesToNat_natToBytesN, Nat.mod_eq_of_lt (lt_pow_byteLength n)]

theorem bitLength_le_iff (n k : Nat) : bitLength n ≤ k ↔ n < 2 ^ k := by
  unfold bitLength
  split
  · subst_vars; simp [Nat.two_pow_pos]
  · rename_i h
    have := Nat.log2_lt (n := n) (k := k) h
    omega

/-- the length of the minimal base-256 form fits the 7-bit count field exactly when
`n < 256 ^ 127` -/
theorem byteLength_le_iff (n k : Nat) : byteLength n ≤ k ↔ n < 256 ^ k := by
  have h := bitLength_le_iff n (8 * k)
  rw [Nat.pow_mul] at h
  have h' : bitLength n ≤ 8 * k ↔ n < 256 ^ k := h
  rw [← h']
  unfold byteLength; omega

theorem byteLength_le_127_iff (n : Nat) : byteLength n ≤ 127 ↔ n < 256 ^ 127 :=
  byteLength_le_iff n 127

theorem one_le_byteLength (n : Nat) (hn : 128 ≤ n) : 1 ≤ byteLength n := by
  have : ¬ bitLength n ≤ 0 := by
    rw [bitLength_le_iff]; omega
  unfold byteLength; omega

/-- `encode_length_definite` yields valid length octets exactly when the value needs at most
127 base-256 digits; beyond that the first octet would be `128 + 128 = 256`, not a byte. -/
theorem encLength_valid_iff (n : Nat) : validLen (encLength n) n ↔ n < 256 ^ 127 := by
  unfold encLength
  split
  · rename_i h
    have : n < 256 ^ 127 :=
      Nat.lt_of_lt_of_le (show n < 256 ^ 1 by omega) (Nat.pow_le_pow_right (by decide) (by decide))
    simp only [this, iff_true]
    exact Or.inl ⟨rfl, by omega⟩
  · rename_i h
    have hlen : (natToBytesMin n).length = byteLength n := natToBytesN_length _ _
    rw [← byteLength_le_127_iff]
    constructor
    · rintro (⟨h1, h2⟩ | ⟨k, ds, h1, hk1, hk2, hl, _⟩)
      · omega
      · simp only [List.cons.injEq] at h1
        obtain ⟨h1, rfl⟩ := h1
        omega
    · intro hb
      exact Or.inr ⟨byteLength n, natToBytesMin n, by simp only [hlen], one_le_byteLength n (by omega),
        hb, hlen, bytesToNat_natToBytesMin n⟩

end Asn1.Ber
