import Asn1Model.Xer
import Asn1Proofs.Lemmas.OerDefs
/-
  Text forms of the XER leaf types: decimal INTEGER text, hexadecimal OCTET STRING text,
  binary BIT STRING text — each read back by the decoder's text parser.
-/
set_option linter.unusedSimpArgs false

namespace Asn1.Xml

/-! ### decimal -/

theorem decToNat_append_single (ds : List Nat) (d : Nat) :
    decToNat (ds ++ [d]) = 10 * decToNat ds + (d - 48) := by
  simp [decToNat, List.foldl_append]

theorem natToDecAux_spec (fuel n : Nat) (h : n < fuel) :
    decToNat (natToDecAux fuel n) = n ∧ (natToDecAux fuel n).all isDigit = true ∧
      natToDecAux fuel n ≠ [] := by
  induction fuel generalizing n with
  | zero => omega
  | succ fuel ih =>
    unfold natToDecAux
    by_cases h10 : n < 10
    · rw [if_pos h10]
      refine ⟨?_, ?_, by simp⟩
      · simp [decToNat]
      · simp [isDigit]; omega
    · rw [if_neg h10]
      obtain ⟨h1, h2, _⟩ := ih (n / 10) (by omega)
      refine ⟨?_, ?_, by simp⟩
      · rw [decToNat_append_single, h1]; omega
      · rw [List.all_append, h2]
        simp [isDigit]; omega

theorem decToNat_natToDec (n : Nat) : decToNat (natToDec n) = n :=
  (natToDecAux_spec (n + 1) n (by omega)).1

theorem natToDec_digits (n : Nat) : (natToDec n).all isDigit = true :=
  (natToDecAux_spec (n + 1) n (by omega)).2.1

theorem natToDec_ne_nil (n : Nat) : natToDec n ≠ [] :=
  (natToDecAux_spec (n + 1) n (by omega)).2.2

theorem natToDecAux_length_gt (k : Nat) : ∀ (fuel n : Nat), n < fuel → 10 ^ k ≤ n →
    k < (natToDecAux fuel n).length := by
  induction k with
  | zero =>
    intro fuel n h _
    have := (natToDecAux_spec fuel n h).2.2
    cases hl : natToDecAux fuel n with
    | nil => exact absurd hl this
    | cons _ _ => simp
  | succ k ih =>
    intro fuel n h hk
    have hpos : 0 < 10 ^ k := Nat.pow_pos (by decide)
    have hk' : 10 ^ k * 10 ≤ n := by rw [← Nat.pow_succ]; exact hk
    match fuel, h with
    | fuel + 1, h =>
      unfold natToDecAux
      rw [if_neg (by omega)]
      have := ih fuel (n / 10) (by omega) ((Nat.le_div_iff_mul_le (by decide)).2 hk')
      simp only [List.length_append, List.length_cons, List.length_nil]
      omega

/-- a number `≥ 10^k` has more than `k` decimal digits -/
theorem natToDec_length_gt (n k : Nat) (h : 10 ^ k ≤ n) : k < (natToDec n).length :=
  natToDecAux_length_gt k (n + 1) n (by omega) h

end Asn1.Xml

namespace Asn1.Xer
open Asn1.Xml

theorem dropWhile_eq_self {α : Type} (p : α → Bool) (l : List α) (h : ∀ x ∈ l, p x = false) :
    l.dropWhile p = l := by
  cases l with
  | nil => rfl
  | cons a r => simp [List.dropWhile, h a (List.mem_cons_self ..)]

theorem pyStrip_eq_self (t : List Nat) (h : ∀ c ∈ t, isPyWs c = false) : pyStrip t = t := by
  unfold pyStrip
  rw [dropWhile_eq_self _ t h, dropWhile_eq_self _ t.reverse (by simpa using h), List.reverse_reverse]

theorem pyDigits_digits (ds : List Nat) (h : ds.all isDigit = true) (prev : Bool)
    (hne : ds ≠ [] ∨ prev = true) : pyDigits ds prev = some ds := by
  induction ds generalizing prev with
  | nil =>
    rcases hne with h | h
    · exact absurd rfl h
    · simp [pyDigits, h]
  | cons c r ih =>
    simp only [List.all_cons, Bool.and_eq_true] at h
    unfold pyDigits
    rw [if_pos h.1, ih h.2 true (Or.inr rfl)]
    rfl

theorem isDigit_not_ws (c : Nat) (h : isDigit c = true) : isPyWs c = false := by
  simp [isDigit] at h
  simp [isPyWs]
  omega

theorem splitSign_digit (c : Nat) (r : List Nat) (h45 : c ≠ 45) (h43 : c ≠ 43) :
    splitSign (c :: r) = (false, c :: r) := by
  unfold splitSign
  split
  · rename_i heq; cases heq; exact absurd rfl h45
  · rename_i heq; cases heq; exact absurd rfl h43
  · rfl

theorem parseInt_intText (i : Int) (t : List Nat) (h : intText i = .ok t) :
    parseInt t = .ok i ∧ t ≠ [] := by
  unfold intText at h
  simp only [] at h
  split at h
  · cases h
  · rename_i hlen
    have hds := natToDec_digits i.natAbs
    have hne := natToDec_ne_nil i.natAbs
    have hval := decToNat_natToDec i.natAbs
    generalize natToDec i.natAbs = ds at *
    have hall : ∀ c ∈ ds, isDigit c = true := by simpa [List.all_eq_true] using hds
    cases h
    have hpd : pyDigits ds false = some ds := pyDigits_digits ds hds false (Or.inl hne)
    by_cases hneg : i < 0
    · rw [if_pos hneg]
      refine ⟨?_, by simp⟩
      unfold parseInt
      have h128 : (45 :: ds).any (fun c => decide (128 ≤ c)) = false := by
        simp only [List.any_cons, List.any_eq_false, Bool.or_eq_false_iff, decide_eq_false_iff_not]
        refine ⟨by omega, fun c hc => ?_⟩
        have := hall c hc
        simp [isDigit] at this
        simp; omega
      rw [h128]
      have hs : pyStrip (45 :: ds) = 45 :: ds := by
        apply pyStrip_eq_self
        intro c hc
        rcases List.mem_cons.1 hc with rfl | hc
        · rfl
        · exact isDigit_not_ws c (hall c hc)
      have hsp : splitSign (45 :: ds) = (true, ds) := rfl
      simp only [Bool.false_eq_true, if_false, hs, hsp, hpd]
      rw [if_neg hlen]
      simp only [if_true, hval]
      congr 1
      omega
    · rw [if_neg hneg]
      refine ⟨?_, hne⟩
      unfold parseInt
      have h128 : ds.any (fun c => decide (128 ≤ c)) = false := by
        simp only [List.any_eq_false, decide_eq_true_eq]
        intro c hc
        have := hall c hc
        simp [isDigit] at this
        omega
      rw [h128]
      have hs : pyStrip ds = ds := by
        apply pyStrip_eq_self
        intro c hc
        exact isDigit_not_ws c (hall c hc)
      simp only [Bool.false_eq_true, if_false, hs]
      cases ds with
      | nil => exact absurd rfl hne
      | cons c r =>
        have hc := hall c (List.mem_cons_self ..)
        simp [isDigit] at hc
        rw [splitSign_digit c r (by omega) (by omega)]
        simp only [hpd]
        rw [if_neg hlen]
        simp only [Bool.false_eq_true, if_false, hval]
        congr 1
        omega

/-! ### hexadecimal -/

theorem hexVal_hexDigitU (n : Nat) (h : n < 16) : hexVal? (hexDigitU n) = some n := by
  unfold hexDigitU hexVal?
  by_cases h10 : n < 10
  · rw [if_pos h10, if_pos (by omega)]; congr 1; omega
  · rw [if_neg h10, if_neg (by omega), if_neg (by omega), if_pos (by omega)]; congr 1; omega

theorem hexPairs_hexText (bs : Bytes) (h : ∀ b ∈ bs, b < 256) : hexPairs (hexText bs) = some bs := by
  induction bs with
  | nil => rfl
  | cons b r ih =>
    have hb := h b (List.mem_cons_self ..)
    have := ih (fun x hx => h x (List.mem_cons_of_mem _ hx))
    simp only [hexText, List.flatMap_cons, List.cons_append, List.nil_append] at this ⊢
    rw [hexPairs, hexVal_hexDigitU _ (by omega), hexVal_hexDigitU _ (by omega), this]
    simp only []
    congr 2
    omega

theorem hexText_length (bs : Bytes) : (hexText bs).length = 2 * bs.length := by
  induction bs with
  | nil => rfl
  | cons b r ih =>
    simp only [hexText, List.flatMap_cons, List.length_append, List.length_cons, List.length_nil] at ih ⊢
    omega

theorem parseHex_hexText (bs : Bytes) (h : ∀ b ∈ bs, b < 256) : parseHex (hexText bs) = .ok bs := by
  unfold parseHex
  rw [hexText_length, if_neg (by omega)]
  simp only [hexPairs_hexText bs h]

theorem hexText_isEmpty (bs : Bytes) : (hexText bs).isEmpty = bs.isEmpty := by
  cases bs <;> simp [hexText]

/-! ### binary -/

theorem bitText_all (bs : Bits) : (bitText bs).all (fun c => c == 48 || c == 49) = true := by
  induction bs with
  | nil => rfl
  | cons b r ih =>
    simp only [bitText, List.map_cons, List.all_cons, Bool.and_eq_true] at ih ⊢
    exact ⟨by cases b <;> rfl, ih⟩

theorem bitText_back (bs : Bits) : (bitText bs).map (· == 49) = bs := by
  induction bs with
  | nil => rfl
  | cons b r ih =>
    simp only [bitText, List.map_cons, List.map_map] at ih ⊢
    rw [ih]
    cases b <;> rfl

theorem parseBits_bitText (bs : Bits) :
    parseBits (bitText bs) = .ok (.bits (packBits bs) bs.length) := by
  unfold parseBits
  rw [if_pos (bitText_all bs), bitText_back]

end Asn1.Xer
