import Asn1Proofs.Lemmas.CCursorBits4
/-
  C09, functional part (continued): B6, round trips at the pure level and the signed offset tricks
  of `encoder_append_int8..64` / `decoder_read_int8..64`.
-/
set_option linter.unusedSimpArgs false
namespace Asn1.CCursor
open Asn1

/-! ### what was appended can be read back at the same position -/

/-- if the first `p + n` bits are `A ++ B` with `|A| = p`, the `n` bits at `p` are `B` -/
theorem bitsFrom_at_of_append (m : Mem) (p n : Nat) (A B : Bits) (hA : A.length = p)
    (h : bitsFrom m 0 (p + n) = A ++ B) : bitsFrom m p n = B := by
  rw [bitsFrom_add, Nat.zero_add] at h
  exact (List.append_inj h (by simp [hA])).2

theorem bitsFrom_writeNnbi_at (value : UInt64) (size : Nat) (hsize : size ≤ 64) (buf : Mem) (p : Nat)
    (hsz : (p + size + 7) / 8 ≤ buf.size) (hpad : Padded buf p) :
    bitsFrom (writeNnbi value size size 0 buf p) p size = natToBits size value.toNat :=
  bitsFrom_at_of_append _ p size _ _ (by simp)
    (writeNnbi_spec value size hsize buf p hsz hpad).1

theorem bitsFrom_writeBytes_at (buf : Mem) (p : Nat) (src : Mem) (n : Nat) (hn : n ≤ src.size)
    (hsz : (p + 8 * n + 7) / 8 ≤ buf.size) (hpad : Padded buf p) :
    bitsFrom (writeBytes buf p src n) p (8 * n)
      = bytesToBits ((src.toList.take n).map UInt8.toNat) :=
  bitsFrom_at_of_append _ p (8 * n) _ _ (by simp)
    (writeBytes_spec buf p src n hn hsz hpad).1

/-- `decoder_read_non_negative_binary_integer` reads back what
`encoder_append_non_negative_binary_integer` appended (the low `size` bits of `value`) -/
theorem readNnbiVal_writeNnbi (value : UInt64) (size : Nat) (hsize : size ≤ 64) (buf : Mem) (p : Nat)
    (hsz : (p + size + 7) / 8 ≤ buf.size) (hpad : Padded buf p) :
    (readNnbiVal (writeNnbi value size size 0 buf p) size 0 p).toNat = value.toNat % 2 ^ size := by
  rw [readNnbiVal_spec_le _ _ _ hsize, bitsFrom_writeNnbi_at value size hsize buf p hsz hpad,
    bitsToNat_natToBits]

/-- reading from bits that are `natToBits n x` -/
theorem readNnbiVal_of_bits (buf : Mem) (n p x : Nat) (hn : n ≤ 64) (hx : x < 2 ^ n)
    (h : bitsFrom buf p n = natToBits n x) : (readNnbiVal buf n 0 p).toNat = x := by
  rw [readNnbiVal_spec_le _ _ _ hn, h, bitsToNat_natToBits_of_lt hx]

/-! ### B6: `decoder_read_uint8/16/32/64` on bits that encode `v` -/

theorem readBytesVal_bits_range (buf : Mem) (p : Nat) (dst : Mem) (n : Nat) (hn : n ≤ dst.size) :
    bytesToBits ((List.range n).map fun i => (readBytesVal buf p dst n)[i]!.toNat)
      = bitsFrom buf p (8 * n) := by
  obtain ⟨h1, _, _⟩ := readBytesVal_spec buf p dst n hn
  exact (bitsFrom_of_bytes buf p (fun i => (readBytesVal buf p dst n)[i]!.toNat) n
    (fun i hi => (h1 i hi).symm)).symm

theorem readU8_of_bits (buf : Mem) (p : Nat) (junk : Mem) (v : UInt8) (hj : 1 ≤ junk.size)
    (h : bitsFrom buf p 8 = natToBits 8 v.toNat) : (readBytesVal buf p junk 1)[0]! = v := by
  have h1 := readBytesVal_bits_range buf p junk 1 hj
  rw [h] at h1
  simp only [List.range_succ, List.range_zero, List.nil_append, List.map_cons, List.map_nil,
    bytesToBits_singleton] at h1
  have h2 := congrArg bitsToNat h1
  rw [bitsToNat_natToBits, bitsToNat_natToBits] at h2
  have := (readBytesVal buf p junk 1)[0]!.toNat_lt
  have := v.toNat_lt
  exact UInt8.toNat_inj.1 (by omega)

theorem readU16_of_bits (buf : Mem) (p : Nat) (junk : Mem) (v : UInt16) (hj : 2 ≤ junk.size)
    (h : bitsFrom buf p 16 = natToBits 16 v.toNat) : valU16 (readBytesVal buf p junk 2) = v := by
  have h1 := readBytesVal_bits_range buf p junk 2 hj
  rw [h] at h1
  simp only [List.range_succ, List.range_zero, List.nil_append, List.cons_append, List.map_cons,
    List.map_nil] at h1
  apply UInt16.toNat_inj.1
  rw [valU16_toNat, h1, bitsToNat_natToBits]
  exact Nat.mod_eq_of_lt v.toNat_lt

theorem readU32_of_bits (buf : Mem) (p : Nat) (junk : Mem) (v : UInt32) (hj : 4 ≤ junk.size)
    (h : bitsFrom buf p 32 = natToBits 32 v.toNat) : valU32 (readBytesVal buf p junk 4) = v := by
  have h1 := readBytesVal_bits_range buf p junk 4 hj
  rw [h] at h1
  simp only [List.range_succ, List.range_zero, List.nil_append, List.cons_append, List.map_cons,
    List.map_nil] at h1
  apply UInt32.toNat_inj.1
  rw [valU32_toNat, h1, bitsToNat_natToBits]
  exact Nat.mod_eq_of_lt v.toNat_lt

theorem readU64_of_bits (buf : Mem) (p : Nat) (junk : Mem) (v : UInt64) (hj : 8 ≤ junk.size)
    (h : bitsFrom buf p 64 = natToBits 64 v.toNat) : valU64 (readBytesVal buf p junk 8) = v := by
  have h1 := readBytesVal_bits_range buf p junk 8 hj
  rw [h] at h1
  simp only [List.range_succ, List.range_zero, List.nil_append, List.cons_append, List.map_cons,
    List.map_nil] at h1
  apply UInt64.toNat_inj.1
  rw [valU64_toNat, h1, bitsToNat_natToBits]
  exact Nat.mod_eq_of_lt v.toNat_lt

/-! ### B6: full pure round trips `append_uintN` / `read_uintN` -/

theorem readU8_writeU8 (buf : Mem) (p : Nat) (v : UInt8) (junk : Mem) (hj : 1 ≤ junk.size)
    (hsz : (p + 8 + 7) / 8 ≤ buf.size) (hpad : Padded buf p) :
    (readBytesVal (writeBytes buf p #[v] 1) p junk 1)[0]! = v := by
  apply readU8_of_bits _ _ _ _ hj
  have := bitsFrom_writeBytes_at buf p #[v] 1 (by simp) hsz hpad
  rw [this]
  exact bytesToBits_u8 v

theorem readU16_writeU16 (buf : Mem) (p : Nat) (v : UInt16) (junk : Mem) (hj : 2 ≤ junk.size)
    (hsz : (p + 16 + 7) / 8 ≤ buf.size) (hpad : Padded buf p) :
    valU16 (readBytesVal (writeBytes buf p (bytesU16 v) 2) p junk 2) = v := by
  apply readU16_of_bits _ _ _ _ hj
  have := bitsFrom_writeBytes_at buf p (bytesU16 v) 2 (by simp [bytesU16]) hsz hpad
  rw [show (16 : Nat) = 8 * 2 from rfl, this]
  have e : (bytesU16 v).toList.take 2 = (bytesU16 v).toList := by simp [bytesU16]
  rw [e, bytesToBits_bytesU16]

theorem readU32_writeU32 (buf : Mem) (p : Nat) (v : UInt32) (junk : Mem) (hj : 4 ≤ junk.size)
    (hsz : (p + 32 + 7) / 8 ≤ buf.size) (hpad : Padded buf p) :
    valU32 (readBytesVal (writeBytes buf p (bytesU32 v) 4) p junk 4) = v := by
  apply readU32_of_bits _ _ _ _ hj
  have := bitsFrom_writeBytes_at buf p (bytesU32 v) 4 (by simp [bytesU32]) hsz hpad
  rw [show (32 : Nat) = 8 * 4 from rfl, this]
  have e : (bytesU32 v).toList.take 4 = (bytesU32 v).toList := by simp [bytesU32]
  rw [e, bytesToBits_bytesU32]

theorem readU64_writeU64 (buf : Mem) (p : Nat) (v : UInt64) (junk : Mem) (hj : 8 ≤ junk.size)
    (hsz : (p + 64 + 7) / 8 ≤ buf.size) (hpad : Padded buf p) :
    valU64 (readBytesVal (writeBytes buf p (bytesU64 v) 8) p junk 8) = v := by
  apply readU64_of_bits _ _ _ _ hj
  have := bitsFrom_writeBytes_at buf p (bytesU64 v) 8 (by simp [bytesU64]) hsz hpad
  rw [show (64 : Nat) = 8 * 8 from rfl, this]
  have e : (bytesU64 v).toList.take 8 = (bytesU64 v).toList := by simp [bytesU64]
  rw [e, bytesToBits_bytesU64]

/-! ### B6: the signed offset tricks -/

theorem i8_offset_roundtrip (v : Int8) :
    Int8.ofInt ((UInt8.ofNat (v.toUInt8.toNat + 128)).toInt8.toInt - 128) = v := by
  apply Int8.toInt_inj.1
  rw [Int8.toInt_ofInt]
  have h1 : ∀ x : UInt8, x.toInt8.toInt = Int.bmod x.toNat 256 := by
    intro x
    show x.toBitVec.toInt = _
    rw [BitVec.toInt_eq_toNat_bmod]; rfl
  have h2 : v.toInt = Int.bmod v.toUInt8.toNat 256 := by
    show v.toBitVec.toInt = _
    rw [BitVec.toInt_eq_toNat_bmod]; rfl
  rw [h1, h2, UInt8.toNat_ofNat']
  have hn := v.toUInt8.toNat_lt
  generalize v.toUInt8.toNat = n at *
  show Int.bmod _ 256 = _
  simp only [Int.bmod_def]
  omega

theorem i16_offset_roundtrip (v : Int16) :
    Int16.ofInt ((UInt16.ofNat (v.toUInt16.toNat + 32768)).toInt16.toInt - 32768) = v := by
  apply Int16.toInt_inj.1
  rw [Int16.toInt_ofInt]
  have h1 : ∀ x : UInt16, x.toInt16.toInt = Int.bmod x.toNat 65536 := by
    intro x
    show x.toBitVec.toInt = _
    rw [BitVec.toInt_eq_toNat_bmod]; rfl
  have h2 : v.toInt = Int.bmod v.toUInt16.toNat 65536 := by
    show v.toBitVec.toInt = _
    rw [BitVec.toInt_eq_toNat_bmod]; rfl
  rw [h1, h2, UInt16.toNat_ofNat']
  have hn := v.toUInt16.toNat_lt
  generalize v.toUInt16.toNat = n at *
  show Int.bmod _ 65536 = _
  simp only [Int.bmod_def]
  omega

theorem i32_offset_roundtrip (v : Int32) :
    Int32.ofInt ((UInt32.ofNat (v.toUInt32.toNat + 2147483648)).toInt32.toInt - 2147483648) = v := by
  apply Int32.toInt_inj.1
  rw [Int32.toInt_ofInt]
  have h1 : ∀ x : UInt32, x.toInt32.toInt = Int.bmod x.toNat 4294967296 := by
    intro x
    show x.toBitVec.toInt = _
    rw [BitVec.toInt_eq_toNat_bmod]; rfl
  have h2 : v.toInt = Int.bmod v.toUInt32.toNat 4294967296 := by
    show v.toBitVec.toInt = _
    rw [BitVec.toInt_eq_toNat_bmod]; rfl
  rw [h1, h2, UInt32.toNat_ofNat']
  have hn := v.toUInt32.toNat_lt
  generalize v.toUInt32.toNat = n at *
  show Int.bmod _ 4294967296 = _
  simp only [Int.bmod_def]
  omega

theorem i64_offset_roundtrip (v : Int64) :
    ((v.toUInt64 + 9223372036854775808) - 9223372036854775808).toInt64 = v := by
  rw [UInt64.add_sub_cancel]
  rfl

end Asn1.CCursor
