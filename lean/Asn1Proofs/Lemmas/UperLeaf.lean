import Asn1Proofs.Lemmas.UperDefs
/-
  Round trip and totality for the leaf types.
-/
set_option linter.unusedSimpArgs false
namespace Asn1.Uper

theorem canon_boolean (v : Val) : canon .boolean v = v := by cases v <;> rfl
theorem canon_null (v : Val) : canon .null v = v := by cases v <;> rfl
theorem canon_integer (c : IntC) (v : Val) : canon (.integer c) v = v := by cases v <;> rfl
theorem canon_enumerated (r e) (v : Val) : canon (.enumerated r e) v = v := by cases v <;> rfl
theorem canon_octetString (c : SizeC) (v : Val) : canon (.octetString c) v = v := by cases v <;> rfl
theorem canon_charString (k : StrKind) (c : SizeC) (v : Val) : canon (.charString k c) v = v := by
  cases v <;> rfl

theorem rt_boolean : RT .boolean := by
  intro v bits rest fuel _ _ _ ht _ he _
  cases v <;> simp only [hasType, Bool.false_eq_true] at ht
  rw [enc] at he; cases he
  rw [dec, canon_boolean]; rfl

theorem rt_null : RT .null := by
  intro v bits rest fuel _ _ _ ht _ he _
  cases v <;> simp only [hasType, Bool.false_eq_true] at ht
  rw [enc] at he; cases he
  rw [dec, canon_null]; rfl

theorem rt_integer (c : IntC) : RT (.integer c) := by
  intro v bits rest fuel hwf _ _ ht hf he _
  cases v <;> simp only [hasType, Bool.false_eq_true] at ht
  rename_i i
  rw [canon_integer]
  rw [enc] at he
  rw [dec]
  rw [Ty.wf] at hwf
  rw [fragFree] at hf
  have hrange : ∀ lo hi : Int, lo ≤ i → i ≤ hi →
      (i - lo).toNat < 2 ^ bitLength (hi - lo).toNat ∧ (((i - lo).toNat : Int) + lo = i) := by
    intro lo hi h1 h2
    exact ⟨lt_two_pow_bitLength_of_le (by omega), by omega⟩
  split at he
  · rename_i lo hi hlo hhi
    simp only [hlo, hhi, decide_eq_true_eq] at hwf hf ⊢
    cases hext : c.ext
    · simp only [hext, Bool.false_eq_true, if_false, Bool.false_or, intInRange, hlo, hhi,
        Bool.and_eq_true, decide_eq_true_eq] at he ht ⊢
      cases he
      obtain ⟨h1, h2⟩ := hrange lo hi ht.1 ht.2
      simp only [bind, Except.bind]
      rw [readNat_natToBits _ h1]
      simp only [h2]
    · simp only [hext, if_true] at he ⊢
      split at he
      · rename_i hin
        cases he
        obtain ⟨h1, h2⟩ := hrange lo hi hin.1 hin.2
        simp only [bind, Except.bind, List.cons_append, List.nil_append, readBit_cons,
          Bool.false_eq_true, if_false]
        rw [readNat_natToBits _ h1]
        simp only [h2]
      · rename_i hin
        cases he
        have hs : intByteLength i < 16384 := by
          simp only [Bool.or_eq_true, Bool.and_eq_true, decide_eq_true_eq, smallLen] at hf
          rcases hf with hf | hf
          · exact absurd hf hin
          · exact hf
        simp only [bind, Except.bind, List.cons_append, List.nil_append, readBit_cons, if_true]
        rw [decUnconstrained_enc i rest hs]
  · rename_i hno
    have hext : c.ext = false := by
      split at hwf
      · rename_i lo hi hlo hhi; exact absurd hhi (hno lo hi hlo)
      · simpa using hwf
    have hs : intByteLength i < 16384 := by
      split at hf
      · rename_i lo hi hlo hhi; exact absurd hhi (hno lo hi hlo)
      · simpa [smallLen] using hf
    simp only [hext, Bool.false_eq_true, if_false] at he ⊢
    cases he
    simp only [bind, Except.bind]
    rw [decUnconstrained_enc i rest hs]

theorem rt_enumerated (root : List (String × Int)) (ext : Option (List (String × Int))) :
    RT (.enumerated root ext) := by
  intro v bits rest fuel hwf _ hns ht hf he _
  cases v <;> simp only [hasType, Bool.false_eq_true] at ht
  rename_i name
  rw [canon_enumerated]
  have hroot : ∀ i, nameIndex name (sortByVal root) = some i →
      (do
        let (i, r) ← readNat (bitLength ((sortByVal root).length - 1))
          (natToBits (bitLength ((sortByVal root).length - 1)) i ++ rest)
        match (sortByVal root)[i]? with
        | some (n, _) => .ok (.enum n, r)
        | none => .error .decodeError : DecM (Val × Bits)) = .ok (.enum name, rest) := by
    intro i hi
    obtain ⟨h1, x, h2⟩ := nameIndex_spec _ _ _ hi
    simp only [bind, Except.bind]
    rw [readNat_natToBits _ (lt_two_pow_bitLength_of_le (by omega))]
    simp only [h2]
  cases ext with
  | none =>
    rw [enc] at he
    rw [dec]
    simp only at he ⊢
    split at he
    · rename_i i hi
      cases he
      exact hroot i hi
    · cases he
  | some adds =>
    rw [enc] at he
    rw [dec]
    simp only at he ⊢
    split at he
    · rename_i i hi
      cases he
      simp only [bind, Except.bind, List.cons_append, List.nil_append, readBit_cons,
        Bool.not_false, if_true]
      exact hroot i hi
    · split at he
      · rename_i i hi
        cases he
        obtain ⟨h1, x, h2⟩ := nameIndex_spec _ _ _ hi
        simp only [Ty.nsOk] at hns
        simp only [bind, Except.bind, List.cons_append, List.nil_append, readBit_cons,
          Bool.not_true, Bool.false_eq_true, if_false]
        rw [decNsnnwn_enc i rest (nsIndexOk_lt hns h1)]
        simp only [h2]
      · cases he

theorem et_enumerated (root : List (String × Int)) (ext : Option (List (String × Int))) :
    ET (.enumerated root ext) := by
  intro v hwf ht
  cases v <;> simp only [hasType, Bool.false_eq_true] at ht
  rename_i name
  by_cases hr : name ∈ namesOf root
  · obtain ⟨i, hi⟩ := nameIndex_of_mem name (sortByVal root) ((mem_namesOf_sortByVal _ _).2 hr)
    cases ext <;> rw [enc] <;> simp only [hi] <;> exact ⟨_, rfl⟩
  · have hnone := nameIndex_none name (sortByVal root) (fun h => hr ((mem_namesOf_sortByVal _ _).1 h))
    have hc : (namesOf root).contains name = false := by simpa using hr
    cases ext with
    | none => simp at ht; exact absurd ht hr
    | some adds =>
      rw [enc]
      simp only [hc, Bool.false_or, List.contains_iff_mem] at ht
      obtain ⟨i, hi⟩ := nameIndex_of_mem name adds (by simpa using ht)
      simp only [hnone, hi]
      exact ⟨_, rfl⟩

theorem et_boolean : ET .boolean := by
  intro v _ ht
  cases v <;> simp only [hasType, Bool.false_eq_true] at ht
  exact ⟨_, by rw [enc]⟩

theorem et_null : ET .null := by
  intro v _ ht
  exact ⟨_, by rw [enc]⟩

theorem et_integer (c : IntC) : ET (.integer c) := by
  intro v hwf ht
  cases v <;> simp only [hasType, Bool.false_eq_true] at ht
  rename_i i
  rw [enc]
  rw [Ty.wf] at hwf
  split
  · split
    · split <;> exact ⟨_, rfl⟩
    · exact ⟨_, rfl⟩
  · rename_i hno
    have hext : c.ext = false := by
      split at hwf
      · rename_i lo hi hlo hhi; exact absurd hhi (hno lo hi hlo)
      · simpa using hwf
    simp only [hext, Bool.false_eq_true, if_false]
    exact ⟨_, rfl⟩

end Asn1.Uper
