import Asn1Proofs.Lemmas.PerStr
/-
  Aligned PER: round trip and totality for SEQUENCE OF.
-/
set_option linter.unusedSimpArgs false
namespace Asn1.Per
open Asn1.Uper (smallLen inSize sizeBits lenDet EncM DecM sizeOk_eq_inSize)

def encSeqOfRoot (e : Ty) (c : SizeC) (pos : Nat) (vs : List Val) (pre : Bits) : EncM Bits :=
  match sizeBits c with
  | none =>
    match encChunksM (enc e) (vs.length / 16384 + 2)
        (pos + pre.length + (alignBits (pos + pre.length)).length) vs with
    | .error err => .error err
    | .ok b => .ok (pre ++ alignBits (pos + pre.length) ++ b)
  | some w =>
    if ¬ inSize c vs.length then .error .unmodelled
    else
      match encSeqM (enc e)
          (pos + pre.length + (sizePrefix c w (pos + pre.length) vs.length false false).length) vs with
      | .error err => .error err
      | .ok b => .ok (pre ++ sizePrefix c w (pos + pre.length) vs.length false false ++ b)

theorem enc_sequenceOf (e : Ty) (c : SizeC) (pos : Nat) (vs : List Val) :
    enc (.sequenceOf e c) pos (.list vs) =
      if c.ext then
        match extRange c vs.length with
        | .typeError => .error .foreign
        | .outside =>
          match encSeqM (enc e)
              (pos + ([true] ++ alignBits (pos + 1) ++ (lenDet vs.length).1).length) vs with
          | .error err => .error err
          | .ok b => .ok ([true] ++ alignBits (pos + 1) ++ (lenDet vs.length).1 ++ b)
        | .inside => encSeqOfRoot e c pos vs [false]
      else encSeqOfRoot e c pos vs [] := by
  rw [enc]; rfl

def decSeqOfRoot (e : Ty) (c : SizeC) (fuel : Nat) (s0 : St) : DecM (Val × St) :=
  match sizeBits c with
  | none => do
    let (xs, r) ← decChunks (dec e fuel) fuel (align s0)
    .ok (.list xs, r)
  | some w => do
    let (len, r) ← readSize c w (fun _ => false) false s0
    let (xs, r') ← decRepeat (dec e fuel) len r
    .ok (.list xs, r')

theorem dec_sequenceOf (e : Ty) (c : SizeC) (fuel : Nat) (s : St) :
    dec (.sequenceOf e c) fuel s = (do
      let (ext, s0) ← (if c.ext then readBit s else .ok (false, s))
      if ext then do
        let (len, r) ← readLenDet (align s0)
        let (xs, r') ← decRepeat (dec e fuel) len r
        .ok (.list xs, r')
      else decSeqOfRoot e c fuel s0) := by
  rw [dec]; rfl

theorem seqOfRoot_rt (e : Ty) (c : SizeC) (pos q : Nat) (vs : List Val) (pre bits rest : Bits)
    (fuel : Nat) (helem : ∀ v ∈ vs, ElemRT (enc e) (dec e fuel) (canon e) (fuel - 2) v)
    (hq : q % 8 = (pos + pre.length) % 8)
    (he : encSeqOfRoot e c pos vs pre = .ok bits) (hfuel : bits.length + rest.length + 2 ≤ fuel) :
    ∃ X, bits = pre ++ X ∧
      decSeqOfRoot e c fuel ⟨q, X ++ rest⟩ =
        .ok (.list (vs.map (canon e)), ⟨q + X.length, rest⟩) := by
  unfold encSeqOfRoot at he
  unfold decSeqOfRoot
  split at he
  · rename_i hsb
    split at he
    · cases he
    rename_i b hb
    cases he
    refine ⟨_, List.append_assoc _ _ _, ?_⟩
    simp only [List.length_append, alignBits_length] at hfuel hb
    simp only [hsb, bind, Except.bind, List.append_assoc]
    rw [align_alignBits _ _ _ hq]
    rw [decChunks_encChunksM (enc e) (dec e fuel) (canon e) (fuel - 2)
      (vs.length / 16384 + 2) vs helem (Nat.le_refl _) _ _ _ rest
      (by have := add_padLen_mod (pos + pre.length); omega) hb (by omega) fuel (by omega)]
    simp only [List.length_append, alignBits_length, Nat.add_assoc]
  · rename_i w hsb
    split at he
    · cases he
    rename_i hin
    simp only [Decidable.not_not] at hin
    split at he
    · cases he
    rename_i b hb
    cases he
    refine ⟨_, List.append_assoc _ _ _, ?_⟩
    simp only [List.length_append] at hfuel
    simp only [hsb, bind, Except.bind, List.append_assoc]
    rw [readSize_sizePrefix c w _ _ _ _ _ _ _ hq hsb hin rfl]
    simp only
    rw [decRepeat_encSeqM (enc e) (dec e fuel) (canon e) (fuel - 2) vs helem _ _ _ rest
      (by omega) hb (by omega)]
    simp only [List.length_append, Nat.add_assoc]

theorem rt_sequenceOf (e : Ty) (c : SizeC) (ih : RT e) : RT (.sequenceOf e c) := by
  intro v pos pos' bits rest fuel hwf hd hns ht hf hp he hfuel
  cases v <;> simp only [hasType, Bool.false_eq_true] at ht
  rename_i vs
  rw [canon]
  rw [Ty.wf] at hwf
  rw [Ty.defaultsOk] at hd
  rw [Ty.nsOk] at hns
  rw [fragFree] at hf
  simp only [Bool.and_eq_true, List.all_eq_true, Bool.or_eq_true, sizeOk_eq_inSize] at ht hwf hf
  obtain ⟨hall, hsz⟩ := ht
  obtain ⟨hewf, hcwf⟩ := hwf
  obtain ⟨hfall, hfsz⟩ := hf
  have helem : ∀ v ∈ vs, ElemRT (enc e) (dec e fuel) (canon e) (fuel - 2) v := by
    intro v hv p p' b r hpp hb hL
    exact ih v p p' b r fuel hewf hd hns (hall v hv) (hfall v hv) hpp hb (by omega)
  rw [enc_sequenceOf] at he
  rw [dec_sequenceOf]
  cases hext : c.ext with
  | false =>
    simp only [hext, Bool.false_eq_true, if_false] at he ⊢
    obtain ⟨X, hX, hdec⟩ := seqOfRoot_rt e c pos pos' vs [] bits rest fuel helem
      (by simpa using hp) he hfuel
    subst hX
    simp only [bind, Except.bind, List.nil_append, Bool.false_eq_true, if_false, hdec]
  | true =>
    simp only [hext, if_true, extRange_eq hcwf hext] at he ⊢
    by_cases hin : inSize c vs.length = true
    · simp only [hin, if_true] at he
      obtain ⟨X, hX, hdec⟩ := seqOfRoot_rt e c pos (pos' + 1) vs [false] bits rest fuel helem
        (by simp only [List.length_singleton]; omega) he hfuel
      subst hX
      simp only [bind, Except.bind, List.cons_append, List.nil_append, readBit_cons,
        Bool.false_eq_true, if_false, hdec, List.length_cons, Except.ok.injEq, Prod.mk.injEq,
        true_and]
      exact St.eq_of_pos _ (by omega)
    · simp only [hin, Bool.false_eq_true, if_false] at he
      split at he
      · cases he
      rename_i b hb
      cases he
      have hs : vs.length < 16384 := by
        simp only [Bool.not_eq_true', smallLen, decide_eq_true_eq] at hfsz
        rcases hfsz with (hf | hf) | hf
        · rw [hext] at hf; cases hf
        · exact absurd hf hin
        · exact hf
      have hm := lenDet_length_mod vs.length
      simp only [List.length_append, List.length_cons, List.length_nil, alignBits_length] at hb hfuel
      simp only [bind, Except.bind, List.cons_append, List.nil_append, readBit_cons, if_true,
        List.append_assoc]
      rw [align_alignBits _ _ _ (by omega), readLenDet_lenDet, Uper.lenDet_snd_of_lt hs]
      simp only
      rw [decRepeat_encSeqM (enc e) (dec e fuel) (canon e) (fuel - 2) vs helem _ _ _ rest
        (by have := add_padLen_mod (pos + 1); have := add_padLen_mod (pos' + 1); omega) hb
        (by omega)]
      simp only [List.length_cons, List.length_append, alignBits_length, Except.ok.injEq,
        Prod.mk.injEq, true_and]
      exact St.eq_of_pos _ (by omega)

/-! ### totality -/

theorem encSeqM_total {α : Type} (f : Nat → α → EncM Bits) (vs : List α)
    (h : ∀ v ∈ vs, ∀ pos, ∃ b, f pos v = .ok b) (pos : Nat) : ∃ b, encSeqM f pos vs = .ok b := by
  induction vs generalizing pos with
  | nil => exact ⟨[], rfl⟩
  | cons v r ih =>
    obtain ⟨a, ha⟩ := h v (by simp) pos
    obtain ⟨b, hb⟩ := ih (fun x hx => h x (by simp [hx])) (pos + a.length)
    exact ⟨a ++ b, by rw [encSeqM_cons, ha]; simp only [hb]⟩

theorem encChunksM_total {α : Type} (f : Nat → α → EncM Bits) (fl : Nat) (vs : List α)
    (h : ∀ v ∈ vs, ∀ pos, ∃ b, f pos v = .ok b) (pos : Nat) :
    ∃ b, encChunksM f fl pos vs = .ok b := by
  induction fl generalizing vs pos with
  | zero => exact ⟨[], rfl⟩
  | succ fl ih =>
    rw [encChunksM_succ]
    obtain ⟨body, hbody⟩ := encSeqM_total f (vs.take (lenDet vs.length).2)
      (fun v hv => h v (List.mem_of_mem_take hv)) (pos + (lenDet vs.length).1.length)
    rw [hbody]
    simp only
    split
    · exact ⟨_, rfl⟩
    · obtain ⟨more, hmore⟩ := ih (vs.drop (lenDet vs.length).2)
        (fun v hv => h v (List.mem_of_mem_drop hv))
        (pos + (lenDet vs.length).1.length + body.length)
      rw [hmore]
      exact ⟨_, rfl⟩

theorem et_sequenceOf (e : Ty) (c : SizeC) (ih : ET e) : ET (.sequenceOf e c) := by
  intro v pos hwf ht
  cases v <;> simp only [hasType, Bool.false_eq_true] at ht
  rename_i vs
  rw [Ty.wf] at hwf
  simp only [Bool.and_eq_true, List.all_eq_true, Bool.or_eq_true, sizeOk_eq_inSize] at ht hwf
  have hel : ∀ v ∈ vs, ∀ pos, ∃ b, enc e pos v = .ok b := fun v hv p => ih v p hwf.1 (ht.1 v hv)
  have hroot : ∀ pre, inSize c vs.length = true → ∃ bits, encSeqOfRoot e c pos vs pre = .ok bits := by
    intro pre hin
    unfold encSeqOfRoot
    split
    · obtain ⟨b, hb⟩ := encChunksM_total (enc e) (vs.length / 16384 + 2) vs hel
        (pos + pre.length + (alignBits (pos + pre.length)).length)
      rw [hb]; exact ⟨_, rfl⟩
    · rename_i w _
      simp only [hin, not_true_eq_false, if_false]
      obtain ⟨b, hb⟩ := encSeqM_total (enc e) vs hel
        (pos + pre.length + (sizePrefix c w (pos + pre.length) vs.length false false).length)
      rw [hb]; exact ⟨_, rfl⟩
  rw [enc_sequenceOf]
  cases hext : c.ext with
  | false =>
    simp only [Bool.false_eq_true, if_false]
    exact hroot [] (by simpa [hext] using ht.2)
  | true =>
    simp only [if_true, extRange_eq hwf.2 hext]
    by_cases hin : inSize c vs.length = true
    · simp only [hin, if_true]; exact hroot _ hin
    · simp only [hin, Bool.false_eq_true, if_false]
      obtain ⟨b, hb⟩ := encSeqM_total (enc e) vs hel
        (pos + ([true] ++ alignBits (pos + 1) ++ (lenDet vs.length).1).length)
      rw [hb]; exact ⟨_, rfl⟩

end Asn1.Per
